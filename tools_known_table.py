#!/usr/bin/env python3
"""Rewrites the known-findings ledger of DESIGN.md (between KNOWN-TABLE markers) from known_findings.json + known_findings.d/*.json."""
import json, glob, re
ents = json.load(open('known_findings.json'))
for f in sorted(glob.glob('known_findings.d/*.json')): ents += json.load(open(f))
ents.sort(key=lambda e: (e['property'], e['status'] != 'known', e['signature']))
rows = ['| %s | %s | %s | %s | %s |' % (e['property'], e['signature'], e['status'], e.get('commit') or '', (e.get('what') or '').replace('|', '/').replace('\n', ' ')[:230]) for e in ents]
nk = sum(1 for e in ents if e['status'] == 'known'); nf = sum(1 for e in ents if e['status'] == 'fixed')
table = ('<!-- KNOWN-TABLE-BEGIN -->\n%d findings recorded: %d fixed by `fix:` commits in /repo, %d known (not repaired; each check prints KNOWN-FINDING for them and still reports any other failure class).\n\n'
         '| property | signature | status | commit | what |\n|---|---|---|---|---|\n' % (len(ents), nf, nk) + '\n'.join(rows) + '\n<!-- KNOWN-TABLE-END -->')
s = open('DESIGN.md').read()
if 'KNOWN-TABLE-BEGIN' in s:
    s = re.sub(r'<!-- KNOWN-TABLE-BEGIN -->.*<!-- KNOWN-TABLE-END -->', lambda _: table, s, flags=re.S)
else:
    s = s.replace('### 12.3 Fix commits', '### 12.5 Findings ledger as built (supersedes the probe list of section 8; generated from known_findings.d)\n\n' + table + '\n\n### 12.3 Fix commits', 1)
open('DESIGN.md', 'w').write(s)
print(len(ents), 'entries', nf, 'fixed', nk, 'known')
