"""Stage G for C10: where the engine turns input-derived numbers into `char`s and input bytes into `String`s.

Re-read from the source on every run:
  * for every modelled conversion site (file, function, n-th conversion call in it): WHICH conversion is called
    (`char::from_u32` -> Model.Unicode.char_from_u32, `char::from_u32_unchecked` -> char_from_u32_unchecked;
    `String::from_utf8_lossy` -> str_lossy, `String::from_utf8_unchecked` -> str_unchecked) and that its argument
    expression is still the one the hand-written model of the site implements (token-level pin);
  * a census of the whole crate (src/**/*.rs without test modules): every `unsafe` token and every
    `*_unchecked` / `transmute` / raw-parts call must be one of the modelled sites or one of the three known
    non-text uses; a new one anywhere is a broken tie (the property would no longer be about all conversions);
  * attribute::{INVISIBLE, SHORT_DATA, INVISIBLE_SHORT} (IcyDraw cell decoding) and HEX_TABLE (hex macros);
  * fonts.rs: MAX_GLYPHS and the PSF magic/mode/version constants, the loop of glyphs_from_u8_data around its
    conversion (condition, slice, advance) and the statements of from_bytes / load_psf1 / load_psf2 /
    load_plain_font / create_8 / from_basic and of the three `0..self.length` lookup loops that
    Model/TextSites.v mirrors (token-level pins).
-> coq/Gen/TextSitesGen.v"""
import os, sys, glob
sys.path.insert(0, os.path.join(os.path.dirname(__file__), '..'))
from vlib.rustsrc import *

# name, file, function, n-th char conversion inside the function body, pinned argument (normalised tokens)
CHAR_SITES = [
    ('fill',      'src/parsers/ansi/ansi_commands.rs', 'fill_rectangular_area',     0, 'self . parsed_numbers [ 0 ] as u32'),
    ('clipboard', 'src/layer.rs',                      'from_clipboard_data',       0, 'u16 :: from_le_bytes ( [ data [ 0 ] , data [ 1 ] ] ) as u32'),
    ('icy_cont',  'src/formats/icy_draw.rs',           'load_buffer',               0, 'ch'),
    ('icy_first', 'src/formats/icy_draw.rs',           'load_buffer',               1, 'ch'),
    ('checksum',  'src/fonts.rs',                      'calculate_checksum',        0, 'ch as u32'),
    ('u8data',    'src/fonts.rs',                      'convert_to_u8_data',        0, 'ch as u32'),
    ('psf2',      'src/fonts.rs',                      'to_psf2_bytes',             0, 'i as u32'),
    ('glyphs',    'src/fonts.rs',                      'glyphs_from_u8_data',       0, 'ch as u32'),
    ('hexmacro',  'src/parsers/ansi/dcs.rs',           'parse_hex_macro_sequence',  0, '( first * 16 + second ) as u32'),
]
STR_SITES = [
    ('icy', 'src/formats/icy_draw.rs', 'read_utf8_encoded_string', 0, '& data [ 4 .. ( 4 + size ) ]', 'data [ 4 .. ( 4 + size ) ] . to_vec ( )'),
]
# `unsafe` tokens that have nothing to do with text (file -> count): Compression transmute of a masked byte
# onto a 4-variant repr(u8) enum whose variants are exactly the four masked values; Send/Sync marker impls
OTHER_UNSAFE = {'src/formats/xbinary.rs': 1, 'src/parsers/igs/paint.rs': 2}
OTHER_TRANSMUTE = {'src/formats/xbinary.rs': 1}
DANGEROUS = ['from_u32_unchecked', 'from_utf8_unchecked', 'from_utf16_unchecked', 'transmute', 'transmute_copy',
             'from_raw_parts', 'from_raw_parts_mut', 'get_unchecked', 'get_unchecked_mut', 'as_bytes_mut', 'as_mut_vec',
             'from_boxed_utf8_unchecked', 'from_utf8_unchecked_mut', 'unreachable_unchecked', 'from_digit_unchecked']
# the cell character fields of the IcyDraw decoders (both decoders read them the same way)
ICY_SHORT = 'let ch = bytes [ o ] as u32 ;'
ICY_LONG = 'let ch = u32 :: from_le_bytes ( bytes [ o .. ( o + 4 ) ] . try_into ( ) . unwrap ( ) ) ;'

# fonts.rs: constants (name, type) and statements the hand-written loader models mirror (all must occur in the body)
FONT_CONSTS = [('MAX_GLYPHS', 'usize'), ('PSF1_MAGIC', 'u16'), ('PSF1_MODE512', 'u8'), ('PSF2_MAGIC', 'u32'), ('PSF2_MAXVERSION', 'u32'),
               ('MAX_FONT_WIDTH', 'usize'), ('MAX_FONT_HEIGHT', 'usize')]      # fix fB: the glyph size the loaders accept
GLYPHS_PREFIX = ('let mut glyphs = HashMap :: new ( ) ; let mut ch = 0 ; '
                 'while font_height > 0 && data . len ( ) >= font_height && ch < MAX_GLYPHS { '
                 'let glyph = Glyph { data : data [ .. font_height ] . into ( ) , } ;')
GLYPHS_SUFFIX = 'data = & data [ font_height .. ] ; ch += 1 ; } glyphs'
def _u32(a, b, cast=''): return 'u32 :: from_le_bytes ( data [ %d .. %d ] . try_into ( ) . unwrap ( ) )%s ;' % (a, b, cast)
FONT_PINS = {
    'from_bytes': ['if data . len ( ) < 4 { return Err (',
                   'let magic16 = u16 :: from_le_bytes ( data [ 0 .. 2 ] . try_into ( ) . unwrap ( ) ) ; '
                   'if magic16 == BitFont :: PSF1_MAGIC { return BitFont :: load_psf1 ( font_name , data ) ; }',
                   'let magic32 = ' + _u32(0, 4) + ' if magic32 == BitFont :: PSF2_MAGIC { return BitFont :: load_psf2 ( font_name , data ) ; } '
                   'BitFont :: load_plain_font ( font_name , data )'],
    'load_psf1': ['let mode = data [ 2 ] ; let charsize = data [ 3 ] ; '
                  'if charsize == 0 || charsize as usize > MAX_FONT_HEIGHT { return Err (', ') ; } '
                  'let length = if mode & BitFont :: PSF1_MODE512 == BitFont :: PSF1_MODE512 { 512 } else { 256 } ;',
                  ', length , ', 'glyphs : glyphs_from_u8_data ( charsize as usize , & data [ 4 .. ] ) ,'],
    'load_plain_font': ['let char_height = data . len ( ) / 256 ; '
                        'if data . len ( ) % 256 != 0 || char_height == 0 || char_height > MAX_FONT_HEIGHT { return Err (',
                        'length : 256 ,', 'glyphs : glyphs_from_u8_data ( char_height , data ) ,'],
    'load_psf2': ['if data . len ( ) < 32 { return Err (',
                  'let version = ' + _u32(4, 8) + ' if version > BitFont :: PSF2_MAXVERSION { return Err (',
                  'let headersize = ' + _u32(8, 12, ' as usize'),
                  'let length = ' + _u32(16, 20, ' as usize') + ' let charsize = ' + _u32(20, 24, ' as usize') +
                  ' let expected = length . checked_mul ( charsize ) . and_then ( | size | size . checked_add ( headersize ) ) ; '
                  'if expected != Some ( data . len ( ) ) || length > MAX_GLYPHS { return Err (',
                  'let height = ' + _u32(24, 28, ' as usize') + ' let width = ' + _u32(28, 32, ' as usize') +
                  ' if width == 0 || width > MAX_FONT_WIDTH || height == 0 || height > MAX_FONT_HEIGHT { return Err (',
                  ') ; } if charsize != height { return Err (',
                  'length : length as i32 ,', 'glyphs : glyphs_from_u8_data ( height , & data [ headersize .. ] ) ,'],
    'create_8': ['length : 256 ,', 'glyphs : glyphs_from_u8_data ( height as usize , data ) ,'],
    'from_basic': ['length : 256 ,', 'glyphs : glyphs_from_u8_data ( height as usize , data ) ,'],
    'calculate_checksum': ['for ch in 0 .. self . length {'],
    'convert_to_u8_data': ['for ch in 0 .. self . length {'],
    'to_psf2_bytes': ['for i in 0 .. self . length {'],
}

def find_calls(body, path):
    """indices i where body[i:] starts with the path tokens followed by `(`; returns list of (i, arg_tokens)"""
    out = []
    p = tokenize(path)
    for i in range(len(body) - len(p)):
        if body[i:i+len(p)] == p and body[i+len(p)] == ('p', '('):
            # `char::from_u32` must not be the prefix of a longer path segment (it is an identifier token, so exact)
            j = match_close(body, i + len(p))
            out.append((i, body[i+len(p)+1:j]))
    return out

def count_tok(toks, name):
    return sum(1 for t in toks if t == ('id', name))

def generate(repo):
    srcs = {}
    def S(rel):
        if rel not in srcs: srcs[rel] = Source(os.path.join(repo, rel))
        return srcs[rel]
    lines = ['(* GENERATED by translator/gen_textsites.py from the conversion sites of src/ -- do not edit *)',
             'From Coq Require Import NArith List.', 'From IE Require Import Model.Unicode.', 'Import ListNotations.',
             'Local Open Scope N_scope.', '']
    # ---- constants
    ta = S('src/text_attribute.rs')
    for name in ('INVISIBLE', 'SHORT_DATA', 'INVISIBLE_SHORT'):
        ty, val = ta.find_const(name)
        if norm_text(ty) != 'u16' or len(val) != 1: raise TranslateError('attribute::%s is no longer a u16 literal' % name)
        lines.append('Definition %s : N := %d.' % (name, parse_num(val[0])))
    pcb = S('src/formats/pcboard.rs')
    ty, val = pcb.find_const('HEX_TABLE')
    if norm_text(ty) != '& [ u8 ; 16 ]' or len(val) != 1 or val[0][0] != 'str' or not val[0][1].startswith('b"'):
        raise TranslateError('HEX_TABLE is no longer a 16-byte string literal: %s = %s' % (norm_text(ty), norm_text(val)))
    hx = val[0][1][2:-1]
    if '\\' in hx: raise TranslateError('HEX_TABLE: escapes not supported')
    lines.append('Definition HEX_TABLE : list N := [%s].' % '; '.join(str(ord(c)) for c in hx))
    # ---- fonts.rs: constants, the glyph loop, the loaders
    fo = S('src/fonts.rs')
    for name, want_ty in FONT_CONSTS:
        ty, val = fo.find_const(name)
        if norm_text(ty) != want_ty or len(val) != 1 or val[0][0] != 'num':
            raise TranslateError('fonts.rs: %s is no longer a %s literal' % (name, want_ty))
        lines.append('Definition %s : N := %d.' % (name, parse_num(val[0])))
    bt = norm_text(fo.find_fn('glyphs_from_u8_data')[1])
    if not (bt.startswith(GLYPHS_PREFIX) and bt.endswith(GLYPHS_SUFFIX)):
        raise TranslateError('fonts.rs: the loop of glyphs_from_u8_data is no longer the modelled one '
                             '(condition / glyph slice / advance): %s' % bt)
    for fn, pins in FONT_PINS.items():
        bt = norm_text(fo.find_fn(fn)[1])
        for pin in pins:
            if pin not in bt:
                raise TranslateError('fonts.rs: fn %s no longer contains the modelled statement `%s`' % (fn, pin))
    lines.append('')
    # ---- char conversion sites
    unchecked_in = {}          # file -> number of unchecked sites (each carries one `unsafe` block)
    kinds = {}
    for name, rel, fn, nth, pin in CHAR_SITES:
        sig, body = S(rel).find_fn(fn)
        calls = sorted([(i, a, 'char_from_u32') for i, a in find_calls(body, 'char::from_u32')] +
                       [(i, a, 'char_from_u32_unchecked') for i, a in find_calls(body, 'char::from_u32_unchecked')])
        if len(calls) <= nth:
            raise TranslateError('%s: fn %s has %d char conversions, the model expects conversion #%d (%s)' % (rel, fn, len(calls), nth, name))
        total = sum(1 for s in CHAR_SITES if s[1] == rel and s[2] == fn)
        if len(calls) != total:
            raise TranslateError('%s: fn %s has %d char conversions, the model knows %d' % (rel, fn, len(calls), total))
        i, arg, kind = calls[nth]
        if norm_text(arg) != pin:
            raise TranslateError('%s: fn %s: the converted expression changed: `%s` (modelled: `%s`)' % (rel, fn, norm_text(arg), pin))
        if kind == 'char_from_u32_unchecked':
            unchecked_in[rel] = unchecked_in.get(rel, 0) + 1
        kinds[name] = kind
        lines.append('(* %s, fn %s: %s(%s) *)' % (rel, fn, 'char::from_u32' if kind == 'char_from_u32' else 'char::from_u32_unchecked', norm_text(arg)))
        lines.append('Definition conv_%s : N -> option N := %s.' % (name, kind))
        lines.append('Lemma conv_%s_kind : conv_%s = char_from_u32 \\/ conv_%s = char_from_u32_unchecked.' % (name, name, name))
        lines.append('Proof. %s; reflexivity. Qed.' % ('left' if kind == 'char_from_u32' else 'right'))
    # the character fields the two IcyDraw decoders convert
    sig, body = S('src/formats/icy_draw.rs').find_fn('load_buffer')
    bt = norm_text(body)
    if bt.count(ICY_SHORT) != 2 or bt.count(ICY_LONG) != 2:
        raise TranslateError('icy_draw.rs load_buffer: the cell character fields are no longer read as modelled '
                             '(short `%s` x%d, long `%s` x%d)' % (ICY_SHORT, bt.count(ICY_SHORT), ICY_LONG, bt.count(ICY_LONG)))
    lines.append('')
    # ---- string sites
    for name, rel, fn, nth, pin_lossy, pin_unchecked in STR_SITES:
        sig, body = S(rel).find_fn(fn)
        lossy = find_calls(body, 'String::from_utf8_lossy')
        unch = find_calls(body, 'String::from_utf8_unchecked')
        if len(lossy) + len(unch) != 1:
            raise TranslateError('%s: fn %s builds its String in a way the model does not know' % (rel, fn))
        if lossy:
            if norm_text(lossy[0][1]) != pin_lossy: raise TranslateError('%s: fn %s: converted bytes changed: %s' % (rel, fn, norm_text(lossy[0][1])))
            kind = 'str_lossy'
        else:
            if norm_text(unch[0][1]) != pin_unchecked: raise TranslateError('%s: fn %s: converted bytes changed: %s' % (rel, fn, norm_text(unch[0][1])))
            kind = 'str_unchecked'
            unchecked_in[rel] = unchecked_in.get(rel, 0) + 1
        if 'let size = u32 :: from_le_bytes ( data [ 0 .. 4 ] . try_into ( ) . unwrap ( ) ) as usize ;' not in norm_text(body):
            raise TranslateError('%s: fn %s: length prefix no longer read as modelled' % (rel, fn))
        lines.append('(* %s, fn %s *)' % (rel, fn))
        lines.append('Definition str_%s : list N -> list N := %s.' % (name, kind))
        lines.append('Lemma str_%s_kind : str_%s = str_lossy \\/ str_%s = str_unchecked.' % (name, name, name))
        lines.append('Proof. %s; reflexivity. Qed.' % ('left' if kind == 'str_lossy' else 'right'))
    lines.append('')
    # ---- census of the crate
    n_files = 0
    for path in sorted(glob.glob(os.path.join(repo, 'src', '**', '*.rs'), recursive=True)):
        rel = os.path.relpath(path, repo)
        if os.path.basename(path) == 'tests.rs': continue
        n_files += 1
        toks = S(rel).toks
        n_unsafe = count_tok(toks, 'unsafe')
        want = OTHER_UNSAFE.get(rel, 0) + unchecked_in.get(rel, 0)
        if n_unsafe != want:
            raise TranslateError('%s: %d `unsafe` tokens, %d accounted for (modelled unchecked conversions + known non-text uses): '
                                 'there is unsafe code the property does not cover' % (rel, n_unsafe, want))
        for d in DANGEROUS:
            n = count_tok(toks, d)
            if d in ('from_u32_unchecked', 'from_utf8_unchecked'):
                sites = [s for s in CHAR_SITES if s[1] == rel and kinds[s[0]] == 'char_from_u32_unchecked'] if d == 'from_u32_unchecked' else \
                        [s for s in STR_SITES if s[1] == rel and unchecked_in.get(rel)]
                w = len(sites)
            elif d == 'transmute':
                w = OTHER_TRANSMUTE.get(rel, 0)
            else:
                w = 0
            if n != w:
                raise TranslateError('%s: %d uses of `%s`, %d modelled' % (rel, n, d, w))
    lines.append('(* census: %d source files scanned; unchecked text conversions left: %s *)' % (
        n_files, ', '.join(sorted(k for k, v in kinds.items() if v.endswith('unchecked'))) or 'none'))
    return {'TextSitesGen.v': '\n'.join(lines) + '\n'}

if __name__ == '__main__':
    print(generate(sys.argv[1] if len(sys.argv) > 1 else '/repo')['TextSitesGen.v'])
