"""Stage G for C15: constants, tables and leaf fragments of the six text-format writers and parsers
-> coq/Gen/TextFmt.v.

Sources: src/formats/{pcboard,avatar,ctrla,renegade,ascii,atascii}.rs, src/parsers/{mod,avatar/mod,ctrla/mod}.rs.
Extracted (regenerated on every run):
  * HEX_TABLE (PCBoard), FG / BG (Ctrl-A), CTRL_A, AVT_CMD / AVT_CLR / AVT_REP (parser) and AVT_CMD / AVT_CLR (writer),
    BEL LF CR BS FF;
  * the size every loader passes to `Buffer::new((w, h))`;
  * the shared line-break rule of the six writers (`if pos.x < buf.get_width() && pos.y + 1 < height { push… }`) is
    matched token by token and the pushed end-of-line bytes are extracted;
  * the screen-preparation byte strings (`@CLS@`, `^A'`, `^AL`, the Avatar pushes);
  * the Avatar run scanner bound (`pos.x + 3 < buf.get_width()`), the short-run limit (`repeat_count < 4`) and the three
    quoted characters; the ATASCII escape set and inverse-video offset;
  * (merged tree) the shared cursor code the parsers' models mirror, matched token by token: the `UpperLeftCorner` arm of
    TerminalState::limit_caret_pos (row clamped to the screen `if buf.is_terminal_buffer`, else only kept >= 0; column clamped to 0..=max(width-1,0)),
    the Avatar parser's cursor arms 3/4/5/6 and its goto (1-based bytes, then limit_caret_pos; the `min(79, ..)` bound is
    extracted), Caret::ff (shrinks the buffer only `if buf.is_terminal_buffer`), Caret::home / Buffer::upper_left_position /
    get_first_visible_line (0 for a non-terminal buffer) and the Ctrl-A `'` arm that calls Caret::home.
Anything that no longer matches raises TranslateError (stage G reports a broken tie).  The control flow of the writers
and parsers is hand-modelled (Model/TextWriters.v, Model/TextParsers.v) and tied by stage C."""
import os, sys, re
sys.path.insert(0, os.path.join(os.path.dirname(__file__), '..'))
from vlib.rustsrc import *

def bstr(tok):
    """bytes of a (byte-)string literal token"""
    if tok[0] != 'str': raise TranslateError('not a string literal: %r' % (tok,))
    s = tok[1]
    if s.startswith('b'): s = s[1:]
    if not (s.startswith('"') and s.endswith('"')): raise TranslateError('raw strings unsupported: ' + tok[1])
    s = s[1:-1]
    out = []; i = 0
    while i < len(s):
        if s[i] == '\\':
            c = s[i+1]
            if c == 'x': out.append(int(s[i+2:i+4], 16)); i += 4; continue
            m = {'n': 10, 'r': 13, 't': 9, '0': 0, '\\': 92, "'": 39, '"': 34}
            if c not in m: raise TranslateError('escape \\%s unsupported' % c)
            out.append(m[c]); i += 2; continue
        if ord(s[i]) > 127: raise TranslateError('non-ASCII byte string')
        out.append(ord(s[i])); i += 1
    return out

def find_seq(toks, pattern, start=0):
    """index of the first occurrence of the token texts `pattern` (list of strings) in toks"""
    n = len(pattern)
    for i in range(start, len(toks) - n + 1):
        if all(tok_text(toks[i+k]) == pattern[k] for k in range(n)):
            return i
    return -1

def count_seq(toks, pattern):
    c = 0; i = find_seq(toks, pattern)
    while i >= 0:
        c += 1; i = find_seq(toks, pattern, i + 1)
    return c

def char_const(src, name):
    ty, v = src.find_const(name)
    if norm_text(ty) != 'char': raise TranslateError('%s: type %s' % (name, norm_text(ty)))
    if len(v) == 1: return parse_num(v[0])
    if len(v) == 3 and norm_text(v[1:]) == 'as char': return parse_num(v[0])
    raise TranslateError('%s: value %s' % (name, norm_text(v)))

def u8_const(src, name):
    ty, v = src.find_const(name)
    if norm_text(ty) != 'u8' or len(v) != 1: raise TranslateError('%s: %s = %s' % (name, norm_text(ty), norm_text(v)))
    return parse_num(v[0])

BREAK = 'if pos . x < buf . get_width ( ) && pos . y + 1 < height {'.split()

def line_break(src, what):
    sig, body = src.find_fn('to_bytes')
    if count_seq(body, BREAK) != 1:
        raise TranslateError('%s: line-break rule `if pos.x < buf.get_width() && pos.y + 1 < height` not found exactly once' % what)
    i = find_seq(body, BREAK) + len(BREAK)
    e = i
    while tok_text(body[e]) != '}': e += 1
    eol = []
    k = i
    while k < e:
        if norm_text(body[k:k+4]) == 'result . push (' and body[k+4][0] == 'num' and norm_text(body[k+5:k+7]) == ') ;':
            eol.append(parse_num(body[k+4])); k += 7
        else:
            raise TranslateError('%s: unexpected statement in the line-break block: %s' % (what, norm_text(body[k:k+8])))
    # the row epilogue that follows
    if norm_text(body[e+1:e+13]) != 'pos . x = 0 ; pos . y += 1 ;':
        raise TranslateError('%s: row epilogue changed: %s' % (what, norm_text(body[e+1:e+13])))
    # the two loop headers
    for pat in ('while pos . y < height {', 'let line_length = buf . get_line_length ( pos . y ) ;', 'while pos . x < line_length {',
                'let height = buf . get_line_count ( ) ;'):
        if count_seq(body, pat.split()) != 1:
            raise TranslateError('%s: `%s` not found exactly once' % (what, pat))
    return body, eol

def load_size(src, what):
    sig, body = src.find_fn('load_buffer')
    i = find_seq(body, 'Buffer :: new ( ('.split())
    if i < 0 or body[i+5][0] != 'num' or tok_text(body[i+6]) != ',' or body[i+7][0] != 'num' or norm_text(body[i+8:i+10]) != ') )':
        raise TranslateError('%s: Buffer::new((w, h)) not found in load_buffer' % what)
    if count_seq(body, 'result . is_terminal_buffer = false ;'.split()) != 1:
        raise TranslateError('%s: loader no longer clears is_terminal_buffer' % what)
    return parse_num(body[i+5]), parse_num(body[i+7])

def pin(toks, text, what):
    """the token sequence `text` (space separated) must occur exactly once in toks"""
    if count_seq(toks, text.split()) != 1:
        raise TranslateError('%s: `%s` not found exactly once' % (what, text))

def pin_body(src, fn, text, what):
    sig, body = src.find_fn(fn)
    if norm_text(body) != text:
        raise TranslateError('%s changed: %s' % (what, norm_text(body)[:300]))

def nlist(v): return '[' + '; '.join(str(x) for x in v) + ']%N'

def generate(repo):
    f = lambda p: Source(os.path.join(repo, p))
    out = ['(* GENERATED by translator/gen_textfmt.py from src/formats/*.rs and src/parsers/*/mod.rs -- do not edit *)',
           'From Coq Require Import NArith List.', 'Import ListNotations.', '']
    D = lambda name, ty, val: out.append('Definition %s : %s := %s.' % (name, ty, val))
    # --- PCBoard
    pcb = f('src/formats/pcboard.rs')
    ty, v = pcb.find_const('HEX_TABLE')
    if norm_text(ty) != '& [ u8 ; 16 ]' or len(v) != 1: raise TranslateError('HEX_TABLE: ' + norm_text(ty))
    hexs = bstr(v[0])
    if len(hexs) != 16: raise TranslateError('HEX_TABLE length')
    D('HEX_TABLE', 'list N', nlist(hexs))
    body, eol = line_break(pcb, 'pcboard')
    if eol != [13, 10]: raise TranslateError('pcboard: end of line bytes %r' % eol)
    i = find_seq(body, 'super :: ScreenPreperation :: ClearScreen => { result . extend ('.split())
    if i < 0: raise TranslateError('pcboard: ClearScreen arm changed')
    D('PCB_CLS', 'list N', nlist(bstr(body[i + 11])))
    if find_seq(body, 'super :: ScreenPreperation :: None | super :: ScreenPreperation :: Home => { }'.split()) < 0:
        raise TranslateError('pcboard: None | Home arm changed')
    w, h = load_size(pcb, 'pcboard'); sizes = {'pcb': (w, h)}
    # --- Renegade / ASCII
    for nm, path in (('an1', 'src/formats/renegade.rs'), ('asc', 'src/formats/ascii.rs')):
        s = f(path)
        body, eol = line_break(s, nm)
        if eol != [13, 10]: raise TranslateError('%s: end of line bytes %r' % (nm, eol))
        if find_seq(body, ['screen_preparation']) >= 0: raise TranslateError('%s: writer now looks at screen_preparation' % nm)
        sizes[nm] = load_size(s, nm)
    D('EOL_CRLF', 'list N', nlist([13, 10]))
    # --- Ctrl-A
    ca = f('src/formats/ctrla.rs')
    body, eol = line_break(ca, 'ctrla')
    if eol != [13, 10]: raise TranslateError('ctrla: end of line bytes %r' % eol)
    i = find_seq(body, 'super :: ScreenPreperation :: Home => { result . extend ('.split())
    j = find_seq(body, 'super :: ScreenPreperation :: ClearScreen => { result . extend ('.split())
    if i < 0 or j < 0: raise TranslateError('ctrla: screen preparation arms changed')
    D('CTRLA_HOME', 'list N', nlist(bstr(body[i + 11])))
    D('CTRLA_CLEAR', 'list N', nlist(bstr(body[j + 11])))
    sizes['msg'] = load_size(ca, 'ctrla')
    cap = f('src/parsers/ctrla/mod.rs')
    for nm in ('FG', 'BG'):
        ty, v = cap.find_const(nm)
        if norm_text(ty) != '& [ u8 ]' or len(v) != 1: raise TranslateError('ctrla %s: %s' % (nm, norm_text(ty)))
        t = bstr(v[0])
        if len(t) != 8: raise TranslateError('ctrla %s: %d entries' % (nm, len(t)))
        D('CTRLA_' + nm, 'list N', nlist(t))
    D('CTRL_A', 'N', '%d%%N' % char_const(cap, 'CTRL_A'))
    # --- Avatar
    av = f('src/formats/avatar.rs')
    body, eol = line_break(av, 'avatar')
    if eol != [13, 10]: raise TranslateError('avatar: end of line bytes %r' % eol)
    wc, wl = u8_const(av, 'AVT_CMD'), u8_const(av, 'AVT_CLR')
    D('AVT_W_CMD', 'N', '%d%%N' % wc); D('AVT_W_CLR', 'N', '%d%%N' % wl)
    i = find_seq(body, 'super :: ScreenPreperation :: Home => {'.split())
    if i < 0: raise TranslateError('avatar: Home arm changed')
    k = i + 7; home = []
    while tok_text(body[k]) != '}':
        if norm_text(body[k:k+4]) != 'result . push (' or norm_text(body[k+5:k+7]) != ') ;':
            raise TranslateError('avatar: Home arm statement: ' + norm_text(body[k:k+8]))
        a = body[k+4]
        home.append(wc if tok_text(a) == 'AVT_CMD' else parse_num(a)); k += 7
    D('AVT_HOME', 'list N', nlist(home))
    if find_seq(body, 'super :: ScreenPreperation :: ClearScreen => { result . push ( AVT_CLR ) ; }'.split()) < 0:
        raise TranslateError('avatar: ClearScreen arm changed')
    i = find_seq(body, 'while pos . x +'.split())
    if i < 0 or body[i+5][0] != 'num' or norm_text(body[i+6:i+13]) != '< buf . get_width ( ) &&':
        raise TranslateError('avatar: run scanner bound changed')
    D('AVT_LOOKAHEAD', 'nat', str(parse_num(body[i+5])))
    i = find_seq(body, 'if repeat_count <'.split())
    if i < 0 or body[i+3][0] != 'num': raise TranslateError('avatar: short-run limit changed')
    D('AVT_SHORT_RUN', 'nat', str(parse_num(body[i+3])))
    quoted = "ch . ch == '\\x16' || ch . ch == '\\x0C' || ch . ch == '\\x19'".split()
    nquoted = "( ch . ch != '\\x16' && ch . ch != '\\x0C' && ch . ch != '\\x19' )".split()
    if count_seq(body, quoted) != 1 or count_seq(body, nquoted) != 1:
        raise TranslateError('avatar: the quoted character set changed')
    D('AVT_QUOTED', 'list N', nlist([0x16, 0x0C, 0x19]))
    sizes['avt'] = load_size(av, 'avatar')
    avp = f('src/parsers/avatar/mod.rs')
    for nm in ('AVT_CMD', 'AVT_CLR', 'AVT_REP'):
        D(nm, 'N', '%d%%N' % char_const(avp, nm))
    sig, pb = avp.find_fn('print_char')
    pin(pb, '3 => { caret . pos . y = max ( 0 , caret . pos . y - 1 ) ; buf . terminal_state . limit_caret_pos ( buf , caret ) ; }', 'avatar parser ^V^C')
    pin(pb, '4 => { caret . pos . y += 1 ; buf . terminal_state . limit_caret_pos ( buf , caret ) ; }', 'avatar parser ^V^D')
    pin(pb, '5 => { caret . pos . x = max ( 0 , caret . pos . x - 1 ) ; }', 'avatar parser ^V^E')
    i = find_seq(pb, '6 => { caret . pos . x = min ('.split())
    if i < 0 or pb[i+11][0] != 'num' or norm_text(pb[i+12:i+34]) != ', caret . pos . x + 1 ) ; buf . terminal_state . limit_caret_pos ( buf , caret ) ; }':
        raise TranslateError('avatar parser ^V^F changed')
    D('AVT_RIGHT_MAX', 'nat', str(parse_num(pb[i+11])))
    pin(pb, 'caret . pos . x = max ( 0 , self . avt_repeat_char as i32 - 1 ) ; caret . pos . y = max ( 0 , ch as i32 - 1 ) ; '
            'buf . terminal_state . limit_caret_pos ( buf , caret ) ; self . avt_state = AvtReadState :: Chars ;', 'avatar parser goto')
    # --- the shared cursor code (terminal_state.rs, parsers/mod.rs, buffers.rs) as the loaders' NON-terminal buffer sees it
    ts = f('src/terminal_state.rs')
    sig, lb = ts.find_fn('limit_caret_pos')
    pin(lb, 'match self . origin_mode { crate :: OriginMode :: UpperLeftCorner => { if buf . is_terminal_buffer { let first = '
            'buf . get_first_visible_line ( ) ; caret . pos . y = caret . pos . y . clamp ( first , first + self . get_height ( ) - 1 ) ; } '
            'else { caret . pos . y = caret . pos . y . max ( 0 ) ; } '     # C02 fix d135f2b: rows of a file buffer never go below 0 (the model's rows are nat)
            'caret . pos . x = caret . pos . x . clamp ( 0 , ( self . get_width ( ) - 1 ) . max ( 0 ) ) ; } '
            'crate :: OriginMode :: WithinMargins => {', 'TerminalState::limit_caret_pos (UpperLeftCorner arm)')
    pmod = f('src/parsers/mod.rs')
    pin_body(pmod, 'ff', 'buf . reset_terminal ( ) ; buf . layers [ current_layer ] . clear ( ) ; buf . stop_sixel_threads ( ) ; '
             'if buf . is_terminal_buffer { buf . set_size ( buf . terminal_state . get_size ( ) ) ; } self . pos = Position :: default ( ) ; '
             'self . set_is_visible ( true ) ; self . reset_color_attribute ( ) ;', 'Caret::ff')
    pin_body(pmod, 'home', 'self . pos = buf . upper_left_position ( ) ;', 'Caret::home')
    bsrc = f('src/buffers.rs')
    pin_body(bsrc, 'get_first_visible_line', 'if self . is_terminal_buffer { max ( 0 , self . size . height . saturating_sub ( '
             'self . terminal_state . get_height ( ) ) ) } else { 0 }', 'Buffer::get_first_visible_line')
    sig, ub = bsrc.find_fn('upper_left_position')
    pin(ub, 'match self . terminal_state . origin_mode { crate :: OriginMode :: UpperLeftCorner => Position { x : 0 , '
            'y : self . get_first_visible_line ( ) , } ,', 'Buffer::upper_left_position (UpperLeftCorner arm)')
    sig, cb = cap.find_fn('print_char')
    pin(cb, "'\\'' => caret . home ( buf ) ,", "ctrla parser ^A'")
    # --- ATASCII
    at = f('src/formats/atascii.rs')
    body, eol = line_break(at, 'atascii')
    if len(eol) != 1: raise TranslateError('atascii: end of line bytes %r' % eol)
    D('ATA_EOL', 'N', '%d%%N' % eol[0])
    i = find_seq(body, 'if attr_ch . attribute . background_color > 0 { ch +='.split())
    if i < 0 or body[i+11][0] != 'num': raise TranslateError('atascii: inverse video rule changed')
    D('ATA_INVERSE', 'N', '%d%%N' % parse_num(body[i+11]))
    i = find_seq(body, 'if ch == b\'\\x1B\''.split())
    if i < 0: raise TranslateError('atascii: escape rule changed')
    k = i + 1; esc = []
    while True:
        if norm_text(body[k:k+2]) != 'ch ==' or body[k+2][0] != 'char': raise TranslateError('atascii: escape chain: ' + norm_text(body[k:k+4]))
        esc.append(parse_num(body[k+2])); k += 3
        if tok_text(body[k]) == '||': k += 1; continue
        break
    if norm_text(body[k:k+9]) != "{ result . push ( b'\\x1B' ) ; }": raise TranslateError('atascii: escape action: ' + norm_text(body[k:k+9]))
    D('ATA_ESCAPED', 'list N', nlist(esc))
    sig, lb = at.find_fn('load_buffer')
    i = find_seq(lb, 'Buffer :: new ( ('.split())
    if i < 0: raise TranslateError('atascii: Buffer::new')
    sizes['ata'] = (parse_num(lb[i+5]), parse_num(lb[i+7]))
    # --- control characters of the fallback parsers
    pm = f('src/parsers/mod.rs')
    for nm in ('BEL', 'LF', 'CR', 'BS', 'FF'):
        D('C_' + nm, 'N', '%d%%N' % char_const(pm, nm))
    for k, (w, h) in sorted(sizes.items()):
        D('LOAD_W_' + k, 'nat', str(w)); D('LOAD_H_' + k, 'nat', str(h))
    out.append('')
    return {'TextFmt.v': '\n'.join(out)}

if __name__ == '__main__':
    print(generate(sys.argv[1] if len(sys.argv) > 1 else '/repo')['TextFmt.v'])
