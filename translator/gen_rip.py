"""Stage G for C20: the RIPscrip command tables and the constants of the BGI kernel -> coq/Gen/RipGen.v.

From src/parsers/rip/mod.rs     the level-0 / level-1 / level-9 dispatch tables of `print_char` (letter -> command, start|push)
From src/parsers/rip/commands.rs for every `impl Command for X`: the field list of X and its `parse` function as a table
                                 state -> (action on the character, returned bool) when the body is the usual `match state {…}`;
                                 the nine irregular parse functions are matched token-for-token against the text the hand-written
                                 model mirrors (a changed body breaks the tie: stage G fails)
From src/parsers/rip/bgi/mod.rs  SCREEN_SIZE, DEFAULT_USER_PATTERN, FillStyle::DEFAULT_FILL_PATTERNS, the `% 16` / `% 64` moduli,
                                 the WriteMode / FillStyle `from` maps, the TextWindow font cell table
From src/palette_handling.rs     EGA_PALETTE, DOS_DEFAULT_PALETTE
"""
import os, sys, re
sys.path.insert(0, os.path.join(os.path.dirname(__file__), '..'))
from vlib.rustsrc import *

IRREGULAR = {
    'SetPalette': ('PSetPalette', "if * state % 2 == 0 { self . palette . push ( 0 ) ; } let mut c = self . palette . pop ( ) . unwrap ( ) ; "
                   "parse_base_36 ( & mut c , ch ) ? ; self . palette . push ( c ) ; Ok ( * state < 31 )"),
    'Text': ('PText', "self . str . push ( ch ) ; Ok ( true )"),
    'RegionText': ('PFlagText', "if * state == 0 { self . justify = ch == '1' ; } else { self . str . push ( ch ) ; } Ok ( true )"),
    'WriteIcon': ('PChrText', "if * state == 0 { self . res = ch ; } else { self . str . push ( ch ) ; } Ok ( true )"),
    'ReadScene': ('PResText', "if ( 0 ..= 7 ) . contains ( state ) { self . res . push ( ch ) ; } else { self . str . push ( ch ) ; } Ok ( true )"),
    'TextVariable': ('PTextVar', "if ch == '$' { return Ok ( false ) ; } self . text . push ( ch ) ; Ok ( true )"),
}
POLY = ("match state { 0 | 1 => { parse_base_36 ( & mut self . npoints , ch ) ? ; Ok ( true ) } _ => { if * state % 2 == 0 { self . points . push ( 0 ) ; } "
        "let mut p = self . points . pop ( ) . unwrap ( ) ; parse_base_36 ( & mut p , ch ) ? ; self . points . push ( p ) ; Ok ( * state < ( self . npoints + 1 ) * 4 ) } }")
for _n in ('Polygon', 'FilledPolygon', 'PolyLine'):
    IRREGULAR[_n] = ('PPoly', POLY)

PARSE_BASE_36 = ("if let Some ( digit ) = ch . to_digit ( 36 ) { match number . checked_mul ( 36 ) . and_then ( | n | n . checked_add ( digit as i32 ) ) { "
                 "Some ( n ) => { * number = n ; Ok ( ( ) ) } None => Err ( anyhow :: Error :: msg ( \"Base 36 number too large\" ) ) , } } "
                 "else { Err ( anyhow :: Error :: msg ( \"Invalid base 36 digit\" ) ) }")

def impl_blocks(src):
    """name -> (lo, hi) token range of `impl Command for NAME { … }`"""
    toks = src.toks; out = {}
    for i in range(len(toks) - 4):
        if [t[1] for t in toks[i:i+3]] == ['impl', 'Command', 'for'] and toks[i+4][1] == '{':
            out[toks[i+3][1]] = (i + 4, match_close(toks, i + 4))
    return out

def struct_fields(src, name):
    toks = src.toks
    for i in range(len(toks) - 3):
        if toks[i][1] == 'struct' and toks[i+1][1] == name:
            if toks[i+2][1] == ';': return []
            if toks[i+2][1] != '{': continue
            e = match_close(toks, i + 2)
            fs = []; j = i + 3
            while j < e:
                if toks[j][1] == 'pub': j += 1
                fname = toks[j][1]
                if toks[j+1][1] != ':': raise TranslateError('struct %s: unexpected field syntax' % name)
                k = j + 2; ty = []
                while k < e and toks[k][1] != ',': ty.append(toks[k][1]); k += 1
                fs.append((fname, ' '.join(ty)))
                j = k + 1
            return fs
    raise TranslateError('struct %s not found' % name)

def parse_arm_pattern(toks):
    """-> list of state numbers, or None for `_`"""
    txt = [t[1] for t in toks]
    if txt == ['_']: return None
    out = []; i = 0
    while i < len(toks):
        if toks[i][0] != 'num': raise TranslateError('arm pattern: %s' % norm_text(toks))
        a = int(toks[i][1])
        if i + 2 < len(toks) + 0 and i + 1 < len(toks) and toks[i+1][1] == '..=':
            b = int(toks[i+2][1]); out += list(range(a, b + 1)); i += 3
        else:
            out.append(a); i += 1
        if i < len(toks):
            if toks[i][1] != '|': raise TranslateError('arm pattern: %s' % norm_text(toks))
            i += 1
    return out

def parse_arm_body(body, fields):
    """-> (action, ret)  action: ('dig', f) | ('flag', f) | ('text',) | ('err',) ; ret: 'true' | 'false' | ('lt', n)"""
    t = norm_text(body)
    fidx = {f: i for i, (f, _) in enumerate(fields)}
    m = re.fullmatch(r'(?:self \. (\w+) = 0 ; )?parse_base_36 \( & mut self \. (\w+) , ch \) \? ; Ok \( (true|false|\* state < (\d+)) \)', t)
    if m:
        f = m.group(2)
        if m.group(1) and m.group(1) != f: raise TranslateError('arm resets another field: ' + t)
        if f not in fidx or fields[fidx[f]][1] != 'i32': raise TranslateError('digit field %s is not an i32 field' % f)
        ret = m.group(3) if m.group(3) in ('true', 'false') else ('lt', int(m.group(4)))
        return ('dig', fidx[f]), ret
    m = re.fullmatch(r"self \. (\w+) = ch == '1' ; Ok \( true \)", t)
    if m: return ('flag', fidx[m.group(1)]), 'true'
    m = re.fullmatch(r"self \. (\w+) \. push \( ch \) ; Ok \( true \)", t)
    if m: return ('text',), 'true'
    if t == 'Err ( anyhow :: Error :: msg ( "Invalid state" ) )': return ('err',), 'true'
    raise TranslateError('parse arm not understood: ' + t)

def parse_table(body, fields, name):
    if not (body[0][1] == 'match' and body[1][1] == 'state' and body[2][1] == '{' and match_close(body, 2) == len(body) - 1):
        raise TranslateError('%s::parse is not a single `match state`' % name)
    inner = body[3:-1]
    arms = {}; default = None
    i = 0
    while i < len(inner):
        j = i
        while inner[j][1] != '=>': j += 1
        pat = parse_arm_pattern(inner[i:j])
        k = j + 1
        if inner[k][1] == '{':
            e = match_close(inner, k); abody = inner[k+1:e]; nxt = e + 1
        else:
            e = k
            while e < len(inner) and inner[e][1] != ',': e += 1
            abody = inner[k:e]; nxt = e
        if nxt < len(inner) and inner[nxt][1] == ',': nxt += 1
        act = parse_arm_body(abody, fields)
        if pat is None: default = act
        else:
            for s in pat:
                if s in arms: raise TranslateError('%s::parse: state %d matched twice' % (name, s))
                arms[s] = act
        i = nxt
    if default is None: raise TranslateError('%s::parse has no `_` arm' % name)
    n = max(arms) + 1 if arms else 0
    if sorted(arms) != list(range(n)): raise TranslateError('%s::parse: states are not 0..%d' % (name, n - 1))
    return [arms[s] for s in range(n)], default

def coq_act(a):
    act, ret = a
    s = {'dig': 'ADig %d' % act[1] if act[0] == 'dig' else '', 'flag': 'AFlag %d' % act[1] if act[0] == 'flag' else '', 'text': 'AText', 'err': 'AErr'}[act[0]]
    r = {'true': 'RTrue', 'false': 'RFalse'}[ret] if isinstance(ret, str) else 'RLt %d' % ret[1]
    return '(%s, %s)' % (s, r)

def dispatch_tables(src):
    sig, body = src.find_fn('print_char')
    txt = norm_text(body)
    i = txt.index('State :: ReadCommand ( level ) =>'); j = txt.index('State :: GotRipStart =>', i)
    blk = txt[i:j]
    a = blk.index('if level == 1'); b = blk.index('if level == 9'); c = blk.index('match ch {', b)
    arm = re.compile(r"'(\\x1B|\\\\|.)' => (?:return )?self \. (start|push)_command \( (?:buf , caret , )?Box :: < commands :: (\w+) > :: default \( \) \)")
    def tab(s):
        out = []
        for m in arm.finditer(s):
            ch = 27 if m.group(1) == '\\x1B' else ord(m.group(1)[-1])
            out.append((ch, m.group(3), m.group(2) == 'start'))
        return out
    l0, l1 = tab(blk[c:]), tab(blk[a:b])
    m = re.search(r"if let '\\x1B' = ch \{ self \. start_command \( Box :: < commands :: (\w+) > :: default \( \) \)", blk[b:c])
    if not m: raise TranslateError('level-9 arm not found')
    l9 = [(27, m.group(1), True)]
    # the four non-command arms of the level-0 match
    for lit, what in (("'1' => { self . state = State :: ReadCommand ( 1 )", 'level 1'), ("'9' => { self . state = State :: ReadCommand ( 9 )", 'level 9'),
                      ("'#' => { self . state = State :: EndRip", 'RIP_NO_MORE')):
        if lit not in blk[c:]: raise TranslateError('level-0 arm for %s not found' % what)
    return l0, l1, l9

def colors(src, name, n):
    ty, val = src.find_const(name)
    cols = []; cur = {}; i = 0
    while i < len(val):
        t = val[i]
        if t[0] == 'id' and t[1] in ('r', 'g', 'b') and val[i+1][1] == ':':
            cur[t[1]] = parse_num(val[i+2]); i += 3
            if len(cur) == 3: cols.append((cur['r'], cur['g'], cur['b'])); cur = {}
            continue
        i += 1
    if len(cols) != n: raise TranslateError('%s: expected %d colours, found %d' % (name, n, len(cols)))
    return cols

def from_map(src, enum, variants):
    """`impl Enum { pub fn from(x: u8) -> Enum { match x { 1 => Enum::A, … _ => Enum::Z } } }` -> (list of (n, variant index), default index)"""
    toks = src.toks
    for i in range(len(toks) - 2):
        if toks[i][1] == 'impl' and toks[i+1][1] == enum and toks[i+2][1] == '{':
            e = match_close(toks, i + 2)
            try:
                sig, body = src.find_fn('from', within=(i, e))
            except TranslateError:
                continue
            txt = norm_text(body)
            arms = re.findall(r'(\d+) => %s :: (\w+)' % enum, txt)
            d = re.search(r'_ => %s :: (\w+)' % enum, txt)
            if not arms or not d: raise TranslateError('%s::from not understood' % enum)
            return [(int(n), variants.index(v)) for n, v in arms], variants.index(d.group(1))
    raise TranslateError('%s::from not found' % enum)

def enum_variants(src, name):
    toks = src.toks
    for i in range(len(toks) - 2):
        if toks[i][1] == 'enum' and toks[i+1][1] == name and toks[i+2][1] == '{':
            e = match_close(toks, i + 2)
            return [t[1] for t in toks[i+3:e] if t[0] == 'id']
    raise TranslateError('enum %s not found' % name)

def generate(repo):
    mod = Source(os.path.join(repo, 'src/parsers/rip/mod.rs'))
    cmds = Source(os.path.join(repo, 'src/parsers/rip/commands.rs'))
    bgi = Source(os.path.join(repo, 'src/parsers/rip/bgi/mod.rs'))
    pal = Source(os.path.join(repo, 'src/palette_handling.rs'))
    l0, l1, l9 = dispatch_tables(mod)
    sig, body = mod.find_fn('parse_base_36')
    if norm_text(body) != PARSE_BASE_36: raise TranslateError('parse_base_36 changed: ' + norm_text(body))
    blocks = impl_blocks(cmds)
    names = []
    for _, n, _ in l0 + l1 + l9:
        if n not in names: names.append(n)
    for n in names:
        if n not in blocks: raise TranslateError('no `impl Command for %s`' % n)
    out = ['(* GENERATED by translator/gen_rip.py from src/parsers/rip/{mod,commands}.rs, rip/bgi/mod.rs, palette_handling.rs -- do not edit *)',
           'From Coq Require Import NArith ZArith List.\nImport ListNotations.\n',
           'Inductive cmd := ' + ' | '.join('C' + n for n in names) + '.\n',
           'Inductive act := ADig (f : nat) | AFlag (f : nat) | AText | AErr.',
           'Inductive ret := RTrue | RFalse | RLt (n : Z).',
           'Inductive pkind := PTable (arms : list (act * ret)) (dflt : act * ret) | PSetPalette | PPoly | PText | PFlagText | PChrText | PResText | PTextVar | PNone.\n']
    kinds = []; nfields = []
    for n in names:
        fields = struct_fields(cmds, n)
        lo, hi = blocks[n]
        try:
            sig, body = cmds.find_fn('parse', within=(lo, hi))
        except TranslateError:
            kinds.append((n, 'PNone')); nfields.append((n, len(fields))); continue
        if norm_text(sig) != 'fn parse ( & mut self , state : & mut i32 , ch : char ) -> EngineResult < bool >' and \
           norm_text(sig) != 'fn parse ( & mut self , _state : & mut i32 , ch : char ) -> EngineResult < bool >':
            raise TranslateError('%s::parse signature changed: %s' % (n, norm_text(sig)))
        if n in IRREGULAR:
            k, want = IRREGULAR[n]
            if norm_text(body) != want: raise TranslateError('%s::parse changed (hand-modelled as %s): %s' % (n, k, norm_text(body)))
            kinds.append((n, k))
        else:
            arms, dflt = parse_table(body, fields, n)
            kinds.append((n, 'PTable [%s] %s' % ('; '.join(coq_act(a) for a in arms), coq_act(dflt))))
        nfields.append((n, len(fields)))
    out.append('Definition all_cmds : list cmd := [' + '; '.join('C' + n for n in names) + '].\n')
    out.append('Definition cmd_parse (c : cmd) : pkind :=\n  match c with\n' + '\n'.join('  | C%s => %s' % kv for kv in kinds) + '\n  end.\n')
    out.append('Definition cmd_nfields (c : cmd) : nat :=\n  match c with\n' + '\n'.join('  | C%s => %d' % kv for kv in nfields) + '\n  end.\n')
    def tabdef(name, t):
        return 'Definition %s : list (N * (cmd * bool)) := [%s]%%N.\n' % (name, '; '.join('(%d, (C%s, %s))' % (ch, n, 'true' if st else 'false') for ch, n, st in t))
    out.append(tabdef('rip_level0', l0)); out.append(tabdef('rip_level1', l1)); out.append(tabdef('rip_level9', l9))
    # ---- BGI constants
    ty, val = bgi.find_const('SCREEN_SIZE')
    m = re.fullmatch(r'Size \{ width : (\d+) , height : (\d+) \}', norm_text(val))
    if not m: raise TranslateError('SCREEN_SIZE: ' + norm_text(val))
    out.append('Definition SCREEN_W : Z := %s.\nDefinition SCREEN_H : Z := %s.\n' % (m.group(1), m.group(2)))
    ty, val = bgi.find_const('DEFAULT_USER_PATTERN')
    out.append('Definition DEFAULT_USER_PATTERN : list N := (%s)%%N.\n' % coq_list(parse_array(val)))
    ty, val = bgi.find_const('DEFAULT_FILL_PATTERNS')
    if norm_text(ty) != '[ [ u8 ; 8 ] ; 13 ]': raise TranslateError('DEFAULT_FILL_PATTERNS type: ' + norm_text(ty))
    out.append('Definition DEFAULT_FILL_PATTERNS : list (list N) := [%s]%%N.\n' % '; '.join(coq_list(r) for r in parse_array(val)))
    fs = enum_variants(bgi, 'FillStyle'); wm = enum_variants(bgi, 'WriteMode')
    if wm != ['Copy', 'Xor', 'Or', 'And', 'Not']: raise TranslateError('WriteMode variants: %r' % wm)
    if len(fs) != 13 or fs[1] != 'Solid' or fs[12] != 'User' or fs[0] != 'Empty': raise TranslateError('FillStyle variants: %r' % fs)
    arms, d = from_map(bgi, 'FillStyle', fs)
    out.append('Definition FILLSTYLE_FROM : list (N * N) := [%s]%%N.\nDefinition FILLSTYLE_FROM_DEFAULT : N := %d%%N.\n' % ('; '.join('(%d, %d)' % a for a in arms), d))
    arms, d = from_map(bgi, 'WriteMode', wm)
    out.append('Definition WRITEMODE_FROM : list (N * N) := [%s]%%N.\nDefinition WRITEMODE_FROM_DEFAULT : N := %d%%N.\n' % ('; '.join('(%d, %d)' % a for a in arms), d))
    # colour moduli
    for fn, field, cname in (('set_color', 'color', 'COLOR_MOD'), ('set_bk_color', 'bkcolor', 'BKCOLOR_MOD'), ('set_fill_color', 'fill_color', 'FILLCOLOR_MOD')):
        sig, body = bgi.find_fn(fn)
        m = re.search(r'self \. %s = (?:c|color) %% (\d+) ;' % field, norm_text(body))
        if not m: raise TranslateError('%s: `self.%s = c %% N` not found' % (fn, field))
        out.append('Definition %s : N := %s%%N.' % (cname, m.group(1)))
    sig, body = bgi.find_fn('put_pixel')
    m = re.search(r'WriteMode :: Not => \{ self \. screen \[ pos \] = ! color % (\d+) ; \}', norm_text(body))
    if not m: raise TranslateError('put_pixel: Not arm changed')
    out.append('Definition NOT_MOD : N := %s%%N.\n' % m.group(1))
    # TextWindow font cell table
    lo, hi = blocks['TextWindow']
    sig, body = cmds.find_fn('run', within=(lo, hi))
    m = re.search(r'let \( x , y \) = match self \. size \{ (.*?) \} ;', norm_text(body))
    if not m: raise TranslateError('TextWindow::run font table not found')
    cells = re.findall(r'(\d+|_) => \( (\d+) , (\d+) \)', m.group(1))
    dflt = [c for c in cells if c[0] == '_']
    if len(dflt) != 1: raise TranslateError('TextWindow font table default arm')
    out.append('Definition TEXTWINDOW_CELLS : list (Z * (Z * Z)) := [%s]%%Z.\nDefinition TEXTWINDOW_CELL_DEFAULT : Z * Z := (%s, %s)%%Z.\n'
               % ('; '.join('(%s, (%s, %s))' % c for c in cells if c[0] != '_'), dflt[0][1], dflt[0][2]))
    ega = colors(pal, 'EGA_PALETTE', 64); dos = colors(pal, 'DOS_DEFAULT_PALETTE', 16)
    out.append('Definition EGA_PALETTE : list (N * N * N) := [%s]%%N.\n' % '; '.join('(%d, %d, %d)' % c for c in ega))
    out.append('Definition DOS_DEFAULT_PALETTE : list (N * N * N) := [%s]%%N.\n' % '; '.join('(%d, %d, %d)' % c for c in dos))
    # the EGA index moduli of set_palette / set_palette_color
    sig, body = bgi.find_fn('set_palette')
    if 'EGA_PALETTE [ * c as usize % EGA_PALETTE . len ( ) ]' not in norm_text(body): raise TranslateError('set_palette: EGA index expression changed: ' + norm_text(body))
    sig, body = bgi.find_fn('set_palette_color')
    if 'EGA_PALETTE [ color as usize % EGA_PALETTE . len ( ) ]' not in norm_text(body): raise TranslateError('set_palette_color: EGA index expression changed: ' + norm_text(body))
    return {'RipGen.v': '\n'.join(out) + '\n'}

if __name__ == '__main__':
    print(generate(sys.argv[1])['RipGen.v'])
