"""Stage G for C16: src/palette_handling.rs + src/formats/artworx.rs (+ the Unicode class tables of the
regex-syntax crate the repository is locked to) -> coq/Gen/PaletteSrc.v.

What is extracted (regenerated on every run):
  * the 6-bit VGA channel expressions of Palette::from_63 / as_vec_63 and from_ega_data / to_ega_data, the direct-RGB
    channel expressions of get_rgb / get_color  (control skeletons template-matched, holes translated);
  * DOS_DEFAULT_PALETTE, EGA_PALETTE, EGA_COLOR_OFFSETS;
  * every line printer of Palette::export_palette for Hex/Pal/Gpl/Ice/Txt: the `format!` strings are parsed and turned
    into Gallina printers over fmt_dec / fmt_dec_w3 / fmt_hex2 / fmt_str (arm skeletons template-matched); the text
    arguments of each `format!` call are parsed too: `self.title` prints the text as it is, `single_line(&self.title)`
    prints `single_line title`;
  * `single_line` (the line-break replacement applied to title / author / description / colour names): the set of
    replaced characters and the replacement text of its `str::replace` call;
  * the magic first lines and comment characters of Palette::load_palette;
  * the regular expressions of the loaders are compared with the ones the hand-written matchers of
    Model/PaletteFiles.v implement (any other regex is a TranslateError: the tie is gone);
  * the `\\s` and `\\d` classes: WHITE_SPACE / DECIMAL_NUMBER range tables of regex-syntax (version from Cargo.lock).
"""
import os, sys, re, glob
sys.path.insert(0, os.path.join(os.path.dirname(__file__), '..'))
from vlib.rustsrc import *

# the regexes the hand-written matchers of Model/PaletteFiles.v are equivalent to
EXPECTED_REGEX = {
    'HEX_REGEX': r'([0-9a-fA-F]{2})([0-9a-fA-F]{2})([0-9a-fA-F]{2})',
    'PAL_REGEX': r'(\d+)\s+(\d+)\s+(\d+)',
    'GPL_COLOR_REGEX': r'(\d+)\s+(\d+)\s+(\d+)\s*(.*)',
    'TXT_COLOR_REGEX': r'([0-9a-fA-F]{2})([0-9a-fA-F]{2})([0-9a-fA-F]{2})([0-9a-fA-F]{2})',
    'ICE_COLOR_REGEX': r'([0-9a-fA-F]{2})([0-9a-fA-F]{2})([0-9a-fA-F]{2})',
}

def decode_str(tok):
    """Rust string literal token -> python str"""
    if tok[0] != 'str': raise TranslateError('expected a string literal, got %r' % (tok,))
    s = tok[1]
    m = re.match(r'b?r(#*)"', s)
    if m:
        return s[len(m.group(0)):len(s) - 1 - len(m.group(1))]
    if s.startswith('b'): s = s[1:]
    s = s[1:-1]
    out = []; i = 0
    while i < len(s):
        c = s[i]
        if c != '\\':
            out.append(c); i += 1; continue
        e = s[i+1]
        if e == 'x':
            out.append(chr(int(s[i+2:i+4], 16))); i += 4
        elif e == 'u':
            j = s.index('}', i)
            out.append(chr(int(s[i+3:j], 16))); i = j + 1
        elif e in 'nrt0\\\'"':
            out.append({'n': '\n', 'r': '\r', 't': '\t', '0': '\0', '\\': '\\', "'": "'", '"': '"'}[e]); i += 2
        else:
            raise TranslateError('string escape \\%s unsupported' % e)
    return ''.join(out)

def coq_str(s):
    return '[' + '; '.join(str(ord(c)) for c in s) + ']'

def subst_fields(toks, mapping):
    """replace token runs like `col . r` by a single identifier (translate_expr has no field access)"""
    out = []; i = 0
    while i < len(toks):
        for pat, name in mapping:
            if [t[1] for t in toks[i:i+len(pat)]] == pat:
                out.append(('id', name)); i += len(pat); break
        else:
            out.append(toks[i]); i += 1
    return out

def chan(out, name, var, toks, ty='u8', argty='u8'):
    c, t = translate_expr(toks, {var: argty}, {})
    if t != ty: raise TranslateError('%s: channel expression has type %s, expected %s' % (name, t, ty))
    out.append('Definition %s (%s : N) : N := %s.' % (name, var, c))

def parse_colors(toks, what):
    """[Color { name: None, r: .., g: .., b: .. }, …] -> [(r,g,b)…]"""
    if toks[0][1] != '[' or toks[-1][1] != ']': raise TranslateError('%s: not an array literal' % what)
    body = toks[1:-1]
    res = []; i = 0
    while i < len(body):
        want = ['Color', '{', 'name', ':', 'None', ',', 'r', ':', None, ',', 'g', ':', None, ',', 'b', ':', None, ',', '}']
        vals = []
        for k, w in enumerate(want):
            if i + k >= len(body): raise TranslateError('%s: truncated Color literal' % what)
            t = body[i + k]
            if w is None:
                vals.append(parse_num(t))
            elif t[1] != w:
                raise TranslateError('%s: unexpected `%s` in Color literal (expected `%s`)' % (what, t[1], w))
        res.append(tuple(vals)); i += len(want)
        if i < len(body):
            if body[i][1] != ',': raise TranslateError('%s: expected `,` between colours' % what)
            i += 1
    return res

def coq_rgbs(cs):
    return '[' + '; '.join('(%d, %d, %d)' % c for c in cs) + ']'

FROM63_T = """
let mut colors = Vec :: new ( ) ;
let mut o = 0 ;
while o < pal . len ( ) {
    let r = pal [ o ] ;
    let g = pal [ o + 1 ] ;
    let b = pal [ o + 2 ] ;
    colors . push ( Color { name : None , r : $ER , g : $EG , b : $EB , } ) ;
    o += 3 ;
}
Palette { title : String :: new ( ) , description : String :: new ( ) , author : String :: new ( ) , colors , old_checksum : 0 , checksum : 0 , }
"""
FROM_T = FROM63_T   # Palette::from has the same skeleton with identity channel expressions
ASVEC63_T = """
let mut res = Vec :: with_capacity ( 3 * self . colors . len ( ) ) ;
for col in & self . colors { res . push ( $RR ) ; res . push ( $RG ) ; res . push ( $RB ) ; }
res
"""
FROM_EGA_T = """
let mut colors = Vec :: new ( ) ;
for i in EGA_COLOR_OFFSETS {
    let o = 3 * i ;
    let r = pal [ o ] ;
    let g = pal [ o + 1 ] ;
    let b = pal [ o + 2 ] ;
    colors . push ( Color :: new ( $ER , $EG , $EB ) ) ;
}
Palette :: from_slice ( & colors )
"""
TO_EGA_T = """
let mut ega_colors = EGA_PALETTE . to_vec ( ) ;
for i in 0 .. $N16 {
    if i >= palette . len ( ) { break ; }
    ega_colors [ EGA_COLOR_OFFSETS [ i ] ] = palette . get_color ( i as u32 ) ;
}
let mut res = Vec :: with_capacity ( 3 * 64 ) ;
for col in ega_colors {
    let ( r , g , b ) = col . get_rgb ( ) ;
    res . push ( $RR ) ; res . push ( $RG ) ; res . push ( $RB ) ;
}
res
"""
GET_RGB_T = """
if color & ( 1 << 31 ) != 0 { return ( $DR , $DG , $DB ) ; }
if color >= self . colors . len ( ) as u32 { ( 0 , 0 , 0 ) }
else { let c = & self . colors [ color as usize ] ; ( c . r , c . g , c . b ) }
"""
GET_COLOR_T = """
if color & ( 1 << 31 ) != 0 { return Color :: new ( $DR , $DG , $DB ) ; }
if color as usize >= self . colors . len ( ) { return Color :: new ( 0 , 0 , 0 ) ; }
self . colors [ color as usize ] . clone ( )
"""
INSERT_T = """
for i in 0 .. self . colors . len ( ) {
    let col = self . colors [ i ] . clone ( ) ;
    if col . r == color . r && col . g == color . g && col . b == color . b { return i as u32 ; }
}
self . colors . push ( color ) ;
( self . colors . len ( ) - 1 ) as u32
"""

HEAD = 'let mut res = String :: new ( ) ;\n'
TAIL = 'return res . as_bytes ( ) . to_vec ( ) ;\n'
def push_fmt(hole, args): return 'res . push_str ( format ! ( %s , %s ) . as_str ( ) ) ;\n' % (hole, args)
# $AT / $AA / $AD / $AC / $AM: the text argument of the call, parsed by text_arg (verbatim or through single_line)
META = (push_fmt('$FT', '$AT') + push_fmt('$FA', '$AA') + push_fmt('$FD', '$AD')
        + push_fmt('$FN', 'self . colors . len ( )'))
SINGLE_LINE_SIG = 'fn single_line ( text : & str ) -> String'
SINGLE_LINE_T = 'text . replace ( [ $CHARS ] , $TO )'
EXPORT_T = {
    'Hex': HEAD + 'for c in & self . colors { ' + push_fmt('$FC', 'c . r , c . g , c . b') + '}\n' + TAIL,
    'Pal': HEAD + 'res . push_str ( $L0 ) ;\nres . push_str ( $L1 ) ;\n' + push_fmt('$FN', 'self . colors . len ( )')
           + 'for c in & self . colors { ' + push_fmt('$FC', 'c . r , c . g , c . b') + '}\n' + TAIL,
    'Gpl': HEAD + 'res . push_str ( $L0 ) ;\n' + META
           + 'for c in & self . colors { ' + push_fmt('$FC', 'c . r , c . g , c . b , $AC') + '}\n' + TAIL,
    'Ice': HEAD + 'res . push_str ( $L0 ) ;\n' + META
           + 'for c in & self . colors { if let Some ( name ) = c . name . as_ref ( ) { res . push_str ( format ! ( $FM ) . as_str ( ) ) ; } '
           + push_fmt('$FC', 'c . r , c . g , c . b') + '}\n' + TAIL,
    'Txt': HEAD + 'res . push_str ( $L0 ) ;\n' + META
           + 'for c in & self . colors { ' + push_fmt('$FC', 'c . r , c . g , c . b ,') + '}\n' + TAIL,
}
# format hole -> (argument hole, the text the call must print)
TEXT_HOLES = {'FT': ('AT', 'title'), 'FA': ('AA', 'author'), 'FD': ('AD', 'description')}
RGB_ARGS = [('r', 'num'), ('g', 'num'), ('b', 'num')]
# argument kinds: num = unsigned integer; str = a String printed as it is; sstr = a String passed through single_line
SPEC_FN = {('', 'num'): 'fmt_dec', ('3', 'num'): 'fmt_dec_w3', ('02x', 'num'): 'fmt_hex2', ('', 'str'): 'fmt_str', ('', 'sstr'): 'fmt_str'}

def text_arg(toks, field, what, local=False):
    """the text argument of a `format!` call: `self.<field>` (or the local `<field>`) -> (field, 'str');
    `single_line(&self.<field>)` (or `single_line(<field>)`) -> (field, 'sstr')"""
    t = norm_text(toks)
    plain = field if local else 'self . ' + field
    if t == plain: return (field, 'str')
    if t == 'single_line ( %s%s )' % ('' if local else '& ', plain): return (field, 'sstr')
    raise TranslateError('%s: the text argument is `%s`; expected `%s`, verbatim or through single_line' % (what, t, plain))

def split_top(toks):
    """split a token run at its top-level commas"""
    parts = [[]]; depth = 0
    for t in toks:
        if t[0] == 'p' and t[1] in '([{': depth += 1
        if t[0] == 'p' and t[1] in ')]}': depth -= 1
        if depth == 0 and t[1] == ',' and t[0] == 'p': parts.append([])
        else: parts[-1].append(t)
    return parts

def printer(name, fmt, args, inline=None):
    """format string + positional args -> Gallina definition text"""
    pieces = []; pos = 0; k = 0; params = list(args)
    for m in re.finditer(r'\{\{|\}\}|\{([A-Za-z_][A-Za-z0-9_]*)?(?::([^}]*))?\}', fmt):
        lit = fmt[pos:m.start()]; pos = m.end()
        if lit: pieces.append(coq_str(lit))
        if m.group(0) == '{{': pieces.append(coq_str('{')); continue
        if m.group(0) == '}}': pieces.append(coq_str('}')); continue
        ident, spec = m.group(1), m.group(2) or ''
        if ident:
            if not inline or ident not in inline: raise TranslateError('%s: inline argument {%s} unknown' % (name, ident))
            arg = (ident, inline[ident])
            if arg not in params: params.append(arg)
        else:
            if k >= len(args): raise TranslateError('%s: more placeholders than arguments in %r' % (name, fmt))
            arg = args[k]; k += 1
        fn = SPEC_FN.get((spec, arg[1]))
        if fn is None: raise TranslateError('%s: format spec {:%s} on a %s argument is outside the translated subset' % (name, spec, arg[1]))
        pieces.append('%s (single_line %s)' % (fn, arg[0]) if arg[1] == 'sstr' else '%s %s' % (fn, arg[0]))
    if '{' in fmt[pos:] or '}' in fmt[pos:]: raise TranslateError('%s: unparsed braces in %r' % (name, fmt))
    if k != len(args): raise TranslateError('%s: %d arguments but %d placeholders in %r' % (name, len(args), k, fmt))
    if fmt[pos:]: pieces.append(coq_str(fmt[pos:]))
    ps = ' '.join('(%s : %s)' % (a, 'N' if t == 'num' else 'list N') for a, t in params)
    return 'Definition %s %s: list N := %s.' % (name, ps + ' ' if ps else '', ' ++ '.join(pieces) if pieces else '[]')

def match_arms(toks, what):
    """`match format { PaletteFormat :: X => { … } … }` -> {X: body tokens}"""
    arms = {}
    i = 0
    while i < len(toks) - 4:
        if [t[1] for t in toks[i:i+3]] == ['PaletteFormat', '::', toks[i+2][1]] and toks[i+3][1] == '=>':
            name = toks[i+2][1]
            if toks[i+4][1] == '{':
                e = match_close(toks, i + 4)
                arms[name] = toks[i+5:e]; i = e + 1; continue
            if toks[i+4][1] == 'match':
                # `=> match String::from_utf8(..) { Ok(data) => { … } Err(err) => … },`
                j = i + 5
                while toks[j][1] != '{': j = match_close(toks, j) + 1 if toks[j][1] in '([' else j + 1
                e = match_close(toks, j)
                arms[name] = toks[j+1:e]; i = e + 1; continue
        i += 1
    return arms

def find_regexes(src):
    res = {}
    t = src.toks
    for i in range(len(t) - 12):
        if t[i] == ('id', 'static') and t[i+1] == ('id', 'ref') and norm_text(t[i+3:i+10]) == ': Regex = Regex :: new (':
            res[t[i+2][1]] = decode_str(t[i+10])
    return res

def unicode_tables(repo):
    lock = os.path.join(repo, 'Cargo.lock')
    if not os.path.exists(lock):
        lock = os.path.join(os.path.dirname(__file__), '..', 'harness', 'Cargo.lock')
    txt = open(lock).read()
    m = re.search(r'name = "regex-syntax"\nversion = "([^"]+)"', txt)
    if not m: raise TranslateError('regex-syntax not found in Cargo.lock')
    ver = m.group(1)
    home = os.environ.get('CARGO_HOME', os.path.expanduser('~/.cargo'))
    cands = glob.glob(os.path.join(home, 'registry', 'src', '*', 'regex-syntax-' + ver, 'src', 'unicode_tables'))
    if not cands: raise TranslateError('sources of regex-syntax %s not found under %s' % (ver, home))
    out = {}
    for fname, const in (('perl_space.rs', 'WHITE_SPACE'), ('perl_decimal.rs', 'DECIMAL_NUMBER')):
        s = Source(os.path.join(cands[0], fname))
        ty, val = s.find_const(const)
        if val[0][1] != '&': raise TranslateError('%s: unexpected table form' % const)
        rng = parse_array(val[1:])
        if not all(isinstance(r, list) and len(r) == 2 and r[0] <= r[1] for r in rng):
            raise TranslateError('%s: not a list of ranges' % const)
        out[const] = rng
    return ver, out

def generate(repo):
    src = Source(os.path.join(repo, 'src/palette_handling.rs'))
    art = Source(os.path.join(repo, 'src/formats/artworx.rs'))
    out = ['(* GENERATED by translator/gen_palette.py from src/palette_handling.rs, src/formats/artworx.rs and the',
           '   Unicode class tables of regex-syntax -- do not edit *)',
           'From Coq Require Import NArith List.\nFrom IE Require Import Lib.Tbl Lib.C16Lib.\nImport ListNotations.\nLocal Open Scope N_scope.\n']
    impl = src.find_block('impl', 'Palette')
    # ---- regexes ---------------------------------------------------------------------------------
    rx = find_regexes(src)
    for name, want in EXPECTED_REGEX.items():
        if name not in rx: raise TranslateError('regex %s no longer defined' % name)
        if rx[name] != want:
            raise TranslateError('regex %s is now %r; the hand-written matcher of Model/PaletteFiles.v implements %r' % (name, rx[name], want))
        out.append('(* %s = %s  (matcher: Model/PaletteFiles.v) *)' % (name, want.replace('*)', '* )')))
    ver, tabs = unicode_tables(repo)
    out.append('\n(* regex-syntax %s: the classes behind \\s and \\d *)' % ver)
    for const, rng in tabs.items():
        out.append('Definition %s : list (N * N) := [%s].' % (const, '; '.join('(%d, %d)' % (a, b) for a, b in rng)))
    # ---- index functions: skeletons pinned, direct-RGB channel expressions translated --------------
    sig, body = src.find_fn('get_rgb', within=impl)
    if norm_text(sig) != 'fn get_rgb ( & self , color : u32 ) -> ( u8 , u8 , u8 )': raise TranslateError('Palette::get_rgb signature changed')
    h = match_template(GET_RGB_T, body)
    out.append('')
    for k, nm in (('DR', 'get_rgb_direct_r'), ('DG', 'get_rgb_direct_g'), ('DB', 'get_rgb_direct_b')):
        chan(out, nm, 'color', h[k], argty='u32')
    sig, body = src.find_fn('get_color', within=impl)
    h = match_template(GET_COLOR_T, body)
    for k, nm in (('DR', 'get_color_direct_r'), ('DG', 'get_color_direct_g'), ('DB', 'get_color_direct_b')):
        chan(out, nm, 'color', h[k], argty='u32')
    sig, body = src.find_fn('insert_color', within=impl)
    match_template(INSERT_T, body)
    # ---- 6-bit codec ----------------------------------------------------------------------------------
    sig, body = src.find_fn('from_63', within=impl)
    if norm_text(sig) != 'fn from_63 ( pal : & [ u8 ] ) -> Self': raise TranslateError('Palette::from_63 signature changed')
    h = match_template(FROM63_T, body)
    for k, v in (('ER', 'r'), ('EG', 'g'), ('EB', 'b')): chan(out, 'from63_' + v, v, h[k])
    sig, body = src.find_fn('from', within=impl)
    h = match_template(FROM_T.replace('let r = pal [ o ] ;\n    let g = pal [ o + 1 ] ;\n    let b = pal [ o + 2 ] ;\n', ''), body)
    if [norm_text(h[k]) for k in ('ER', 'EG', 'EB')] != ['pal [ o ]', 'pal [ o + 1 ]', 'pal [ o + 2 ]']:
        raise TranslateError('Palette::from no longer copies the three channels')
    sig, body = src.find_fn('as_vec_63', within=impl)
    h = match_template(ASVEC63_T, body)
    fields = [(['col', '.', 'r'], 'r'), (['col', '.', 'g'], 'g'), (['col', '.', 'b'], 'b')]
    for k, v in (('RR', 'r'), ('RG', 'g'), ('RB', 'b')): chan(out, 'to63_' + v, v, subst_fields(h[k], fields))
    sig, body = art.find_fn('from_ega_data')
    if norm_text(sig) != 'fn from_ega_data ( pal : & [ u8 ] ) -> Palette': raise TranslateError('from_ega_data signature changed')
    h = match_template(FROM_EGA_T, body)
    for k, v in (('ER', 'r'), ('EG', 'g'), ('EB', 'b')): chan(out, 'ega_from_' + v, v, h[k])
    sig, body = art.find_fn('to_ega_data')
    h = match_template(TO_EGA_T, body)
    for k, v in (('RR', 'r'), ('RG', 'g'), ('RB', 'b')): chan(out, 'ega_to_' + v, v, h[k])
    out.append('Definition ega_to_count : N := %d.' % parse_num(h['N16'][0]))
    ty, val = art.find_const('EGA_COLOR_OFFSETS')
    if norm_text(ty) != '[ usize ; 16 ]': raise TranslateError('EGA_COLOR_OFFSETS type changed')
    out.append('Definition EGA_COLOR_OFFSETS : list N := %s.' % coq_list(parse_array(val)))
    for const, n in (('DOS_DEFAULT_PALETTE', 16), ('EGA_PALETTE', 64)):
        ty, val = src.find_const(const)
        if norm_text(ty) != '[ Color ; %d ]' % n: raise TranslateError('%s type changed' % const)
        out.append('Definition %s : list (N * N * N) := %s.' % (const, coq_rgbs(parse_colors(val, const))))
    # ---- single_line: `text.replace([chars…], "to")` -----------------------------------------------------
    out.append('')
    try:
        sig, body = src.find_fn('single_line')
    except TranslateError:
        sig = None
    if sig is None:
        # no sanitising step in the source: the exporters can only print texts verbatim (text_arg rejects any other call)
        out.append('(* the source has no fn single_line *)')
        out.append('Definition single_line (text : list N) : list N := text.')
    else:
        if norm_text(sig) != SINGLE_LINE_SIG: raise TranslateError('single_line signature changed: %s' % norm_text(sig))
        h = match_template(SINGLE_LINE_T, body)
        chars = []
        for part in split_top(h['CHARS']):
            if len(part) != 1 or part[0][0] != 'char': raise TranslateError('single_line: the pattern is not an array of char literals')
            chars.append(parse_num(part[0]))
        if len(h['TO']) != 1: raise TranslateError('single_line: the replacement is not a string literal')
        out.append('(* fn single_line(text: &str) -> String { text.replace([chars], to) }: every occurrence of one of the characters is replaced *)')
        out.append('Definition single_line_chars : list N := %s.' % coq_list(chars))
        out.append('Definition single_line_to : list N := %s.' % coq_str(decode_str(h['TO'][0])))
        out.append('Definition single_line (text : list N) : list N := str_replace_chars single_line_chars single_line_to text.')
    # ---- exporters -----------------------------------------------------------------------------------
    sig, body = src.find_fn('export_palette', within=impl)
    arms = match_arms(body, 'export_palette')
    out.append('')
    for fmt in ('Hex', 'Pal', 'Gpl', 'Ice', 'Txt'):
        if fmt not in arms: raise TranslateError('export_palette: no arm for PaletteFormat::%s' % fmt)
        h = match_template(EXPORT_T[fmt], arms[fmt])
        lo = fmt.lower()
        for k in ('L0', 'L1'):
            if k in h: out.append('Definition exp_%s_%s : list N := %s.' % (lo, k.lower(), coq_str(decode_str(h[k][0]))))
        def emit(name, fmts, args, inline=None):
            """the printer of the call as written; when a text goes through single_line, also `<name>_verbatim`:
            the same format string on the text as it is (what the call printed before the sanitising step existed;
            used for the witness of the fixed finding and for `export_unchanged_without_breaks`)"""
            out.append(printer(name, fmts, args, inline))
            if any(k == 'sstr' for _, k in args):
                out.append(printer(name + '_verbatim', fmts, [(a, 'str' if k == 'sstr' else k) for a, k in args], inline))
        for k, nm in (('FT', 'title'), ('FA', 'author'), ('FD', 'description')):
            if k in h: emit('exp_%s_%s' % (lo, nm), decode_str(h[k][0]), [text_arg(h[TEXT_HOLES[k][0]], TEXT_HOLES[k][1], 'export_palette %s %s line' % (fmt, nm))])
        if 'FN' in h: emit('exp_%s_count' % lo, decode_str(h['FN'][0]), [('len', 'num')])
        if 'FM' in h:
            parts = split_top(h['FM'])
            if len(parts) == 1: emit('exp_%s_name' % lo, decode_str(parts[0][0]), [], inline={'name': 'str'})     # `{name}` inline
            elif len(parts) == 2 and len(parts[0]) == 1:
                emit('exp_%s_name' % lo, decode_str(parts[0][0]), [text_arg(parts[1], 'name', 'export_palette %s colour name line' % fmt, local=True)])
            else: raise TranslateError('export_palette %s: colour name line has an unexpected argument list' % fmt)
        cargs = list(RGB_ARGS)
        if 'AC' in h: cargs.append(text_arg(h['AC'], 'description', 'export_palette %s colour line' % fmt))
        emit('exp_%s_color' % lo, decode_str(h['FC'][0]), cargs)
    # ---- loaders: magic lines and comment characters ---------------------------------------------
    sig, body = src.find_fn('load_palette', within=impl)
    larms = match_arms(body, 'load_palette')
    out.append('')
    for fmt, magic, comment in (('Pal', True, False), ('Gpl', True, True), ('Ice', True, True), ('Txt', False, True), ('Hex', False, False)):
        if fmt not in larms: raise TranslateError('load_palette: no arm for PaletteFormat::%s' % fmt)
        t = larms[fmt]; lo = fmt.lower()
        mags = [decode_str(t[i+2]) for i in range(len(t) - 2) if t[i] == ('id', 'line') and t[i+1][1] == '!=' and t[i+2][0] == 'str']
        coms = [parse_num(t[i+4]) for i in range(len(t) - 5)
                if norm_text(t[i:i+4]) == 'line . starts_with (' and t[i+4][0] == 'char']
        if len(mags) != (1 if magic else 0): raise TranslateError('load_palette %s: expected %d magic line test(s), found %r' % (fmt, int(magic), mags))
        if len(coms) != (1 if comment else 0): raise TranslateError('load_palette %s: expected %d comment test(s), found %r' % (fmt, int(comment), coms))
        if magic: out.append('Definition ld_%s_magic : list N := %s.' % (lo, coq_str(mags[0])))
        if comment: out.append('Definition ld_%s_comment : N := %d.' % (lo, coms[0]))
    return {'PaletteSrc.v': '\n'.join(out) + '\n'}

if __name__ == '__main__':
    repo = os.environ.get('VERIF_REPO', '/repo')
    for k, v in generate(repo).items():
        print(v)
