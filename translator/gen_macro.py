"""Stage G for the macro nesting limit (C01 / C09 / C03 / C02): src/parsers/ansi/mod.rs -> coq/Gen/MacroLimit.v.

Generated (re-read from the working tree on every run):
  * `pub const MAX_MACRO_NESTING: usize = <literal>;`  ->  `Definition MAX_MACRO_NESTING : nat`
    (the nesting bound of Model/AnsiTok.v `astep` / `ansi_step` and of Model/Cost.v `macro_chars`).

Pinned (token templates; a change raises TranslateError = broken tie, the run escalates):
  * `Parser::invoke_macro_by_id` is the counter discipline the model's structural recursion stands for:
      lookup (unknown id: Ok) ; `if self.macro_nesting >= MAX_MACRO_NESTING { return Err(MacroNestingTooDeep) }` ;
      `self.macro_nesting += 1` ; replay loop (MacroNestingTooDeep from a replayed character: `break`, any other
      error: logged, the loop goes on) ; `self.macro_nesting -= 1` ; result
    with no `return` / `?` between the increment and the decrement, and exactly one increment and one decrement;
  * nothing else in the crate writes `macro_nesting` (so it is 0 whenever print_char is entered from outside:
    `ansi_step` starts every character with the full budget);
  * both call sites propagate the error with `?`;
  * the stack budget: MAX_MACRO_NESTING x 16 KiB per level (measured 10.4 KiB in the dev profile, see the fix commit)
    stays below 1 MiB, half of the 2 MiB stack of a spawned thread."""
import os, re, sys
sys.path.insert(0, os.path.join(os.path.dirname(__file__), '..'))
from vlib.rustsrc import *

PER_LEVEL_KIB = 16
BUDGET_KIB = 1024

BODY = ('let m = if let Some ( m ) = self . macros . get ( & ( id as usize ) ) { m . clone ( ) } else { return Ok ( ( ) ) ; } ; '
        'if self . macro_nesting >= MAX_MACRO_NESTING { return Err ( ParserError :: MacroNestingTooDeep ( MAX_MACRO_NESTING ) . into ( ) ) ; } '
        'self . macro_nesting += 1 ; '
        'let mut result = Ok ( ( ) ) ; '
        'for ch in m . chars ( ) { '
        'if let Err ( err ) = self . print_char ( buf , current_layer , caret , ch ) { '
        'if let Some ( ParserError :: MacroNestingTooDeep ( _ ) ) = err . downcast_ref :: < ParserError > ( ) { result = Err ( err ) ; break ; } '
        'log :: error ! ( "Error during macro invocation: {}" , err ) ; } } '
        'self . macro_nesting -= 1 ; '
        'result')

def limit(repo):
    src = Source(os.path.join(repo, 'src/parsers/ansi/mod.rs'))
    ty, v = src.find_const('MAX_MACRO_NESTING')
    if norm_text(ty) != 'usize': raise TranslateError('MAX_MACRO_NESTING: type changed to %s' % norm_text(ty))
    if len(v) != 1 or v[0][0] != 'num': raise TranslateError('MAX_MACRO_NESTING: not a literal: %s' % norm_text(v))
    return parse_num(v[0])

# fix fC: the macro size limit and the one function that expands repeat groups (token pin)
PUSH_GROUP = ('let count = count . max ( 0 ) as usize ; '
              'if rec . chars ( ) . count ( ) . saturating_add ( count . saturating_mul ( group . chars ( ) . count ( ) ) ) > MAX_MACRO_SIZE { '
              'return Err ( ParserError :: Error ( format ! ( "macro larger than {MAX_MACRO_SIZE} characters" ) ) . into ( ) ) ; } '
              'rec . push_str ( & group . repeat ( count ) ) ; Ok ( ( ) )')

def size_limit(repo):
    src = Source(os.path.join(repo, 'src/parsers/ansi/mod.rs'))
    ty, v = src.find_const('MAX_MACRO_SIZE')
    if norm_text(ty) != 'usize': raise TranslateError('MAX_MACRO_SIZE: type changed to %s' % norm_text(ty))
    if len(v) != 1 or v[0][0] != 'num': raise TranslateError('MAX_MACRO_SIZE: not a literal: %s' % norm_text(v))
    m = parse_num(v[0])
    if not (1 <= m <= (1 << 24)): raise TranslateError('MAX_MACRO_SIZE = %d: outside 1 ..= 16 Mi characters (the bound of C03 is in these terms)' % m)
    dcs = Source(os.path.join(repo, 'src/parsers/ansi/dcs.rs'))
    _, body = dcs.find_fn('push_repeat_group')
    if norm_text(body) != PUSH_GROUP:
        raise TranslateError('Parser::push_repeat_group changed (pinned token by token):\n  source: %s\n  pinned: %s' % (norm_text(body), PUSH_GROUP))
    hexm = norm_text(dcs.find_fn('parse_hex_macro_sequence')[1])
    if hexm.count('Self :: push_repeat_group ( & mut marco_rec , & repeat_rec , repeat_number ) ? ;') != 2 or 'push_str' in hexm \
       or hexm.count('if marco_rec . chars ( ) . count ( ) > MAX_MACRO_SIZE { return Err (') != 1:
        raise TranslateError('parse_hex_macro_sequence: repeat groups must be expanded by push_repeat_group only (twice) and the finished macro checked against MAX_MACRO_SIZE')
    return m

def generate(repo):
    path = os.path.join(repo, 'src/parsers/ansi/mod.rs')
    src = Source(path)
    n = limit(repo)
    msize = size_limit(repo)
    if n < 1: raise TranslateError('MAX_MACRO_NESTING = %d: no macro could be invoked at all' % n)
    if n * PER_LEVEL_KIB > BUDGET_KIB:
        raise TranslateError('MAX_MACRO_NESTING = %d: %d levels x %d KiB per level exceed the stack budget of %d KiB'
                             % (n, n, PER_LEVEL_KIB, BUDGET_KIB))
    sig, body = src.find_fn('invoke_macro_by_id')
    if 'EngineResult < ( ) >' not in norm_text(sig):
        raise TranslateError('invoke_macro_by_id no longer returns EngineResult<()>: %s' % norm_text(sig))
    if norm_text(body) != BODY:
        raise TranslateError('Parser::invoke_macro_by_id changed (the nesting counter discipline is pinned token by token):\n  source: %s\n  pinned: %s'
                             % (norm_text(body), BODY))
    # every other mention of the counter in the crate: the field declaration and its initialisation
    writes = []
    for root, _, files in os.walk(os.path.join(repo, 'src')):
        for fn in files:
            if not fn.endswith('.rs'): continue
            p = os.path.join(root, fn)
            for i, l in enumerate(open(p, errors='replace').read().splitlines()):
                code = l.split('//')[0]
                if 'macro_nesting' in code:
                    writes.append((os.path.relpath(p, repo), code.strip()))
    expected = sorted([('src/parsers/ansi/mod.rs', 'macro_nesting: usize,'), ('src/parsers/ansi/mod.rs', 'macro_nesting: 0,'),
                       ('src/parsers/ansi/mod.rs', 'if self.macro_nesting >= MAX_MACRO_NESTING {'),
                       ('src/parsers/ansi/mod.rs', 'self.macro_nesting += 1;'), ('src/parsers/ansi/mod.rs', 'self.macro_nesting -= 1;')])
    if sorted(writes) != expected:
        raise TranslateError('uses of Parser::macro_nesting changed: %s' % sorted(writes))
    # call sites: CSI id * z (ansi_commands.rs invoke_macro) and the invocation inside a DCS string (print_char)
    cmds = Source(os.path.join(repo, 'src/parsers/ansi/ansi_commands.rs'))
    _, inv = cmds.find_fn('invoke_macro')
    want = ('self . state = EngineState :: Default ; if let Some ( id ) = self . parsed_numbers . first ( ) { '
            'self . invoke_macro_by_id ( buf , current_layer , caret , * id ) ? ; } Ok ( CallbackAction :: Update )')
    if norm_text(inv) != want:
        raise TranslateError('Parser::invoke_macro changed: %s' % norm_text(inv))
    calls = re.findall(r'self\.invoke_macro_by_id\([^;]*;', src.text)
    if calls != ['self.invoke_macro_by_id(buf, current_layer, caret, *self.parsed_numbers.first().unwrap())?;']:
        raise TranslateError('call sites of invoke_macro_by_id in ansi/mod.rs changed: %s' % calls)
    txt = ('(* GENERATED by translator/gen_macro.py from src/parsers/ansi/mod.rs - do not edit. *)\n'
           '(* pub const MAX_MACRO_NESTING: usize = %d;   deepest nesting of macro invocations (Parser::invoke_macro_by_id) *)\n'
           'From Coq Require Import ZArith.\n'
           'Definition MAX_MACRO_NESTING : nat := %d%%nat.\n'
           '(* pub const MAX_MACRO_SIZE: usize = %d;   largest hex macro in characters (Parser::push_repeat_group, parse_hex_macro_sequence) *)\n'
           'Definition MAX_MACRO_SIZE : Z := %d%%Z.\n' % (n, n, msize, msize))
    return {'MacroLimit.v': txt}

if __name__ == '__main__':
    repo = sys.argv[1] if len(sys.argv) > 1 else os.environ.get('VERIF_REPO', '/repo')
    for k, v in generate(repo).items():
        print(k); print(v)
