"""Stage G for C02 (text loaders): the parser models of C01 re-instantiated over the FILE-buffer core.

The ANSI parser, its four wrappers, ASCII, ATASCII and PETSCII never look at `Buffer::is_terminal_buffer` themselves:
only the functions of the terminal core do (Model/TermCore.v = the terminal branch, Model/FileCore.v = the file branch,
same names).  So the parser models over a file buffer are, literally, the text of coq/Model/{AnsiTok,Emu,Petscii}.v with
`Model.TermCore` replaced by `Model.FileCore` in the import line; likewise the proof scripts of
coq/Proofs/{AnsiSafeW,EmuSafeW}.v (one character / one stream on the weak invariant) over `Proofs.FileInv`.  This module
writes those copies into coq/Gen/ on every run, so they can never drift from C01's models:

   Model/AnsiTok.v     -> Gen/FileAnsiTok.v    (+ the `min(num, max_effective_scrolls)` of CSI S / CSI T, which C01's
                                                terminal model leaves out as semantically void; on a file buffer the
                                                region grows with every scroll, so the clamp is observable)
   Model/Emu.v         -> Gen/FileEmu.v
   Model/Petscii.v     -> Gen/FilePetscii.v
   Proofs/AnsiSafeW.v  -> Gen/FileAnsiSafeW.v
   Proofs/EmuSafeW.v   -> Gen/FileEmuSafeW.v   (up to, not including, `Lemma init_W`: the initial states of the loaders are
                                                in Model/FileLoad.v)
   Proofs/MacroFuel.v  -> Gen/FileMacroFuel.v  (the nesting limit only cuts; a self-invoking macro reaches every limit)

It also pins the source: the set of functions that read `is_terminal_buffer` must be exactly the set Model/FileCore.v
models (a new reader of the flag is a new difference between terminal and file buffers)."""
import os, re, sys
sys.path.insert(0, os.path.join(os.path.dirname(__file__), '..'))
from vlib.rustsrc import TranslateError

COQ = os.path.join(os.path.dirname(os.path.abspath(__file__)), '..', 'coq')

IMPORT_MAP = {
    'Model.TermCore': 'Model.FileCore',
    'Model.AnsiTok': 'Gen.FileAnsiTok',
    'Model.Emu': 'Gen.FileEmu',
    'Model.Petscii': 'Gen.FilePetscii',
    'Proofs.AnsiProofs': 'Proofs.FileAnsiLemmas',
    'Proofs.EmuProofs': 'Proofs.FileEmuLemmas',
    'Proofs.WeakInv': 'Proofs.FileInv',
    'Proofs.AnsiSafeW': 'Gen.FileAnsiSafeW',
    'Proofs.EmuSafeW': 'Gen.FileEmuSafeW',
    'Proofs.MacroFuel': 'Gen.FileMacroFuel',
}
KEEP = {'Proofs.TermProofs', 'Lib.C17Lib', 'Model.Font', 'Model.Base64', 'Proofs.FontDcsSafe', 'Gen.MacroLimit'}

# (source, target, must contain Model.TermCore in an import, cut marker or None)
FILES = [
    ('Model/AnsiTok.v', 'FileAnsiTok.v', None),
    ('Model/Emu.v', 'FileEmu.v', None),
    ('Model/Petscii.v', 'FilePetscii.v', None),
    ('Proofs/AnsiSafeW.v', 'FileAnsiSafeW.v', None),
    ('Proofs/EmuSafeW.v', 'FileEmuSafeW.v', 'Lemma init_W'),
    ('Proofs/MacroFuel.v', 'FileMacroFuel.v', None),
]

# CSI S / CSI T: the clamp of the code (src/parsers/ansi/mod.rs: `let num = min(num, buf.max_effective_scrolls(current_layer));`)
SCROLL_PATCH = [
    ('ok (iter_tot (first_or ns 1) scroll_up t) d', 'ok (iter_tot (Z.min (first_or ns 1) (max_effective_scrolls t)) scroll_up t) d'),
    ('ok (iter_tot (first_or ns 1) scroll_down t) d', 'ok (iter_tot (Z.min (first_or ns 1) (max_effective_scrolls t)) scroll_down t) d'),
]

# every reader of the flag in the crate (file, enclosing fn); Model/FileCore.v models exactly these
FLAG_READERS = {
    ('src/buffers.rs', 'get_first_visible_line'), ('src/buffers.rs', 'get_first_editable_line'),
    ('src/buffers.rs', 'get_first_editable_column'), ('src/buffers.rs', 'get_last_editable_column'),
    ('src/buffers.rs', 'needs_scrolling'), ('src/buffers.rs', 'get_last_editable_line'),
    ('src/buffers.rs', 'get_char'),            # default vs invisible blank: both (' ', 0) in the cell projection
    ('src/parsers/mod.rs', 'lf'), ('src/parsers/mod.rs', 'ff'), ('src/parsers/mod.rs', 'print_char'),
    ('src/parsers/mod.rs', 'clear_screen'),
    ('src/terminal_state.rs', 'limit_caret_pos'),
}

def rewrite_imports(src, name):
    seen = set()
    def sentence(m):
        body = m.group(2)
        def tok(t):
            w = t.group(0)
            if w in IMPORT_MAP:
                seen.add(w); return IMPORT_MAP[w]
            if w in KEEP: return w
            raise TranslateError('%s: import of %s has no file-buffer counterpart' % (name, w))
        return m.group(1) + re.sub(r'[A-Z][A-Za-z0-9]*\.[A-Za-z0-9_]+', tok, body) + '.'
    out, n = re.subn(r'(From IE Require(?: Import)?)((?:\s+[A-Za-z0-9_.]+)+)\s*\.', sentence, src)
    if n == 0 or 'Model.TermCore' not in seen:
        raise TranslateError('%s: no `From IE Require Import Model.TermCore ...` sentence found' % name)
    if re.search(r'\b(TermCore|AnsiTok|Emu|Petscii|WeakInv|AnsiSafeW|EmuSafeW|MacroFuel)\.[a-z_]', re.sub(r'\(\*.*?\*\)', '', out, flags=re.S)):
        raise TranslateError('%s: qualified reference to a terminal-buffer module' % name)
    return out

def flag_readers(repo):
    """(file, enclosing fn) of every READ of the flag (assignments, the field declaration and struct literals are skipped)"""
    found = set()
    for root, _, files in os.walk(os.path.join(repo, 'src')):
        for fn in files:
            if not fn.endswith('.rs'): continue
            path = os.path.join(root, fn)
            rel = os.path.relpath(path, repo)
            lines = open(path, errors='replace').read().splitlines()
            for i, l in enumerate(lines):
                if 'is_terminal_buffer' not in l or l.strip().startswith('//'): continue
                if re.search(r'is_terminal_buffer\s*(=[^=]|:)', l): continue
                for j in range(i, -1, -1):
                    mm = re.search(r'\bfn\s+([A-Za-z_0-9]+)', lines[j])
                    if mm:
                        found.add((rel, mm.group(1))); break
    return found

def generate(repo):
    readers = flag_readers(repo)
    if readers != FLAG_READERS:
        raise TranslateError('readers of Buffer::is_terminal_buffer changed: new %s, gone %s (Model/FileCore.v models the file branch of each reader)'
                             % (sorted(readers - FLAG_READERS), sorted(FLAG_READERS - readers)))
    ansi = open(os.path.join(repo, 'src/parsers/ansi/mod.rs')).read()
    if len(re.findall(r'let num = min\(num, buf\.max_effective_scrolls\(current_layer\)\);', ansi)) != 2:
        raise TranslateError('src/parsers/ansi/mod.rs: CSI S / CSI T no longer clamp with max_effective_scrolls (twice)')
    out = {}
    for src_rel, target, cut in FILES:
        src = open(os.path.join(COQ, src_rel)).read()
        if cut is not None:
            k = src.find(cut)
            if k < 0: raise TranslateError('%s: marker `%s` not found' % (src_rel, cut))
            src = src[:k]
        txt = rewrite_imports(src, src_rel)
        if src_rel == 'Model/AnsiTok.v':
            for a, b in SCROLL_PATCH:
                if txt.count(a) != 1: raise TranslateError('Model/AnsiTok.v: `%s` expected exactly once' % a)
                txt = txt.replace(a, b)
        head = ('(* GENERATED by translator/gen_filemode.py from coq/%s - do not edit.\n'
                '   The same text over the file-buffer core (Model/FileCore.v) instead of the terminal core (Model/TermCore.v). *)\n' % src_rel)
        out[target] = head + txt
    return out

if __name__ == '__main__':
    repo = sys.argv[1] if len(sys.argv) > 1 else os.environ.get('VERIF_REPO', '/repo')
    for k, v in generate(repo).items():
        print(k, len(v))
