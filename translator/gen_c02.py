"""Stage G for C02: the extension table `Buffer::from_bytes` dispatches on -> coq/Gen/C02Ext.v.

Sources: src/formats/mod.rs (`FORMATS`: the order of the `Box::<…>::default()` entries), each format's
`get_file_extension` / `get_alt_extensions` string literals, and the shape of the dispatch in `Buffer::from_bytes`
(src/buffers.rs): lower-cased extension, first entry whose extension or alternative extension is equal, ANSI as the
fallback, the content slice `&bytes[..len]` with `len -= sauce.sauce_header_len`.  Regenerated on every run.

Also coq/Gen/C02Pal.v: the variants of `enum PaletteFormat` (src/palette_handling.rs) and, for every variant, the class of
its arm in `Palette::load_palette` and `Palette::export_palette`: 0 = a reader / writer (the five text formats, modelled by
C16's Model/PaletteFiles.v; gen_palette pins their shape), 1 = refuses (`return Err(..)`; `log::error!(..); Vec::new()`),
2 = panics (`todo!()`, `unimplemented!()`, `panic!(..)`).  Any other arm is a G failure.

fix fB: a census of the statements of the text-loader path that write the font table (font_sources): every font comes from
BitFont::from_bytes (hypothesis LoadedFont of the text-loader theorems)."""
import os, re, sys
sys.path.insert(0, os.path.join(os.path.dirname(__file__), '..'))
from vlib.rustsrc import TranslateError

# type named in FORMATS -> (source file, constructor of Model/C02Dispatch.fmt)
TYPES = {'ansi::Ansi': ('ansi.rs', 'FAnsi'), 'icy_draw::IcyDraw': ('icy_draw.rs', 'FIcy'), 'IceDraw': ('ice_draw.rs', 'FIdf'),
         'Bin': ('bin.rs', 'FBin'), 'XBin': ('xbinary.rs', 'FXb'), 'TundraDraw': ('tundra.rs', 'FTnd'), 'PCBoard': ('pcboard.rs', 'FPcb'),
         'Avatar': ('avatar.rs', 'FAvt'), 'ascii::Ascii': ('ascii.rs', 'FAsc'), 'artworx::Artworx': ('artworx.rs', 'FAdf'),
         'ctrla::CtrlA': ('ctrla.rs', 'FMsg'), 'renegade::Renegade': ('renegade.rs', 'FRen'), 'seq::Seq': ('seq.rs', 'FSeq'),
         'atascii::Atascii': ('atascii.rs', 'FAta')}

def fn_body(text, name):
    m = re.search(r'fn\s+%s\s*\([^)]*\)\s*->\s*[^{]+\{' % name, text)
    if not m: return None
    i = m.end(); depth = 1
    while depth and i < len(text):
        depth += {'{': 1, '}': -1}.get(text[i], 0); i += 1
    return text[m.end():i - 1]

def table(repo):
    mod = open(os.path.join(repo, 'src/formats/mod.rs')).read()
    m = re.search(r'pub static ref FORMATS\s*:\s*\[Box<dyn OutputFormat>;\s*(\d+)\]\s*=\s*\[(.*?)\];', mod, re.S)
    if not m: raise TranslateError('FORMATS table not found in src/formats/mod.rs')
    entries = re.findall(r'Box::<([\w:]+)>::default\(\)', m.group(2))
    if len(entries) != int(m.group(1)): raise TranslateError('FORMATS: %d entries parsed, %s declared' % (len(entries), m.group(1)))
    out = []
    for e in entries:
        if e not in TYPES: raise TranslateError('FORMATS: unknown format type %s (no loader model)' % e)
        fname, ctor = TYPES[e]
        text = open(os.path.join(repo, 'src/formats', fname)).read()
        b = fn_body(text, 'get_file_extension')
        if b is None or not re.fullmatch(r'\s*"([a-z0-9]+)"\s*', b): raise TranslateError('%s: get_file_extension is not a string literal' % fname)
        exts = [re.fullmatch(r'\s*"([a-z0-9]+)"\s*', b).group(1)]
        a = fn_body(text, 'get_alt_extensions')
        if a is not None:
            if not re.fullmatch(r'\s*vec!\s*\[(\s*"[a-z0-9]+"\s*\.to_string\(\)\s*,?)*\s*\]\s*', a):
                raise TranslateError('%s: get_alt_extensions is not a vec of string literals' % fname)
            exts += re.findall(r'"([a-z0-9]+)"', a)
        out.append((ctor, exts))
    return out

DISPATCH = re.compile(
    r'let ext = ext\.to_ascii_lowercase\(\);\s*for fmt in &\*FORMATS \{\s*if fmt\.get_file_extension\(\) == ext \|\| '
    r'fmt\.get_alt_extensions\(\)\.contains\(&ext\) \{\s*return fmt\.load_buffer\(file_name, &bytes\[\.\.len\], sauce_data\);\s*\}\s*\}\s*'
    r'crate::Ansi::default\(\)\.load_buffer\(file_name, &bytes\[\.\.len\], sauce_data\)')

PAL_CTOR = {'Ice': 'PIce', 'Hex': 'PHex', 'Pal': 'PPal', 'Gpl': 'PGpl', 'Txt': 'PTxt', 'Ase': 'PAse'}
LOAD_ARM = [(r'match String::from_utf8\(bytes\.to_vec\(\)\) \{', 0), (r'\{\s*match String::from_utf8\(bytes\.to_vec\(\)\) \{', 0),
            (r'return Err\(anyhow::anyhow!\("[^"]*"\)\),', 1), (r'(todo|unimplemented)!\(\),', 2), (r'panic!\(', 2)]
EXPORT_ARM = [(r'\{\s*let mut res = String::new\(\);', 0), (r'\{\s*log::error!\("[^"]*"\);\s*Vec::new\(\)\s*\}', 1),
              (r'Vec::new\(\),', 1), (r'(todo|unimplemented)!\(\),', 2), (r'panic!\(', 2)]

def palette_arms(repo):
    text = open(os.path.join(repo, 'src/palette_handling.rs')).read()
    m = re.search(r'pub enum PaletteFormat \{([^}]*)\}', text)
    if not m: raise TranslateError('enum PaletteFormat not found in src/palette_handling.rs')
    variants = [v.strip() for v in m.group(1).split(',') if v.strip()]
    if variants != list(PAL_CTOR): raise TranslateError('enum PaletteFormat is now %s; the palette model knows %s' % (variants, list(PAL_CTOR)))
    res = {}
    for fn, sig, pats in (('load_palette', r'\(format: &PaletteFormat, bytes: &\[u8\]\) -> anyhow::Result<Self>', LOAD_ARM),
                          ('export_palette', r'\(&self, format: &PaletteFormat\) -> Vec<u8>', EXPORT_ARM)):
        if not re.search(r'pub fn %s%s \{' % (fn, sig), text): raise TranslateError('Palette::%s: signature changed' % fn)
        body = fn_body(text, fn)
        if body is None or not re.match(r'\s*(let mut \w+ = (Vec|String)::new\(\);\s*)*match format \{', body):
            raise TranslateError('Palette::%s is no longer a `match format`' % fn)
        arms = {}
        for v in variants:
            hits = [mm for mm in re.finditer(r'PaletteFormat::%s =>\s*' % v, body)]
            if len(hits) != 1: raise TranslateError('Palette::%s: %d arms for PaletteFormat::%s' % (fn, len(hits), v))
            rest = body[hits[0].end():]
            cls = [c for pat, c in pats if re.match(pat, rest)]
            if not cls: raise TranslateError('Palette::%s: the arm of PaletteFormat::%s has no modelled shape: %s' % (fn, v, rest[:60].replace('\n', ' ')))
            arms[v] = cls[0]
        res[fn] = arms
    return variants, res

def generate_pal(repo):
    variants, arms = palette_arms(repo)
    out = ['(* GENERATED by translator/gen_c02.py from src/palette_handling.rs (enum PaletteFormat and the arms of',
           '   Palette::load_palette / Palette::export_palette) -- do not edit *)',
           'From Coq Require Import NArith.\nLocal Open Scope N_scope.\n',
           '(* enum PaletteFormat, declaration order *)',
           'Inductive palette_format := %s.\n' % ' | '.join(PAL_CTOR[v] for v in variants),
           '(* class of the arm: 0 = reads / writes the format (model: Model/PaletteFiles.v), 1 = refuses (load: `return Err(..)`;',
           '   export: logs and returns an empty vector), 2 = panics (`todo!()` …) *)']
    for fn in ('load_palette', 'export_palette'):
        out.append('Definition %s_arm (f : palette_format) : N :=\n  match f with %s end.'
                   % (fn, ' | '.join('%s => %d' % (PAL_CTOR[v], arms[fn][v]) for v in variants)))
    return '\n'.join(out) + '\n'

# ---- fix fB: where a text loader gets the fonts of its buffer from ---------------------------------------------------------------
# Proofs/FileLoadProofs.v LoadedFont: "the size of font 0 is the size of a font BitFont::from_bytes returned".  Pinned here: every
# statement of the text-loader path (Buffer::new, set_sauce, the parsers, the eight text loaders) that puts a font into the font table
# takes it from BitFont::from_bytes - directly or through default() / from_ansi_font_page / from_sauce_name, whose arms are from_bytes
# calls on built-in data.  A new way of installing a font is a G failure (the hypothesis SaneOracle would no longer be about all fonts).
FONT_WRITERS = r'\b(set_font|set_font_table|append_font|remove_font|clear_font_table|font_iter_mut)\s*\('
def _code(path):
    """source text without comments and without the test module at the end"""
    t = open(path, encoding='utf-8', errors='replace').read()
    t = re.sub(r'//[^\n]*', '', t)
    k = t.find('#[cfg(test)]')
    return re.sub(r'\s+', ' ', t if k < 0 else t[:k])

def font_sources(repo):
    src = os.path.join(repo, 'src')
    def need(cond, msg):
        if not cond: raise TranslateError('font sources of the text loaders: ' + msg)
    fonts = _code(os.path.join(src, 'fonts.rs'))
    need('impl Default for BitFont { fn default() -> Self { BitFont::from_ansi_font_page(0).unwrap() } }' in fonts, 'BitFont::default() is no longer from_ansi_font_page(0)')
    need('pub fn from_ansi_font_page(font_page: usize) -> EngineResult<Self> { match font_page { $( $( $font_slot => {BitFont::from_bytes($name, $i)} )? )* '
         '_ => Err(ParserError::UnsupportedFont(font_page).into()), } }' in fonts, 'from_ansi_font_page: an arm is no longer BitFont::from_bytes on built-in data')
    need('pub fn from_sauce_name(sauce_name: &str) -> EngineResult<Self> { match sauce_name { $( $name => {BitFont::from_bytes($name, $i)} )* '
         '_ => Err(ParserError::UnsupportedSauceFont(sauce_name.to_string()).into()), } }' in fonts, 'from_sauce_name: an arm is no longer BitFont::from_bytes on built-in data')
    bufs = _code(os.path.join(src, 'buffers.rs'))
    need('let mut font_table = HashMap::new(); font_table.insert(0, BitFont::default());' in bufs, 'Buffer::new no longer starts with BitFont::default() in slot 0')
    need('if let Ok(font) = BitFont::from_sauce_name(font) { self.set_font(0, font); }' in bufs, 'set_sauce no longer takes font 0 from BitFont::from_sauce_name')
    need('pub fn get_font_dimensions(&self) -> Size { self.font_table[&0].size }' in bufs, 'get_font_dimensions is no longer the size of font 0')
    want = {'parsers/ansi/dcs.rs': ['match BitFont::from_bytes(format!("custom font {num}"), &font_data) { Ok(font) => { log::info!("loaded custom font {num}", num = num); buf.set_font(num, font);'],
            'parsers/ansi/ansi_commands.rs': ['match BitFont::from_ansi_font_page(nr) { Ok(font) => { set_font_selection_success(buf, caret, nr); buf.set_font(nr, font); }'],
            'formats/seq.rs': ['result.clear_font_table(); result.set_font(0, BitFont::from_bytes("", C64_UPPER).unwrap()); result.set_font(1, BitFont::from_bytes("", C64_LOWER).unwrap());'],
            'formats/atascii.rs': ['result.clear_font_table(); let mut font = BitFont::from_bytes("", ATARI).unwrap(); font.length = 128; result.set_font(0, font);']}
    files = []
    for root, _, names in os.walk(os.path.join(src, 'parsers')):
        files += [os.path.join(root, n) for n in names if n.endswith('.rs')]
    files += [os.path.join(src, 'formats', n) for n in ('mod.rs', 'ansi.rs', 'avatar.rs', 'pcboard.rs', 'ascii.rs', 'ctrla.rs', 'renegade.rs', 'seq.rs', 'atascii.rs')]
    for f in sorted(files):
        rel = os.path.relpath(f, src)
        t = _code(f)
        n = len(re.findall(FONT_WRITERS, t))
        pins = want.get(rel, [])
        for pin in pins:
            need(pin in t, '%s no longer contains `%s`' % (rel, pin))
        expect = sum(len(re.findall(FONT_WRITERS, pin)) for pin in pins)
        need(n == expect, '%s writes the font table %d times, %d are modelled (every font of a text-loaded buffer must come from BitFont::from_bytes)' % (rel, n, expect))
        need(not re.search(r'\bfont\w*\.size\b[^=;]*=[^=]', t), '%s assigns the size of a font' % rel)
    return len(files)

def generate(repo):
    font_sources(repo)
    buf = open(os.path.join(repo, 'src/buffers.rs')).read()
    body = fn_body(buf, 'from_bytes')
    if body is None or not DISPATCH.search(body):
        raise TranslateError('Buffer::from_bytes: the extension dispatch no longer has the modelled shape')
    if 'len -= sauce.sauce_header_len;' not in body or 'SauceData::extract(bytes)' not in body:
        raise TranslateError('Buffer::from_bytes: the SAUCE split no longer has the modelled shape')
    t = table(repo)
    out = ['(* GENERATED by translator/gen_c02.py from src/formats/mod.rs (FORMATS), the get_file_extension / get_alt_extensions',
           '   literals of every format and the dispatch of Buffer::from_bytes (src/buffers.rs) -- do not edit *)',
           'From Coq Require Import NArith List.\nImport ListNotations.\nLocal Open Scope N_scope.\n',
           'Inductive fmt := FAnsi | FIcy | FIdf | FBin | FXb | FTnd | FPcb | FAvt | FAsc | FAdf | FMsg | FRen | FSeq | FAta.\n',
           '(* FORMATS in declaration order: (format, its extension followed by the alternative extensions, as ASCII codes) *)',
           'Definition EXT_TABLE : list (fmt * list (list N)) :=\n  [' +
           ';\n   '.join('(%s, [%s])  (* %s *)' % (c, '; '.join('[' + '; '.join(str(ord(ch)) for ch in e) + ']' for e in exts), ' '.join(exts)) for c, exts in t) + '].']
    return {'C02Ext.v': '\n'.join(out) + '\n', 'C02Pal.v': generate_pal(repo)}

if __name__ == '__main__':
    for k, v in generate(sys.argv[1]).items(): print(v)
