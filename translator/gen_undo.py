"""Stage G for C08: the leaf expressions and constants the undo model rests on -> coq/Gen/UndoGen.v.

What is *translated* (the Coq text is produced from the Rust tokens on every run):
  * attribute::INVISIBLE, TextAttribute::default(), AttributedChar::invisible(), AttributedChar::is_visible
  * the guards of Layer::set_char (out of bounds / locked-or-hidden / alpha lock), Layer::restore_char,
    Layer::can_set_char, Layer::get_char (impl TextPane for Layer)
  * the `base_count >= count` test of AtomicUndoGuard::drop
What is *pinned* (the statement skeleton around those guards must match a template token for token; the hand
model in Model/Undo.v / Model/EditModel.v mirrors that skeleton):
  * Layer::{set_char, restore_char, restore, can_set_char, swap_char, get_char}, Line::{set_char, create}
  * EditState::{push_undo_action, push_plain_undo, begin_typed_atomic_undo}, UndoState::{undo, redo} for EditState,
    AtomicUndoGuard::{new, end_action, drop}, AtomicUndo::{undo, redo}
Any other shape raises TranslateError: stage G reports the property as no longer checked."""
import os, sys
sys.path.insert(0, os.path.join(os.path.dirname(__file__), '..'))
from vlib.rustsrc import *

# --------------------------------------------------------------------------- boolean guard translator
CMP = {'<': '<?', '<=': '<=?', '>': '>?', '>=': '>=?', '==': '=?', '!=': None}

class Guard:
    """`||`, `&&`, `!`, comparisons, `&` on N, parentheses; atoms are looked up (by normalised token text) in `atoms`:
    text -> (coq term, 'Z' | 'N' | 'bool' | 'nat')"""
    def __init__(self, toks, atoms, what):
        self.t = list(toks); self.i = 0; self.atoms = atoms; self.what = what

    def fail(self, msg):
        raise TranslateError('%s: %s in `%s`' % (self.what, msg, norm_text(self.t)))

    def peek(self):
        return self.t[self.i] if self.i < len(self.t) else ('eof', '')

    def parse(self):
        e = self.p_or()
        if self.i != len(self.t): self.fail('trailing tokens')
        if e[1] != 'bool': self.fail('not a boolean')
        return e[0]

    def p_or(self):
        l = self.p_and()
        while self.peek() == ('p', '||'):
            self.i += 1; r = self.p_and()
            if l[1] != 'bool' or r[1] != 'bool': self.fail('|| on non-booleans')
            l = ('(%s || %s)' % (l[0], r[0]), 'bool')
        return l

    def p_and(self):
        l = self.p_cmp()
        while self.peek() == ('p', '&&'):
            self.i += 1; r = self.p_cmp()
            if l[1] != 'bool' or r[1] != 'bool': self.fail('&& on non-booleans')
            l = ('(%s && %s)' % (l[0], r[0]), 'bool')
        return l

    def p_cmp(self):
        l = self.p_bits()
        t = self.peek()
        if t[0] == 'p' and t[1] in CMP:
            self.i += 1; r = self.p_bits()
            lt, rt = l[1], r[1]
            if lt == 'lit': lt = rt
            if rt == 'lit': rt = lt
            if lt != rt or lt not in ('Z', 'N', 'nat'): self.fail('comparison of %s with %s' % (l[1], r[1]))
            scope = {'Z': 'Z', 'N': 'N', 'nat': 'nat'}[lt]
            if t[1] == '!=': return ('(negb (%s =? %s)%%%s)' % (l[0], r[0], scope), 'bool')
            if t[1] in ('>', '>='):     # nat / N have no >? : swap
                op = {'>': '<?', '>=': '<=?'}[t[1]]
                return ('(%s %s %s)%%%s' % (r[0], op, l[0], scope), 'bool')
            return ('(%s %s %s)%%%s' % (l[0], CMP[t[1]], r[0], scope), 'bool')
        return l

    def p_bits(self):
        l = self.p_unary()
        while self.peek() == ('p', '&'):
            self.i += 1; r = self.p_unary()
            if l[1] != 'N' or r[1] != 'N': self.fail('& on non-N operands')
            l = ('(N.land %s %s)' % (l[0], r[0]), 'N')
        return l

    def p_unary(self):
        t = self.peek()
        if t == ('p', '!'):
            self.i += 1; e = self.p_unary()
            if e[1] != 'bool': self.fail('! on a non-boolean')
            return ('(negb %s)' % e[0], 'bool')
        if t == ('p', '('):
            j = match_close(self.t, self.i)
            sub = Guard(self.t[self.i + 1:j], self.atoms, self.what).p_all()
            self.i = j + 1
            return sub
        if t[0] == 'num':
            self.i += 1
            return (str(parse_num(t)), 'lit')
        # longest atom match
        best = None
        for text, val in self.atoms.items():
            n = len(text.split(' '))
            if norm_text(self.t[self.i:self.i + n]) == text and (best is None or n > best[0]):
                best = (n, val)
        if best is None: self.fail('unknown operand at `%s`' % norm_text(self.t[self.i:self.i + 6]))
        self.i += best[0]
        return best[1]

    def p_all(self):
        e = self.p_or()
        if self.i != len(self.t): self.fail('trailing tokens in parentheses')
        return e

def guard(toks, atoms, what):
    return Guard(toks, atoms, what).parse()

POS_ATOMS = {
    'pos . x': ('x', 'Z'), 'pos . y': ('y', 'Z'),
    'self . get_width ( )': ('w', 'Z'), 'self . get_height ( )': ('h', 'Z'),
}
LOCK_ATOMS = {
    'self . properties . is_locked': ('is_locked', 'bool'), 'self . properties . is_visible': ('is_visible', 'bool'),
    'self . properties . has_alpha_channel': ('has_alpha', 'bool'),
    'self . properties . is_alpha_channel_locked': ('alpha_locked', 'bool'),
}

T_SET_CHAR = """
let pos = pos . into ( ) ;
if $OOB { return ; }
if $LOCK { return ; }
if pos . y >= self . lines . len ( ) as i32 { self . lines . resize ( pos . y as usize + 1 , Line :: create ( self . size . width ) ) ; }
if $ALPHA { let old_char = self . get_char ( pos ) ; if ! old_char . is_visible ( ) { return ; } }
let cur_line = & mut self . lines [ pos . y as usize ] ;
cur_line . set_char ( pos . x , attributed_char ) ;
let font_dims = Size :: new ( 8 , 16 ) ;
self . sixels . retain ( | x | ! x . as_rectangle ( font_dims ) . is_inside ( pos ) || pos . y != x . position . y ) ;
"""
T_RESTORE_CHAR = """
if $OOB { return ; }
if pos . y >= self . lines . len ( ) as i32 { self . lines . resize ( pos . y as usize + 1 , Line :: create ( self . size . width ) ) ; }
self . lines [ pos . y as usize ] . set_char ( pos . x , attributed_char ) ;
"""
T_RESTORE = """
for y in 0 .. layer . get_height ( ) { for x in 0 .. layer . get_width ( ) {
let pos = Position :: new ( x , y ) ;
self . restore_char ( pos + target_pos , layer . get_char ( pos ) ) ;
} }
"""
T_CAN_SET = """
if $OOB { return false ; }
if $LOCK { return false ; }
! ( $ALPHA ) || self . get_char ( pos ) . is_visible ( )
"""
T_SWAP = """
let pos1 = pos1 . into ( ) ;
let pos2 = pos2 . into ( ) ;
if ! self . can_set_char ( pos1 ) || ! self . can_set_char ( pos2 ) { return ; }
let tmp = self . get_char ( pos1 ) ;
self . set_char ( pos1 , self . get_char ( pos2 ) ) ;
self . set_char ( pos2 , tmp ) ;
"""
T_GET_CHAR = """
let pos = pos . into ( ) ;
if $OOB { return AttributedChar :: invisible ( ) . with_font_page ( self . default_font_page ) ; }
let y = pos . y ;
if y < self . lines . len ( ) as i32 {
let cur_line = & self . lines [ y as usize ] ;
if pos . x < cur_line . chars . len ( ) as i32 { return cur_line . chars [ pos . x as usize ] ; }
}
AttributedChar :: invisible ( ) . with_font_page ( self . default_font_page )
"""
T_LINE_SET = """
if index >= self . chars . len ( ) as i32 { self . chars . resize ( index as usize + 1 , AttributedChar :: invisible ( ) ) ; }
self . chars [ index as usize ] = char ;
"""
T_LINE_CREATE = """
let mut chars = Vec :: new ( ) ;
chars . resize ( width as usize , AttributedChar :: invisible ( ) ) ;
Line { chars }
"""
T_INVISIBLE = """
AttributedChar { ch : $CH , attribute : super :: TextAttribute { attr : crate :: attribute :: INVISIBLE , .. Default :: default ( ) } , }
"""
T_DEFAULT_ATTR = """
Self { foreground_color : $FG , background_color : $BG , attr : $ATTR , font_page : $FP , }
"""
T_PUSH_ACTION = """
op . redo ( self ) ? ;
self . push_plain_undo ( op )
"""
T_PUSH_PLAIN = """
if op . changes_data ( ) { self . set_is_buffer_dirty ( ) ; }
let Ok ( mut stack ) = self . undo_stack . lock ( ) else { return Err ( anyhow :: anyhow ! ( "Failed to lock undo stack" ) ) ; } ;
stack . push ( op ) ;
self . redo_stack . clear ( ) ;
Ok ( ( ) )
"""
T_BEGIN = """
self . redo_stack . clear ( ) ;
AtomicUndoGuard :: new ( description . into ( ) , self . undo_stack . clone ( ) , operation_type )
"""
T_GUARD_NEW = """
let base_count = undo_stack . lock ( ) . unwrap ( ) . len ( ) ;
Self { base_count , description , operation_type , undo_stack , }
"""
T_END_ACTION = """
let stack = self . undo_stack . lock ( ) . unwrap ( ) . drain ( self . base_count .. ) . collect ( ) ;
let stack = Arc :: new ( Mutex :: new ( stack ) ) ;
self . undo_stack . lock ( ) . unwrap ( ) . push ( Box :: new ( undo_operations :: AtomicUndo :: new ( self . description . clone ( ) , stack , self . operation_type ) ) ) ;
self . base_count = usize :: MAX ;
"""
T_DROP = """
let count = self . undo_stack . lock ( ) . unwrap ( ) . len ( ) ;
if $KEEP { return ; }
self . end_action ( ) ;
"""
T_UNDO = """
let Some ( mut op ) = self . undo_stack . lock ( ) . unwrap ( ) . pop ( ) else { return Ok ( ( ) ) ; } ;
if op . changes_data ( ) { self . set_is_buffer_dirty ( ) ; }
let res = op . undo ( self ) ;
self . redo_stack . push ( op ) ;
res
"""
T_REDO = """
if let Some ( mut op ) = self . redo_stack . pop ( ) {
if op . changes_data ( ) { self . set_is_buffer_dirty ( ) ; }
let res = op . redo ( self ) ;
self . undo_stack . lock ( ) . unwrap ( ) . push ( op ) ;
return res ;
}
Ok ( ( ) )
"""
T_ATOMIC_UNDO = """
for op in self . stack . lock ( ) . unwrap ( ) . iter_mut ( ) . rev ( ) { op . undo ( edit_state ) ? ; }
Ok ( ( ) )
"""
T_ATOMIC_REDO = """
for op in self . stack . lock ( ) . unwrap ( ) . iter_mut ( ) { op . redo ( edit_state ) ? ; }
Ok ( ( ) )
"""

def body_of(src, name, within=None, nth=0):
    return src.find_fn(name, nth=nth, within=within)[1]

def lit(toks, what, env=None):
    if len(toks) == 1 and toks[0][0] == 'num': return parse_num(toks[0])
    if len(toks) == 1 and toks[0][0] == 'char': return parse_num(toks[0])
    if env and norm_text(toks).startswith('attribute :: ') and len(toks) == 3 and toks[2][1] in env: return env[toks[2][1]]
    raise TranslateError('%s is `%s`, not a literal' % (what, norm_text(toks)))

def generate(repo):
    out = ['(* GENERATED by translator/gen_undo.py from src/layer.rs, src/line.rs, src/attributed_char.rs, src/text_attribute.rs,',
           '   src/editor/mod.rs, src/editor/undo_operations.rs -- do not edit *)',
           'From Coq Require Import ZArith NArith Bool Arith.\n']
    # ---- constants
    ta = Source(os.path.join(repo, 'src/text_attribute.rs'))
    ty, v = ta.find_const('INVISIBLE')
    if norm_text(ty) != 'u16' or len(v) != 1 or v[0][0] != 'num': raise TranslateError('attribute::INVISIBLE changed')
    inv = parse_num(v[0])
    ty, v = ta.find_const('NONE')
    none = parse_num(v[0])
    env = {'INVISIBLE': inv, 'NONE': none}
    h = match_template(T_DEFAULT_ATTR, body_of(ta, 'default', within=ta.find_block('impl', 'Default', 'for', 'TextAttribute')))
    dfg, dbg, dattr, dfp = (lit(h[k], 'TextAttribute::default().' + k, env) for k in ('FG', 'BG', 'ATTR', 'FP'))
    ac = Source(os.path.join(repo, 'src/attributed_char.rs'))
    h = match_template(T_INVISIBLE, body_of(ac, 'invisible'))
    inv_ch = lit(h['CH'], 'AttributedChar::invisible().ch')
    out += ['Definition ATTR_INVISIBLE : N := %d.' % inv,
            'Definition INVISIBLE_CH : N := %d.' % inv_ch,
            'Definition DEFAULT_FG : N := %d.' % dfg, 'Definition DEFAULT_BG : N := %d.' % dbg,
            'Definition DEFAULT_ATTR : N := %d.' % dattr, 'Definition DEFAULT_FONT_PAGE : N := %d.' % dfp, '']
    vis = guard(body_of(ac, 'is_visible'), {'self . attribute . attr': ('attr', 'N'), 'crate :: attribute :: INVISIBLE': ('ATTR_INVISIBLE', 'N')},
                'AttributedChar::is_visible')
    out += ['(* AttributedChar::is_visible *)', 'Definition attr_visible (attr : N) : bool := %s.' % vis, '']
    # ---- Layer
    ly = Source(os.path.join(repo, 'src/layer.rs'))
    impl_layer = ly.find_block('impl', 'Layer')
    h = match_template(T_SET_CHAR, body_of(ly, 'set_char', within=impl_layer))
    out += ['(* Layer::set_char: the three early returns *)',
            'Definition set_char_oob (x y w h : Z) : bool := %s.' % guard(h['OOB'], POS_ATOMS, 'Layer::set_char bounds'),
            'Definition set_char_refused (is_locked is_visible : bool) : bool := %s.' % guard(h['LOCK'], LOCK_ATOMS, 'Layer::set_char lock'),
            'Definition set_char_alpha (has_alpha alpha_locked : bool) : bool := %s.' % guard(h['ALPHA'], LOCK_ATOMS, 'Layer::set_char alpha'), '']
    h = match_template(T_RESTORE_CHAR, body_of(ly, 'restore_char', within=impl_layer))
    out += ['(* Layer::restore_char *)',
            'Definition restore_char_oob (x y w h : Z) : bool := %s.' % guard(h['OOB'], POS_ATOMS, 'Layer::restore_char bounds'), '']
    match_template(T_RESTORE, body_of(ly, 'restore', within=impl_layer))
    h = match_template(T_CAN_SET, body_of(ly, 'can_set_char', within=impl_layer))
    out += ['(* Layer::can_set_char *)',
            'Definition can_set_oob (x y w h : Z) : bool := %s.' % guard(h['OOB'], POS_ATOMS, 'Layer::can_set_char bounds'),
            'Definition can_set_refused (is_locked is_visible : bool) : bool := %s.' % guard(h['LOCK'], LOCK_ATOMS, 'Layer::can_set_char lock'),
            'Definition can_set_alpha (has_alpha alpha_locked : bool) : bool := %s.' % guard(h['ALPHA'], LOCK_ATOMS, 'Layer::can_set_char alpha'), '']
    match_template(T_SWAP, body_of(ly, 'swap_char', within=impl_layer))
    h = match_template(T_GET_CHAR, body_of(ly, 'get_char', within=ly.find_block('impl', 'TextPane', 'for', 'Layer')))
    out += ['(* Layer::get_char *)',
            'Definition get_char_oob (x y w h : Z) : bool := %s.' % guard(h['OOB'], POS_ATOMS, 'Layer::get_char bounds'), '']
    ln = Source(os.path.join(repo, 'src/line.rs'))
    match_template(T_LINE_SET, body_of(ln, 'set_char'))
    match_template(T_LINE_CREATE, body_of(ln, 'create'))
    # ---- the undo machinery
    ed = Source(os.path.join(repo, 'src/editor/mod.rs'))
    match_template(T_PUSH_ACTION, body_of(ed, 'push_undo_action'))
    match_template(T_PUSH_PLAIN, body_of(ed, 'push_plain_undo'))
    match_template(T_BEGIN, body_of(ed, 'begin_typed_atomic_undo'))
    guard_impl = ed.find_block('impl', 'AtomicUndoGuard')
    match_template(T_GUARD_NEW, body_of(ed, 'new', within=guard_impl))
    match_template(T_END_ACTION, body_of(ed, 'end_action', within=guard_impl))
    h = match_template(T_DROP, body_of(ed, 'drop', within=ed.find_block('impl', 'Drop', 'for', 'AtomicUndoGuard')))
    keep = guard(h['KEEP'], {'self . base_count': ('base', 'nat'), 'count': ('count', 'nat')}, 'AtomicUndoGuard::drop')
    out += ['(* AtomicUndoGuard::drop: nothing to fold *)', 'Definition guard_keeps (base count : nat) : bool := %s.' % keep, '']
    us = ed.find_block('impl', 'UndoState', 'for', 'EditState')
    match_template(T_UNDO, body_of(ed, 'undo', within=us))
    match_template(T_REDO, body_of(ed, 'redo', within=us))
    uo = Source(os.path.join(repo, 'src/editor/undo_operations.rs'))
    au = uo.find_block('impl', 'UndoOperation', 'for', 'AtomicUndo')
    match_template(T_ATOMIC_UNDO, body_of(uo, 'undo', within=au))
    match_template(T_ATOMIC_REDO, body_of(uo, 'redo', within=au))
    return {'UndoGen.v': '\n'.join(out) + '\n'}

if __name__ == '__main__':
    print(generate(sys.argv[1])['UndoGen.v'])
