#!/bin/bash
# resolve the routine conflicts of merging an agent branch: generated files and other properties' evidence
git rm -q coq/_CoqProject harness/Cargo.toml 2>/dev/null; git rm -q --cached coq/_CoqProject harness/Cargo.toml 2>/dev/null
for f in $(git status --short | grep -E "^(UU|AA) evidence/" | awk '{print $2}'); do git checkout --ours $f; git add $f; done
git diff --name-only --diff-filter=U
