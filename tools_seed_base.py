#!/usr/bin/env python3
"""tools_seed_base.py: record in every seeded/<name>/meta.json the newest commit of /repo main at which patch.diff applies
(`base`), and whether it still applies at the current head (`applies_at_head`). Uses a temporary index, no work tree."""
import json, os, subprocess, glob, tempfile
revs = subprocess.check_output(['git', '-C', '/repo', 'rev-list', 'main'], text=True).split()
def applies(rev, patch):
    with tempfile.NamedTemporaryFile() as idx:
        env = dict(os.environ, GIT_INDEX_FILE=idx.name + '.idx')
        subprocess.check_call(['git', '-C', '/repo', 'read-tree', rev], env=env)
        r = subprocess.run(['git', '-C', '/repo', 'apply', '--cached', '--check', patch], env=env, capture_output=True)
        os.unlink(idx.name + '.idx')
        return r.returncode == 0
n = 0
for d in sorted(glob.glob('/verif/seeded/*/')):
    patch, mp = d + 'patch.diff', d + 'meta.json'
    m = json.load(open(mp))
    base = next((r for r in revs if applies(r, patch)), None)
    m['base'] = base[:7] if base else None
    m['applies_at_head'] = (base == revs[0])
    json.dump(m, open(mp, 'w'), indent=1)
    n += not m['applies_at_head']
print(len(revs), 'commits;', n, 'seeds need an older base')
