(* C08: list lemmas used by Proofs/EditProofs.v (positional update / insert / remove / swap under Forall2). *)
From Coq Require Import List Arith Lia.
Import ListNotations.

Section ListLemmas.
  Context {A : Type}.

  Lemma nth_error_firstn_lt : forall n (l : list A) i, i < n -> nth_error (firstn n l) i = nth_error l i.
  Proof.
    induction n as [|n IH]; intros l i H; [lia|].
    destruct l as [|a l]; [destruct i; reflexivity|].
    destruct i; cbn; [reflexivity|]. apply IH. lia.
  Qed.

  Lemma nth_error_skipn : forall n (l : list A) i, nth_error (skipn n l) i = nth_error l (n + i).
  Proof.
    induction n as [|n IH]; intros l i; [reflexivity|].
    destruct l as [|a l]; cbn; [destruct i; reflexivity|]. apply IH.
  Qed.
End ListLemmas.

Section Forall2Lemmas.
  Context {A B : Type}.
  Variable R : A -> B -> Prop.

  Lemma Forall2_len : forall l1 l2, Forall2 R l1 l2 -> length l1 = length l2.
  Proof. induction 1; cbn; congruence. Qed.

  Lemma Forall2_nth_error_l : forall l1 l2 i a, Forall2 R l1 l2 -> nth_error l1 i = Some a ->
    exists b, nth_error l2 i = Some b /\ R a b.
  Proof.
    intros l1 l2 i a H. revert i. induction H as [|x y l1 l2 Hxy H IH]; intros i Hi.
    - destruct i; discriminate.
    - destruct i; cbn in *.
      + injection Hi as <-. eauto.
      + apply IH; auto.
  Qed.

  Lemma Forall2_nth_error_r : forall l1 l2 i b, Forall2 R l1 l2 -> nth_error l2 i = Some b ->
    exists a, nth_error l1 i = Some a /\ R a b.
  Proof.
    intros l1 l2 i b H. revert i. induction H as [|x y l1 l2 Hxy H IH]; intros i Hi.
    - destruct i; discriminate.
    - destruct i; cbn in *.
      + injection Hi as <-. eauto.
      + apply IH; auto.
  Qed.

  Lemma Forall2_nth_error_none : forall l1 l2 i, Forall2 R l1 l2 -> nth_error l1 i = None -> nth_error l2 i = None.
  Proof.
    intros l1 l2 i H Hn. apply nth_error_None. apply nth_error_None in Hn.
    rewrite <- (Forall2_len _ _ H). exact Hn.
  Qed.

  Lemma Forall2_firstn : forall n l1 l2, Forall2 R l1 l2 -> Forall2 R (firstn n l1) (firstn n l2).
  Proof.
    induction n as [|n IH]; intros l1 l2 H; cbn; [constructor|].
    destruct H; constructor; auto.
  Qed.

  Lemma Forall2_skipn : forall n l1 l2, Forall2 R l1 l2 -> Forall2 R (skipn n l1) (skipn n l2).
  Proof.
    induction n as [|n IH]; intros l1 l2 H; cbn; [exact H|].
    destruct H; [constructor|]. apply IH. exact H0.
  Qed.
End Forall2Lemmas.
