(* Shared definitions and list lemmas for C05 (binary art formats):
   the outcome type, Vec::resize-style padding, in-place update, chunking, and their nth_error laws. *)
From Coq Require Import NArith ZArith List Lia Bool PeanoNat.
Import ListNotations.

(* outcome of a modelled Rust function: a value, an `Err(..)` return (class number), or a panic (site number) *)
Inductive res (A : Type) : Type := Ok (a : A) | Err (e : N) | Panic (site : N).
Arguments Ok {A} a. Arguments Err {A} e. Arguments Panic {A} site.

Definition bind {A B} (r : res A) (f : A -> res B) : res B :=
  match r with Ok a => f a | Err e => Err e | Panic s => Panic s end.
Notation "'let*' x ':=' r 'in' k" := (bind r (fun x => k))
  (at level 200, x name, r at level 100, k at level 200, right associativity).
Notation "'let*' ' p ':=' r 'in' k" := (bind r (fun x => match x with p => k end))
  (at level 200, p strict pattern, r at level 100, k at level 200, right associativity).

(* Vec::resize(n, d) when the vector is shorter than n, identity otherwise *)
Definition pad {A} (l : list A) (n : nat) (d : A) : list A := l ++ repeat d (n - length l).

(* l[i] = f(l[i]); identity when i is out of range (callers pad first, see nth_error_updf) *)
Fixpoint updf {A} (l : list A) (i : nat) (f : A -> A) : list A :=
  match l, i with
  | [], _ => []
  | h :: t, O => f h :: t
  | h :: t, S i' => h :: updf t i' f
  end.

Lemma pad_length {A} (l : list A) n d : length (pad l n d) = Nat.max (length l) n.
Proof. unfold pad. rewrite app_length, repeat_length. lia. Qed.

Lemma nth_error_repeat {A} (d : A) n i : nth_error (repeat d n) i = if i <? n then Some d else None.
Proof.
  revert i. induction n as [|n IH]; intro i; cbn [repeat].
  - destruct i; reflexivity.
  - destruct i as [|i]; [reflexivity|]. cbn [nth_error]. rewrite IH.
    change (S i <? S n) with (i <? n). reflexivity.
Qed.

Lemma nth_error_pad {A} (l : list A) n d i :
  nth_error (pad l n d) i =
  if i <? length l then nth_error l i else if i <? n then Some d else None.
Proof.
  unfold pad. destruct (Nat.ltb_spec i (length l)) as [H|H].
  - apply nth_error_app1, H.
  - rewrite nth_error_app2 by exact H. rewrite nth_error_repeat.
    destruct (Nat.ltb_spec (i - length l) (n - length l)), (Nat.ltb_spec i n); try reflexivity; lia.
Qed.

Lemma updf_length {A} (l : list A) i f : length (updf l i f) = length l.
Proof. revert i. induction l as [|h t IH]; intros [|i]; cbn [updf length]; try reflexivity. now rewrite IH. Qed.

Lemma nth_error_updf {A} (l : list A) i f j :
  nth_error (updf l i f) j = if j =? i then option_map f (nth_error l j) else nth_error l j.
Proof.
  revert i j. induction l as [|h t IH]; intros i j.
  - cbn [updf]. destruct (j =? i); [|reflexivity]. destruct j; reflexivity.
  - destruct i as [|i], j as [|j]; cbn [updf nth_error]; try reflexivity.
    rewrite IH. reflexivity.
Qed.

(* chunks of n elements; a shorter tail is reported as None (Rust: `data[..n]` panics) *)
Fixpoint chunks_aux {A} (fuel n : nat) (l : list A) : option (list (list A)) :=
  match l with
  | [] => Some []
  | _ => match fuel with
         | O => None
         | S fuel' =>
           if length l <? n then None
           else match chunks_aux fuel' n (skipn n l) with
                | Some r => Some (firstn n l :: r)
                | None => None
                end
         end
  end.

Lemma concat_length_const {A} (ls : list (list A)) n :
  Forall (fun l => length l = n) ls -> length (concat ls) = length ls * n.
Proof. induction 1 as [|l ls Hl _ IH]; cbn [concat length]; [reflexivity|]. rewrite app_length, IH, Hl. lia. Qed.

Lemma chunks_aux_concat {A} (ls : list (list A)) n fuel :
  0 < n -> Forall (fun l => length l = n) ls -> length ls <= fuel ->
  chunks_aux fuel n (concat ls) = Some ls.
Proof.
  intros Hn. revert fuel. induction ls as [|l ls IH]; intros fuel Hall Hf.
  - destruct fuel; reflexivity.
  - inversion Hall as [|? ? Hl Hls]. cbn [concat].
    destruct fuel as [|fuel]; [cbn in Hf; lia|].
    assert (Hne : l ++ concat ls <> []).
    { intro E. apply app_eq_nil in E. destruct E as [E _]. rewrite E in Hl. cbn in Hl. lia. }
    assert (Hstep : chunks_aux (S fuel) n (l ++ concat ls) =
                    if length (l ++ concat ls) <? n then None
                    else match chunks_aux fuel n (skipn n (l ++ concat ls)) with
                         | Some r => Some (firstn n (l ++ concat ls) :: r) | None => None end).
    { destruct (l ++ concat ls); [congruence|reflexivity]. }
    rewrite Hstep. rewrite app_length.
    destruct (Nat.ltb_spec (length l + length (concat ls)) n) as [Hlt|_]; [lia|].
    replace (skipn n (l ++ concat ls)) with (concat ls)
      by (rewrite <- Hl, skipn_app, skipn_all, Nat.sub_diag; reflexivity).
    replace (firstn n (l ++ concat ls)) with l
      by (rewrite <- Hl, firstn_app, Nat.sub_diag, firstn_all; cbn [firstn]; now rewrite app_nil_r).
    rewrite IH; [reflexivity|assumption|cbn in Hf; lia].
Qed.

Lemma Forall2_length_eq {A B} (R : A -> B -> Prop) l l' : Forall2 R l l' -> length l = length l'.
Proof. induction 1; cbn; congruence. Qed.

Lemma Forall2_nth_error {A B} (R : A -> B -> Prop) l l' :
  length l = length l' ->
  (forall i a b, nth_error l i = Some a -> nth_error l' i = Some b -> R a b) -> Forall2 R l l'.
Proof.
  revert l'. induction l as [|a l IH]; intros [|b l'] Hlen H; cbn in Hlen; try discriminate; constructor.
  - apply (H 0%nat); reflexivity.
  - apply IH; [congruence|]. intros i x y Hx Hy. apply (H (S i)); assumption.
Qed.

Lemma firstn_app_exact {A} (l1 l2 : list A) n : length l1 = n -> firstn n (l1 ++ l2) = l1.
Proof. intros <-. rewrite firstn_app, Nat.sub_diag, firstn_all. cbn [firstn]. apply app_nil_r. Qed.

Lemma skipn_app_exact {A} (l1 l2 : list A) n : length l1 = n -> skipn n (l1 ++ l2) = l2.
Proof. intros <-. rewrite skipn_app, Nat.sub_diag, skipn_all. reflexivity. Qed.

Lemma chunks_aux_spec {A} fuel n : forall (l : list A) g,
  chunks_aux fuel n l = Some g -> Forall (fun c => length c = n) g /\ concat g = l.
Proof.
  induction fuel as [|fuel IH]; intros l g H.
  - destruct l; cbn in H; [|discriminate]. injection H as <-. split; [constructor|reflexivity].
  - destruct l as [|a l']; [cbn in H; injection H as <-; split; [constructor|reflexivity]|].
    remember (a :: l') as l eqn:El.
    assert (Hstep : chunks_aux (S fuel) n l =
                    if length l <? n then None
                    else match chunks_aux fuel n (skipn n l) with
                         | Some r => Some (firstn n l :: r) | None => None end).
    { rewrite El. reflexivity. }
    rewrite Hstep in H. destruct (Nat.ltb_spec (length l) n) as [|Hge]; [discriminate|].
    destruct (chunks_aux fuel n (skipn n l)) as [r|] eqn:E; [|discriminate]. injection H as <-.
    destruct (IH _ _ E) as (Hall & Hcat). split.
    + constructor; [apply firstn_length_le; exact Hge|exact Hall].
    + cbn [concat]. rewrite Hcat. apply firstn_skipn.
Qed.

Lemma match_nonempty {A B} (l : list A) (a b : B) : l <> [] -> match l with [] => a | _ :: _ => b end = b.
Proof. destruct l; [congruence|reflexivity]. Qed.
