(* Shared definitions for C02: "the modelled function returned Ok or Err" for the three outcome types in use. *)
From Coq Require Import NArith List.
From IE Require Import Lib.C05Lib.
Import ListNotations.

(* outcome type of the C05 / C02 models *)
Definition total {A} (r : res A) : Prop := match r with Panic _ => False | _ => True end.

Lemma total_bind {A B} (r : res A) (f : A -> res B) :
  total r -> (forall a, r = Ok a -> total (f a)) -> total (bind r f).
Proof. destruct r as [a|e|s]; cbn; intros H K; [apply K; reflexivity|exact I|exact H]. Qed.

Lemma total_ok {A} (a : A) : total (Ok a). Proof. exact I. Qed.
Lemma total_err {A} e : total (@Err A e). Proof. exact I. Qed.
