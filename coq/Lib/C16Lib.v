(* C16 support library: the `format!` primitives the generated palette printers (Gen/PaletteSrc.v) are written in,
   character-class lookup in range tables, and small list lemmas shared by the C16 proofs.
   Strings are lists of Unicode scalar values (N). *)
From Coq Require Import NArith List Bool Lia.
Import ListNotations.
Local Open Scope N_scope.

(* ---- executable part ------------------------------------------------------------------------- *)

(* `{}` on a String argument *)
Definition fmt_str (s : list N) : list N := s.

(* `s.replace([c1, c2, …], to)`: every character of s that is one of `pat` is replaced by the text `to` *)
Definition str_replace_chars (pat to s : list N) : list N :=
  flat_map (fun c => if existsb (N.eqb c) pat then to else [c]) s.

(* digits of n in the given base, most significant first, "0" for 0.  fuel = bit length + 1 always suffices. *)
Fixpoint digits_aux (base : N) (digit : N -> N) (fuel : nat) (n : N) (acc : list N) : list N :=
  match fuel with
  | O => acc
  | S f => let acc' := digit (n mod base) :: acc in
           if n / base =? 0 then acc' else digits_aux base digit f (n / base) acc'
  end.
Definition dec_digit (d : N) : N := 48 + d.
Definition hex_digit (d : N) : N := if d <? 10 then 48 + d else 87 + d.   (* lowercase, `x` *)

(* `{}` on an unsigned integer *)
Definition fmt_dec (n : N) : list N := digits_aux 10 dec_digit (S (N.size_nat n)) n [].
Definition pad_left (c : N) (w : nat) (s : list N) : list N := repeat c (w - length s) ++ s.
(* `{:3}`: numbers are right-aligned, padded with blanks *)
Definition fmt_dec_w3 (n : N) : list N := pad_left 32 3 (fmt_dec n).
(* `{:02x}` *)
Definition fmt_hex2 (n : N) : list N := pad_left 48 2 (digits_aux 16 hex_digit (S (N.size_nat n)) n []).

Definition in_ranges (t : list (N * N)) (c : N) : bool :=
  existsb (fun ab => (fst ab <=? c) && (c <=? snd ab)) t.

Fixpoint list_eqb (a b : list N) : bool :=
  match a, b with
  | [], [] => true
  | x :: a', y :: b' => (x =? y) && list_eqb a' b'
  | _, _ => false
  end.

(* ---- lemmas ------------------------------------------------------------------------------------ *)

Lemma list_eqb_refl a : list_eqb a a = true.
Proof. induction a as [|x a IH]; cbn [list_eqb]; [reflexivity|]. rewrite N.eqb_refl, IH. reflexivity. Qed.

Lemma list_eqb_eq a : forall b, list_eqb a b = true <-> a = b.
Proof.
  induction a as [|x a IH]; intros [|y b]; cbn [list_eqb]; split; intro H; try reflexivity; try discriminate.
  - apply andb_true_iff in H. destruct H as [H1 H2]. apply N.eqb_eq in H1. apply IH in H2. subst. reflexivity.
  - inversion H; subst. rewrite N.eqb_refl. apply list_eqb_refl.
Qed.
