(* Small shared lemmas for C18: lifting complete boolean sweeps over finite domains to universally
   quantified statements. *)
From Coq Require Import NArith Bool List Lia.
From IE Require Import Lib.Tbl Lib.Bits.
Import ListNotations.
Local Open Scope N_scope.

Lemma forallb_bools (P : bool -> bool) : forallb P [true; false] = true -> forall b, P b = true.
Proof. cbn [forallb]. intros H b. apply andb_prop in H as [H1 H2]. apply andb_prop in H2 as [H2 _]. destruct b; assumption. Qed.

Lemma forallb_In {A} (P : A -> bool) (l : list A) : forallb P l = true -> forall x, In x l -> P x = true.
Proof. intros H x Hx. rewrite forallb_forall in H. apply H, Hx. Qed.

(* two nested ranges *)
Lemma nrange_forallb2 (P : N -> N -> bool) n m :
  forallb (fun i => forallb (P i) (nrange m)) (nrange n) = true ->
  forall i j, i < n -> j < m -> P i j = true.
Proof.
  intros H i j Hi Hj.
  pose proof (nrange_forallb _ _ H i Hi) as H1. cbv beta in H1.
  exact (nrange_forallb _ _ H1 j Hj).
Qed.

Lemma eqb_bool_true a b : Bool.eqb a b = true -> a = b.
Proof. apply eqb_prop. Qed.
