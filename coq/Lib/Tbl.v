(* Table access helpers shared by generated definitions. *)
From Coq Require Import NArith List.
Import ListNotations.
Local Open Scope N_scope.

Definition tget (t : list N) (i : N) : N := nth (N.to_nat i) t 0.
Definition tget2 (t : list (list N)) (i : N) : list N := nth (N.to_nat i) t [].

(* [0; 1; …; n-1] as N, built without large nat numerals in the source *)
Fixpoint nrange_aux (k : nat) (start : N) : list N :=
  match k with O => [] | S k' => start :: nrange_aux k' (N.succ start) end.
Definition nrange (n : N) : list N := nrange_aux (N.to_nat n) 0.
