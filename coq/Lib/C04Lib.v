(* Shared lemmas for C04: single-bit flag words, list helpers. *)
From Coq Require Import NArith ZArith Bool List Lia.
Import ListNotations.
Local Open Scope N_scope.

(* ---------------------------------------------------------------- single-bit flags in a 16-bit word *)
Lemma land_pow2_testbit w j : (N.land w (2 ^ j) =? 2 ^ j) = N.testbit w j.
Proof.
  destruct (N.testbit w j) eqn:E.
  - apply N.eqb_eq. apply N.bits_inj. intro k. rewrite N.land_spec, N.pow2_bits_eqb.
    destruct (N.eqb_spec j k) as [->|]; [rewrite E; reflexivity|apply andb_false_r].
  - apply N.eqb_neq. intro H.
    assert (T : N.testbit (N.land w (2 ^ j)) j = N.testbit (2 ^ j) j) by (rewrite H; reflexivity).
    rewrite N.land_spec, N.pow2_bits_true, E in T. discriminate.
Qed.

Lemma lor_pow2_testbit w i j : N.testbit (N.lor w (2 ^ i)) j = N.testbit w j || (i =? j).
Proof. rewrite N.lor_spec, N.pow2_bits_eqb. reflexivity. Qed.

Lemma clear_pow2_testbit w i j : j < 16 ->
  N.testbit (N.land w (N.lxor (2 ^ i) 65535)) j = N.testbit w j && negb (i =? j).
Proof.
  intro Hj. rewrite N.land_spec, N.lxor_spec, N.pow2_bits_eqb.
  change 65535 with (N.ones 16). rewrite N.ones_spec_low by assumption.
  destruct (i =? j); reflexivity.
Qed.
