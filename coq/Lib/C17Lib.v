(* Shared helpers for the C17 (fonts) development: outcome type, checked slicing, little-endian fields. *)
From Coq Require Import NArith ZArith List Lia Bool.
Import ListNotations.
Local Open Scope N_scope.

(* Outcome of a modelled Rust function: value, returned error (class code), unwinding panic / abort (site code),
   fuel exhausted (= the Rust loop would not have terminated within the fuel the model supplies). *)
Inductive res (A : Type) : Type :=
| Ok (a : A)
| Err (e : N)
| Panic (site : N)
| Diverge.
Arguments Ok {A} a.
Arguments Err {A} e.
Arguments Panic {A} site.
Arguments Diverge {A}.

Definition bind {A B} (r : res A) (f : A -> res B) : res B :=
  match r with Ok a => f a | Err e => Err e | Panic s => Panic s | Diverge => Diverge end.
Notation "'do' x <- r ; k" := (bind r (fun x => k)) (at level 200, x pattern, r at level 100, k at level 200).

(* returns normally (with a value or an error value): no panic, no abort, no unbounded loop *)
Definition safe {A} (r : res A) : Prop := match r with Ok _ | Err _ => True | Panic _ | Diverge => False end.

Definition lenN {A} (l : list A) : N := N.of_nat (length l).

(* `s[..n]` together with `s[n..]` for a small literal n: panics (site) when fewer than n elements are there *)
Fixpoint take (site : N) (n : nat) (s : list N) : res (list N * list N) :=
  match n with
  | O => Ok ([], s)
  | S k => match s with
           | [] => Panic site
           | x :: t => do ab <- take site k t; Ok (x :: fst ab, snd ab)
           end
  end.

(* `s[n..]` for a run-time n (guarded so that no huge unary number is ever built) *)
Definition drop (site : N) (n : N) (s : list N) : res (list N) :=
  if lenN s <? n then Panic site else Ok (skipn (N.to_nat n) s).

Definition le16 (l : list N) : N := match l with [a; b] => a + 256 * b | _ => 0 end.
Definition le32 (l : list N) : N := match l with [a; b; c; d] => a + 256 * b + 65536 * c + 16777216 * d | _ => 0 end.
Definition u16le (v : N) : list N := [v mod 256; (v / 256) mod 256].
Definition u32le (v : N) : list N := [v mod 256; (v / 256) mod 256; (v / 65536) mod 256; (v / 16777216) mod 256].

(* `u32::from_le_bytes(data[k..k+4].try_into().unwrap())` *)
Definition u32_at (site : N) (data : list N) (k : nat) : res N :=
  do ab <- take site 4 (skipn k data); Ok (le32 (fst ab)).

(* `v as i32` for v : usize / u32 (wraps) and `z as u32` for z : i32 *)
Definition as_i32 (v : N) : Z :=
  let m := (Z.of_N v mod 4294967296)%Z in if (m <? 2147483648)%Z then m else (m - 4294967296)%Z.
Definition as_u32 (z : Z) : N := Z.to_N (z mod 4294967296)%Z.
Definition as_u8 (z : Z) : N := Z.to_N (z mod 256)%Z.

Definition is_bytes (bs : list N) : Prop := Forall (fun b => b < 256) bs.

(* ------------------------------------------------------------------------------------------------ lemmas *)

Lemma lenN_app {A} (a b : list A) : lenN (a ++ b) = lenN a + lenN b.
Proof. unfold lenN. rewrite app_length. lia. Qed.

Lemma lenN_nil {A} : lenN (@nil A) = 0.
Proof. reflexivity. Qed.

Lemma lenN_cons {A} (x : A) l : lenN (x :: l) = lenN l + 1.
Proof. unfold lenN. cbn [length]. lia. Qed.

Lemma take_app site (a b : list N) : take site (length a) (a ++ b) = Ok (a, b).
Proof.
  induction a as [|x a IH]; cbn [length take app]; [reflexivity|].
  rewrite IH. reflexivity.
Qed.

Lemma take_ok site n s : (n <= length s)%nat -> take site n s = Ok (firstn n s, skipn n s).
Proof.
  revert s. induction n as [|n IH]; intros s H; [reflexivity|].
  destruct s as [|x t]; [cbn in H; lia|]. cbn [take firstn skipn].
  rewrite IH by (cbn in H; lia). reflexivity.
Qed.

Lemma take_safe site n s : (n <= length s)%nat -> safe (take site n s).
Proof. intro H. rewrite take_ok by assumption. exact I. Qed.

Lemma drop_app site (a b : list N) : drop site (lenN a) (a ++ b) = Ok b.
Proof.
  unfold drop. rewrite lenN_app.
  replace (lenN a + lenN b <? lenN a) with false by (symmetry; apply N.ltb_ge; lia).
  unfold lenN. rewrite Nat2N.id.
  rewrite skipn_app, Nat.sub_diag, skipn_all. reflexivity.
Qed.

Lemma le16_u16le v : v < 65536 -> le16 (u16le v) = v.
Proof.
  intro H. unfold le16, u16le.
  rewrite (N.mod_small (v / 256) 256) by (apply N.div_lt_upper_bound; lia).
  pose proof (N.div_mod v 256). lia.
Qed.

Lemma le32_u32le v : v < 4294967296 -> le32 (u32le v) = v.
Proof.
  intro H. unfold le32, u32le.
  assert (E : forall x, x = 256 * (x / 256) + x mod 256) by (intro x; apply N.div_mod; lia).
  assert (D2 : v / 65536 = v / 256 / 256) by (rewrite N.div_div by lia; reflexivity).
  assert (D3 : v / 16777216 = v / 256 / 256 / 256) by (rewrite !N.div_div by lia; reflexivity).
  rewrite D2, D3.
  rewrite (N.mod_small (v / 256 / 256 / 256) 256)
    by (apply N.div_lt_upper_bound; [lia|]; apply N.div_lt_upper_bound; [lia|]; apply N.div_lt_upper_bound; lia).
  pose proof (E v). pose proof (E (v / 256)). pose proof (E (v / 256 / 256)). lia.
Qed.

Lemma u32le_length v : length (u32le v) = 4%nat.
Proof. reflexivity. Qed.

Lemma u16le_length v : length (u16le v) = 2%nat.
Proof. reflexivity. Qed.

Lemma as_i32_small v : v < 2147483648 -> as_i32 v = Z.of_N v.
Proof.
  intro H. unfold as_i32. rewrite Z.mod_small by lia.
  destruct (Z.ltb_spec (Z.of_N v) 2147483648); lia.
Qed.

Lemma as_u32_small z : (0 <= z < 4294967296)%Z -> as_u32 z = Z.to_N z.
Proof. intro H. unfold as_u32. rewrite Z.mod_small by lia. reflexivity. Qed.

Lemma as_u8_small z : (0 <= z < 256)%Z -> as_u8 z = Z.to_N z.
Proof. intro H. unfold as_u8. rewrite Z.mod_small by lia. reflexivity. Qed.
