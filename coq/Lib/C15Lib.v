(* Small shared lemmas for C15: lifting complete boolean sweeps over four nested finite ranges. *)
From Coq Require Import NArith Bool List Lia.
From IE Require Import Lib.Tbl Lib.Bits.
Import ListNotations.
Local Open Scope N_scope.

Lemma nrange_forallb4 (P : N -> N -> N -> N -> bool) n1 n2 n3 n4 :
  forallb (fun i => forallb (fun j => forallb (fun k => forallb (P i j k) (nrange n4)) (nrange n3)) (nrange n2)) (nrange n1) = true ->
  forall i j k l, i < n1 -> j < n2 -> k < n3 -> l < n4 -> P i j k l = true.
Proof.
  intros H i j k l Hi Hj Hk Hl.
  pose proof (nrange_forallb _ _ H i Hi) as H1. cbv beta in H1.
  pose proof (nrange_forallb _ _ H1 j Hj) as H2. cbv beta in H2.
  pose proof (nrange_forallb _ _ H2 k Hk) as H3. cbv beta in H3.
  exact (nrange_forallb _ _ H3 l Hl).
Qed.
