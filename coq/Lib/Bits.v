(* Bit-level lemmas on N shared by the codec proofs. *)
From Coq Require Import NArith List Lia Btauto Bool.
From AAC_tactics Require Import AAC.
From IE Require Import Lib.Tbl.
Import ListNotations.
Local Open Scope N_scope.

#[export] Instance lxor_Assoc : Associative eq N.lxor.
Proof. intros a b c. symmetry. apply N.lxor_assoc. Qed.
#[export] Instance lxor_Comm : Commutative eq N.lxor.
Proof. intros a b. apply N.lxor_comm. Qed.
(* equality of two xor-sums of the same atoms, in any order and bracketing *)
Ltac xor_ac := aac_reflexivity.

Ltac xor_bits :=
  apply N.bits_inj; intro; rewrite ?N.lxor_spec, ?N.bits_0; btauto.

Lemma lxor_lt_pow2 a b n : a < 2 ^ n -> b < 2 ^ n -> N.lxor a b < 2 ^ n.
Proof.
  intros Ha Hb.
  assert (H : N.shiftr (N.lxor a b) n = 0).
  { rewrite N.shiftr_lxor, !N.shiftr_div_pow2, !N.div_small by assumption. reflexivity. }
  rewrite N.shiftr_div_pow2 in H.
  apply N.div_small_iff in H; [exact H|]. apply N.pow_nonzero. discriminate.
Qed.

Lemma land_lxor_distr_l a b c : N.land (N.lxor a b) c = N.lxor (N.land a c) (N.land b c).
Proof. apply N.bits_inj; intro n. rewrite ?N.land_spec, ?N.lxor_spec, ?N.land_spec. btauto. Qed.

Lemma land_255_mod x : N.land x 255 = x mod 256.
Proof. change 255 with (N.ones 8). rewrite N.land_ones. reflexivity. Qed.

Lemma split_low8 x : x = N.lxor (N.land x 255) (N.shiftl (N.shiftr x 8) 8).
Proof.
  apply N.bits_inj; intro n. rewrite N.lxor_spec, N.land_spec.
  change 255 with (N.ones 8).
  destruct (N.ltb_spec n 8) as [Hlt|Hge].
  - rewrite N.ones_spec_low, N.shiftl_spec_low by assumption. btauto.
  - rewrite N.ones_spec_high, N.shiftl_spec_high', N.shiftr_spec' by assumption.
    replace (n - 8 + 8) with n by lia. btauto.
Qed.

Lemma shiftr8_small b : b < 256 -> N.shiftr b 8 = 0.
Proof. intro H. rewrite N.shiftr_div_pow2. apply N.div_small. exact H. Qed.

Lemma land255_small b : b < 256 -> N.land b 255 = b.
Proof. intro H. rewrite land_255_mod. apply N.mod_small. exact H. Qed.

Lemma lxor_lt_256 a b : a < 256 -> b < 256 -> N.lxor a b < 256.
Proof. apply (lxor_lt_pow2 a b 8). Qed.

Lemma nrange_aux_In k : forall s i, s <= i -> i < s + N.of_nat k -> In i (nrange_aux k s).
Proof.
  induction k as [|k IH]; intros s i Hlo Hhi.
  - simpl in Hhi. lia.
  - cbn [nrange_aux]. destruct (N.eq_dec s i) as [->|Hne]; [left; reflexivity|].
    right. apply IH; lia.
Qed.

Lemma nrange_In n i : i < n -> In i (nrange n).
Proof. intro H. unfold nrange. apply nrange_aux_In; lia. Qed.

Lemma nrange_forallb (P : N -> bool) n :
  forallb P (nrange n) = true -> forall i, i < n -> P i = true.
Proof. intros H i Hi. rewrite forallb_forall in H. apply H, nrange_In, Hi. Qed.

Lemma tget_cons0 x l : tget (x :: l) 0 = x.
Proof. reflexivity. Qed.
