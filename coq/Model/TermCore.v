(* M-term: the terminal core shared by C09 and C01.  Executable definitions only.

   Mirrors (icy_engine, worktree with the fix: commits of notes/C09.md / notes/C01.md):
     src/line.rs           Line::{with_capacity, create, insert_char, set_char, get_line_length}
     src/layer.rs          Layer::{get_char, set_char, clear, remove_line, insert_line}
     src/buffers.rs        Buffer::{get_first_visible_line, get_last_visible_line, get_first_editable_line,
                           get_first_editable_column, get_last_editable_column, needs_scrolling,
                           get_last_editable_line, upper_left_position, reset_terminal, set_size, set_height}
     src/terminal_state.rs TerminalState::{from, reset_tabs, next_tab_stop, prev_tab_stop, set_tab_at, remove_tab_stop,
                           clear_tab_stops, limit_caret_pos, set_margins_top_bottom, set_margins_left_right, ...}
     src/caret.rs          Caret::{reset, reset_color_attribute, get_attribute}
     src/parsers/mod.rs    impl Caret {lf ff cr eol home bs del ins erase_charcter left right up down index reverse_index
                           next_line check_scrolling_on_caret_up/down}, impl Buffer {print_char scroll_up scroll_down
                           scroll_left scroll_right clear_screen clear_buffer_down clear_buffer_up clear_line
                           clear_line_end clear_line_start remove_terminal_line insert_terminal_line}

   Conventions
   * Only TERMINAL buffers (is_terminal_buffer = true, one layer, layer visible and unlocked, no alpha lock): that is
     the object of C01/C09.  The non-terminal branches of the Rust functions are not part of this model.
   * i32 values are Z.  `saturating_*` saturate ([sat_add] ...), `as usize` of a negative number is a huge index: every
     place where that makes the Rust code panic (slice index, Vec::insert/remove, assert!, clamp(lo>hi), capacity
     overflow) returns [RPanic site].  Plain `+`/`-` on STREAM-SUPPLIED numbers are checked ([chk_add]).
   * Row counters (cursor row, buffer height, number of lines) are unbounded here: `pos.y + 1` / `set_height(y + 1)`
     would overflow i32 only with >= 2^31 - 61 allocated rows, which is the resource domain of C03; listed in
     ASSUMPTIONS of props/c09.py / props/c01.py.
   * A cell is (character code, background colour): exactly what Line::get_line_length / is_transparent read.
     AttributedChar::default() and ::invisible() both are (' ', 0) under this projection. *)
From Coq Require Import ZArith NArith List Bool Lia.
Import ListNotations.
Local Open Scope Z_scope.

Definition I32_MAX : Z := 2147483647.
Definition I32_MIN : Z := -2147483648.
Definition sat (x : Z) : Z := Z.max I32_MIN (Z.min I32_MAX x).
Definition sat_add (a b : Z) : Z := sat (a + b).
Definition sat_sub (a b : Z) : Z := sat (a - b).
Definition sat_mul (a b : Z) : Z := sat (a * b).

(* panic sites (the Rust function that panics) *)
Definition SITE_CLAMP : Z := 1.        (* TerminalState::limit_caret_pos: clamp(min > max) *)
Definition SITE_LINE_SET : Z := 2.     (* Line::set_char: negative index *)
Definition SITE_LINE_INSERT : Z := 3.  (* Line::insert_char: negative index *)
Definition SITE_PRINT_ROW : Z := 4.    (* Buffer::print_char insert mode: negative row as usize + 1 *)
Definition SITE_REMOVE_LINE : Z := 5.  (* Layer::remove_line assert *)
Definition SITE_INSERT_LINE : Z := 6.  (* Layer::insert_line assert *)
Definition SITE_ITL_REMOVE : Z := 7.   (* Buffer::insert_terminal_line: lines.remove(end as usize), end < 0 *)
Definition SITE_SR_END : Z := 8.       (* Buffer::scroll_right: end_column + 1 with end_column = usize::MAX *)
Definition SITE_OVERFLOW : Z := 9.     (* checked i32 arithmetic on a stream-supplied number *)

Inductive res (A : Type) : Type := ROk (a : A) | RPanic (site : Z).
Arguments ROk {A} a.
Arguments RPanic {A} site.
Definition bind {A B} (r : res A) (f : A -> res B) : res B :=
  match r with ROk a => f a | RPanic s => RPanic s end.
Notation "'do' x <- r ; f" := (bind r (fun x => f)) (at level 200, x name, r at level 100, f at level 200).

Definition chk (x : Z) : res Z := if (I32_MIN <=? x) && (x <=? I32_MAX) then ROk x else RPanic SITE_OVERFLOW.
Definition chk_add (a b : Z) : res Z := chk (a + b).
Definition chk_sub (a b : Z) : res Z := chk (a - b).

Definition cell : Type := (Z * Z)%type.           (* ch, background colour *)
Definition blank : cell := (32, 0).               (* AttributedChar::default() / ::invisible() *)
Definition is_transparent (c : cell) : bool := ((fst c =? 0) || (fst c =? 32)) && (snd c =? 0).

Record term := mkTerm {
  tw : Z; th : Z;                 (* TerminalState.size *)
  bw : Z; bh : Z;                 (* Buffer.size *)
  lw : Z; lh : Z;                 (* Layer.size *)
  lines : list (list cell);       (* Layer.lines, ragged *)
  cx : Z; cy : Z;                 (* Caret.pos *)
  cfg : Z; cbg : Z;               (* Caret.attribute colours (see Model/AnsiCmd.v for the abstraction of extended colours) *)
  cblink : bool;                  (* Caret.attribute blink bit *)
  cice : bool;                    (* Caret.ice_mode *)
  ins : bool;                     (* Caret.insert_mode *)
  awrap : bool;                   (* auto_wrap_mode = AutoWrap *)
  origin_m : bool;                (* origin_mode = WithinMargins *)
  mtb : option (Z * Z);           (* margins_top_bottom *)
  mlr : option (Z * Z);           (* margins_left_right *)
  declr : bool;                   (* dec_margin_mode_left_right *)
  tabs : list Z }.

Definition set_lines (t : term) (l : list (list cell)) : term :=
  mkTerm (tw t) (th t) (bw t) (bh t) (lw t) (lh t) l (cx t) (cy t) (cfg t) (cbg t) (cblink t) (cice t) (ins t) (awrap t) (origin_m t) (mtb t) (mlr t) (declr t) (tabs t).
Definition set_pos (t : term) (x y : Z) : term :=
  mkTerm (tw t) (th t) (bw t) (bh t) (lw t) (lh t) (lines t) x y (cfg t) (cbg t) (cblink t) (cice t) (ins t) (awrap t) (origin_m t) (mtb t) (mlr t) (declr t) (tabs t).
Definition set_cx (t : term) (x : Z) : term := set_pos t x (cy t).
Definition set_cy (t : term) (y : Z) : term := set_pos t (cx t) y.
Definition set_bsize (t : term) (w h : Z) : term :=
  mkTerm (tw t) (th t) w h (lw t) (lh t) (lines t) (cx t) (cy t) (cfg t) (cbg t) (cblink t) (cice t) (ins t) (awrap t) (origin_m t) (mtb t) (mlr t) (declr t) (tabs t).
Definition set_bh (t : term) (h : Z) : term := set_bsize t (bw t) h.
Definition set_lh (t : term) (h : Z) : term :=
  mkTerm (tw t) (th t) (bw t) (bh t) (lw t) h (lines t) (cx t) (cy t) (cfg t) (cbg t) (cblink t) (cice t) (ins t) (awrap t) (origin_m t) (mtb t) (mlr t) (declr t) (tabs t).
Definition set_tsize (t : term) (w h : Z) : term :=
  mkTerm w h (bw t) (bh t) (lw t) (lh t) (lines t) (cx t) (cy t) (cfg t) (cbg t) (cblink t) (cice t) (ins t) (awrap t) (origin_m t) (mtb t) (mlr t) (declr t) (tabs t).
Definition set_attr (t : term) (fg bg : Z) (blink : bool) : term :=
  mkTerm (tw t) (th t) (bw t) (bh t) (lw t) (lh t) (lines t) (cx t) (cy t) fg bg blink (cice t) (ins t) (awrap t) (origin_m t) (mtb t) (mlr t) (declr t) (tabs t).
Definition set_ice (t : term) (b : bool) : term :=
  mkTerm (tw t) (th t) (bw t) (bh t) (lw t) (lh t) (lines t) (cx t) (cy t) (cfg t) (cbg t) (cblink t) b (ins t) (awrap t) (origin_m t) (mtb t) (mlr t) (declr t) (tabs t).
Definition set_ins (t : term) (b : bool) : term :=
  mkTerm (tw t) (th t) (bw t) (bh t) (lw t) (lh t) (lines t) (cx t) (cy t) (cfg t) (cbg t) (cblink t) (cice t) b (awrap t) (origin_m t) (mtb t) (mlr t) (declr t) (tabs t).
Definition set_awrap (t : term) (b : bool) : term :=
  mkTerm (tw t) (th t) (bw t) (bh t) (lw t) (lh t) (lines t) (cx t) (cy t) (cfg t) (cbg t) (cblink t) (cice t) (ins t) b (origin_m t) (mtb t) (mlr t) (declr t) (tabs t).
Definition set_origin (t : term) (b : bool) : term :=
  mkTerm (tw t) (th t) (bw t) (bh t) (lw t) (lh t) (lines t) (cx t) (cy t) (cfg t) (cbg t) (cblink t) (cice t) (ins t) (awrap t) b (mtb t) (mlr t) (declr t) (tabs t).
Definition set_mtb (t : term) (m : option (Z * Z)) : term :=
  mkTerm (tw t) (th t) (bw t) (bh t) (lw t) (lh t) (lines t) (cx t) (cy t) (cfg t) (cbg t) (cblink t) (cice t) (ins t) (awrap t) (origin_m t) m (mlr t) (declr t) (tabs t).
Definition set_mlr (t : term) (m : option (Z * Z)) : term :=
  mkTerm (tw t) (th t) (bw t) (bh t) (lw t) (lh t) (lines t) (cx t) (cy t) (cfg t) (cbg t) (cblink t) (cice t) (ins t) (awrap t) (origin_m t) (mtb t) m (declr t) (tabs t).
Definition set_declr (t : term) (b : bool) : term :=
  mkTerm (tw t) (th t) (bw t) (bh t) (lw t) (lh t) (lines t) (cx t) (cy t) (cfg t) (cbg t) (cblink t) (cice t) (ins t) (awrap t) (origin_m t) (mtb t) (mlr t) b (tabs t).
Definition set_tabs (t : term) (l : list Z) : term :=
  mkTerm (tw t) (th t) (bw t) (bh t) (lw t) (lh t) (lines t) (cx t) (cy t) (cfg t) (cbg t) (cblink t) (cice t) (ins t) (awrap t) (origin_m t) (mtb t) (mlr t) (declr t) l.

(* ---- lists -------------------------------------------------------------------------------- *)
Definition zlen {A} (l : list A) : Z := Z.of_nat (length l).
(* Vec::resize *)
Definition resize {A} (l : list A) (n : nat) (d : A) : list A := firstn n l ++ repeat d (n - length l).
Fixpoint set_nth {A} (l : list A) (i : nat) (a : A) : list A :=
  match l, i with
  | [], _ => []
  | _ :: t, O => a :: t
  | h :: t, S j => h :: set_nth t j a
  end.
Definition insert_at {A} (l : list A) (i : nat) (a : A) : list A := firstn i l ++ a :: skipn i l.
Definition remove_at {A} (l : list A) (i : nat) : list A := firstn i l ++ skipn (S i) l.
Fixpoint zrange_n (lo : Z) (n : nat) : list Z := match n with O => [] | S k => lo :: zrange_n (lo + 1) k end.
(* lo..hi (exclusive) and lo..=hi *)
Definition zrange (lo hi : Z) : list Z := zrange_n lo (Z.to_nat (hi - lo)).
Definition zrange_incl (lo hi : Z) : list Z := zrange_n lo (Z.to_nat (hi + 1 - lo)).

(* ---- Line ---------------------------------------------------------------------------------- *)
Definition line_create (w : Z) : list cell := repeat blank (Z.to_nat w).     (* Line::create *)
(* Line::set_char with an index already known to be >= 0 *)
Definition line_set_nn (l : list cell) (i : nat) (c : cell) : list cell :=
  set_nth (if Nat.leb (length l) i then resize l (S i) blank else l) i c.
Definition line_set_char (l : list cell) (i : Z) (c : cell) : res (list cell) :=
  if i <? 0 then RPanic SITE_LINE_SET else ROk (line_set_nn l (Z.to_nat i) c).
Definition line_insert_char (l : list cell) (i : Z) (c : cell) : res (list cell) :=
  if i <? 0 then RPanic SITE_LINE_INSERT
  else let n := Z.to_nat i in ROk (insert_at (if Nat.ltb (length l) n then resize l n blank else l) n c).
Fixpoint line_length_rev (l : list cell) : nat :=        (* on the reversed row *)
  match l with [] => O | c :: t => if is_transparent c then line_length_rev t else S (length t) end.
Definition line_length (l : list cell) : Z := Z.of_nat (line_length_rev (rev l)).   (* Line::get_line_length *)

(* ---- Layer (on the raw line table; w h = layer size) ------------------------------------------- *)
Definition lget (w h : Z) (ls : list (list cell)) (x y : Z) : cell :=
  if (x <? 0) || (y <? 0) || (x >=? w) || (y >=? h) then blank
  else match nth_error ls (Z.to_nat y) with
       | Some row => match nth_error row (Z.to_nat x) with Some c => c | None => blank end
       | None => blank
       end.
Definition lset (w h : Z) (ls : list (list cell)) (x y : Z) (c : cell) : list (list cell) :=
  if (x <? 0) || (y <? 0) || (x >=? w) || (y >=? h) then ls
  else let yn := Z.to_nat y in
       let ls1 := if Nat.leb (length ls) yn then resize ls (S yn) (line_create w) else ls in
       match nth_error ls1 yn with
       | Some row => set_nth ls1 yn (line_set_nn row (Z.to_nat x) c)
       | None => ls1   (* unreachable: ls1 has more than yn rows *)
       end.
Definition layer_set (t : term) (x y : Z) (c : cell) : term := set_lines t (lset (lw t) (lh t) (lines t) x y c).

(* ---- Buffer geometry --------------------------------------------------------------------------- *)
(* get_first_visible_line: max(0, height.saturating_sub(terminal height)); with 0 <= height and 1 <= terminal height the
   saturating subtraction is exact (row counters are unbounded in this model, see the header) *)
Definition first (t : term) : Z := Z.max 0 (bh t - th t).
Definition last_visible (t : term) : Z := first t + bh t.
Definition first_edit (t : term) : Z := match mtb t with Some (s, _) => first t + s | None => first t end.
Definition first_col (t : term) : Z := match mlr t with Some (s, _) => s | None => 0 end.
Definition last_col (t : term) : Z := match mlr t with Some (_, e) => e | None => sat_sub (bw t) 1 end.   (* get_width().saturating_sub(1) *)
Definition needs_scrolling (t : term) : bool := match mtb t with Some _ => true | None => false end.
Definition last_edit (t : term) : Z :=
  match mtb t with Some (_, e) => first t + e | None => first t + bh t - 1 end.    (* saturating_sub(1) of a row counter *)
Definition upper_left_y (t : term) : Z := if origin_m t then first_edit t else first t.

(* ---- TerminalState ------------------------------------------------------------------------------- *)
Fixpoint reset_tabs_n (i : Z) (w : Z) (n : nat) : list Z :=
  match n with O => [] | S k => if i <? w then i :: reset_tabs_n (i + 8) w k else [] end.
Definition reset_tabs (w : Z) : list Z := reset_tabs_n 0 w (Z.to_nat w).
Fixpoint drop_le (x : Z) (l : list Z) : list Z := match l with [] => [] | a :: t => if a <=? x then drop_le x t else l end.
Fixpoint drop_ge (x : Z) (l : list Z) : list Z := match l with [] => [] | a :: t => if a >=? x then drop_ge x t else l end.
Definition next_tab_stop (t : term) (x : Z) : Z := match drop_le x (tabs t) with a :: _ => a | [] => tw t end.
Definition prev_tab_stop (t : term) (x : Z) : Z := match drop_ge x (rev (tabs t)) with a :: _ => a | [] => 0 end.
Fixpoint insert_sorted (x : Z) (l : list Z) : list Z :=
  match l with [] => [x] | a :: t => if x <=? a then x :: l else a :: insert_sorted x t end.
Definition sort (l : list Z) : list Z := fold_right insert_sorted [] l.
Definition set_tab_at (t : term) (x : Z) : term :=
  if existsb (Z.eqb x) (tabs t) then t else set_tabs t (sort (tabs t ++ [x])).
Definition remove_tab_stop (t : term) (x : Z) : term := set_tabs t (filter (fun a => negb (a =? x)) (tabs t)).

(* set_margins_top_bottom / set_margins_left_right (after the fix: clipped to the screen) *)
Definition clip_margins (lo hi limit : Z) : option (Z * Z) :=
  let lo' := Z.max lo 0 in let hi' := Z.min hi (limit - 1) in
  if lo' >? hi' then None else Some (lo', hi').
Definition set_margins_tb (t : term) (top bottom : Z) : term := set_mtb t (clip_margins top bottom (th t)).
Definition set_margins_lr (t : term) (l r : Z) : term := set_mlr t (clip_margins l r (tw t)).

(* TerminalState::from(size) as used by Buffer::reset_terminal: everything but the size back to defaults *)
Definition reset_terminal (t : term) : term :=
  mkTerm (tw t) (th t) (bw t) (bh t) (lw t) (lh t) (lines t) (cx t) (cy t) (cfg t) (cbg t) (cblink t) (cice t) (ins t)
         true false None None false (reset_tabs (tw t)).

Definition clampz (x lo hi : Z) : Z := Z.max lo (Z.min hi x).      (* i32::clamp, lo <= hi *)

Definition limit_caret_pos (t : term) : res term :=
  if origin_m t then
    let f := first_edit t in
    let height := last_edit t - f in
    ROk (set_pos t (clampz (cx t) 0 (Z.max (tw t - 1) 0)) (clampz (cy t) f (Z.max (f + height - 1) f)))
  else
    let f := first t in
    if f + th t - 1 <? f then RPanic SITE_CLAMP
    else ROk (set_pos t (clampz (cx t) 0 (Z.max (tw t - 1) 0)) (clampz (cy t) f (f + th t - 1))).

(* ---- scrolling (Buffer::scroll_up, _down, _left, _right) ------------------------------------------------------------------ *)
Definition scroll_up_col (w h : Z) (sl el : Z) (ls : list (list cell)) (x : Z) : list (list cell) :=
  let ls1 := fold_left (fun l y => lset w h l x y (lget w h l x (y + 1))) (zrange sl el) ls in
  lset w h ls1 x el blank.
Definition scroll_up (t : term) : term :=
  set_lines t (fold_left (scroll_up_col (lw t) (lh t) (first_edit t) (last_edit t)) (zrange_incl (first_col t) (last_col t)) (lines t)).
Definition scroll_down_col (w h : Z) (sl el : Z) (ls : list (list cell)) (x : Z) : list (list cell) :=
  let ls1 := fold_left (fun l y => lset w h l x y (lget w h l x (y - 1))) (rev (zrange_incl (sl + 1) el)) ls in
  lset w h ls1 x sl blank.
Definition scroll_down (t : term) : term :=
  set_lines t (fold_left (scroll_down_col (lw t) (lh t) (first_edit t) (last_edit t)) (zrange_incl (first_col t) (last_col t)) (lines t)).

(* one row of scroll_left / scroll_right; [sc] = start column, [ec] the i32 end column of the Rust code *)
Definition sl_row (sc ec : Z) (row : list cell) : list cell :=
  if (0 <=? sc) && (sc <? zlen row) then
    let row1 := if (0 <=? ec) && (ec <=? zlen row) then insert_at row (Z.to_nat ec) blank else row in
    remove_at row1 (Z.to_nat sc)
  else row.
Definition scroll_left (t : term) : term :=
  let sc := first_col t in let ec := last_col t + 1 in
  set_lines t (fold_left (fun ls i => if i <? 0 then ls else
                            match nth_error ls (Z.to_nat i) with
                            | Some row => set_nth ls (Z.to_nat i) (sl_row sc ec row)
                            | None => ls end)
                         (zrange_incl (first_edit t) (last_edit t)) (lines t)).
Definition sr_row (sc ec : Z) (row : list cell) : res (list cell) :=
  if (0 <=? sc) && (sc <? zlen row) then
    if ec =? -1 then RPanic SITE_SR_END
    else let row1 := insert_at row (Z.to_nat sc) blank in
         ROk (if (0 <=? ec) && (ec + 1 <? zlen row1) then remove_at row1 (Z.to_nat (ec + 1)) else row1)
  else ROk row.
Definition scroll_right (t : term) : res term :=
  let sc := first_col t in let ec := last_col t in
  do ls <- fold_left (fun acc i => do ls <- acc;
                          if i <? 0 then ROk ls else
                          match nth_error ls (Z.to_nat i) with
                          | Some row => do r <- sr_row sc ec row; ROk (set_nth ls (Z.to_nat i) r)
                          | None => ROk ls end)
                     (zrange_incl (first_edit t) (last_edit t)) (ROk (lines t));
  ROk (set_lines t ls).

(* ---- Caret motions ------------------------------------------------------------------------------- *)
Definition check_scrolling_down (t : term) (force : bool) : term :=
  if (needs_scrolling t || force) && (cy t >? last_edit t) then let t1 := scroll_up t in set_cy t1 (cy t1 - 1) else t.
Definition check_scrolling_up (t : term) (force : bool) : term :=
  if needs_scrolling t || force then
    let lastl := first_edit t in
    if cy t <? lastl then set_cy (N.iter (Z.to_N (lastl - cy t)) scroll_down t) lastl else t
  else t.

Definition caret_lf (t : term) : res term :=
  let was_ooe := cy t >? last_edit t in
  let y := cy t + 1 in
  let t1 := set_pos t 0 y in
  let n := length (lines t1) in
  let t2 := if y >=? Z.of_nat n then set_lines t1 (lines t1 ++ repeat [] (Z.to_nat (y + 1) - n)) else t1 in
  let t3 := if y + 1 >? bh t2 then set_bh t2 (y + 1) else t2 in
  if was_ooe then limit_caret_pos t3 else ROk (check_scrolling_down t3 false).

Definition caret_reset_color (t : term) : term := set_attr t 7 0 false.     (* reset_color_attribute (font page not modelled) *)
(* Caret::ff (after the fix: the buffer shrinks back to the screen) *)
Definition caret_ff (t : term) : term :=
  let t1 := reset_terminal t in
  let t2 := set_lines t1 [] in
  let t3 := set_bsize t2 (tw t2) (th t2) in
  caret_reset_color (set_pos t3 0 0).
Definition caret_cr (t : term) : term := set_cx t 0.
Definition caret_eol (t : term) : term := set_cx t (tw t - 1).
Definition caret_home (t : term) : term := set_pos t 0 (upper_left_y t).
(* Caret::reset *)
Definition caret_reset (t : term) : term := set_ice (set_ins (set_attr (set_pos t 0 0) 7 0 false) false) false.
(* Caret::get_attribute: background as printed *)
Definition print_bg (t : term) : Z := if cice t && (cbg t <? 8) && cblink t then cbg t + 8 else cbg t.

Definition caret_bs (t : term) : term :=
  let t1 := set_cx t (Z.max 0 (cx t - 1)) in layer_set t1 (cx t1) (cy t1) (32, cbg t1).
Definition caret_del (t : term) : term :=
  if cy t <? 0 then t else
  match nth_error (lines t) (Z.to_nat (cy t)) with
  | Some row => if (0 <=? cx t) && (cx t <? zlen row) then set_lines t (set_nth (lines t) (Z.to_nat (cy t)) (remove_at row (Z.to_nat (cx t)))) else t
  | None => t
  end.
Definition caret_ins (t : term) : term :=
  if cy t <? 0 then t else
  match nth_error (lines t) (Z.to_nat (cy t)) with
  | Some row => if (0 <=? cx t) && (cx t <? zlen row) then set_lines t (set_nth (lines t) (Z.to_nat (cy t)) (insert_at row (Z.to_nat (cx t)) (32, cbg t))) else t
  | None => t
  end.
Fixpoint erase_loop (row : list cell) (i : Z) (c : cell) (n : nat) : res (list cell) :=
  match n with O => ROk row | S k => do r <- line_set_char row i c; erase_loop r (i + 1) c k end.
Definition caret_erase (t : term) (number : Z) : res term :=
  let n := Z.min (tw t - cx t) number in
  if n <=? 0 then ROk t else
  if cy t <? 0 then ROk t else
  match nth_error (lines t) (Z.to_nat (cy t)) with
  | Some row => do r <- erase_loop row (cx t) (32, cbg t) (Z.to_nat n); ROk (set_lines t (set_nth (lines t) (Z.to_nat (cy t)) r))
  | None => ROk t
  end.

Definition caret_left (t : term) (n : Z) : res term := limit_caret_pos (set_cx t (sat_sub (cx t) n)).
Definition caret_right (t : term) (n : Z) : res term := limit_caret_pos (set_cx t (sat_add (cx t) n)).
Definition caret_up (t : term) (n : Z) : res term := limit_caret_pos (check_scrolling_up (set_cy t (sat_sub (cy t) n)) false).
(* after the fix: saturating add *)
Definition caret_down (t : term) (n : Z) : res term := limit_caret_pos (check_scrolling_down (set_cy t (sat_add (cy t) n)) false).
Definition caret_index (t : term) : res term := limit_caret_pos (check_scrolling_down (set_cy t (cy t + 1)) true).
Definition caret_reverse_index (t : term) : res term := limit_caret_pos (check_scrolling_up (set_cy t (cy t - 1)) true).
Definition caret_next_line (t : term) : res term := limit_caret_pos (check_scrolling_down (set_pos t 0 (cy t + 1)) true).

(* ---- Buffer::print_char ---------------------------------------------------------------------------- *)
Definition print_char (t : term) (c : cell) : res term :=
  do t1 <- (if ins t then
              if cy t <? 0 then RPanic SITE_PRINT_ROW else
              let yn := Z.to_nat (cy t) in
              let ls1 := if Nat.ltb (length (lines t)) (S yn) then resize (lines t) (S yn) [] else lines t in
              match nth_error ls1 yn with
              | Some row => do r <- line_insert_char row (cx t) blank; ROk (set_lines t (set_nth ls1 yn r))
              | None => ROk t   (* unreachable *)
              end
            else ROk t);
  let t2 := if cy t1 + 1 >? lh t1 then set_lh t1 (cy t1 + 1) else t1 in
  let t3 := if cy t2 + 1 >? bh t2 then set_bh t2 (cy t2 + 1) else t2 in
  let t4 := layer_set t3 (cx t3) (cy t3) c in
  let t5 := set_cx t4 (cx t4 + 1) in
  if cx t5 >=? tw t5 then (if awrap t5 then caret_lf t5 else ROk (set_cx t5 (cx t5 - 1))) else ROk t5.

(* ---- clearing ------------------------------------------------------------------------------------------ *)
Definition fill_cells (t : term) (ys xs : list Z) (c : cell) : term :=
  set_lines t (fold_left (fun ls y => fold_left (fun l x => lset (lw t) (lh t) l x y c) xs ls) ys (lines t)).
Definition clear_screen (t : term) : term :=
  set_bsize (set_lines (set_pos t 0 0) []) (tw t) (th t).
Definition clear_buffer_down (t : term) : term := fill_cells t (zrange (cy t) (last_visible t)) (zrange 0 (bw t)) (32, cbg t).
Definition clear_buffer_up (t : term) : term := fill_cells t (zrange (first t) (cy t)) (zrange 0 (bw t)) (32, cbg t).
Definition clear_line (t : term) : term := fill_cells t [cy t] (zrange 0 (bw t)) (32, cbg t).
Definition clear_line_end (t : term) : term := fill_cells t [cy t] (zrange (cx t) (bw t)) (32, cbg t).
Definition clear_line_start (t : term) : term := fill_cells t [cy t] (zrange 0 (cx t)) (32, cbg t).

(* ---- line insertion / removal ------------------------------------------------------------------------------ *)
(* Layer::insert_line(index, Line::with_capacity(_)) *)
Definition layer_insert_line (t : term) (index : Z) : res term :=
  if index <? 0 then RPanic SITE_INSERT_LINE
  else let n := Z.to_nat index in
       let ls1 := if Nat.ltb (length (lines t)) n then resize (lines t) n (line_create (lw t)) else lines t in
       ROk (set_lines t (insert_at ls1 n [])).
Definition remove_terminal_line (t : term) (line : Z) : res term :=
  if line >=? zlen (lines t) then ROk t else
  if line <? 0 then RPanic SITE_REMOVE_LINE else
  let t1 := set_lines t (remove_at (lines t) (Z.to_nat line)) in
  match mtb t1 with Some (_, e) => layer_insert_line t1 e | None => ROk t1 end.
Definition insert_terminal_line (t : term) (line : Z) : res term :=
  do t1 <- match mtb t with
           | Some (_, e) => if e <? zlen (lines t) then
                              (if e <? 0 then RPanic SITE_ITL_REMOVE else ROk (set_lines t (remove_at (lines t) (Z.to_nat e))))
                            else ROk t
           | None => ROk t end;
  layer_insert_line t1 line.

(* ---- initial state: Buffer::new((w,h)); is_terminal_buffer = true; Caret::default() -------------------------------- *)
Definition init_term (w h : Z) : term :=
  mkTerm w h w h w h (repeat (line_create w) (Z.to_nat h)) 0 0 7 0 false false false true false None None false (reset_tabs w).
