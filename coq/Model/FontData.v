(* Concrete fonts for the ColorOpt model: a font given by (width, height, glyphs packed big-endian base 256),
   which is how translator/gen_fonts.py emits the built-in fonts and how stage C passes fonts to the model.
   Mirrors what BitFont::from_bytes/glyphs_from_u8_data produce: glyph number c holds rows c*h .. c*h+h-1. *)
From Coq Require Import NArith List Bool.
From IE Require Import Model.ColorOpt.
Import ListNotations.
Local Open Scope N_scope.

(* the h rows (most significant first) of a packed glyph *)
Fixpoint unpack (h : nat) (n : N) : list N :=
  match h with O => [] | S h' => unpack h' (n / 256) ++ [n mod 256] end.

Definition font_of_data (w h : N) (glyphs : list N) : font :=
  mkFont w h (fun c => option_map (unpack (N.to_nat h)) (nth_error glyphs (N.to_nat c))).

Definition row_ok_b (w r : N) : bool := N.land r (N.ones (8 - w)) =? 0.
Definition glyph_ok_b (w h g : N) : bool := forallb (row_ok_b w) (unpack (N.to_nat h) g).
Definition font_ok_b (w h : N) (glyphs : list N) : bool :=
  (1 <=? w) && (w <=? 8) && forallb (glyph_ok_b w h) glyphs &&
  match nth_error glyphs 32 with Some g => ones (unpack (N.to_nat h) g) =? 0 | None => true end.

(* a font table from a list of (page, w, h, glyphs) *)
Fixpoint fonts_of_list (l : list (N * N * N * list N)) : fonts :=
  match l with
  | [] => fun _ => None
  | (p, w, h, g) :: t => fun q => if q =? p then Some (font_of_data w h g) else fonts_of_list t q
  end.
