(* M-emu (text loaders): the six parsers as the FILE LOADERS drive them, and the load pipeline
   (executable definitions only).

   Rust item                                              model
   ----------------------------------------------------   ---------------------------------------------------
   ansi::Parser::print_char in EngineState::Default,      ansi_print w p ch : option pbuf
     bs_is_ctrl_char = false, ansi_music = Off             ESC (27) leaves the model: None = "unmodelled" (the writers never
     (the fallback of pcboard/renegade/ctrla/avatar)       emit ESC; the whole CSI/OSC/DCS machine is outside this model)
   ascii::Parser::print_char                               ascii_print w p ch
   pcboard::Parser::print_char                             pcb_step    state PNormal | PCode | PColor1 | PColor2 v
                                                           (= pcb_code / pcb_color / pcb_pos / pcb_value of the struct)
   pcboard::conv_ch                                        conv_ch
   renegade::Parser::print_char                            ren_step    state RNormal | RFirst | RSecond v
   ctrla::Parser::print_char                               ctrla_step  state (ctrl_a, is_bold, high_bg); the commands
                                                           J > < ] and 128..255 (terminal-state dependent) are unmodelled
   avatar::Parser::print_char (merged tree: goto takes     avt_step    state AChars | ARep1 | ARep2 c | ACmd | AColor | AMove1 |
     1-based bytes AND, like ^V^C ^V^D ^V^F, ends with     AMove2 c
     terminal_state.limit_caret_pos)
   TerminalState::limit_caret_pos on a NON-terminal        limit_caret w p   (origin mode UpperLeftCorner - only an ESC sequence
     buffer (the loaders set is_terminal_buffer = false)   changes it, and ESC leaves the model -: the row is NOT touched, the column
                                                           is clamped to 0 ..= max(terminal_state width - 1, 0); the terminal
                                                           state's width is the Buffer::new width w of the loader: reset_terminal
                                                           keeps it and only a SAUCE record - outside the model - changes it)
   Caret::home (Ctrl-A ^A'), non-terminal buffer           set_pos p 0 0   (upper_left_position = (0, get_first_visible_line())
                                                           and get_first_visible_line() = 0 when is_terminal_buffer = false)
   Caret::ff: `if buf.is_terminal_buffer { set_size }`     not taken by the loaders: ff (Model/TextBuf.v) keeps the layer height
   (these fragments are pinned token by token by translator/gen_textfmt.py; AVT_RIGHT_MAX = the 79 of ^V^F)
   atascii::Parser::print_char                             ata_step    state got_escape; 1C..1F, 9C, 9D are unmodelled
   Every parser step is split in two layers, which is how the proofs use it:
     astep : state -> caret attribute -> char -> option (state * attribute)   the transitions that touch nothing but the
                                                                            parser state and caret.attribute
     bstep : state -> pbuf -> char -> option (state * pbuf)                  everything else
   step ps p ch = match astep .. with Some (ps', a') => (ps', set_attr p a') | None => bstep .. end.

   SauceData::extract (called by Buffer::from_bytes)       sauce_gate: a file whose last 128 bytes start with "SAUCE" leaves the
                                                           model (known finding C15-sauce-lookalike)
   convert_ansi_to_utf8                                    bom_gate: a file that starts with EF BB BF leaves the model (known
                                                           finding C15-utf8-bom); otherwise every byte is one char
   load_buffer of pcboard/renegade/ctrla/avatar/ascii:     load f data
     Buffer::new((80, 25)), parse_with_parser              (lines cleared, Caret::default(), errors skipped, crop, bold folding)
   atascii load_buffer: Buffer::new((40, 24)) keeps its    load ATA data   (24 rows of 40 invisible cells, no crop)
     24 pre-allocated rows, no crop *)
From Coq Require Import NArith Bool List Arith.
From IE Require Import Lib.Tbl Gen.Codepage Gen.TextFmt Model.Attr Model.TextBuf Model.TextWriters.
Import ListNotations.
Local Open Scope N_scope.

Definition with_fg (a : TextAttribute) (fg : N) : TextAttribute := mkAttr (font_page a) fg (background_color a) (attr a).
Definition with_bg (a : TextAttribute) (bg : N) : TextAttribute := mkAttr (font_page a) (foreground_color a) bg (attr a).

(* ---- fallback parsers ---- *)
Definition ansi_print (w : nat) (p : pbuf) (ch : N) : option pbuf :=
  if ch =? 27 then None
  else if ch =? C_LF then Some (lf p)
  else if ch =? C_FF then Some (ff p)
  else if ch =? C_CR then Some (cr p)
  else if ch =? C_BEL then Some p
  else if ch =? 127 then Some (del p)
  else Some (print_char w p (mkCell ch (pattr p))).

Definition ascii_print (w : nat) (p : pbuf) (ch : N) : option pbuf :=
  if (ch =? 0) || (ch =? 255) then Some (set_attr p (reset_color (pattr p)))
  else if ch =? C_BEL then Some p
  else if ch =? C_LF then Some (lf p)
  else if ch =? C_FF then Some (ff p)
  else if ch =? C_CR then Some (cr p)
  else if ch =? C_BS then Some (bs w p)
  else if ch =? 127 then Some (del p)
  else Some (print_char w p (mkCell ch (pattr p))).

Section Machine.
  Variable PS : Type.
  Variable astep : PS -> TextAttribute -> N -> option (PS * TextAttribute).
  Variable bstep : PS -> pbuf -> N -> option (PS * pbuf).
  Definition step (ps : PS) (p : pbuf) (ch : N) : option (PS * pbuf) :=
    match astep ps (pattr p) ch with
    | Some (ps', a') => Some (ps', set_attr p a')
    | None => bstep ps p ch
    end.
  Fixpoint run (ps : PS) (p : pbuf) (bs : list N) : option (PS * pbuf) :=
    match bs with
    | [] => Some (ps, p)
    | ch :: t => match step ps p ch with Some (ps', p') => run ps' p' t | None => None end
    end.
  Fixpoint arun (ps : PS) (a : TextAttribute) (bs : list N) : option (PS * TextAttribute) :=
    match bs with
    | [] => Some (ps, a)
    | ch :: t => match astep ps a ch with Some (ps', a') => arun ps' a' t | None => None end
    end.
End Machine.

Definition lift_print (PS : Type) (ps : PS) (r : option pbuf) : option (PS * pbuf) :=
  match r with Some p => Some (ps, p) | None => None end.

(* ---- PCBoard ---- *)
Inductive pcb_ps := PNormal | PCode | PColor1 | PColor2 (v : N).
Definition in_range (lo hi ch : N) : bool := (lo <=? ch) && (ch <=? hi).
Definition conv_ch (ch : N) : N :=
  if in_range 48 57 ch then ch - 48
  else if in_range 97 102 ch then 10 + ch - 97
  else if in_range 65 70 ch then 10 + ch - 65
  else 0.
Definition pcb_astep (ps : pcb_ps) (a : TextAttribute) (ch : N) : option (pcb_ps * TextAttribute) :=
  match ps with
  | PColor1 => Some (PColor2 (conv_ch ch), a)
  | PColor2 v => Some (PNormal, from_u8 ((N.shiftl v 4) mod 256 + conv_ch ch) Unlimited)
  | PCode => if ch =? 64 then Some (PNormal, a) else if ch =? 88 then Some (PColor1, a) else Some (PCode, a)
  | PNormal => if ch =? 64 then Some (PCode, a) else None
  end.
Definition pcb_bstep (w : nat) (ps : pcb_ps) (p : pbuf) (ch : N) : option (pcb_ps * pbuf) :=
  lift_print _ ps (ansi_print w p ch).

(* ---- Renegade ---- *)
Inductive ren_ps := RNormal | RFirst | RSecond (v : N).
Definition ren_astep (ps : ren_ps) (a : TextAttribute) (ch : N) : option (ren_ps * TextAttribute) :=
  match ps with
  | RNormal => if ch =? 124 then Some (RFirst, a) else None
  | RFirst => let code := ch mod 256 in
              if in_range 48 51 code then Some (RSecond ((code - 48) * 10), a) else Some (RNormal, a)
  | RSecond first =>
      let code := ch mod 256 in
      if in_range 48 57 code then
        let color := first + (code - 48) in
        Some (RNormal, if color <? 16 then with_fg a color else with_bg a (color - 16))
      else Some (RNormal, a)
  end.
Definition ren_bstep (w : nat) (ps : ren_ps) (p : pbuf) (ch : N) : option (ren_ps * pbuf) :=
  lift_print _ ps (ansi_print w p ch).

(* ---- Ctrl-A ---- *)
Record ctrla_ps := mkCP { cp_ctrl : bool; cp_bold : bool; cp_high : bool }.
Fixpoint index_of (x : N) (l : list N) (i : N) : option N :=
  match l with [] => None | h :: t => if h =? x then Some i else index_of x t (i + 1) end.
Definition ctrla_astep (ps : ctrla_ps) (a : TextAttribute) (ch : N) : option (ctrla_ps * TextAttribute) :=
  if cp_ctrl ps then
    let ps0 := mkCP false (cp_bold ps) (cp_high ps) in
    if (ch =? 76) || (ch =? 39) || (ch =? 74) || (ch =? 62) || (ch =? 60) || (ch =? 124) || (ch =? 93) || (ch =? 65) then None
    else if ch =? 72 then
      Some (mkCP false true (cp_high ps), if foreground_color a <? 8 then with_fg a (foreground_color a + 8) else a)
    else if ch =? 73 then Some (ps0, set_is_blinking a true)
    else if ch =? 69 then
      Some (mkCP false (cp_bold ps) true, if background_color a <? 8 then with_bg a (background_color a + 8) else a)
    else if ch =? 78 then
      let a1 := reset_color a in
      let a2 := if 7 <? foreground_color a1 then with_fg a1 (foreground_color a1 - 8) else a1 in
      let a3 := if 7 <? background_color a2 then with_bg a2 (background_color a2 - 8) else a2 in
      Some (mkCP false false false, a3)
    else if ch =? 90 then Some (ps0, a)
    else match index_of (ch mod 256) CTRLA_FG 0 with
         | Some fg => Some (ps0, with_fg a (fg + if cp_bold ps then 8 else 0))
         | None =>
           match index_of (ch mod 256) CTRLA_BG 0 with
           | Some bg => Some (ps0, with_bg a (bg + if cp_high ps then 8 else 0))
           | None => if in_range 128 255 ch then None else Some (ps0, a)
           end
         end
  else if ch =? CTRL_A then Some (mkCP true (cp_bold ps) (cp_high ps), a)
  else None.
Definition ctrla_bstep (w : nat) (ps : ctrla_ps) (p : pbuf) (ch : N) : option (ctrla_ps * pbuf) :=
  if cp_ctrl ps then
    let ps0 := mkCP false (cp_bold ps) (cp_high ps) in
    if ch =? 76 then Some (ps0, clear_screen p)
    else if ch =? 39 then Some (ps0, set_pos p 0 0)
    else if ch =? 124 then Some (ps0, cr p)
    else if ch =? 65 then lift_print _ ps0 (ansi_print w p CTRL_A)
    else None
  else lift_print _ ps (ansi_print w p ch).

(* ---- Avatar ---- *)
Inductive avt_ps := AChars | ARep1 | ARep2 (c : N) | ACmd | AColor | AMove1 | AMove2 (c : N).
Definition avt_astep (ps : avt_ps) (a : TextAttribute) (ch : N) : option (avt_ps * TextAttribute) :=
  match ps with
  | AChars => if ch =? AVT_REP then Some (ARep1, a) else if ch =? AVT_CMD then Some (ACmd, a) else None
  | ACmd =>
      let c := ch mod 65536 in
      if c =? 1 then Some (AColor, a)
      else if c =? 2 then Some (AChars, set_is_blinking a true)
      else if (c =? 3) || (c =? 4) || (c =? 5) || (c =? 6) then None
      else if c =? 7 then Some (ACmd, a)
      else if c =? 8 then Some (AMove1, a)
      else Some (AChars, a)
  | ARep1 => Some (ARep2 ch, a)
  | ARep2 _ => None
  | AColor => Some (AChars, from_u8 (ch mod 256) Unlimited)
  | AMove1 => Some (AMove2 ch, a)
  | AMove2 _ => None
  end.
(* TerminalState::limit_caret_pos, UpperLeftCorner, is_terminal_buffer = false:
   caret.pos.x = caret.pos.x.clamp(0, (self.get_width() - 1).max(0)); caret.pos.y unchanged *)
Definition limit_caret (w : nat) (p : pbuf) : pbuf := set_pos p (Nat.min (px p) (Nat.pred w)) (py p).
Fixpoint ansi_repeat (w : nat) (n : nat) (p : pbuf) (ch : N) : option pbuf :=
  match n with
  | O => Some p
  | S n' => match ansi_print w p ch with Some p' => ansi_repeat w n' p' ch | None => None end
  end.
Definition avt_bstep (w : nat) (ps : avt_ps) (p : pbuf) (ch : N) : option (avt_ps * pbuf) :=
  match ps with
  | AChars => if ch =? AVT_CLR then Some (AChars, ff p) else lift_print _ AChars (ansi_print w p ch)
  | ACmd =>
      let c := ch mod 65536 in
      if c =? 3 then Some (AChars, limit_caret w (set_pos p (px p) (Nat.pred (py p))))
      else if c =? 4 then Some (AChars, limit_caret w (set_pos p (px p) (S (py p))))
      else if c =? 5 then Some (AChars, set_pos p (Nat.pred (px p)) (py p))
      else if c =? 6 then Some (AChars, limit_caret w (set_pos p (Nat.min AVT_RIGHT_MAX (S (px p))) (py p)))
      else None
  | ARep2 c => lift_print _ AChars (ansi_repeat w (N.to_nat ch) p c)
  | AMove2 c => Some (AChars, limit_caret w (set_pos p (Nat.pred (N.to_nat c)) (Nat.pred (N.to_nat ch))))
  | _ => None
  end.

(* ---- ASCII ---- *)
Definition asc_astep (ps : unit) (a : TextAttribute) (ch : N) : option (unit * TextAttribute) := None.
Definition asc_bstep (w : nat) (ps : unit) (p : pbuf) (ch : N) : option (unit * pbuf) :=
  lift_print _ tt (ascii_print w p ch).

(* ---- ATASCII ---- *)
Definition ata_attr (a : TextAttribute) (inverse : bool) : TextAttribute :=
  if inverse then with_bg (with_fg a 0) 7 else with_bg (with_fg a 7) 0.
Definition ata_astep (ps : bool) (a : TextAttribute) (ch : N) : option (bool * TextAttribute) :=
  if ps then None
  else if ch =? 27 then Some (true, a)
  else if (ch =? 127) || (ch =? 158) || (ch =? 159) || (ch =? 253) then Some (false, a)
  else None.
Definition ata_bstep (w : nat) (ps : bool) (p : pbuf) (ch : N) : option (bool * pbuf) :=
  if ps then Some (false, print_char w p (mkCell (ch mod 65536) (pattr p)))
  else if (ch =? 28) || (ch =? 29) || (ch =? 30) || (ch =? 31) || (ch =? 156) || (ch =? 157) then None
  else if ch =? 125 then Some (false, clear_screen p)
  else if ch =? 126 then Some (false, bs w p)
  else if ch =? 155 then Some (false, lf p)
  else if ch =? 254 then Some (false, del p)
  else if ch =? 255 then Some (false, ins p)
  else
    let c := ch mod 65536 in
    let inverse := 127 <? c in
    let a := ata_attr (pattr p) inverse in
    Some (false, print_char w (set_attr p a) (mkCell (if inverse then c - 128 else c) a)).

(* ---- the load pipeline ---- *)
Definition SAUCE_ID : list N := [83; 65; 85; 67; 69].
Definition sauce_gate (data : list N) : bool :=
  (128 <=? length data)%nat &&
  (if list_eq_dec N.eq_dec (firstn 5 (skipn (length data - 128) data)) SAUCE_ID then true else false).
Definition bom_gate (data : list N) : bool :=
  match data with 239 :: 187 :: 191 :: _ => true | _ => false end.

Inductive lres := Loaded (p : pbuf) | Unmodelled.

Definition load_width (f : format) : nat :=
  match f with PCB => LOAD_W_pcb | AVT => LOAD_W_avt | CTRLA => LOAD_W_msg | REN => LOAD_W_an1 | ASC => LOAD_W_asc | ATA => LOAD_W_ata end.
Definition load_height (f : format) : nat :=
  match f with PCB => LOAD_H_pcb | AVT => LOAD_H_avt | CTRLA => LOAD_H_msg | REN => LOAD_H_an1 | ASC => LOAD_H_asc | ATA => LOAD_H_ata end.

Definition page0 (f : format) : pbuf := mkP [] 0 0 default_attribute (load_height f).
Definition ata_page0 : pbuf :=
  mkP (repeat (repeat invisible LOAD_W_ata) LOAD_H_ata) 0 0 default_attribute LOAD_H_ata.

Definition finish {PS : Type} (r : option (PS * pbuf)) : lres :=
  match r with Some (_, p) => Loaded (fold_bold (crop p)) | None => Unmodelled end.

Definition parse (f : format) (data : list N) : lres :=
  let w := load_width f in
  match f with
  | PCB => finish (run _ pcb_astep (pcb_bstep w) PNormal (page0 f) data)
  | REN => finish (run _ ren_astep (ren_bstep w) RNormal (page0 f) data)
  | CTRLA => finish (run _ ctrla_astep (ctrla_bstep w) (mkCP false false false) (page0 f) data)
  | AVT => finish (run _ avt_astep (avt_bstep w) AChars (page0 f) data)
  | ASC => finish (run _ asc_astep (asc_bstep w) tt (page0 f) data)
  | ATA => match run _ ata_astep (ata_bstep w) false ata_page0 data with
           | Some (_, p) => Loaded p
           | None => Unmodelled
           end
  end.

Definition load (f : format) (data : list N) : lres :=
  if sauce_gate data then Unmodelled
  else match f with
       | ATA => parse f data
       | _ => if bom_gate data then Unmodelled else parse f data
       end.
