(* Model of the bitmap font code of icy_engine (executable Gallina only, no proofs).

   Mirrors, in src/fonts.rs (the merged tree: the `fix:` commits of C17 plus C10's c9c7437, which replaced every
   `char::from_u32_unchecked(i)` by the checked `char::from_u32(i)`: a code that is not a char has no glyph;
   plus fix fB: the three loaders behind from_bytes reject a glyph size outside 1..=MAX_FONT_WIDTH x 1..=MAX_FONT_HEIGHT
   (8 x 32) and load_psf2 a charsize different from the height):
     glyphs_from_u8_data   -> glyph_loop / glyphs_from_u8_data
     BitFont::create_8     -> create_8            BitFont::from_basic      -> from_basic
     BitFont::load_psf1    -> load_psf1           BitFont::load_plain_font -> load_plain_font
     BitFont::load_psf2    -> load_psf2           BitFont::from_bytes      -> from_bytes
     BitFont::to_psf2_bytes-> to_psf2_bytes       BitFont::convert_to_u8_data -> convert_to_u8_data
     BitFont::encode_as_ansi -> encode_as_ansi    (base64 is a parameter)
   in src/parsers/ansi/dcs.rs:
     Parser::load_custom_font -> load_custom_font (on the collected DCS string; base64 is a parameter)
   and the font slots of the art formats (src/formats/xbinary.rs, artworx.rs, ice_draw.rs, icy_draw.rs):
     XBin:   `font.convert_to_u8_data()` / `BitFont::create_8("", 8, font_size, &data[o..o+font_size*256])`
     ADF/IDF:`font.convert_to_u8_data()` / `BitFont::from_basic(8, 16, &data[o..o+4096])`
     IcyDraw:`write_utf8_encoded_string(name) ++ to_psf2_bytes()` / `read_utf8_encoded_string` + `from_bytes`

   A BitFont is {size: (i32, i32), length: i32, glyphs: HashMap<char, Glyph>}. Every function above fills the
   map with the codes 0, 1, 2, … in order, so the map is a `list glyph` indexed by code (DESIGN section 4);
   a glyph is the list of its row bytes. name, path, font_type and checksum (a CRC of the glyph bytes) are not
   part of the property and are not modelled.

   Numbers: usize / u32 / u8 values are N, i32 fields are Z with explicit wrapping casts (as_i32, as_u32).
   Every slice / index / unwrap is a checked access that yields `Panic site`:
     site 1  data[k..k+4] in load_psf2 / from_bytes (header shorter than the field)
     site 2  data[2], data[3] in load_psf1
     site 3  data[headersize..] in load_psf2
     (sites 4 and 5 — `get_glyph(..).unwrap()` in to_psf2_bytes and `char::from_u32_unchecked` on a code >= 0xD800 —
      no longer exist: c9c7437 writes an empty glyph for a missing one and uses the checked conversion)
     site 6  vec![0; height as usize] with a negative height (capacity overflow) in to_psf2_bytes / convert_to_u8_data
     site 7  data[0..4] / data[4..4+size] in read_utf8_encoded_string (IcyDraw font chunk)
   Error classes (`Err e`): 3 UnsupportedVersion, 4 LengthMismatch, 5 UnknownFontFormat, 6 UnsupportedSize,
     21 invalid custom font dcs, 22 cannot decode base64, 23 cannot load bit font from dcs. *)
From Coq Require Import NArith ZArith List Bool.
From IE Require Import Lib.C17Lib Gen.FontConsts.
Import ListNotations.
Local Open Scope N_scope.

Record font := mkFont { f_w : Z; f_h : Z; f_len : Z; f_glyphs : list (list N) }.

Definition E_VERSION : N := 3.
Definition E_LENGTH : N := 4.
Definition E_UNKNOWN_FORMAT : N := 5.
Definition E_SIZE : N := 6.
Definition E_DCS_INVALID : N := 21.
Definition E_DCS_BASE64 : N := 22.
Definition E_DCS_FONT : N := 23.

(* fn glyphs_from_u8_data(font_height, data): `while font_height > 0 && data.len() >= font_height && ch < MAX_GLYPHS`
   n is data.len(); the fuel is the initial data length (every iteration consumes font_height >= 1 bytes).
   The body inserts the glyph `if let Some(ch) = char::from_u32(ch as u32)`: under the loop guard ch < MAX_GLYPHS
   that conversion always succeeds (FontProofs.max_glyphs_are_chars, which fails to compile if the extracted
   MAX_GLYPHS ever exceeds 0xD800), so every iteration appends the glyph of the next code. *)
Fixpoint glyph_loop (fuel : nat) (h n : N) (data : list N) (ch : N) : list (list N) :=
  match fuel with
  | O => []
  | S k =>
    if (h =? 0) || (n <? h) || (MAX_GLYPHS <=? ch) then []
    else firstn (N.to_nat h) data :: glyph_loop k h (n - h) (skipn (N.to_nat h) data) (ch + 1)
  end.
Definition glyphs_from_u8_data (h : N) (data : list N) : list (list N) :=
  glyph_loop (length data) h (lenN data) data 0.

(* create_8(name, width: u8, height: u8, data) and from_basic(width, height, data) *)
Definition create_8 (w h : N) (data : list N) : font :=
  mkFont (Z.of_N w) (Z.of_N h) 256 (glyphs_from_u8_data h data).
Definition from_basic (w h : N) (data : list N) : font :=
  mkFont (Z.of_N w) (Z.of_N h) 256 (glyphs_from_u8_data h data).

(* fix fB: `if charsize == 0 || charsize as usize > MAX_FONT_HEIGHT { return Err(UnsupportedSize(8, charsize)) }` *)
Definition load_psf1 (data : list N) : res font :=
  match data with
  | _ :: _ :: mode :: charsize :: rest =>
    if (charsize =? 0) || (MAX_FONT_HEIGHT <? charsize) then Err E_SIZE else
    let length := if N.land mode PSF1_MODE512 =? PSF1_MODE512 then 512%Z else 256%Z in
    Ok (mkFont 8 (Z.of_N charsize) length (glyphs_from_u8_data charsize rest))
  | _ => Panic 2
  end.

(* fix fB: `if data.len() % 256 != 0 || char_height == 0 || char_height > MAX_FONT_HEIGHT { return Err(UnknownFontFormat) }` *)
Definition load_plain_font (data : list N) : res font :=
  let n := lenN data in
  let h := n / 256 in
  if negb (n mod 256 =? 0) || (h =? 0) || (MAX_FONT_HEIGHT <? h) then Err E_UNKNOWN_FORMAT
  else Ok (mkFont 8 (as_i32 h) 256 (glyphs_from_u8_data h data)).

Definition load_psf2 (data : list N) : res font :=
  let n := lenN data in
  if n <? 32 then Err E_LENGTH else
  do version <- u32_at 1 data 4;
  if PSF2_MAXVERSION <? version then Err E_VERSION else
  do headersize <- u32_at 1 data 8;
  do length <- u32_at 1 data 16;
  do charsize <- u32_at 1 data 20;
  (* checked_mul / checked_add on a 64 bit usize cannot overflow for 32 bit operands *)
  if negb (length * charsize + headersize =? n) || (MAX_GLYPHS <? length) then Err E_LENGTH else
  do height <- u32_at 1 data 24;
  do width <- u32_at 1 data 28;
  (* fix fB: the glyph size is 1..=MAX_FONT_WIDTH x 1..=MAX_FONT_HEIGHT, and a glyph (one byte per row) takes `height` bytes *)
  if (width =? 0) || (MAX_FONT_WIDTH <? width) || (height =? 0) || (MAX_FONT_HEIGHT <? height) then Err E_SIZE else
  if negb (charsize =? height) then Err E_LENGTH else
  do rest <- drop 3 headersize data;
  Ok (mkFont (as_i32 width) (as_i32 height) (as_i32 length) (glyphs_from_u8_data height rest)).

Definition from_bytes (data : list N) : res font :=
  if lenN data <? 4 then Err E_UNKNOWN_FORMAT else
  match data with
  | a :: b :: c :: d :: _ =>
    if le16 [a; b] =? PSF1_MAGIC then load_psf1 data
    else if le32 [a; b; c; d] =? PSF2_MAGIC then load_psf2 data
    else load_plain_font data
  | _ => Panic 1
  end.

(* `char::from_u32(i)`: None for the surrogates 0xD800..=0xDFFF and for values above 0x10FFFF *)
Definition is_char (c : N) : bool := (c <? 55296) || ((57343 <? c) && (c <=? 1114111)).

(* The glyph loop shared by to_psf2_bytes, convert_to_u8_data (and calculate_checksum):
     for i in 0..self.length {
         if let Some(glyph) = char::from_u32(i as u32).and_then(|ch| self.get_glyph(ch)) { out.extend(&glyph.data) }
         else { out.extend(vec![0; self.size.height as usize]) }
     }
   k = codes still to emit, c = the current code, gl = the glyphs from code c on. A code that is not a char, or has
   no glyph, contributes `height` zero bytes; `vec![0; negative as usize]` is a capacity overflow (Panic 6). *)
Definition empty_glyph (h : Z) : res (list N) :=
  if (h <? 0)%Z then Panic 6 else Ok (repeat 0 (Z.to_nat h)).
Fixpoint glyph_bytes (gl : list (list N)) (k : nat) (c : N) (h : Z) : res (list N) :=
  match k with
  | O => Ok []
  | S k' =>
    do cur <- match gl with
              | g :: _ => if is_char c then Ok g else empty_glyph h
              | [] => empty_glyph h
              end;
    do r <- glyph_bytes (tl gl) k' (c + 1) h;
    Ok (cur ++ r)
  end.
(* `for i in 0..self.length` over an i32: nothing for length <= 0 *)
Definition all_glyph_bytes (f : font) : res (list N) :=
  if (f_len f <=? 0)%Z then Ok [] else glyph_bytes (f_glyphs f) (Z.to_nat (f_len f)) 0 (f_h f).

Definition to_psf2_bytes (f : font) : res (list N) :=
  do body <- all_glyph_bytes f;
  Ok (u32le PSF2_MAGIC ++ u32le 0 ++ u32le PSF2_HEADERSIZE ++ u32le 0 ++ u32le (as_u32 (f_len f))
      ++ u32le (as_u32 (f_h f)) ++ u32le (as_u32 (f_h f)) ++ u32le (as_u32 (f_w f)) ++ body).

Definition convert_to_u8_data (f : font) : res (list N) := all_glyph_bytes f.

(* ---------------------------------------------------------------------------------- decimal numbers *)
(* `format!("{font_slot}")` for a usize: at most 20 digits *)
Fixpoint digits_fuel (fuel : nat) (n : N) (acc : list N) : list N :=
  match fuel with
  | O => acc
  | S k => let acc' := (48 + n mod 10) :: acc in if n <? 10 then acc' else digits_fuel k (n / 10) acc'
  end.
Definition dec_digits (n : N) : list N := digits_fuel 20 n [].

(* `str::parse::<usize>()`: optional '+', at least one digit, only digits, no overflow of 2^64 *)
Fixpoint parse_digits (s : list N) (acc : N) : option N :=
  match s with
  | [] => Some acc
  | c :: t => if (48 <=? c) && (c <=? 57)
              then let acc' := acc * 10 + (c - 48) in
                   if 18446744073709551615 <? acc' then None else parse_digits t acc'
              else None
  end.
Definition parse_usize (s : list N) : option N :=
  match s with
  | [] => None
  | c :: t => if c =? 43 then (match t with [] => None | _ => parse_digits t 0 end) else parse_digits s 0
  end.

(* `s.find(':')`: (before, after) the first ':' *)
Fixpoint split_colon (s : list N) : option (list N * list N) :=
  match s with
  | [] => None
  | c :: t => if c =? 58 then Some ([], t)
              else match split_colon t with Some (a, b) => Some (c :: a, b) | None => None end
  end.

Fixpoint strip_prefix (p s : list N) : option (list N) :=
  match p, s with
  | [], _ => Some s
  | x :: p', y :: s' => if x =? y then strip_prefix p' s' else None
  | _ :: _, [] => None
  end.

Definition CTERM_FONT : list N := [67; 84; 101; 114; 109; 58; 70; 111; 110; 116; 58].   (* "CTerm:Font:" *)

Section Base64.
  (* base64::engine::general_purpose::STANDARD as an oracle (DESIGN section 4: external libraries are section
     variables; the law they must satisfy is a hypothesis of the theorems that need it) *)
  Variable b64_enc : list N -> list N.
  Variable b64_dec : list N -> option (list N).

  (* BitFont::encode_as_ansi: ESC P CTerm:Font:<slot>:<base64> ESC \ ; dcs_string is what the ANSI parser
     collects between ESC P and ESC \ and hands to execute_dcs *)
  Definition dcs_string (slot : N) (raw : list N) : list N :=
    CTERM_FONT ++ dec_digits slot ++ [58] ++ b64_enc raw.
  Definition encode_as_ansi (slot : N) (f : font) : res (list N) :=
    do raw <- convert_to_u8_data f;
    Ok ([27; 80] ++ dcs_string slot raw ++ [27; 92]).

  (* Parser::execute_dcs -> load_custom_font: which slot receives which font *)
  Definition load_custom_font (parse_string : list N) : res (N * font) :=
    match strip_prefix CTERM_FONT parse_string with
    | None => Err E_DCS_INVALID
    | Some s =>
      match split_colon s with
      | None => Err E_DCS_INVALID
      | Some (num, payload) =>
        match parse_usize num with
        | None => Err E_DCS_INVALID
        | Some slot =>
          match b64_dec payload with
          | None => Err E_DCS_BASE64
          | Some data =>
            match from_bytes data with
            | Ok f => Ok (slot, f)
            | Err _ => Err E_DCS_FONT
            | Panic s => Panic s
            | Diverge => Diverge
            end
          end
        end
      end
    end.
End Base64.

(* ------------------------------------------------------------------------- font slots of the art formats *)
(* XBin: header byte `font.size.height as u8`, flag FONT, then 256*height bytes; reader: create_8("", 8, h, …) *)
Definition xbin_font_write (f : font) : res (list N) := convert_to_u8_data f.
Definition xbin_font_read (font_size : N) (slot : list N) : font := create_8 8 font_size slot.
(* ADF and IDF: 4096 bytes; reader: from_basic(8, 16, …) *)
Definition adf_font_write (f : font) : res (list N) := convert_to_u8_data f.
Definition adf_font_read (slot : list N) : font := from_basic 8 16 slot.
(* IcyDraw FONT_<k> chunk payload (inside base64 inside a zTXt chunk, which are C07's business) *)
Definition icy_font_write (name : list N) (f : font) : res (list N) :=
  do p <- to_psf2_bytes f; Ok (u32le (lenN name mod 4294967296) ++ name ++ p).
Definition icy_font_read (chunk : list N) : res (list N * font) :=
  do h <- take 7 4 chunk;
  let size := le32 (fst h) in
  do rest <- (if lenN (snd h) <? size then Panic 7 else Ok (skipn (N.to_nat size) (snd h)));
  do f <- from_bytes rest;
  Ok (firstn (N.to_nat size) (snd h), f).
