(* Model/XBin.v — executable model of the XBin image-data codec of icy_engine (property C06).
   Executable Gallina only; proofs are in Proofs/XBinProofs.v.

   Rust items mirrored (src/formats/xbinary.rs unless said otherwise), after the `fix:` commit that makes the
   Full-run continuation test compare the font page:
     TextAttribute::{as_u8, from_u8}, PartialEq for TextAttribute / AttributedChar   (src/text_attribute.rs, src/attributed_char.rs)
         -> as_u8, from_u8, attr_eqb, cell_eqb        (Rust equality ignores the font page: kept distinct from `=`)
     encode_attr                -> encode_attr          (literals from Gen/XBinConst.v)
     decode_char                -> decode_char          (literals from Gen/XBinConst.v)
     count_length               -> count_length         (literal transcription; second component = "a u8 `run_count += 1` overflowed")
     compress_backtrack         -> compress_with / compress_backtrack (row loop: crow; the look-ahead comparisons
                                   `l1 < l2` and their guards are one oracle argument; bt_oracle is what the code does)
     uncompressed branch of XBin::to_bytes  -> plain_rows
     read_data_compressed       -> rdc / read_data_compressed  (trace of Layer::set_char calls + outcome)
     read_data_uncompressed     -> read_data_uncompressed      (trace of Layer::set_char calls; every path returns Ok(true))
     advance_pos                -> advance
   A row is the list of `buf.get_char((x,y))` for x in 0..width.  Characters are N (Rust char code),
   colours are N (u32), `aflags` is the u16 attribute word, `fpage` the font page (usize).

   The independent specification decoder (xb_spec_row / xb_spec_rows) at the end of the file is written from
   doc/FileFormats/x_bin.htm and shares nothing with the reader model: it does not use Gen/XBinConst.v. *)
From Coq Require Import NArith ZArith List Bool.
From IE Require Import Lib.Tbl Gen.XBinConst.
Import ListNotations.
Local Open Scope N_scope.

Inductive ice_mode := Unlimited | Blink | Ice.
Inductive comp := MOff | MChar | MAttr | MFull.

Record tattr := mkattr { fg : N; bg : N; aflags : N; fpage : N }.
Record cell := mkcell { ch : N; attr : tattr }.

(* ---- src/text_attribute.rs ------------------------------------------------------------------------------- *)
Definition is_bold (a : tattr) : bool := N.land (aflags a) ATTR_BOLD =? ATTR_BOLD.
Definition is_blinking (a : tattr) : bool := N.land (aflags a) ATTR_BLINK =? ATTR_BLINK.

(* impl PartialEq for TextAttribute: foreground, background, attr — NOT font_page *)
Definition attr_eqb (a b : tattr) : bool := (fg a =? fg b) && (bg a =? bg b) && (aflags a =? aflags b).
(* impl PartialEq for AttributedChar *)
Definition cell_eqb (a b : cell) : bool := (ch a =? ch b) && attr_eqb (attr a) (attr b).
Definition page_eqb (a b : cell) : bool := fpage (attr a) =? fpage (attr b).

Definition as_u8 (a : tattr) (m : ice_mode) : N :=
  let f0 := N.land (fg a) 15 in
  let f := if is_bold a then N.lor f0 8 else f0 in
  let b := match m with
           | Blink => N.lor (N.land (bg a) 7) (if is_blinking a then 8 else 0)
           | Unlimited => N.lor (N.land (bg a) 15) (if is_blinking a then 8 else 0)   (* after fix bfd7e38 *)
           | Ice => N.land (bg a) 15
           end in
  (N.lor f (N.shiftl b 4)) mod 256.

Definition from_u8 (a : N) (m : ice_mode) : tattr :=
  let blink := match m with Ice => false | _ => negb (N.land a 128 =? 0) end in
  let b := match m with Ice => N.shiftr a 4 | _ => N.land (N.shiftr a 4) 7 end in
  mkattr (N.land a 15) b (if blink then ATTR_BLINK else 0) 0.

Definition default_attr : tattr := mkattr 7 0 0 0.
Definition default_cell : cell := mkcell 32 default_attr.
(* AttributedChar::invisible() — what Buffer::get_char returns outside every layer *)
Definition invisible_cell : cell := mkcell 32 (mkattr 7 0 32768 0).

(* ---- encode_attr / decode_char ----------------------------------------------------------------------------- *)
Definition encode_attr (fonts : list N) (ic : ice_mode) (c : cell) : N :=
  if N.of_nat (length fonts) =? ENC_FONTS_LEN then
    match fonts with
    | _ :: f1 :: _ => N.lor (N.land (as_u8 (attr c) ic) ENC_MASK) (if fpage (attr c) =? f1 then ENC_PAGE_BIT else ENC_NOPAGE_BIT)
    | _ => as_u8 (attr c) ic      (* unreachable while ENC_FONTS_LEN = 2 (`fonts[1]` is in range) *)
    end
  else as_u8 (attr c) ic.

(* result.ice_mode, result.font_mode == FixedSize *)
Definition decode_char (il : ice_mode) (fixed : bool) (code a : N) : cell :=
  let t := from_u8 a il in
  if (DEC_FG_LIMIT <? fg t) && fixed
  then mkcell code (mkattr (fg t - DEC_FG_SUB) (bg t) (aflags t) DEC_PAGE)
  else mkcell code t.

(* what XBin::to_bytes / load_buffer derive from the buffer: FLAG_NON_BLINK_MODE, FLAG_512CHAR_MODE *)
Definition load_ice (ic : ice_mode) : ice_mode := match ic with Ice => Ice | _ => Blink end.
Definition ext_mode (fonts : list N) : bool := N.of_nat (length fonts) =? 2.

(* the (character byte, attribute byte) pair the uncompressed writer stores for a cell *)
Definition enc (fonts : list N) (ic : ice_mode) (c : cell) : N * N := (ch c, encode_attr fonts ic c).

(* ---- compressor ---------------------------------------------------------------------------------------------- *)
Definition comp_byte (m : comp) : N :=
  match m with MOff => COMP_OFF | MChar => COMP_CHAR | MAttr => COMP_ATTR | MFull => COMP_FULL end.

(* `x + k < width` when `rest` holds the cells x+1 .. width-1 *)
Fixpoint longer (k : nat) (rest : list cell) : bool :=
  match k with
  | O => true
  | S k' => match rest with [] => false | _ :: t => longer k' t end
  end.
(* buffer.get_char((x + 1 + k, y)): the cell, or the invisible cell beyond the row (never inspected there) *)
Definition cell_at (rest : list cell) (k : nat) : cell := nth k rest invisible_cell.

(* run-type choice at a run start (identical text in count_length and compress_backtrack) *)
Definition start_mode (cur : cell) (rest : list cell) : comp :=
  match rest with
  | [] => MOff
  | next :: _ =>
      if cell_eqb cur next then MFull
      else if ch cur =? ch next then MChar
      else if attr_eqb (attr cur) (attr next) then MAttr
      else MOff
  end.

(* count_length(run_mode, run_ch, end_run, run_count, buffer, y, x): cs = cells x .. width-1.
   cl_end_run: the value of `end_run` after the `if end_run.is_none() { … }` block (run_count > 0). *)
Definition cl_end_run (m : comp) (rc : cell) (er : option bool) (cnt : N) (cur : cell) (rest : list cell) : option bool :=
  match er with
  | Some _ => er
  | None =>
      let next := cell_at rest 0 in
      if RUN_MAX_CL <=? cnt then Some true
      else match m with
           | MOff =>
               if longer 2 rest && cell_eqb cur next then Some true
               else if longer 2 rest then
                 let next2 := cell_at rest 1 in
                 Some ((ch cur =? ch next) && (ch cur =? ch next2)
                       || attr_eqb (attr cur) (attr next) && attr_eqb (attr cur) (attr next2))
               else None
           | MChar =>
               if negb (ch cur =? ch rc) then Some true
               else if longer 3 rest then
                 Some (cell_eqb cur next && cell_eqb cur (cell_at rest 1) && cell_eqb cur (cell_at rest 2))
               else None
           | MAttr =>
               if negb (attr_eqb (attr cur) (attr rc)) then Some true
               else if longer 3 rest then
                 Some (cell_eqb cur next && cell_eqb cur (cell_at rest 1) && cell_eqb cur (cell_at rest 2))
               else None
           | MFull => Some (negb (cell_eqb cur rc))
           end
  end.

(* Returns (count, overflow) — overflow records a u8 `run_count += 1` above 255 (dev profile: panic). *)
Fixpoint count_length (m : comp) (rc : cell) (er : option bool) (cnt : N) (cs : list cell) (acc : N) (ovf : bool) : N * bool :=
  match cs with
  | [] => (acc, ovf)
  | cur :: rest =>
      let ended := (0 <? cnt) && match cl_end_run m rc er cnt cur rest with Some true => true | _ => false end in
      let acc1 := if ended then acc + 1 else acc in
      let cnt1 := if ended then 0 else cnt in
      let go := 0 <? cnt1 in
      count_length (if go then m else start_mode cur rest) (if go then rc else cur) None (cnt1 + 1) rest
        (if go then match m with MOff => acc1 + 2 | MChar | MAttr => acc1 + 1 | MFull => acc1 end else acc1 + 2)
        (ovf || (255 <? cnt1 + 1))
  end.

(* The look-ahead decision: o m run_ch run_count (cur :: rest) = the value `end_run` gets from the heuristic part
   of the arm for run mode m (Off: the whole arm; Char/Attr: the `else if` part). *)
Definition oracle := comp -> cell -> N -> list cell -> bool.

Definition l1_lt_l2 (m : comp) (rc : cell) (cnt : N) (cs : list cell) : bool :=
  fst (count_length m rc (Some true) cnt cs 0 false) <? fst (count_length m rc (Some false) cnt cs 0 false).

Definition bt_oracle : oracle := fun m rc cnt cs =>
  match cs with
  | [] => false
  | cur :: rest =>
      let next := match rest with n :: _ => n | [] => default_cell end in
      match m with
      | MOff =>
          if longer 2 rest && ((ch cur =? ch next) || attr_eqb (attr cur) (attr next))
          then l1_lt_l2 m rc cnt cs else false
      | MChar =>
          if longer 4 rest then
            if attr_eqb (attr cur) (attr next) && attr_eqb (attr cur) (attr (cell_at rest 1))
            then l1_lt_l2 m rc cnt cs else false
          else false
      | MAttr =>
          if longer 3 rest then
            if (ch cur =? ch next) && (ch cur =? ch (cell_at rest 1))
            then l1_lt_l2 m rc cnt cs else false
          else false
      | MFull => false
      end
  end.

Record cstate := mkst { run_mode : comp; run_count : N; run_ch : cell; run_buf : list N }.
Definition init_state : cstate := mkst MOff 0 default_cell [].

Inductive res (A : Type) := Ok (a : A) | ErrOnly8Bit.
Arguments Ok {A} a.
Arguments ErrOnly8Bit {A}.

(* `end_run` for run_count > 0 *)
Definition end_run_of (o : oracle) (s : cstate) (cs : list cell) (cur : cell) : bool :=
  if RUN_MAX <=? run_count s then true
  else match run_mode s with
       | MOff => o MOff (run_ch s) (run_count s) cs
       | MChar =>
           if negb (ch cur =? ch (run_ch s)) || negb (page_eqb cur (run_ch s)) then true
           else o MChar (run_ch s) (run_count s) cs
       | MAttr =>
           if negb (attr_eqb (attr cur) (attr (run_ch s))) || negb (page_eqb cur (run_ch s)) then true
           else o MAttr (run_ch s) (run_count s) cs
       | MFull => negb (cell_eqb cur (run_ch s)) || negb (page_eqb cur (run_ch s))
       end.

(* outputdata.push((run_mode as u8) | (run_count - 1)); outputdata.extend(&run_buf) *)
Definition flush (s : cstate) : list N := N.lor (comp_byte (run_mode s)) (run_count s - 1) :: run_buf s.

(* the part of the loop body after the `ch_code > 255` test, when the run goes on *)
Definition push_cell (fonts : list N) (ic : ice_mode) (s : cstate) (cur : cell) : cstate :=
  let add := match run_mode s with
             | MOff => [ch cur; encode_attr fonts ic cur]
             | MChar => [encode_attr fonts ic cur]
             | MAttr => [ch cur]
             | MFull => []
             end in
  mkst (run_mode s) (run_count s + 1) (run_ch s) (run_buf s ++ add).

(* … and when a new run starts *)
Definition start_run (fonts : list N) (ic : ice_mode) (cur : cell) (rest : list cell) : cstate :=
  let m := start_mode cur rest in
  mkst m 1 cur (match m with
                | MAttr => [encode_attr fonts ic cur; ch cur]
                | _ => [ch cur; encode_attr fonts ic cur]
                end).

(* one row of compress_backtrack: returns the bytes appended to outputdata from column x on *)
Fixpoint crow (o : oracle) (fonts : list N) (ic : ice_mode) (cs : list cell) (s : cstate) : res (list N) :=
  match cs with
  | [] => Ok (if 0 <? run_count s then flush s else [])
  | cur :: rest =>
      let ended := (0 <? run_count s) && end_run_of o s cs cur in
      if 255 <? ch cur then ErrOnly8Bit
      else
        let s' := if (0 <? run_count s) && negb ended then push_cell fonts ic s cur
                  else start_run fonts ic cur rest in
        match crow o fonts ic rest s' with
        | Ok bs => Ok (if ended then flush s ++ bs else bs)
        | ErrOnly8Bit => ErrOnly8Bit
        end
  end.

Fixpoint compress_with (o : oracle) (fonts : list N) (ic : ice_mode) (rows : list (list cell)) : res (list N) :=
  match rows with
  | [] => Ok []
  | r :: rs =>
      match crow o fonts ic r init_state with
      | Ok b => match compress_with o fonts ic rs with Ok bs => Ok (b ++ bs) | ErrOnly8Bit => ErrOnly8Bit end
      | ErrOnly8Bit => ErrOnly8Bit
      end
  end.

Definition compress_backtrack := compress_with bt_oracle.

(* uncompressed branch of to_bytes *)
Fixpoint plain_cells (fonts : list N) (ic : ice_mode) (cs : list cell) : res (list N) :=
  match cs with
  | [] => Ok []
  | c :: t =>
      if 255 <? ch c then ErrOnly8Bit
      else match plain_cells fonts ic t with
           | Ok bs => Ok (ch c :: encode_attr fonts ic c :: bs)
           | ErrOnly8Bit => ErrOnly8Bit
           end
  end.
Definition plain_rows (fonts : list N) (ic : ice_mode) (rows : list (list cell)) : res (list N) :=
  plain_cells fonts ic (concat rows).

(* ---- readers: trace of `result.layers[0].set_char(pos, ch)` calls ------------------------------------------------ *)
Record wr := mkwr { wx : Z; wy : Z; wcell : cell }.
Inductive routcome := ROk | RPanicIndex | RPanicTransmute | RDiverge.

Definition advance (width : Z) (p : Z * Z) : Z * Z :=
  let x := (fst p + 1)%Z in
  if (x >=? width)%Z then (0%Z, (snd p + 1)%Z) else (x, snd p).

Section Readers.
  Variable il : ice_mode.
  Variable fixed : bool.
  Variable width : Z.

  Definition put (p : Z * Z) (code a : N) : wr := mkwr (fst p) (snd p) (decode_char il fixed code a).

  (* Compression::Off arm: `for _ in 0..repeat_counter { if o + 2 > len { break } … }` *)
  Fixpoint rd_off (n : nat) (p : Z * Z) (bs : list N) : list wr * (Z * Z) * list N :=
    match n with
    | O => ([], p, bs)
    | S k => match bs with
             | c :: a :: r => let '(ws, p', r') := rd_off k (advance width p) r in (put p c a :: ws, p', r')
             | _ => ([], p, bs)
             end
    end.
  (* Char arm after `char_code = bytes[o]` *)
  Fixpoint rd_char (code : N) (n : nat) (p : Z * Z) (bs : list N) : list wr * (Z * Z) * list N :=
    match n with
    | O => ([], p, bs)
    | S k => match bs with
             | a :: r => let '(ws, p', r') := rd_char code k (advance width p) r in (put p code a :: ws, p', r')
             | [] => ([], p, bs)
             end
    end.
  (* Attr arm after `attribute = bytes[o]` *)
  Fixpoint rd_attr (a : N) (n : nat) (p : Z * Z) (bs : list N) : list wr * (Z * Z) * list N :=
    match n with
    | O => ([], p, bs)
    | S k => match bs with
             | c :: r => let '(ws, p', r') := rd_attr a k (advance width p) r in (put p c a :: ws, p', r')
             | [] => ([], p, bs)
             end
    end.
  (* Full arm: repeat_counter times the same cell *)
  Fixpoint rd_full (code a : N) (n : nat) (p : Z * Z) : list wr * (Z * Z) :=
    match n with
    | O => ([], p)
    | S k => let '(ws, p') := rd_full code a k (advance width p) in (put p code a :: ws, p')
    end.

  (* `while o < bytes.len()`; fuel: every iteration consumes at least the run byte *)
  Fixpoint rdc (fuel : nat) (p : Z * Z) (bs : list N) : list wr * routcome :=
    match bs with
    | [] => ([], ROk)
    | h :: t =>
        match fuel with
        | O => ([], RDiverge)
        | S f =>
            let ty := N.land h TYPE_MASK in
            let n := N.to_nat (N.land h COUNT_MASK + COUNT_BIAS) in
            if ty =? COMP_OFF then
              let '(ws, p', r) := rd_off n p t in
              let '(ws2, oc) := rdc f p' r in (ws ++ ws2, oc)
            else if ty =? COMP_CHAR then
              match t with
              | [] => ([], ROk)                          (* after C02's fix: `if o >= bytes.len() { break }` *)
              | code :: t' =>
                  let '(ws, p', r) := rd_char code n p t' in
                  let '(ws2, oc) := rdc f p' r in (ws ++ ws2, oc)
              end
            else if ty =? COMP_ATTR then
              match t with
              | [] => ([], ROk)                          (* after C02's fix: `if o >= bytes.len() { break }` *)
              | a :: t' =>
                  let '(ws, p', r) := rd_attr a n p t' in
                  let '(ws2, oc) := rdc f p' r in (ws ++ ws2, oc)
              end
            else if ty =? COMP_FULL then
              match t with
              | [] => ([], ROk)                          (* after C02's fix: `if o >= bytes.len() { break }` *)
              | [_] => ([], ROk)                       (* `break` out of the while loop *)
              | code :: a :: r =>
                  let '(ws, p') := rd_full code a n p in
                  let '(ws2, oc) := rdc f p' r in (ws ++ ws2, oc)
              end
            else ([], RPanicTransmute)                  (* transmute to a non-variant: undefined behaviour *)
        end
    end.

  Definition read_data_compressed (bs : list N) : list wr * routcome := rdc (length bs) (0%Z, 0%Z) bs.

  Fixpoint rdu (p : Z * Z) (bs : list N) : list wr :=
    match bs with
    | c :: a :: r => put p c a :: rdu (advance width p) r
    | _ => []
    end.
  Definition read_data_uncompressed (bs : list N) : list wr := rdu (0%Z, 0%Z) bs.
End Readers.

(* ---- the XBin specification (doc/FileFormats/x_bin.htm, "XBin Compression") ---------------------------------------
   "The repeat counter byte is split up in two parts, the two most significant bits are the compression type,
    the six least significant bits are the actual repeat counter … stored as one less";
   type 00: counter pairs of character/attribute; 01: the character, then counter attribute bytes;
   10: the attribute, then counter character bytes; 11: one character/attribute pair.
   "XBin compression works on a ROW by ROW basis. The compression does NOT carry through to the next line." *)
Fixpoint take_pairs (n : nat) (bs : list N) : option (list (N * N) * list N) :=
  match n with
  | O => Some ([], bs)
  | S k => match bs with
           | c :: a :: r => match take_pairs k r with Some (ps, r') => Some ((c, a) :: ps, r') | None => None end
           | _ => None
           end
  end.
Fixpoint take_bytes (n : nat) (bs : list N) : option (list N * list N) :=
  match n with
  | O => Some ([], bs)
  | S k => match bs with
           | b :: r => match take_bytes k r with Some (xs, r') => Some (b :: xs, r') | None => None end
           | [] => None
           end
  end.
Definition is_byte (b : N) : bool := b <? 256.

Definition spec_run (ty : N) (n : nat) (bs : list N) : option (list (N * N) * list N) :=
  match ty with
  | 0 => take_pairs n bs
  | 1 => match bs with
         | c :: t => match take_bytes n t with Some (ats, r) => Some (map (fun a => (c, a)) ats, r) | None => None end
         | [] => None
         end
  | 2 => match bs with
         | a :: t => match take_bytes n t with Some (chs, r) => Some (map (fun c => (c, a)) chs, r) | None => None end
         | [] => None
         end
  | 3 => match bs with
         | c :: a :: r => Some (repeat (c, a) n, r)
         | _ => None
         end
  | _ => None
  end.

(* decode exactly `need` cells of one row; a run that would go past the end of the row is an error.
   fuel >= need suffices (every run yields at least one cell). *)
Fixpoint spec_cells (fuel need : nat) (bs : list N) : option (list (N * N) * list N) :=
  match need with
  | O => Some ([], bs)
  | S _ =>
      match fuel with
      | O => None
      | S f =>
          match bs with
          | [] => None
          | h :: t =>
              if is_byte h then
                let n := S (N.to_nat (h mod 64)) in
                if (need <? n)%nat then None
                else match spec_run (h / 64) n t with
                     | Some (cells, t') =>
                         if forallb (fun p => is_byte (fst p) && is_byte (snd p)) cells then
                           match spec_cells f (need - n) t' with
                           | Some (cs, r) => Some (cells ++ cs, r)
                           | None => None
                           end
                         else None
                     | None => None
                     end
              else None
          end
      end
  end.
Definition xb_spec_row (width : nat) (bs : list N) : option (list (N * N) * list N) := spec_cells width width bs.

Fixpoint xb_spec_rows (width height : nat) (bs : list N) : option (list (list (N * N)) * list N) :=
  match height with
  | O => Some ([], bs)
  | S h => match xb_spec_row width bs with
           | Some (r, rest) => match xb_spec_rows width h rest with
                               | Some (rs, rest') => Some (r :: rs, rest')
                               | None => None
                               end
           | None => None
           end
  end.

(* run lengths of a row, as the specification decoder sees them (used by the non-vacuity examples and stage C) *)
Fixpoint spec_run_lengths (fuel need : nat) (bs : list N) : list N :=
  match need, fuel, bs with
  | S _, S f, h :: t =>
      let n := S (N.to_nat (h mod 64)) in
      match spec_run (h / 64) n t with
      | Some (_, t') => N.of_nat n :: spec_run_lengths f (need - n) t'
      | None => []
      end
  | _, _, _ => []
  end.
