(* Model of src/sixel_mod.rs: SixelParser::{parse_from, parse_char, parse_sixel_data,
   translate_sixel_to_pixel, width, height}, ansi::parse_next_number, and the parts of
   Palette used by it (Palette::default, get_color, set_color_rgb; set_color_hsl is a
   parameter [hsl] because it computes with f32).  Executable definitions only.

   Integers: i32 values are Z; `+`/`*` that the Rust code performs unchecked are checked
   here and yield [Panic] on overflow (dev-profile semantics).  Characters are code points (N→Z).
   picture_data : Vec<Vec<u8>> is [list (list N)], ragged exactly as in the code. *)
From Coq Require Import ZArith NArith List Bool.
Import ListNotations.
Local Open Scope Z_scope.

Inductive res (A : Type) : Type :=
| Ok (a : A)
| Err (code : Z)          (* 1 InvalidColorInSixelSequence, 2 UnsupportedSixelColorformat, 3 InvalidPictureSize (also: beyond MAX_SIXEL_DIMENSION),
                             4 NumberMissingInSixelRepeat, 5 InvalidSixelChar *)
| Panic (site : Z).       (* 1 arithmetic overflow, 2 index out of bounds, 3 division by zero *)
Arguments Ok {A} _. Arguments Err {A} _. Arguments Panic {A} _.

Definition bind {A B} (r : res A) (f : A -> res B) : res B :=
  match r with Ok a => f a | Err c => Err c | Panic s => Panic s end.
Notation "'do' x <- r ; k" := (bind r (fun x => k)) (at level 200, x pattern, r at level 100, k at level 200).

Definition I32_MAX : Z := 2147483647.
(* sixel_mod.rs MAX_SIXEL_DIMENSION (after the fix): largest width / height of an image in pixels; tied to the source constant by
   translator/gen_sixel.py (Gen/SixelGen.v MAX_SIXEL_DIMENSION_SRC) and the lemma max_dim_tied of Props/C14.v / Props/C03.v *)
Definition MAX_SIXEL_DIMENSION : Z := 4096.
Definition chk (x : Z) : res Z := if (x <=? I32_MAX) && (- I32_MAX - 1 <=? x) then Ok x else Panic 1.

(* x.saturating_mul(10).saturating_add(ch as i32).saturating_sub(b'0' as i32), for x >= 0 *)
Definition sat (x : Z) : Z := Z.max (- I32_MAX - 1) (Z.min x I32_MAX).
Definition parse_next_number (x ch : Z) : Z := sat (sat (sat (x * 10) + ch) - 48).

Inductive sstate := Read | ReadColor | ReadSize | Repeat.

Definition rgb := (N * N * N)%type.

Record sx := {
  cur_x : Z; cur_y : Z;
  color : Z;                    (* current_sixel_color : u32 *)
  pal : list rgb;               (* current_sixel_palette.colors *)
  nums : list Z;                (* parsed_numbers *)
  st : sstate;
  rows : list (list N);         (* picture_data *)
  vscale : Z; hscale : Z;
  hset : bool }.

Definition set_st s v := {| cur_x := cur_x s; cur_y := cur_y s; color := color s; pal := pal s; nums := nums s; st := v; rows := rows s; vscale := vscale s; hscale := hscale s; hset := hset s |}.
Definition set_nums s v := {| cur_x := cur_x s; cur_y := cur_y s; color := color s; pal := pal s; nums := v; st := st s; rows := rows s; vscale := vscale s; hscale := hscale s; hset := hset s |}.
Definition set_rows s v := {| cur_x := cur_x s; cur_y := cur_y s; color := color s; pal := pal s; nums := nums s; st := st s; rows := v; vscale := vscale s; hscale := hscale s; hset := hset s |}.
Definition set_cur s x y := {| cur_x := x; cur_y := y; color := color s; pal := pal s; nums := nums s; st := st s; rows := rows s; vscale := vscale s; hscale := hscale s; hset := hset s |}.
Definition set_color s c := {| cur_x := cur_x s; cur_y := cur_y s; color := c; pal := pal s; nums := nums s; st := st s; rows := rows s; vscale := vscale s; hscale := hscale s; hset := hset s |}.
Definition set_pal s p := {| cur_x := cur_x s; cur_y := cur_y s; color := color s; pal := p; nums := nums s; st := st s; rows := rows s; vscale := vscale s; hscale := hscale s; hset := hset s |}.
Definition set_scale s v h hs := {| cur_x := cur_x s; cur_y := cur_y s; color := color s; pal := pal s; nums := nums s; st := st s; rows := rows s; vscale := v; hscale := h; hset := hs |}.

(* Vec::resize *)
Definition resize {A} (n : nat) (v : A) (l : list A) : list A := firstn n l ++ repeat v (n - length l)%nat.

Fixpoint upd_nth {A} (n : nat) (f : A -> A) (l : list A) {struct l} : list A :=
  match l, n with
  | [], _ => []
  | x :: t, O => f x :: t
  | x :: t, S n' => x :: upd_nth n' f t
  end.

Definition zeros (n : nat) : list N := repeat 0%N n.

(* SixelParser::width / height *)
Definition width (r : list (list N)) : Z :=
  match r with [] => 0 | l :: _ => Z.of_nat (length l) / 4 end.
Definition height (r : list (list N)) : Z := Z.of_nat (length r).

(* push a digit onto the last parsed number (pop-or-0, then push) *)
Definition push_digit (ns : list Z) (ch : Z) : list Z :=
  match rev ns with
  | [] => [parse_next_number 0 ch]
  | d :: r => rev r ++ [parse_next_number d ch]
  end.

Definition is_digit (ch : Z) : bool := (48 <=? ch) && (ch <=? 57).

Section WithHsl.
(* Palette::set_color_hsl result colour (f32 arithmetic, not modelled): an arbitrary function *)
Variable hsl : Z -> Z -> Z -> rgb.

Definition get_color (p : list rgb) (c : Z) : rgb := nth (Z.to_nat c) p (0, 0, 0)%N.

(* Palette::set_color_rgb / set_color_hsl: resize to color+1 with black, then store *)
Definition pal_set (p : list rgb) (c : Z) (v : rgb) : list rgb :=
  let p' := if Z.of_nat (length p) <=? c then resize (Z.to_nat c + 1)%nat (0, 0, 0)%N p else p in
  upd_nth (Z.to_nat c) (fun _ => v) p'.

Definition set_pixel (x : Z) (c : rgb) (line : list N) : list N :=
  let off := (Z.to_nat x * 4)%nat in
  let line := if (length line <=? off)%nat then resize ((Z.to_nat x + 1) * 4)%nat 0%N line else line in
  let '(r, g, b) := c in
  firstn off line ++ [r; g; b; 255%N] ++ skipn (off + 4)%nat line.

(* the `for i in 0..6` loop of translate_sixel_to_pixel *)
Fixpoint plot (k : nat) (i : Z) (mask : Z) (x y_pos last_line : Z) (c : rgb) (r : list (list N)) : list (list N) :=
  match k with
  | O => r
  | S k' =>
    if Z.testbit mask i then
      let tl := y_pos + i in
      if last_line <=? tl then r
      else plot k' (i + 1) mask x y_pos last_line c (upd_nth (Z.to_nat tl) (set_pixel x c) r)
    else plot k' (i + 1) mask x y_pos last_line c r
  end.

Definition translate (s : sx) (ch : Z) : res sx :=
  if ch <? 63 then Err 5 else
  let mask := ch - 63 in
  if (length (pal s) =? 0)%nat then Panic 3 else
  let fg := get_color (pal s) (color s mod Z.of_nat (length (pal s))) in
  let x_pos := cur_x s in
  do y_pos <- chk (cur_y s * 6);
  do last0 <- chk (y_pos + 6);
  let last_line := if hset s && (height (rows s) <? last0) then height (rows s) else last0 in
  if (MAX_SIXEL_DIMENSION <=? x_pos) || (MAX_SIXEL_DIMENSION <? last_line) then Err 3 else      (* the fix: the image would be wider / taller than the limit *)
  let r := if height (rows s) <? last_line
           then resize (Z.to_nat last_line) (zeros (Z.to_nat (width (rows s)) * 4)%nat) (rows s) else rows s in
  let r := plot 6 0 mask x_pos y_pos last_line fg r in
  do x' <- chk (cur_x s + 1);
  Ok (set_cur (set_rows s r) x' (cur_y s)).

Definition parse_sixel_data (s : sx) (ch : Z) : res sx :=
  if ch =? 35 then Ok (set_st (set_nums s []) ReadColor)          (* '#' *)
  else if ch =? 33 then Ok (set_st (set_nums s []) Repeat)       (* '!' *)
  else if ch =? 45 then do y' <- chk (cur_y s + 1); Ok (set_cur s 0 y')   (* '-' *)
  else if ch =? 36 then Ok (set_cur s 0 (cur_y s))               (* '$' *)
  else if ch =? 34 then Ok (set_st (set_nums s []) ReadSize)     (* double quote *)
  else if 127 <? ch then Ok s
  else translate s ch.

Fixpoint repeat_data (n : nat) (s : sx) (ch : Z) : res sx :=
  match n with O => Ok s | S n' => do s' <- parse_sixel_data s ch; repeat_data n' s' ch end.

Definition u8 (x : Z) : N := Z.to_N (x mod 256).

Definition pick_color (s : sx) : sx := match nums s with c :: _ => set_color s c | [] => s end.

Definition finish_color (s0 : sx) : res sx :=
  let s := pick_color s0 in
  if (1 <? length (nums s))%nat then
    if negb (length (nums s) =? 5)%nat then Err 1 else
    match nums s with
    | _ :: 2 :: a :: b :: c :: _ =>
      do ra <- chk (a * 255); do rb <- chk (b * 255); do rc <- chk (c * 255);
      Ok (set_pal s (pal_set (pal s) (color s) (u8 (ra / 100), u8 (rb / 100), u8 (rc / 100))))
    | _ :: 1 :: a :: b :: c :: _ => Ok (set_pal s (pal_set (pal s) (color s) (hsl a b c)))
    | _ :: _ :: _ => Err 2
    | _ => Err 1
    end
  else Ok s.

Definition declare (s : sx) (v h : Z) (rest : list Z) : sx :=
  match rest with
  | [hh] => set_scale (set_rows s (resize (Z.to_nat hh) [] (rows s))) v h true
  | [ww; hh] => set_scale (set_rows s (resize (Z.to_nat hh) (zeros (4 * Z.to_nat ww)%nat) (rows s))) v h true
  | _ => set_scale s v h (hset s)
  end.

Definition finish_size (s : sx) : res sx :=
  let n := length (nums s) in
  if (n <? 2)%nat || (4 <? n)%nat then Err 3 else
  match nums s with
  | v :: h :: rest => if existsb (fun n => MAX_SIXEL_DIMENSION <? n) rest then Err 3        (* the fix: declared width / height beyond the limit *)
                      else Ok (set_st (declare s v h rest) Read)
  | _ => Err 3
  end.

Definition parse_char (s : sx) (ch : Z) : res sx :=
  match st s with
  | Read => parse_sixel_data s ch
  | ReadColor =>
    if is_digit ch then Ok (set_nums s (push_digit (nums s) ch))
    else if ch =? 59 then Ok (set_nums s (nums s ++ [0]))
    else do s' <- finish_color s; parse_sixel_data s' ch
  | ReadSize =>
    if is_digit ch then Ok (set_nums s (push_digit (nums s) ch))
    else if ch =? 59 then Ok (set_nums s (nums s ++ [0]))
    else do s' <- finish_size s; parse_sixel_data s' ch
  | Repeat =>
    if is_digit ch then Ok (set_nums s (push_digit (nums s) ch))
    else match nums s with
         | i :: _ => if MAX_SIXEL_DIMENSION <? i then Err 3                                   (* the fix: a repeat count beyond the limit *)
                     else do s' <- repeat_data (Z.to_nat i) s ch; Ok (set_st s' Read)
         | [] => Err 4
         end
  end.

Fixpoint parse_chars (s : sx) (cs : list Z) : res sx :=
  match cs with [] => Ok s | c :: t => do s' <- parse_char s c; parse_chars s' t end.

(* the assembled image: (width, height, picture_data) — parse_from after the `fix:` commit:
   every row is padded to the longest row *)
Definition max_len (r : list (list N)) : nat := fold_right (fun l m => Nat.max (length l) m) O r.
Definition pad (n : nat) (l : list N) : list N := l ++ zeros (n - length l)%nat.
Definition assemble (r : list (list N)) : Z * Z * list N :=
  let ll := max_len r in
  (Z.of_nat ll / 4, height r, concat (map (pad ll) r)).

Definition init_state (default_pal : list rgb) (vs hs : Z) : sx :=
  {| cur_x := 0; cur_y := 0; color := 0; pal := default_pal; nums := []; st := Read; rows := [];
     vscale := vs; hscale := hs; hset := false |}.

Definition parse_from (default_pal : list rgb) (vs hs : Z) (data : list Z) : res (Z * Z * list N) :=
  do s <- parse_chars (init_state default_pal vs hs) data;
  do s' <- parse_char s 35;
  Ok (assemble (rows s')).

End WithHsl.
