(* M-undo, part 4 (extension): the FULL document of the property and the undo records that Model/EditModel.v leaves out.

   The document of Model/EditModel.v (`estate`: buffer size, layers, current layer, selection, mirror mode, caret) is
   embedded unchanged as the component `xb`; around it sit the parts of `Buffer` / `EditState` it does not carry:

   Rust (src/…)                                              here
   --------------------------------------------------------  ------------------------------------------------------------
   Buffer.palette (Palette.colors, r g b)                    x_pal : list N            (0xRRGGBB per entry, compared literally)
   Buffer.font_table : HashMap<usize, BitFont>               x_fonts : list (N * N)    (slot, font id) association list, first binding
                                                                                       counts; a font is an opaque id (the harness maps
                                                                                       name+size+glyphs to the id), compared as a finite map
   Buffer.sauce_data : Option<SauceData>                     x_sauce : option sauce    (buffer_size + an opaque id for every other field)
   Buffer.ice_mode / palette_mode / font_mode                x_ice / x_palmode / x_fontmode   (codes of harness/src/c08.rs)
   Caret.font_page (a parameter of the font operations)      x_cfp
   EditState.selection_mask (OverlayMask: size + rows)        x_mask
   Buffer::set_size (also rewrites sauce.buffer_size)        x_set_bsize
   undo_operations::get_sauce_size / restore_sauce_size      sauce_size / sauce_restore   (ResizeBuffer and Crop record the size the SAUCE
                                                                                       record carried and put it back on undo)
   EditState::set_mask_size                                   mask_resize

   undo_operations.rs                                        xuop
   --------------------------------------------------------  ------------------------------------------------------------
   every record of Model/EditModel.v                          XB o   (acts on xb only; ResizeBuffer is NOT lifted this way because
                                                                      Buffer::set_size touches the SAUCE record: XResizeBuffer)
   ResizeBuffer (with the recorded SAUCE size)                XResizeBuffer
   SwitchPalettte (mem::swap)                                 XSwitchPalette
   SetSauceData (set_sauce(.., false) returns the old one)    XSetSauce
   SwitchToFontPage                                           XSwitchFontPage
   SetFont / AddFont / RemoveFont / ChangeFontSlot            XSetFont / XAddFont / XRemoveFont / XChangeFontSlot
                                                              (SetFont.old : Option<BitFont> = the font of the slot that is written;
                                                               AddFont / ChangeFontSlot.replaced_font = the font the target slot held,
                                                               captured by redo, taken by undo)
   ReplaceFontUsage / SetIceMode / SwitchPalette              XReplaceFontUsage / XSetIceMode / XSwitchPaletteMode  (whole layer lists)
   MergeLayerDown / Paste / Crop                              XMergeDown / XPaste / XCrop
   SetSelectionMask / AddSelectionToMask / InverseSelection   XSetMask / XAddToMask / XInverse
   / SelectNothing (with its mask)                            / XSelectNothing
   DeleteRow / InsertRow / DeleteColumn / InsertColumn        XDeleteRow / XInsertRow / XDeleteColumn / XInsertColumn
   UndoScrollWholeLayerUp / Down, RotateLayer                 XScrollUp / XScrollDown / XRotate

   Panic sites are explicit (numbers in comments), EditorError / anyhow paths are Err. *)
From Coq Require Import List ZArith NArith Bool Arith.
From IE Require Import Gen.UndoGen Model.Undo Model.EditModel.
Import ListNotations.
Local Open Scope Z_scope.

(* ------------------------------------------------------------------ the components *)
Definition palette := list N.

Definition fonts := list (N * N).
Fixpoint fget (k : N) (l : fonts) : option N :=
  match l with
  | [] => None
  | (k', v) :: t => if (k =? k')%N then Some v else fget k t
  end.
Definition fdel (k : N) (l : fonts) : fonts := filter (fun p => negb (fst p =? k)%N) l.
Definition fset (k v : N) (l : fonts) : fonts := (k, v) :: fdel k l.

Record sauce := mkSauce { sa_w : Z; sa_h : Z; sa_rest : N }.

(* OverlayMask { size, lines: Vec<Vec<bool>> } *)
Record mask := mkMask { m_w : Z; m_h : Z; m_rows : list (list bool) }.

Record xstate := mkX {
  xb : estate;
  x_pal : palette;
  x_fonts : fonts;
  x_sauce : option sauce;
  x_ice : N; x_palmode : N; x_fontmode : N;      (* ice: 0 Unlimited 1 Blink 2 Ice; palette: 0 RGB 1 Fixed16 2 Free8 3 Free16;
                                                     font: 0 Sauce 1 Single 2 FixedSize 3 Unlimited *)
  x_cfp : N;
  x_mask : mask }.

Definition with_xb (s : xstate) (b : estate) : xstate :=
  mkX b (x_pal s) (x_fonts s) (x_sauce s) (x_ice s) (x_palmode s) (x_fontmode s) (x_cfp s) (x_mask s).
Definition with_pal (s : xstate) (p : palette) : xstate :=
  mkX (xb s) p (x_fonts s) (x_sauce s) (x_ice s) (x_palmode s) (x_fontmode s) (x_cfp s) (x_mask s).
Definition with_fonts (s : xstate) (f : fonts) : xstate :=
  mkX (xb s) (x_pal s) f (x_sauce s) (x_ice s) (x_palmode s) (x_fontmode s) (x_cfp s) (x_mask s).
Definition with_sauce (s : xstate) (d : option sauce) : xstate :=
  mkX (xb s) (x_pal s) (x_fonts s) d (x_ice s) (x_palmode s) (x_fontmode s) (x_cfp s) (x_mask s).
Definition with_ice (s : xstate) (m : N) : xstate :=
  mkX (xb s) (x_pal s) (x_fonts s) (x_sauce s) m (x_palmode s) (x_fontmode s) (x_cfp s) (x_mask s).
Definition with_palmode (s : xstate) (m : N) : xstate :=
  mkX (xb s) (x_pal s) (x_fonts s) (x_sauce s) (x_ice s) m (x_fontmode s) (x_cfp s) (x_mask s).
Definition with_cfp (s : xstate) (p : N) : xstate :=
  mkX (xb s) (x_pal s) (x_fonts s) (x_sauce s) (x_ice s) (x_palmode s) (x_fontmode s) p (x_mask s).
Definition with_mask (s : xstate) (m : mask) : xstate :=
  mkX (xb s) (x_pal s) (x_fonts s) (x_sauce s) (x_ice s) (x_palmode s) (x_fontmode s) (x_cfp s) m.

Definition with_xlayers (s : xstate) (l : list layer) : xstate := with_xb s (with_layers (xb s) l).
Definition xlayers (s : xstate) : list layer := layers (xb s).

(* Buffer::set_size: `self.size = size; if let Some(sauce) = &mut self.sauce_data { sauce.buffer_size = size; }` *)
Definition sauce_resize (d : option sauce) (w h : Z) : option sauce :=
  match d with Some sa => Some (mkSauce w h (sa_rest sa)) | None => None end.
Definition x_set_bsize (s : xstate) (w h : Z) : xstate :=
  with_sauce (with_xb s (with_bsize (xb s) w h)) (sauce_resize (x_sauce s) w h).
(* undo_operations.rs get_sauce_size: `get_sauce().as_ref().map(|sauce| sauce.buffer_size)` *)
Definition sauce_size (s : xstate) : option (Z * Z) :=
  match x_sauce s with Some sa => Some (sa_w sa, sa_h sa) | None => None end.
(* undo_operations.rs restore_sauce_size: `if let Some(size) = size { if let Some(mut sauce) = set_sauce(None, false) { sauce.buffer_size = size; set_sauce(Some(sauce), false) } }` *)
Definition sauce_restore (s : xstate) (sz : option (Z * Z)) : xstate :=
  match sz with
  | Some (w, h) => match x_sauce s with Some sa => with_sauce s (Some (mkSauce w h (sa_rest sa))) | None => s end
  | None => s
  end.
(* EditState::set_mask_size *)
Definition mask_resize (s : xstate) : xstate :=
  with_mask s (mkMask (bw (xb s)) (bh (xb s)) (m_rows (x_mask s))).

(* ------------------------------------------------------------------ the selection mask (overlay_mask.rs) *)
Definition mask_in_bounds (m : mask) (x y : Z) : bool := (0 <=? x) && (x <? m_w m) && (0 <=? y) && (y <? m_h m).

Definition mask_get (m : mask) (x y : Z) : bool :=
  if mask_in_bounds m x y then
    match nth_error (m_rows m) (Z.to_nat y) with
    | Some row => match nth_error row (Z.to_nat x) with Some b => b | None => false end
    | None => false
    end
  else false.

(* set_is_selected: rows and the row are grown on demand (Vec::resize) *)
Definition grow {A} (l : list A) (n : nat) (d : A) : list A := if (length l <=? n)%nat then l ++ repeat d (n + 1 - length l) else l.
Definition mask_set (m : mask) (x y : Z) (v : bool) : mask :=
  if mask_in_bounds m x y then
    let rows := grow (m_rows m) (Z.to_nat y) [] in
    mkMask (m_w m) (m_h m) (upd_nth (Z.to_nat y) (fun r => upd_nth (Z.to_nat x) (fun _ => v) (grow r (Z.to_nat x) false)) rows)
  else m.

Definition mask_is_empty (m : mask) : bool := forallb (fun r => negb (existsb (fun b => b) r)) (m_rows m).
Definition mask_clear (m : mask) : mask := mkMask (m_w m) (m_h m) [].

(* add_rectangle / remove_rectangle: `for y in rect.y_range() { for x in rect.x_range() { set_is_selected((x, y), v) } }` *)
Definition rect_cells (r : rect) : list (Z * Z) :=
  let '(rx, ry, rw, rh) := r in flat_map (fun j => map (fun i => (rx + i, ry + j)) (zrange rw)) (zrange rh).
Definition mask_fill (m : mask) (r : rect) (v : bool) : mask :=
  fold_left (fun m '(x, y) => mask_set m x y v) (rect_cells r) m.

(* ------------------------------------------------------------------ undo records *)
Inductive xuop :=
| XB (o : uop)
| XResizeBuffer (ow oh nw nh : Z) (osz : option (Z * Z))
| XSwitchPalette (pal : palette)
| XSetSauce (d : option sauce)
| XSwitchFontPage (old new : N)
| XSetFont (slot : N) (old : option N) (new : N)
| XAddFont (old_page new_page font : N) (replaced : option N)
| XRemoveFont (slot : N) (font : option N)
| XChangeFontSlot (from to : N) (replaced : option N)
| XReplaceFontUsage (ocp : N) (ol : list layer) (ncp : N) (nl : list layer)
| XSetIceMode (om : N) (ol : list layer) (nm : N) (nl : list layer)
| XSwitchPaletteMode (om : N) (opal : palette) (ol : list layer) (nm : N) (npal : palette) (nl : list layer)
| XMergeDown (i : nat) (merged : option layer) (orig : option (list layer))
| XPaste (cur : nat) (l : option layer)
| XCrop (ow oh nw nh : Z) (osz : option (Z * Z)) (ls : list layer)
| XSetMask (old new : mask)
| XAddToMask (old : mask) (s : selection)
| XInverse (s : option selection) (old new : mask)
| XSelectNothing (s : option selection) (m : mask)
| XDeleteRow (i : nat) (ln : Z) (row : line)
| XInsertRow (i : nat) (ln : Z) (row : line)
| XDeleteColumn (i : nat) (col : Z) (deleted : list (option cell))
| XInsertColumn (i : nat) (col : Z)
| XScrollUp (i : nat)
| XScrollDown (i : nat)
| XRotate (i : nat) (old new : list line).

(* --- raw `lines` surgery used by the row / column / scroll records (Vec semantics, explicit panics) *)
Definition vec_insert {A} (i : nat) (a : A) (l : list A) : res (list A) :=
  if (i <=? length l)%nat then Ok (insert_at i a l) else Panic 40.                  (* Vec::insert: index > len *)
Definition vec_remove {A} (i : nat) (l : list A) : res (A * list A) :=
  match nth_error l i with Some a => Ok (a, remove_at i l) | None => Panic 41 end.  (* Vec::remove: index >= len *)

(* `if layer.lines.len() < line + 1 { layer.lines.resize(line + 1, Line::default()) }` *)
Definition resize_to {A} (l : list A) (n : nat) (d : A) : list A := if (length l <? n)%nat then l ++ repeat d (n - length l) else l.

(* `self.line as usize` of an i32: a negative value becomes huge (every Vec index with it panics, resize with it aborts) *)
Definition as_index (v : Z) : res nat := if v <? 0 then Panic 42 else Ok (Z.to_nat v).

Definition l_set_height (L : layer) (h : Z) : layer := with_size L (l_w L) h.
Definition l_set_width (L : layer) (w : Z) : layer := with_size L w (l_h L).

(* `self.column as usize`: a negative column becomes an index beyond every row (no panic: the records only compare it with lengths) *)
Definition col_index (v : Z) : option nat := if v <? 0 then None else Some (Z.to_nat v).

(* DeleteColumn::redo: `for line in &mut layer.lines { if offset < line.chars.len() { Some(remove) } else { None } }` *)
Definition col_delete (col : option nat) (lines : list line) : list (option cell) * list line :=
  match col with
  | Some c => (map (fun r => nth_error r c) lines, map (fun r => remove_at c r) lines)
  | None => (map (fun _ => None) lines, lines)
  end.
(* DeleteColumn::undo: `if lines.len() < deleted.len() { lines.resize(deleted.len(), Line::default()) }` (done by the caller: resize_to), then
   `for (i, ch) in deleted.iter().enumerate() { if let Some(ch) = ch { let chars = &mut layer.lines[i].chars;
      if chars.len() < offset { chars.resize(offset, invisible) } chars.insert(offset, *ch) } }`
   Sites 43 (lines[i]) and 40 (Vec::insert) cannot fire after the two resizes (col_reinsert_ok in Proofs/DocRowColProofs.v); a negative column
   (`as usize` = huge, site 44: resize beyond capacity) never meets a `Some`: its redo deletes nothing. *)
Definition col_reinsert_row (col : option nat) (d : option cell) (row : line) : res line :=
  match d with
  | None => Ok row
  | Some c => match col with
              | Some n => vec_insert n c (resize_to row n invisible)
              | None => Panic 44
              end
  end.
Fixpoint col_reinsert (col : option nat) (deleted : list (option cell)) (lines : list line) : res (list line) :=
  match deleted with
  | [] => Ok lines
  | d :: dt =>
    match lines with
    | [] => match d with None => col_reinsert col dt [] | Some _ => Panic 43 end
    | row :: lt => do row' <- col_reinsert_row col d row; do r <- col_reinsert col dt lt; Ok (row' :: r)
    end
  end.
(* InsertColumn::redo: `if line.chars.len() >= offset { insert(offset, invisible) }`; undo: `if line.chars.len() > offset { remove(offset) }` *)
Definition col_insert (col : option nat) (lines : list line) : list line :=
  match col with
  | Some c => map (fun r => if (c <=? length r)%nat then insert_at c invisible r else r) lines
  | None => lines
  end.
Definition col_uninsert (col : option nat) (lines : list line) : list line :=
  match col with
  | Some c => map (fun r => remove_at c r) lines
  | None => lines
  end.

(* scroll_util::rows_of + rotate_left(1) / rotate_right(1) on lines[..height] *)
Definition rows_of (L : layer) : nat * list line :=
  let h := Z.to_nat (Z.max (l_h L) 0) in (h, resize_to (l_lines L) h []).
Definition rot_left {A} (l : list A) : list A := skipn 1 l ++ firstn 1 l.                                       (* slice::rotate_left(1) *)
Definition rot_right {A} (l : list A) : list A := skipn (length l - 1) l ++ firstn (length l - 1) l.           (* slice::rotate_right(1) *)
Definition l_scroll_up (L : layer) : layer :=
  let '(h, lines) := rows_of L in with_lines L (rot_left (firstn h lines) ++ skipn h lines).
Definition l_scroll_down (L : layer) : layer :=
  let '(h, lines) := rows_of L in with_lines L (rot_right (firstn h lines) ++ skipn h lines).

Definition xon_layer (s : xstate) (i : nat) (o : xuop) (f : layer -> res layer) (err : Z) : res (xuop * xstate) :=
  match nth_error (xlayers s) i with
  | Some L => do L' <- f L; Ok (o, with_xb s (upd_layer (xb s) i (fun _ => L')))
  | None => Err err
  end.

(* AddSelectionToMask::redo *)
Definition mask_apply_sel (m : mask) (sl : selection) : mask :=
  if (s_add sl =? 2)%N then mask_fill m (sel_rect sl) false else mask_fill m (sel_rect sl) true.

Definition xop_undo (o : xuop) (s : xstate) : res (xuop * xstate) :=
  match o with
  | XB u => do '(u', b') <- op_undo u (xb s); Ok (XB u', with_xb s b')
  | XResizeBuffer ow oh nw nh osz => Ok (o, mask_resize (sauce_restore (x_set_bsize s ow oh) osz))
  | XSwitchPalette p => Ok (XSwitchPalette (x_pal s), with_pal s p)
  | XSetSauce d => Ok (XSetSauce (x_sauce s), with_sauce s d)
  | XSwitchFontPage old new => Ok (o, with_cfp s old)
  | XSetFont slot old new =>
    Ok (o, with_fonts s (match old with Some f => fset slot f (x_fonts s) | None => fdel slot (x_fonts s) end))
  | XAddFont op np f repl =>
    (* remove_font(new_font_page); if let Some(font) = replaced_font.take() { set_font(new_font_page, font) } *)
    Ok (XAddFont op np f None,
        with_cfp (with_fonts s (match repl with Some r => fset np r (x_fonts s) | None => fdel np (x_fonts s) end)) op)
  | XRemoveFont slot font =>
    match font with
    | Some f => Ok (XRemoveFont slot None, with_fonts s (fset slot f (x_fonts s)))
    | None => Err 5
    end
  | XChangeFontSlot from to repl =>
    match fget to (x_fonts s) with
    | Some f =>
      let fs1 := fset from f (fdel to (x_fonts s)) in
      Ok (XChangeFontSlot from to None, with_fonts s (match repl with Some r => fset to r fs1 | None => fs1 end))
    | None => Err 6
    end
  | XReplaceFontUsage ocp ol ncp nl => Ok (o, with_cfp (with_xlayers s ol) ocp)
  | XSetIceMode om ol nm nl => Ok (o, with_ice (with_xlayers s ol) om)
  | XSwitchPaletteMode om opal ol nm npal nl => Ok (o, with_xlayers (with_palmode (with_pal s opal) om) ol)
  | XMergeDown i merged orig =>
    match orig with
    | Some ls =>
      (* `while let Some(layer) = orig_layers.pop() { layers.insert(self.index - 1, layer) }` *)
      do l1 <- (match ls with
                | [] => Ok (xlayers s)
                | _ => match i with
                       | O => Panic 5                                      (* self.index - 1 *)
                       | S j => if (j <=? length (xlayers s))%nat then Ok (firstn j (xlayers s) ++ ls ++ skipn j (xlayers s)) else Panic 3
                       end
                end);
      (* self.merged_layer = Some(layers.remove(self.index + 1)); set_current_layer(self.index); clamp_current_layer() *)
      match nth_error l1 (S i) with
      | Some M =>
        let l2 := remove_at (S i) l1 in
        Ok (XMergeDown i (Some M) None, with_xb s (with_curl (with_layers (xb s) l2) (Nat.min i (pred (length l2)))))
      | None => Panic 2
      end
    | None => Err 7
    end
  | XPaste c _ =>
    match nth_error (xlayers s) (S c) with
    | Some L => Ok (XPaste c (Some L), with_xlayers s (remove_at (S c) (xlayers s)))
    | None => Panic 2
    end
  | XCrop ow oh nw nh osz ls => Ok (XCrop ow oh nw nh osz (xlayers s), with_xlayers (mask_resize (sauce_restore (x_set_bsize s ow oh) osz)) ls)
  | XSetMask old new => Ok (o, with_mask s old)
  | XAddToMask old sl => Ok (o, with_mask s old)
  | XInverse sl old new => Ok (o, with_mask (with_xb s (with_sel (xb s) sl)) old)
  | XSelectNothing sl m => Ok (o, with_mask (with_xb s (with_sel (xb s) sl)) m)
  | XDeleteRow i line row =>
    match nth_error (xlayers s) i with
    | Some L =>
      do n <- as_index line;
      (* `if lines.len() < line { lines.resize(line, Line::default()) }`, then Vec::insert (site 40 cannot fire any more) *)
      do lines <- vec_insert n row (resize_to (l_lines L) n []);
      Ok (XDeleteRow i line [], with_xb s (upd_layer (xb s) i (fun _ => l_set_height (with_lines L lines) (l_h L + 1))))
    | None => Err 1
    end
  | XInsertRow i line _ =>
    match nth_error (xlayers s) i with
    | Some L =>
      (* `if line < lines.len() { lines.remove(line) } else { Line::default() }` (a negative line is an index beyond every row) *)
      let '(row, lines) := match col_index line with
                           | Some n => match nth_error (l_lines L) n with Some r => (r, remove_at n (l_lines L)) | None => ([], l_lines L) end
                           | None => ([], l_lines L)
                           end in
      Ok (XInsertRow i line row, with_xb s (upd_layer (xb s) i (fun _ => l_set_height (with_lines L lines) (l_h L - 1))))
    | None => Err 1
    end
  | XDeleteColumn i col deleted =>
    match nth_error (xlayers s) i with
    | Some L =>
      let n := col_index col in
      do lines <- col_reinsert n deleted (resize_to (l_lines L) (length deleted) []);
      Ok (o, with_xb s (upd_layer (xb s) i (fun _ => l_set_width (with_lines L lines) (l_w L + 1))))
    | None => Err 1
    end
  | XInsertColumn i col =>
    match nth_error (xlayers s) i with
    | Some L =>
      let n := col_index col in
      Ok (o, with_xb s (upd_layer (xb s) i (fun _ => l_set_width (with_lines L (col_uninsert n (l_lines L))) (l_w L - 1))))
    | None => Err 1
    end
  | XScrollUp i => xon_layer s i o (fun L => Ok (l_scroll_down L)) 1
  | XScrollDown i => xon_layer s i o (fun L => Ok (l_scroll_up L)) 1
  | XRotate i old new =>
    match nth_error (xlayers s) i with
    | Some L => Ok (o, with_xb s (upd_layer (xb s) i (fun _ => with_lines (with_size L (l_h L) (l_w L)) old)))
    | None => Ok (o, s)
    end
  end.

Definition xop_redo (o : xuop) (s : xstate) : res (xuop * xstate) :=
  match o with
  | XB u => do '(u', b') <- op_redo u (xb s); Ok (XB u', with_xb s b')
  | XResizeBuffer ow oh nw nh osz => Ok (o, mask_resize (x_set_bsize s nw nh))
  | XSwitchPalette p => Ok (XSwitchPalette (x_pal s), with_pal s p)
  | XSetSauce d => Ok (XSetSauce (x_sauce s), with_sauce s d)
  | XSwitchFontPage old new => Ok (o, with_cfp s new)
  | XSetFont slot old new => Ok (o, with_fonts s (fset slot new (x_fonts s)))
  | XAddFont op np f _ =>
    (* replaced_font = remove_font(new_font_page); set_font(new_font_page, font) *)
    Ok (XAddFont op np f (fget np (x_fonts s)), with_cfp (with_fonts s (fset np f (x_fonts s))) np)
  | XRemoveFont slot _ =>
    match fget slot (x_fonts s) with
    | Some f => Ok (XRemoveFont slot (Some f), with_fonts s (fdel slot (x_fonts s)))
    | None => Err 6
    end
  | XChangeFontSlot from to _ =>
    match fget from (x_fonts s) with
    | Some f =>
      (* replaced_font = remove_font(to), AFTER the source slot was emptied *)
      let fs1 := fdel from (x_fonts s) in
      Ok (XChangeFontSlot from to (fget to fs1), with_fonts s (fset to f fs1))
    | None => Err 6
    end
  | XReplaceFontUsage ocp ol ncp nl => Ok (o, with_cfp (with_xlayers s nl) ncp)
  | XSetIceMode om ol nm nl => Ok (o, with_ice (with_xlayers s nl) nm)
  | XSwitchPaletteMode om opal ol nm npal nl => Ok (o, with_xlayers (with_palmode (with_pal s npal) nm) nl)
  | XMergeDown i merged orig =>
    match merged with
    | Some M =>
      match i with
      | O => Panic 5
      | S j =>
        (* drain((index - 1)..=index) (panics when index >= len), then insert(index - 1, merged); set_current_layer(index - 1) *)
        if (i <? length (xlayers s))%nat then
          let taken := firstn 2 (skipn j (xlayers s)) in
          let l' := firstn j (xlayers s) ++ M :: skipn (S i) (xlayers s) in
          Ok (XMergeDown i None (Some taken), with_xb s (with_curl (with_layers (xb s) l') (Nat.min j (pred (length l')))))
        else Panic 4
      end
    | None => Err 7
    end
  | XPaste c l =>
    match l with
    | Some L => if (S c <=? length (xlayers s))%nat then Ok (XPaste c None, with_xlayers s (insert_at (S c) L (xlayers s))) else Panic 3
    | None => Err 3
    end
  | XCrop ow oh nw nh osz ls => Ok (XCrop ow oh nw nh osz (xlayers s), with_xlayers (mask_resize (x_set_bsize s nw nh)) ls)
  | XSetMask old new => Ok (o, with_mask s new)
  | XAddToMask old sl => Ok (o, with_mask s (mask_apply_sel (x_mask s) sl))
  | XInverse sl old new => Ok (o, with_mask (with_xb s (with_sel (xb s) None)) new)
  | XSelectNothing sl m => Ok (o, with_mask (with_xb s (with_sel (xb s) None)) (mask_clear (x_mask s)))
  | XDeleteRow i line _ =>
    match nth_error (xlayers s) i with
    | Some L =>
      do n <- as_index line;
      do '(row, lines) <- vec_remove n (resize_to (l_lines L) (n + 1) []);
      Ok (XDeleteRow i line row, with_xb s (upd_layer (xb s) i (fun _ => l_set_height (with_lines L lines) (l_h L - 1))))
    | None => Err 1
    end
  | XInsertRow i line row =>
    match nth_error (xlayers s) i with
    | Some L =>
      do n <- as_index line;
      do lines <- vec_insert n row (resize_to (l_lines L) (n + 1) []);
      Ok (XInsertRow i line [], with_xb s (upd_layer (xb s) i (fun _ => l_set_height (with_lines L lines) (l_h L + 1))))
    | None => Err 1
    end
  | XDeleteColumn i col _ =>
    match nth_error (xlayers s) i with
    | Some L =>
      let n := col_index col in
      let '(deleted, lines) := col_delete n (l_lines L) in
      Ok (XDeleteColumn i col deleted, with_xb s (upd_layer (xb s) i (fun _ => l_set_width (with_lines L lines) (l_w L - 1))))
    | None => Err 1
    end
  | XInsertColumn i col =>
    match nth_error (xlayers s) i with
    | Some L =>
      let n := col_index col in
      Ok (o, with_xb s (upd_layer (xb s) i (fun _ => l_set_width (with_lines L (col_insert n (l_lines L))) (l_w L + 1))))
    | None => Err 1
    end
  | XScrollUp i => xon_layer s i o (fun L => Ok (l_scroll_up L)) 1
  | XScrollDown i => xon_layer s i o (fun L => Ok (l_scroll_down L)) 1
  | XRotate i old new =>
    match nth_error (xlayers s) i with
    | Some L => Ok (o, with_xb s (upd_layer (xb s) i (fun _ => with_lines (with_size L (l_h L) (l_w L)) new)))
    | None => Ok (o, s)
    end
  end.
