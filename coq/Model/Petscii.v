(* M-petscii: the PETSCII (C64 / C128) emulation as a stand-alone parser on M-term.  Executable definitions only.

   Mirrors src/parsers/petscii/mod.rs
     petscii::Parser::print_char          [petscii_step], the not-escaped arm [pet_plain]
     petscii::Parser::handle_c128_escapes [pet_escape]
     petscii::Parser::handle_reverse_mode [pet_reverse]   (u8 `ch + 0x80`: an overflow is an explicit panic site)
     petscii::Parser::update_shift_mode   [shift_fill]    (rewrites every cell of the buffer area: allocates rows / cells)
   and reuses Model/TermCore.v for everything the parser calls (Caret::{cr lf down up left right home bs eol},
   Buffer::{print_char print_value clear_screen clear_line_end clear_line_start clear_buffer_down remove_terminal_line
   insert_terminal_line}).

   Emulation-local state (fields of Emu.mach): ea = got_esc, eb = reverse_mode, ec = shift_mode.
   underline_mode and c_shift are written but never read; the font page of a cell and the foreground colour are outside the
   cell projection of M-term (a cell is (code, background)): [set_foreground] only records the colour.
   `ch as u8` truncates the character: [c mod 256] (the harness feeds bytes, for which it is the identity). *)
From Coq Require Import ZArith NArith List Bool Lia.
From IE Require Import Model.TermCore Model.AnsiTok Model.Emu.
Import ListNotations.
Local Open Scope Z_scope.

Definition SITE_PET_REVERSE : Z := 30.     (* handle_reverse_mode: u8 addition overflow *)

(* the `_` arm of print_char: PETSCII code -> screen code; None = Err(UnsupportedControlCode) *)
Definition pet_tch (ch : Z) : option Z :=
  if (32 <=? ch) && (ch <=? 63) then Some ch
  else if ((64 <=? ch) && (ch <=? 95)) || ((160 <=? ch) && (ch <=? 191)) then Some (ch - 64)
  else if (96 <=? ch) && (ch <=? 127) then Some (ch - 32)
  else if (192 <=? ch) && (ch <=? 254) then Some (ch - 128)
  else None.
Definition pet_reverse (rev_mode : bool) (tch : Z) : res Z :=
  if rev_mode then (if tch + 128 >? 255 then RPanic SITE_PET_REVERSE else ROk (tch + 128)) else ROk tch.

(* update_shift_mode (when the mode changes): for y in 0..buf.get_height() for x in 0..buf.get_width():
   layer.set_char((x, y), buf.get_char((x, y)) with the new font page) *)
Definition shift_fill (t : term) : term :=
  set_lines t (fold_left (fun ls y => fold_left (fun l x => lset (lw t) (lh t) l x y (lget (lw t) (lh t) l x y)) (zrange 0 (bw t)) ls)
                         (zrange 0 (bh t)) (lines t)).
Definition set_foreground (t : term) (c : Z) : term := set_attr t c (cbg t) (cblink t).

(* handle_c128_escapes (got_esc is cleared first) *)
Definition pet_escape (m0 : mach) (ch : Z) : mout :=
  let t := mt m0 in
  if ch =? 81 then mok m0 (clear_line_end t)                        (* Q *)
  else if ch =? 80 then mok m0 (clear_line_start t)                 (* P *)
  else if ch =? 64 then mok m0 (clear_buffer_down t)                (* @ *)
  else if ch =? 74 then mok m0 (caret_cr t)                         (* J *)
  else if ch =? 75 then mok m0 (caret_eol t)                        (* K *)
  else if ch =? 68 then mlift m0 (remove_terminal_line t (cy t))    (* D *)
  else if ch =? 73 then mlift m0 (insert_terminal_line t (cy t))    (* I *)
  else MOk m0.                                                      (* every other code is logged and ignored *)

Definition pet_shift (m : mach) (b : Z) : mout :=
  if ec m =? b then MOk m else mok (with_e m (ea m) (eb m) b (ed m)) (shift_fill (mt m)).

Definition pet_plain (m : mach) (ch : Z) : mout :=
  let t := mt m in
  let fg (c : Z) := mok m (set_foreground t c) in
  if ch =? 2 then MOk m                                             (* underline_mode = true *)
  else if ch =? 5 then fg 1
  else if ch =? 7 then MOk m                                        (* Beep *)
  else if (ch =? 8) || (ch =? 9) then MOk m                         (* c_shift *)
  else if ch =? 10 then mok m (caret_cr t)
  else if (ch =? 13) || (ch =? 141) then mlift (with_e m (ea m) 0 (ec m) (ed m)) (caret_lf t)
  else if ch =? 14 then pet_shift m 0
  else if ch =? 17 then mlift m (caret_down t 1)
  else if ch =? 18 then MOk (with_e m (ea m) 1 (ec m) (ed m))
  else if ch =? 19 then mok m (caret_home t)
  else if ch =? 20 then mok m (caret_bs t)
  else if ch =? 27 then MOk (with_e m 1 (eb m) (ec m) (ed m))
  else if ch =? 28 then fg 2
  else if ch =? 29 then mlift m (caret_right t 1)
  else if ch =? 30 then fg 5
  else if ch =? 31 then fg 6
  else if ch =? 129 then fg 8
  else if ch =? 142 then pet_shift m 1
  else if ch =? 144 then fg 0
  else if ch =? 145 then mlift m (caret_up t 1)
  else if ch =? 146 then MOk (with_e m (ea m) 0 (ec m) (ed m))
  else if ch =? 147 then mok m (clear_screen t)
  else if ch =? 149 then fg 9
  else if ch =? 150 then fg 10
  else if ch =? 151 then fg 11
  else if ch =? 152 then fg 12
  else if ch =? 153 then fg 13
  else if ch =? 154 then fg 14
  else if ch =? 155 then fg 15
  else if ch =? 156 then fg 4
  else if ch =? 157 then mlift m (caret_left t 1)
  else if ch =? 158 then fg 7
  else if ch =? 159 then fg 3
  else if ch =? 255 then mlift m (print_value t 94)
  else match pet_tch ch with
       | None => MErr m
       | Some tch => match pet_reverse (eb m =? 1) tch with
                     | RPanic s => MPanic s
                     | ROk code => mlift m (print_char t (code, cbg t))
                     end
       end.

Definition petscii_step (m : mach) (c : Z) : mout :=
  let ch := c mod 256 in
  if ea m =? 1 then pet_escape (with_e m 0 (eb m) (ec m) (ed m)) ch else pet_plain m ch.

(* a stream through any step function: after an error value the machine continues (same convention as Emu.run) *)
Fixpoint run_with (stepf : mach -> Z -> mout) (m : mach) (cs : list Z) : rout :=
  match cs with
  | [] => RunOk m
  | c :: r => match stepf m c with
              | MOk m1 | MErr m1 => run_with stepf m1 r
              | MPanic s => RunPanic s
              end
  end.
Definition run_petscii (m : mach) (cs : list Z) : rout := run_with petscii_step m cs.
