(* M-undo, part 3: the public editing operations (the modelled subset) as functions on the edit state with its stacks.

   Rust (src/editor/…)                                           here
   -------------------------------------------------------------  ----------------------------------------
   EditState::get_current_layer / get_cur_layer                   get_current_layer / get_cur_layer
   edit_operations.rs   set_char (incl. mirror_mode), swap_char,  api_set_char, api_swap_char, api_resize_buffer
                        resize_buffer(false, _)
   layer_operations.rs  add_new_layer, remove_layer, raise_layer,  api_add_new_layer, api_remove_layer, api_raise_layer,
                        lower_layer, duplicate_layer, clear_layer, api_lower_layer, api_duplicate_layer, api_clear_layer,
                        toggle_layer_visibility, move_layer,       api_toggle_layer_visibility, api_move_layer,
                        set_layer_size                             api_set_layer_size
   selection_operations.rs  set_selection, clear_selection,       api_set_selection, api_clear_selection, api_deselect
                        deselect                                   (the selection mask is empty in every modelled history)
   area_operations.rs   get_area; justify_left, justify_right,     get_area; api_area_op (the common frame: snapshot, mutate,
                        center, flip_x, flip_y (one frame:         snapshot, UndoLayerChange) instantiated with
                        from_layer, mutate through set_char,       mut_justify_left, mut_justify_right, mut_center,
                        from_layer, push_plain_undo);              mut_flip_x, mut_flip_y; api_erase_selection
                        erase_selection
   layer_operations.rs  make_layer_transparent                    api_make_layer_transparent (the same frame over the whole layer)
   edit_operations.rs   center_line, justify_line_left/right,      api_center_line, api_justify_line_left/right, api_erase_row,
                        erase_row, erase_row_to_start/end,         api_erase_row_to_start/end, api_erase_column,
                        erase_column, erase_column_to_start/end    api_erase_column_to_start/end (line_op / line_erase)
   EditState::set_current_layer, set_mirror_mode, caret position   ctl_cur, ctl_mirror, ctl_caret (not edits: nothing is pushed)

   flip_x / flip_y take the per-font-page character maps (generate_flipx_table / generate_flipy_table, computed from glyph
   bitmaps) as a parameter `ftab : N -> option (N -> N)`; None = no font on that page (`.unwrap()` panics, site 20). *)
From Coq Require Import List ZArith NArith Bool Arith.
From IE Require Import Gen.UndoGen Model.Undo Model.EditModel.
Import ListNotations.
Local Open Scope Z_scope.

Definition E := @es estate uop.

Definition push (o : uop) (e : E) : res E := push_action op_redo (Leaf o) e.
Definition plain (o : uop) (e : E) (s : estate) : E := push_plain (Leaf o) (set_cur e s).
Definition guarded (body : E -> res E) (e : E) : res E := with_guard body e.
Definition upd (e : E) (f : estate -> estate) : E := set_cur e (f (cur e)).

(* Ok(clamped index) or Err("No layers") *)
Definition get_current_layer (s : estate) : res nat :=
  match layers s with
  | [] => Err 2
  | _ => Ok (Nat.min (curl s) (pred (length (layers s))))
  end.

Definition get_cur_layer (s : estate) : option (nat * layer) :=
  match get_current_layer s with
  | Ok i => match nth_error (layers s) i with Some L => Some (i, L) | None => None end
  | _ => None
  end.

(* ------------------------------------------------------------------ edit_operations.rs *)
Definition api_set_char (x y : Z) (c : cell) : E -> res E :=
  guarded (fun e =>
    match get_cur_layer (cur e) with
    | None => Err 3
    | Some (i, L) =>
      let old := get_char L x y in
      do e1 <- (if mirror (cur e)
                then let mx := l_w L - x - 1 in push (USetChar i mx y (get_char L mx y) c) e
                else Ok e);
      push (USetChar i x y old c) e1
    end).

Definition api_swap_char (x1 y1 x2 y2 : Z) (e : E) : res E :=
  do i <- get_current_layer (cur e); push (USwapChar i x1 y1 x2 y2) e.

Definition api_resize_buffer (w h : Z) (e : E) : res E :=
  push (UResizeBuffer (bw (cur e)) (bh (cur e)) w h) e.

(* ------------------------------------------------------------------ layer_operations.rs *)
Definition api_add_new_layer (n : nat) (e : E) : res E :=
  do L <- layer_new (1, 0)%N (bw (cur e)) (bh (cur e));
  let idx := Nat.min (n + 1) (length (layers (cur e))) in
  do e1 <- push (UAddLayer idx (Some (with_has_alpha L true))) e;
  Ok (upd e1 (fun s => with_curl s idx)).

Definition api_remove_layer (n : nat) (e : E) : res E :=
  if (length (layers (cur e)) <=? n)%nat then Err 4 else push (URemoveLayer n None) e.

Definition api_raise_layer (n : nat) (e : E) : res E :=
  if (length (layers (cur e)) <=? n + 1)%nat then Err 4
  else do e1 <- push (URaise n) e; Ok (upd e1 (fun s => with_curl s (n + 1))).

Definition api_lower_layer (n : nat) (e : E) : res E :=
  match n with
  | O => Ok e
  | S m =>
    if (length (layers (cur e)) <=? n)%nat then Err 4
    else do e1 <- push (ULower n) e; Ok (upd e1 (fun s => with_curl s m))
  end.

Definition api_duplicate_layer (n : nat) (e : E) : res E :=
  match nth_error (layers (cur e)) n with
  | None => Err 4
  | Some L =>
    let L' := with_title L (fst (l_title L), (snd (l_title L) + 1)%N) in
    do e1 <- push (UAddLayer (n + 1) (Some L')) e;
    Ok (upd e1 (fun s => with_curl s (n + 1)))
  end.

Definition api_clear_layer (n : nat) (e : E) : res E :=
  if (length (layers (cur e)) <=? n)%nat then Err 4
  else do e1 <- push (UClearLayer n []) e; Ok (upd e1 (fun s => with_curl s (n + 1))).

Definition api_toggle_layer_visibility (n : nat) (e : E) : res E :=
  if (length (layers (cur e)) <=? n)%nat then Err 4 else push (UToggleVis n) e.

(* `let i = self.current_layer;` (raw) but the offset is read from get_cur_layer_mut (clamped) *)
Definition api_move_layer (tx ty : Z) (e : E) : res E :=
  match get_cur_layer (cur e) with
  | None => Ok e
  | Some (_, L) => push (UMoveLayer (curl (cur e)) (l_ox L) (l_oy L) tx ty) e
  end.

Definition api_set_layer_size (n : nat) (w h : Z) (e : E) : res E :=
  if (length (layers (cur e)) <=? n)%nat then Err 4 else push (USetLayerSize n w h w h) e.

(* ------------------------------------------------------------------ selection_operations.rs *)
Definition opt_sel_eqb (a b : option selection) : bool :=
  match a, b with Some x, Some y => sel_eqb x y | None, None => true | _, _ => false end.

Definition api_set_selection (s : selection) (e : E) : res E :=
  if opt_sel_eqb (sel (cur e)) (Some s) then Ok e else push (USetSelection (sel (cur e)) (Some s)) e.

(* `let sel = self.selection_opt.take();` happens before the push *)
Definition api_clear_selection (e : E) : res E :=
  match sel (cur e) with
  | Some _ => push (USelectNothing (sel (cur e))) (upd e (fun s => with_sel s None))
  | None => Ok e
  end.

Definition api_deselect (e : E) : res E :=
  match sel (cur e) with
  | Some s => push (UDeselect s) (upd e (fun st => with_sel st None))
  | None => Ok e
  end.

(* ------------------------------------------------------------------ area_operations.rs *)
Definition rect_intersect (a b : rect) : rect :=
  let '(ax, ay, aw, ah) := a in let '(bx, by_, bw_, bh_) := b in
  let mx := Z.max ax bx in let my := Z.max ay by_ in
  let Mx := Z.min (ax + aw) (bx + bw_) in let My := Z.min (ay + ah) (by_ + bh_) in
  (mx, my, Mx - mx, My - my).

Definition layer_rect (L : layer) : rect := (l_ox L, l_oy L, l_w L, l_h L).

Definition get_area (s : option selection) (L : layer) : rect :=
  match s with
  | Some sl => let '(x, y, w, h) := rect_intersect (sel_rect sl) (layer_rect L) in (x - l_ox L, y - l_oy L, w, h)
  | None => (0, 0, l_w L, l_h L)
  end.

Definition zrange_from (a n : Z) : list Z := map (fun k => a + k) (zrange n).

Definition is_transparent (c : cell) : bool := ((c_ch c =? 0)%N || (c_ch c =? 32)%N) && (c_bg c =? 0)%N.
Definition solid (c : cell) : bool := cell_visible c && negb (is_transparent c).

(* `while removed < len { if solid(get_char(pos removed)) break; removed += 1 }` *)
Fixpoint scan (L : layer) (y : Z) (pos : Z -> Z) (n : nat) (r : Z) : Z :=
  match n with
  | O => r
  | S n' => if solid (get_char L (pos r) y) then r else scan L y pos n' (r + 1)
  end.

Definition mut_justify_left (L : layer) (a : rect) : res layer :=
  let '(ax, ay, aw, ah) := a in
  Ok (fold_left (fun L y =>
        let removed := scan L y (fun r => ax + r) (Z.to_nat aw) 0 in
        if aw <=? removed then L
        else fold_left (fun L x =>
               l_set_char L x y (if x + removed <? ax + aw then get_char L (x + removed) y else invisible))
             (zrange_from ax aw) L)
      (zrange_from ay ah) L).

Definition mut_justify_right (L : layer) (a : rect) : res layer :=
  let '(ax, ay, aw, ah) := a in
  Ok (fold_left (fun L y =>
        let removed := scan L y (fun r => ax + aw - r - 1) (Z.to_nat aw) 0 in
        if aw =? removed then L
        else fold_left (fun L x =>
               l_set_char L x y (if ax <=? x - removed then get_char L (x - removed) y else invisible))
             (rev (zrange_from ax aw)) L)
      (zrange_from ay ah) L).

(* the second half of center (after the nested justify_left); x counts columns from the right edge (fix commit) *)
Definition mut_center (L : layer) (a : rect) : res layer :=
  let '(ax, ay, aw, ah) := a in
  Ok (fold_left (fun L y =>
        let removed := scan L y (fun r => ax + aw - r - 1) (Z.to_nat aw) 0 in
        if aw =? removed then L
        else let removed := (removed + 1) / 2 in
             fold_left (fun L x =>
               l_set_char L (ax + aw - x - 1) y
                 (if ax <=? ax + aw - x - removed then get_char L (ax + aw - x - removed) y else invisible))
             (zrange aw) L)
      (zrange_from ay ah) L).

Definition map_cell (ftab : N -> option (N -> N)) (c : cell) : res cell :=
  match ftab (c_fp c) with
  | Some m => Ok (mkCell (m (c_ch c)) (c_fg c) (c_bg c) (c_fp c) (c_attr c))
  | None => Panic 20
  end.

Definition flip_pair (ftab : N -> option (N -> N)) (L : layer) (x1 y1 x2 y2 : Z) : res layer :=
  do c1 <- map_cell ftab (get_char L x1 y1);
  do c2 <- map_cell ftab (get_char L x2 y2);
  Ok (l_set_char (l_set_char L x1 y1 c2) x2 y2 c1).

Fixpoint fold_res {A B} (f : A -> B -> res A) (l : list B) (a : A) : res A :=
  match l with
  | [] => Ok a
  | b :: t => do a' <- f a b; fold_res f t a'
  end.

Definition mut_flip_x (ftab : N -> option (N -> N)) (L : layer) (a : rect) : res layer :=
  let '(ax, ay, aw, ah) := a in
  let mx := Z.quot aw 2 in
  fold_res (fun L y => fold_res (fun L x => flip_pair ftab L (ax + x) y (ax + aw - x - 1) y) (zrange mx) L)
           (zrange_from ay ah) L.

Definition mut_flip_y (ftab : N -> option (N -> N)) (L : layer) (a : rect) : res layer :=
  let '(ax, ay, aw, ah) := a in
  let my := Z.quot ah 2 in
  fold_res (fun L x => fold_res (fun L y => flip_pair ftab L x (ay + y) x (ay + ah - 1 - y)) (zrange my) L)
           (zrange_from ax aw) L.

(* the frame shared by justify_left/right, center, flip_x/y (and, unmodelled, scroll_area_*, make_layer_transparent):
   guard; area; old = from_layer; mutate the current layer; new = from_layer; push_plain_undo(UndoLayerChange) *)
Definition area_body_gen (areaf : estate -> layer -> rect) (mutate : layer -> rect -> res layer) (e : E) : res E :=
  match get_cur_layer (cur e) with
  | None => Err 3
  | Some (i, L) =>
    let a := areaf (cur e) L in
    do old <- from_layer L a;
    do L' <- mutate L a;
    do new <- from_layer L' a;
    let '(ax, ay, _, _) := a in
    Ok (plain (ULayerChange i ax ay old new) e (upd_layer (cur e) i (fun _ => L')))
  end.

Definition area_body (mutate : layer -> rect -> res layer) : E -> res E :=
  area_body_gen (fun s L => get_area (sel s) L) mutate.

Definition api_area_op (mutate : layer -> rect -> res layer) : E -> res E := guarded (area_body mutate).

Definition api_justify_left : E -> res E := api_area_op mut_justify_left.
Definition api_justify_right : E -> res E := api_area_op mut_justify_right.
Definition api_flip_x (ftab : N -> option (N -> N)) : E -> res E := api_area_op (mut_flip_x ftab).
Definition api_flip_y (ftab : N -> option (N -> N)) : E -> res E := api_area_op (mut_flip_y ftab).
(* center: guard { justify_left()? ; second frame } *)
Definition api_center : E -> res E :=
  guarded (fun e => do e1 <- api_justify_left e; area_body mut_center e1).

(* EditState::get_is_selected with an empty mask *)
Definition rect_inside (r : rect) (x y : Z) : bool :=
  let '(rx, ry, rw, rh) := r in (rx <=? x) && (ry <=? y) && (x <? rx + rw) && (y <? ry + rh).
Definition is_selected (s : option selection) (x y : Z) : bool :=
  match s with
  | Some sl => rect_inside (sel_rect sl) x y && negb (s_add sl =? 2)%N
  | None => false
  end.

Definition api_erase_selection (e : E) : res E :=
  match sel (cur e) with
  | None => Ok e
  | Some _ =>
    guarded (fun e =>
      do i <- get_current_layer (cur e);
      match nth_error (layers (cur e)) i with
      | None => Err 3
      | Some L =>
        let L' := fold_left (fun L '(x, y) =>
                    if is_selected (sel (cur e)) (x + l_ox L) (y + l_oy L) then l_set_char L x y invisible else L)
                  (cells (l_w L) (l_h L)) L in
        api_clear_selection (plain (ULayerChange i 0 0 (snap_of_layer L) (snap_of_layer L')) e (upd_layer (cur e) i (fun _ => L')))
      end) e
  end.

(* layer_operations.rs make_layer_transparent: the same frame over the whole layer, whatever is selected
   (`for x in 0..w { for y in 0..h {`) *)
Definition mut_transparent (L : layer) (a : rect) : res layer :=
  let w := l_w L in let h := l_h L in      (* set_char never changes the size *)
  Ok (fold_left (fun L x => fold_left (fun L y =>
        if is_transparent (get_char L x y) then l_set_char L x y invisible else L) (zrange h) L) (zrange w) L).

Definition api_make_layer_transparent : E -> res E :=
  guarded (fun e => do _ <- get_current_layer (cur e); area_body_gen (fun _ L => (0, 0, l_w L, l_h L)) mut_transparent e).

(* edit_operations.rs: the wrappers that select one row / column relative to the caret, run an operation, and drop the
   selection again.  Rectangle::from_coords asserts x1 <= x2 && y1 <= y2 (panic site 30). *)
Definition from_coords (x1 y1 x2 y2 : Z) : res selection :=
  if (x1 <=? x2) && (y1 <=? y2) then Ok (mkSel x1 y1 x2 y2 0) else Panic 30.

Definition cur_offset (s : estate) : Z * Z :=
  match get_cur_layer s with Some (_, L) => (l_ox L, l_oy L) | None => (0, 0) end.

Definition BIG : Z := 1000000.

(* guard { set_selection(r)?; let res = op(); clear_selection()?; res } *)
Definition line_op (r : estate -> res selection) (op : E -> res E) : E -> res E :=
  fun e => let sl := r (cur e) in
  guarded (fun e1 => do s <- sl; do e2 <- api_set_selection s e1; do e3 <- op e2; api_clear_selection e3) e.

(* guard { set_selection(r)?; erase_selection() } *)
Definition line_erase (r : estate -> res selection) : E -> res E :=
  fun e => let sl := r (cur e) in
  guarded (fun e1 => do s <- sl; do e2 <- api_set_selection s e1; api_erase_selection e2) e.

Definition row_sel (s : estate) : res selection :=
  let y := caret_y s + snd (cur_offset s) in from_coords (- BIG) y BIG (y + 1).

Definition api_center_line : E -> res E := line_op row_sel api_center.
Definition api_justify_line_left : E -> res E := line_op row_sel api_justify_left.
Definition api_justify_line_right : E -> res E := line_op row_sel api_justify_right.
Definition api_erase_row : E -> res E := line_erase row_sel.
Definition api_erase_row_to_start : E -> res E :=
  line_erase (fun s => let '(ox, oy) := cur_offset s in from_coords (- BIG) (caret_y s + oy) (caret_x s + ox) (caret_y s + oy + 1)).
Definition api_erase_row_to_end : E -> res E :=
  line_erase (fun s => let '(ox, oy) := cur_offset s in from_coords (caret_x s + ox) (caret_y s + oy) BIG (caret_y s + oy + 1)).
Definition api_erase_column : E -> res E :=
  line_erase (fun s => let '(ox, _) := cur_offset s in from_coords (caret_x s + ox) (- BIG) (caret_x s + ox) BIG).
Definition api_erase_column_to_start : E -> res E :=
  line_erase (fun s => let '(ox, oy) := cur_offset s in from_coords (caret_x s + ox) (- BIG) (caret_x s + ox) (caret_y s + oy)).
Definition api_erase_column_to_end : E -> res E :=
  line_erase (fun s => let '(ox, oy) := cur_offset s in from_coords (caret_x s + ox) (caret_y s + oy) (caret_x s + ox) BIG).

(* ------------------------------------------------------------------ controls (no undo record) *)
Definition ctl_cur (n : nat) (e : E) : res E :=
  Ok (upd e (fun s => with_curl s (Nat.min n (pred (length (layers s)))))).
Definition ctl_mirror (b : bool) (e : E) : res E := Ok (upd e (fun s => with_mirror s b)).
Definition ctl_caret (x y : Z) (e : E) : res E := Ok (upd e (fun s => with_caret s x y)).
