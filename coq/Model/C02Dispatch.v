(* C02 — `Buffer::from_bytes` (src/buffers.rs): SAUCE split, extension dispatch, per-format loader; executable only.

   Rust item                                              model
   -----------------------------------------------------  ----------------------------------------------------------
   ext.to_ascii_lowercase()                               lower
   `for fmt in &*FORMATS { if ext == … || alt.contains }` find_fmt over Gen/C02Ext.EXT_TABLE (generated from the source)
   fallback `crate::Ansi::default().load_buffer(..)`      FAnsi
   SauceData::extract + `len -= header_len; &bytes[..len]` Model/Sauce.split (property C11)
   the part of SauceData the loaders read (set_sauce)     view  (buffer_size.width/height, use_ice)
   Bin / Artworx / IceDraw::load_buffer                   C05's load_bin / load_adf / load_idf
   XBin / TundraDraw::load_buffer (after the fixes)       Model/C02Loaders.load_xb2 / load_tnd2
   IcyDraw::load_buffer                                   container oracle `icy_chunks` + Model/C02Icy.run_chunks
   the nine text loaders                                  parameter `text_load` (parsers of property C01 on a NON-terminal
                                                          buffer + parse_with_parser epilogue); see Props/C02.v for what is assumed
   `file_name.extension().unwrap()`: a path without extension panics before anything is read - outside the property
   (recorded as an observation), so the model starts at the extension string. *)
From Coq Require Import NArith ZArith Bool List.
From IE Require Import Lib.Tbl Lib.C05Lib Gen.Codepage Gen.Formats Gen.C02Ext Model.Attr Model.C05Buf Model.C05Bin Model.C05XBin
  Model.C05Idf Model.C05Tundra Model.C02Loaders Model.C02Icy.
From IE Require Model.Sauce.
Import ListNotations.

Inductive outcome := OOk | OErr | OPanic.
Definition cls {A} (r : res A) : outcome := match r with Ok _ => OOk | Err _ => OErr | Panic _ => OPanic end.

Definition lower (c : N) : N := if ((65 <=? c) && (c <=? 90))%N then (c + 32)%N else c.
Definition str_eqb (a b : list N) : bool := if list_eq_dec N.eq_dec a b then true else false.

Fixpoint find_fmt (tbl : list (fmt * list (list N))) (ext : list N) : fmt :=
  match tbl with
  | [] => FAnsi
  | (f, exts) :: t => if existsb (str_eqb ext) exts then f else find_fmt t ext
  end.
Definition fmt_of_ext (ext : list N) : fmt := find_fmt EXT_TABLE (map lower ext).

Definition view (m : Sauce.sauce) : sauce := mkSauce (Sauce.s_width m) (Sauce.s_height m) (Sauce.s_ice m).

Definition is_text (f : fmt) : bool :=
  match f with FIcy | FIdf | FBin | FXb | FTnd | FAdf => false | _ => true end.

Section Dispatch.
  Variable dp : list N -> option Sauce.ymd.                        (* chrono date parser (C11) *)
  Variable text_load : fmt -> list N -> option sauce -> outcome.   (* the text loaders *)
  Variable icy_chunks : list N -> option (list (kind * list N)).   (* PNG/zTXt/base64 container: None = InvalidPng *)
  Variable font_ok pal_ok sauce_ok : list N -> bool.               (* payload decoders of the FONT_/PALETTE/SAUCE chunks *)

  Definition load_fmt (f : fmt) (content : list N) (s : option sauce) : outcome :=
    match f with
    | FBin => cls (load_bin content s)
    | FAdf => cls (load_adf content s)
    | FIdf => cls (load_idf content)
    | FXb => cls (load_xb2 content s)
    | FTnd => cls (load_tnd2 content s)
    | FIcy => match icy_chunks content with
              | None => OErr
              | Some cs => cls (run_chunks font_ok pal_ok sauce_ok [] cs)
              end
    | _ => text_load f content s
    end.

  Definition from_bytes (ext : list N) (bytes : list N) : outcome :=
    match Sauce.split dp bytes with
    | Sauce.Ok (content, m) => load_fmt (fmt_of_ext ext) content (option_map view m)
    | Sauce.Err _ => OErr
    | Sauce.Panic _ => OPanic
    end.
End Dispatch.
