(* M-sauce: executable model of the SAUCE reader, writer and content split.  Definitions only.

   Mirrors (icy_engine, after the four `fix:` commits of C11, see notes/C11.md):
     src/sauce_mod/mod.rs
       SauceString<LEN,EMPTY>::{len, eq (PartialEq), read, append_to, from, fmt (Display)}
                                   -> ss_len, ss_eq, ss_read, ss_append, ss_from, ss_to_string
       SauceDataType::from         -> data_type_from
       SauceData::extract          -> extract        (every slice / index / subtraction / assert is checked: Panic)
       Buffer::write_sauce_info    -> write          (get_font(0).unwrap() and assert_eq!(date.len(), 8): Panic)
     src/buffers.rs
       Buffer::from_bytes (the SAUCE split in front of the format loaders)   -> split
     chrono 0.4 `NaiveDateTime::parse_from_str(date8 + "000000", "%Y%m%d%H%M%S")`  -> chrono_parse
       (an oracle: `extract` takes the date parser as an argument `dp`; the theorems hold for every `dp`;
        `chrono_parse` is the concrete instance stage C runs against the real library)

   Conventions: bytes, code points = N; offsets, lengths (usize) = nat, unbounded (a real slice is < 2^63 long);
   i32 = Z.  `vec.len() as u32`, `as u16`, `as u8` are written as `mod`.
   Constants, string widths and the CP437 table come from Gen/Sauce.v (regenerated from the source). *)
From Coq Require Import NArith ZArith List Bool Arith.
From IE Require Import Lib.Tbl Gen.Sauce.
Import ListNotations.
Local Open Scope nat_scope.

(* ---- outcome ------------------------------------------------------------------------- *)
Inductive res (A : Type) : Type :=
| Ok (a : A)
| Err (e : N)          (* the function returned Err(SauceError::…) *)
| Panic (site : N).    (* the Rust code would panic here *)
Arguments Ok {A} a. Arguments Err {A} e. Arguments Panic {A} site.

Definition bind {A B} (r : res A) (f : A -> res B) : res B :=
  match r with Ok a => f a | Err e => Err e | Panic s => Panic s end.
Notation "x <- r ;; k" := (bind r (fun x => k)) (at level 61, r at next level, right associativity).

(* error classes *)
Definition E_VERSION : N := 1.        (* SauceError::UnsupportedSauceVersion *)
Definition E_DATE : N := 2.           (* SauceError::UnsupportedSauceDate *)
Definition E_COMMENT_BLOCK : N := 3.  (* SauceError::InvalidCommentBlock *)
Definition E_COMMENT_ID : N := 4.     (* SauceError::InvalidCommentId *)
Definition E_COMMENT_LIMIT : N := 5.  (* SauceError::CommentLimitExceeded *)
Definition E_BIN_WIDTH : N := 6.      (* SauceError::BinFileWidthLimitExceeded *)
(* panic sites *)
Definition P_SLICE : N := 1.    (* data[a..b] / data[o..] out of range *)
Definition P_INDEX : N := 2.    (* data[o] out of range *)
Definition P_SUB : N := 3.      (* usize subtraction underflow *)
Definition P_ASSERT : N := 4.   (* assert_eq! *)
Definition P_UNWRAP : N := 5.   (* Option::unwrap on None *)

(* ---- checked slice primitives ------------------------------------------------------------ *)
Definition idx (data : list N) (o : nat) : res N :=
  match nth_error data o with Some b => Ok b | None => Panic P_INDEX end.
(* &data[a..b] *)
Definition slice (data : list N) (a b : nat) : res (list N) :=
  if (a <=? b) && (b <=? length data) then Ok (firstn (b - a) (skipn a data)) else Panic P_SLICE.
(* &data[a..] *)
Definition slice_from (data : list N) (a : nat) : res (list N) :=
  if a <=? length data then Ok (skipn a data) else Panic P_SLICE.
(* a - b on usize *)
Definition usub (a b : nat) : res nat := if b <=? a then Ok (a - b) else Panic P_SUB.

Fixpoint list_eqb (a b : list N) : bool :=
  match a, b with
  | [], [] => true
  | x :: a', y :: b' => N.eqb x y && list_eqb a' b'
  | _, _ => false
  end.

(* ---- SauceString<LEN, EMPTY>(Vec<u8>) -------------------------------------------------------- *)
Definition blank (b : N) : bool := N.eqb b 0 || N.eqb b 32.

(* remove the longest suffix whose elements satisfy p *)
Fixpoint strip_end (p : N -> bool) (s : list N) : list N :=
  match s with
  | [] => []
  | x :: t => match strip_end p t with
              | [] => if p x then [] else [x]
              | t' => x :: t'
              end
  end.

(* SauceString::len: `while len > 0 { ch = self.0[len-1]; if ch != 0 && ch != b' ' {break}; len -= 1 }` *)
Definition ss_len (s : list N) : nat := length (strip_end blank s).

(* PartialEq: `l1 != l2 => false; self.0[0..l1] == other.0[0..l2]` *)
Definition ss_eq (a b : list N) : bool :=
  Nat.eqb (ss_len a) (ss_len b) && list_eqb (firstn (ss_len a) a) (firstn (ss_len b) b).

(* the `for i in 0..LEN` loop of SauceString::read; k = iterations left, i = LEN - k.
   Returns (self.0, last_non_empty). *)
Fixpoint read_loop (k i : nat) (EMPTY : N) (data acc : list N) (last : nat) : res (list N * nat) :=
  match k with
  | O => Ok (acc, last)
  | S k' =>
      match nth_error data i with
      | None => Panic P_INDEX                                   (* data[i] *)
      | Some b =>
          if N.eqb EMPTY 0 && N.eqb b 0 then Ok (acc, last)       (* break *)
          else read_loop k' (S i) EMPTY data (acc ++ [b]) (if N.eqb b EMPTY then last else S i)
      end
  end.

(* SauceString::read on a fresh (empty) string; the caller advances by LEN *)
Definition ss_read (LEN : nat) (EMPTY : N) (data : list N) : res (list N) :=
  r <- read_loop LEN 0 EMPTY data [] LEN ;;
  let '(acc, last) := r in
  Ok (if last <? LEN then firstn last acc else acc).

(* SauceString::append_to *)
Definition ss_append (LEN : nat) (EMPTY : N) (s vec : list N) : list N :=
  vec ++ s ++ repeat EMPTY (LEN - length s).

(* first index of a code point in CP437_TO_UNICODE *)
Fixpoint find_idx (T : list N) (c : N) (i : N) : option N :=
  match T with
  | [] => None
  | x :: t => if N.eqb x c then Some i else find_idx t c (N.succ i)
  end.
Definition cp437_encode (c : N) : N :=
  match find_idx CP437_TO_UNICODE c 0 with Some i => i | None => 63 (* b'?' *) end.
(* SauceString::from(str): at most LEN characters *)
Fixpoint ss_from (LEN : nat) (chars : list N) : list N :=
  match LEN, chars with
  | S l, c :: t => cp437_encode c :: ss_from l t
  | _, _ => []
  end.
(* Display: CP437_TO_UNICODE[b as usize] for the first len() bytes (b : u8, so the index is in range) *)
Definition ss_to_string (s : list N) : list N := map (tget CP437_TO_UNICODE) (firstn (ss_len s) s).

(* ---- what extract returns -------------------------------------------------------------------- *)
Definition ymd : Type := (Z * Z * Z)%type.

(* SauceFileType *)
Inductive sft := FtUndefined | FtAscii | FtAnsi | FtANSiMation | FtPCBoard | FtAvatar | FtTundraDraw | FtBin | FtXBin.

Record sauce := mkSauce {
  s_title : list N; s_author : list N; s_group : list N;
  s_comments : list (list N);
  s_data_type : N;                 (* SauceDataType as u8 *)
  s_width : Z; s_height : Z;       (* buffer_size *)
  s_date : ymd;                    (* creation_time (date part; the time is 00:00:00) *)
  s_font : option (list N);        (* font_opt, code points *)
  s_ice : bool; s_ls : bool; s_ar : bool;
  s_header_len : nat;              (* sauce_header_len *)
  s_ftype : sft }.

Definition data_type_from (b : N) : N := if (b <=? 8)%N then b else 0%N.

Fixpoint read_comments (k o : nat) (data : list N) (acc : list (list N)) : res (list (list N)) :=
  match k with
  | O => Ok acc
  | S k' =>
      d <- slice_from data o ;;
      c <- ss_read COMMENT_LEN COMMENT_PAD d ;;
      read_comments k' (o + COMMENT_LEN) data (acc ++ [c])
  end.

Definition flag_ice (f : N) : bool := N.eqb (N.land f ANSI_FLAG_NON_BLINK_MODE) ANSI_FLAG_NON_BLINK_MODE.
(* match t_flags & MASK { LEGACY | 8PX => false, 9PX => true, _ => unchanged (false) } *)
Definition flag_ls (f : N) : bool :=
  let m := N.land f ANSI_MASK_LETTER_SPACING in
  if N.eqb m ANSI_LETTER_SPACING_LEGACY || N.eqb m ANSI_LETTER_SPACING_8PX then false
  else N.eqb m ANSI_LETTER_SPACING_9PX.
Definition flag_ar (f : N) : bool :=
  let m := N.land f ANSI_MASK_ASPECT_RATIO in
  if N.eqb m ANSI_ASPECT_RATIO_SQUARE || N.eqb m ANSI_ASPECT_RATIO_LEGACY then false
  else N.eqb m ANSI_ASPECT_RATIO_STRETCH.

(* the `match data_type { … }` of extract: (buffer_size, sauce_file_type, ice, ls, ar, font?) *)
Definition interpret (dt ft : N) (t1 t2 : Z) (f : N) (tinfos : list N)
  : Z * Z * sft * bool * bool * bool * option (list N) :=
  let font := Some (ss_to_string tinfos) in
  if N.eqb dt DT_BINARYTEXT then ((Z.of_N ((ft * 2) mod 65536), 25%Z, FtBin, flag_ice f, false, false, font))
  else if N.eqb dt DT_XBIN then (t1, t2, FtXBin, false, false, false, None)
  else if N.eqb dt DT_CHARACTER then
    if N.eqb ft SAUCE_FILE_TYPE_ASCII then (t1, t2, FtAscii, flag_ice f, flag_ls f, flag_ar f, font)
    else if N.eqb ft SAUCE_FILE_TYPE_ANSI then (t1, t2, FtAnsi, flag_ice f, flag_ls f, flag_ar f, font)
    else if N.eqb ft SAUCE_FILE_TYPE_ANSIMATION then (t1, t2, FtANSiMation, flag_ice f, false, false, font)
    else if N.eqb ft SAUCE_FILE_TYPE_PCBOARD then (t1, t2, FtPCBoard, false, false, false, None)
    else if N.eqb ft SAUCE_FILE_TYPE_AVATAR then (t1, t2, FtAvatar, false, false, false, None)
    else if N.eqb ft SAUCE_FILE_TYPE_TUNDRA_DRAW then (t1, t2, FtTundraDraw, false, false, false, None)
    else (80%Z, 25%Z, FtUndefined, false, false, false, None)
  else (80%Z, 25%Z, FtUndefined, false, false, false, None).

(* SauceData::extract.  `o0` is `data.len() - SAUCE_LEN`; the running offset `o` of the Rust code is written
   as o0 + (sum of the `o += …` so far). *)
Definition extract (dp : list N -> option ymd) (data : list N) : res (option sauce) :=
  let n := length data in
  if n <? SAUCE_LEN then Ok None else
  o0 <- usub n SAUCE_LEN ;;
  id <- slice data o0 (o0 + 5) ;;
  if negb (list_eqb SAUCE_ID id) then Ok None else
  ver <- slice data (o0 + 5) (o0 + 5 + 2) ;;
  if negb (list_eqb SAUCE_VERSION ver) then Err E_VERSION else
  d <- slice_from data (o0 + 7) ;;
  title <- ss_read TITLE_LEN TITLE_PAD d ;;
  d <- slice_from data (o0 + 7 + TITLE_LEN) ;;
  author <- ss_read AUTHOR_LEN AUTHOR_PAD d ;;
  d <- slice_from data (o0 + 7 + TITLE_LEN + AUTHOR_LEN) ;;
  group <- ss_read GROUP_LEN GROUP_PAD d ;;
  let o := o0 + 7 + TITLE_LEN + AUTHOR_LEN + GROUP_LEN in
  date <- slice data o (o + 8) ;;
  match dp date with
  | None => Err E_DATE
  | Some dt_parsed =>
      let o := o + 8 + 4 in                       (* date, file size (skipped) *)
      b_dt <- idx data o ;;
      b_ft <- idx data (o + 1) ;;
      i1l <- idx data (o + 2) ;; i1h <- idx data (o + 3) ;;
      i2l <- idx data (o + 4) ;; i2h <- idx data (o + 5) ;;
      (* t_info3, t_info4 skipped *)
      b_nc <- idx data (o + 10) ;;
      b_fl <- idx data (o + 11) ;;
      d <- slice_from data (o + 12) ;;
      tinfos <- ss_read TINFOS_LEN TINFOS_PAD d ;;
      if negb (n =? o + 12 + TINFOS_LEN) then Panic P_ASSERT else     (* assert_eq!(data.len(), o) *)
      let t1 := Z.of_N (i1l + i1h * 256) in
      let t2 := Z.of_N (i2l + i2h * 256) in
      let '(w, h, ftype, ice, ls, ar, font) := interpret (data_type_from b_dt) b_ft t1 t2 b_fl tinfos in
      let nc := N.to_nat b_nc in
      r <- (if 0 <? nc then
              base <- usub n SAUCE_LEN ;;
              if base <? nc * COMMENT_STRIDE + COMMENT_ID_LEN then Err E_COMMENT_BLOCK else
              a <- usub base (nc * COMMENT_STRIDE) ;;
              comment_start <- usub a COMMENT_ID_LEN ;;
              cid <- slice data comment_start (comment_start + 5) ;;
              if negb (list_eqb SAUCE_COMMENT_ID cid) then Err E_COMMENT_ID else
              cs <- read_comments nc (comment_start + 5) data [] ;;
              Ok (cs, comment_start)
            else
              base <- usub n SAUCE_LEN ;;
              Ok ([], base)) ;;
      let '(comments, len) := r in
      let offset := len - EOF_ALLOWANCE in               (* len.saturating_sub(1): nat subtraction saturates *)
      hl <- usub n offset ;;
      Ok (Some (mkSauce title author group comments (data_type_from b_dt) w h dt_parsed font ice ls ar hl ftype))
  end.

(* Buffer::from_bytes: `len -= sauce.sauce_header_len; … &bytes[..len]` -> (content handed to the loader, sauce) *)
Definition split (dp : list N -> option ymd) (data : list N) : res (list N * option sauce) :=
  match extract dp data with
  | Ok (Some m) =>
      len <- usub (length data) (s_header_len m) ;;
      c <- slice data 0 len ;;
      Ok (c, Some m)
  | Ok None => c <- slice data 0 (length data) ;; Ok (c, None)
  | Err _ => c <- slice data 0 (length data) ;; Ok (c, None)      (* logged, loaded without SAUCE *)
  | Panic s => Panic s
  end.

(* ---- writer ------------------------------------------------------------------------------------ *)
Record wsauce := mkWSauce {
  w_title : list N; w_author : list N; w_group : list N;
  w_comments : list (list N);
  w_ar : bool; w_ls : bool }.

(* the part of `Buffer` that write_sauce_info reads *)
Record wbuf := mkWBuf {
  b_width : Z; b_height : Z;            (* get_width(), get_height() : i32 *)
  b_ice : bool;                         (* matches!(ice_mode, IceMode::Ice) *)
  b_font : option (list N);             (* get_font(0).map(|f| f.name), code points *)
  b_sauce : option wsauce }.            (* get_sauce() *)

Definition le16 (v : Z) : list N := let x := Z.to_N (v mod 65536) in [(x mod 256)%N; (x / 256)%N].
Definition le32 (v : N) : list N :=
  let x := (v mod 4294967296)%N in [(x mod 256)%N; ((x / 256) mod 256)%N; ((x / 65536) mod 256)%N; (x / 16777216)%N].
Definition bflag (b : bool) (f : N) : N := if b then f else 0%N.

Fixpoint append_comments (cs : list (list N)) (vec : list N) : list N :=
  match cs with [] => vec | c :: t => append_comments t (ss_append COMMENT_LEN COMMENT_PAD c vec) end.

(* (data_type, file_type, t_info1, t_info2, t_flags, t_info_str) per SauceFileType; Bin may fail *)
Definition type_fields (ft : sft) (b : wbuf) (name : list N) : res (N * N * Z * Z * N * list N) :=
  let ice := bflag (b_ice b) ANSI_FLAG_NON_BLINK_MODE in
  let lsar := match b_sauce b with
              | Some s => N.lor (bflag (w_ar s) ANSI_ASPECT_RATIO_STRETCH) (bflag (w_ls s) ANSI_LETTER_SPACING_9PX)
              | None => 0%N end in
  match ft with
  | FtAscii => Ok (DT_CHARACTER, SAUCE_FILE_TYPE_ASCII, b_width b, b_height b, N.lor ice lsar, name)
  | FtUndefined | FtAnsi => Ok (DT_CHARACTER, SAUCE_FILE_TYPE_ANSI, b_width b, b_height b, N.lor ice lsar, name)
  | FtANSiMation => Ok (DT_CHARACTER, SAUCE_FILE_TYPE_ANSIMATION, b_width b, b_height b, ice, name)
  | FtPCBoard => Ok (DT_CHARACTER, SAUCE_FILE_TYPE_PCBOARD, b_width b, b_height b, 0%N, [])
  | FtAvatar => Ok (DT_CHARACTER, SAUCE_FILE_TYPE_AVATAR, b_width b, b_height b, 0%N, [])
  | FtTundraDraw => Ok (DT_CHARACTER, SAUCE_FILE_TYPE_TUNDRA_DRAW, b_width b, 0%Z, 0%N, [])
  | FtBin =>
      let w := Z.quot (b_width b) 2 in                                   (* i32 `/` truncates towards zero *)
      if (255 <? w)%Z then Err E_BIN_WIDTH
      else Ok (DT_BINARYTEXT, Z.to_N (w mod 256), 0%Z, 0%Z, ice, name)      (* w as u8 *)
  | FtXBin => Ok (DT_XBIN, 0%N, b_width b, b_height b, 0%N, [])
  end.

(* Buffer::write_sauce_info(sauce_file_type, vec); `date` = the 8 bytes chrono formats "%Y%m%d" to *)
Definition write (ft : sft) (b : wbuf) (date : list N) (vec : list N) : res (list N) :=
  let vec := vec ++ [EOF_BYTE] in
  let file_size := N.of_nat (length vec) in                              (* vec.len() as u32: see le32 *)
  r <- (match b_sauce b with
        | Some s =>
            match w_comments s with
            | [] => Ok (vec, 0%N)
            | cs => if 255 <? length cs then Err E_COMMENT_LIMIT
                    else Ok (append_comments cs (vec ++ SAUCE_COMMENT_ID), N.of_nat (length cs))
            end
        | None => Ok (vec, 0%N)
        end) ;;
  let '(vec, comment_len) := r in
  let vec := vec ++ SAUCE_ID ++ SAUCE_VERSION in
  let '(t, a, g) := match b_sauce b with Some s => (w_title s, w_author s, w_group s) | None => ([], [], []) end in
  let vec := ss_append TITLE_LEN TITLE_PAD t vec in
  let vec := ss_append AUTHOR_LEN AUTHOR_PAD a vec in
  let vec := ss_append GROUP_LEN GROUP_PAD g vec in
  if negb (length date =? 8) then Panic P_ASSERT else
  let vec := vec ++ date ++ le32 file_size in
  match b_font b with
  | None => Panic P_UNWRAP
  | Some name =>
      f <- type_fields ft b name ;;
      let '(dt, fty, t1, t2, fl, nm) := f in
      let vec := vec ++ [dt; fty] ++ le16 t1 ++ le16 t2 ++ [0; 0; 0; 0; comment_len; fl]%N in
      Ok (ss_append TINFOS_LEN TINFOS_PAD (ss_from TINFOS_LEN nm) vec)
  end.

(* ---- chrono: NaiveDateTime::parse_from_str(lossy_utf8(date8) + "000000", "%Y%m%d%H%M%S") ----------- *)
Inductive tok := TWs | TDigit (d : Z) | TPlus | TMinus | TBad.

(* from_utf8_lossy + classification: ASCII and the multi-byte Unicode White_Space characters; every other
   byte sequence becomes some non-digit, non-space character, which no numeric item accepts *)
Fixpoint lex (fuel : nat) (bs : list N) : list tok :=
  match fuel with O => [] | S fuel' =>
  match bs with
  | [] => []
  | b :: r =>
      if ((9 <=? b) && (b <=? 13) || (b =? 32))%N then TWs :: lex fuel' r
      else if ((48 <=? b) && (b <=? 57))%N then TDigit (Z.of_N (b - 48)) :: lex fuel' r
      else if (b =? 43)%N then TPlus :: lex fuel' r
      else if (b =? 45)%N then TMinus :: lex fuel' r
      else match b, r with
           | 194%N, c :: r' => if ((c =? 133) || (c =? 160))%N then TWs :: lex fuel' r' else [TBad]   (* U+0085, U+00A0 *)
           | 225%N, c :: e :: r' => if ((c =? 154) && (e =? 128))%N then TWs :: lex fuel' r' else [TBad] (* U+1680 *)
           | 226%N, c :: e :: r' =>
               if ((c =? 128) && (((128 <=? e) && (e <=? 138)) || (e =? 168) || (e =? 169) || (e =? 175)))%N
               then TWs :: lex fuel' r'                                      (* U+2000..200A, 2028, 2029, 202F *)
               else if ((c =? 129) && (e =? 159))%N then TWs :: lex fuel' r'  (* U+205F *)
               else [TBad]
           | 227%N, c :: e :: r' => if ((c =? 128) && (e =? 128))%N then TWs :: lex fuel' r' else [TBad] (* U+3000 *)
           | _, _ => [TBad]
           end
  end end.

Fixpoint trim (ts : list tok) : list tok := match ts with TWs :: r => trim r | _ => ts end.
(* scan::number(s, 1, max): at least one digit, at most `max` *)
Fixpoint digits (max : nat) (ts : list tok) (acc : Z) (cnt : nat) : option (Z * list tok) :=
  match max with
  | O => if 0 <? cnt then Some (acc, ts) else None
  | S m => match ts with
           | TDigit d :: r => digits m r (acc * 10 + d)%Z (S cnt)
           | _ => if 0 <? cnt then Some (acc, ts) else None
           end
  end.
Definition num (max : nat) (ts : list tok) : option (Z * list tok) := digits max (trim ts) 0%Z 0.
Definition year_item (ts : list tok) : option (Z * list tok) :=
  match trim ts with
  | TMinus :: r => match digits 32 r 0%Z 0 with Some (v, r') => Some ((- v)%Z, r') | None => None end
  | TPlus :: r => digits 32 r 0%Z 0
  | r => digits 4 r 0%Z 0
  end.
Definition leap (y : Z) : bool := ((y mod 4 =? 0) && negb (y mod 100 =? 0) || (y mod 400 =? 0))%Z.
Definition days_in_month (y m : Z) : Z :=
  if (m =? 2)%Z then (if leap y then 29 else 28)%Z
  else if ((m =? 4) || (m =? 6) || (m =? 9) || (m =? 11))%Z then 30%Z else 31%Z.
Definition opt_bind {A B} (o : option A) (f : A -> option B) : option B := match o with Some a => f a | None => None end.

Definition chrono_parse (date8 : list N) : option ymd :=
  let ts := lex 32 date8 ++ repeat (TDigit 0) 6 in
  opt_bind (year_item ts) (fun '(y, ts) =>
  opt_bind (num 2 ts) (fun '(m, ts) =>
  opt_bind (num 2 ts) (fun '(d, ts) =>
  opt_bind (num 2 ts) (fun '(hh, ts) =>
  opt_bind (num 2 ts) (fun '(mi, ts) =>
  opt_bind (num 2 ts) (fun '(ss, ts) =>
  match ts with
  | [] =>
      if ((-262143 <=? y) && (y <=? 262142) && (1 <=? m) && (m <=? 12) && (1 <=? d) && (d <=? days_in_month y m)
          && (hh <=? 23) && (mi <=? 59) && (ss <=? 60))%Z
      then Some (y, m, d) else None
  | _ => None                                                   (* trailing input: TOO_LONG *)
  end)))))).
