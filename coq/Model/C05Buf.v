(* M-fmt (shared part): the pieces of Buffer / Layer / Line / Palette / BitFont that the binary-format
   writers and loaders use (executable definitions only).

   Rust item                                              model
   ----------------------------------------------------   ---------------------------------------------
   AttributedChar {ch, attribute}  (attributed_char.rs)   cell (c_ch : N = the char's scalar value, c_attr : Attr.TextAttribute)
   AttributedChar::invisible / default / is_visible       invisible_cell / default_cell / is_visible
   impl PartialEq for AttributedChar, TextAttribute       cell_eqb  (ch, fg, bg, attr word; the font page is NOT compared)
   Line::create, Line::set_char          (line.rs)        line_create, line_set       (Vec::resize = Lib.C05Lib.pad)
   Layer {size, lines}, Layer::new       (layer.rs)       layer (l_w, l_h, l_lines), layer_new
   Layer::set_char                                        layer_set_char   (a layer made by Buffer::new: visible, not locked,
                                                          no alpha channel, offset 0, default_font_page 0, no sixels)
   Layer::get_char                                        layer_get_char
   Layer::set_height / set_size                           layer_set_height / layer_set_size
   Buffer {size, ice_mode, palette_mode, font_mode,       buffer (b_w, b_h, b_ice, b_pmode, b_fmode, b_layer, b_pal, b_fonts)
           layers[0], palette, font_table}  (buffers.rs)
   Buffer::new                                            buffer_new
   Buffer::set_sauce(.., resize_to_sauce = true)          set_sauce        (fields read: buffer_size, use_ice; see note 2)
   impl TextPane for Buffer :: get_char                   buffer_get_char  (one Normal layer without alpha channel, no overlay,
                                                          not a terminal buffer: what every loader here produces; see note 1)
   crop_loaded_file                    (formats/mod.rs)   crop_loaded_file
   analyze_font_usage                                     used_pages       (sorted, duplicate-free list of font pages)
   Palette::get_rgb / insert_color / is_default /         pal_get_rgb / insert_color / pal_is_default /
     fill_to_16 / as_vec_63 / from_63 (palette_handling)    fill_to_16 / as_vec_63 / from_63   (u8: `r << 2 | r >> 4` truncates)
   BitFont {size.height, length, glyphs}, is_default      font (f_h, f_len, f_default = "name is DEFAULT_FONT_NAME", f_glyphs by code)
   glyphs_from_u8_data, BitFont::create_8 / from_basic    glyphs_from, font_create_8   (width is always 8 in these formats)
   BitFont::convert_to_u8_data                            convert_to_u8_data

   Notes.
   1. Cells whose colour is exactly TextAttribute::TRANSPARENT_COLOR (1 << 31) take a different path through
      Buffer::get_char (make_solid_color); they are outside this model (no format here can carry them, the
      representable_* predicates exclude them by bounding colours).
   2. set_sauce also installs a SAUCE font by name and stores the record; fonts that are not embedded in the file are
      not part of the pictures compared here.  The byte layout of the SAUCE record is property C11's.
   3. Coordinates and sizes are Rust i32 -> Z; bytes, colours, flag words, font pages -> N. *)
From Coq Require Import NArith ZArith Bool List.
From IE Require Import Lib.Tbl Lib.C05Lib Gen.Codepage Gen.Formats Model.Attr.
Import ListNotations.
Local Open Scope Z_scope.

(* ------------------------------------------------------------------ cells *)
Record cell := mkCell { c_ch : N; c_attr : TextAttribute }.

Definition invisible_cell : cell := mkCell 32 (mkAttr DEFAULT_FONT_PAGE DEFAULT_FG DEFAULT_BG ATTR_INVISIBLE).
Definition default_cell : cell := mkCell 32 default_attribute.
Definition is_visible (c : cell) : bool := (N.land (attr (c_attr c)) ATTR_INVISIBLE =? 0)%N.

Definition with_page (a : TextAttribute) (p : N) : TextAttribute :=
  mkAttr p (foreground_color a) (background_color a) (attr a).
Definition with_fg (a : TextAttribute) (f : N) : TextAttribute :=
  mkAttr (font_page a) f (background_color a) (attr a).
Definition with_bg (a : TextAttribute) (g : N) : TextAttribute :=
  mkAttr (font_page a) (foreground_color a) g (attr a).
Definition cell_with_page (c : cell) (p : N) : cell := mkCell (c_ch c) (with_page (c_attr c) p).

Definition attr_eqb (a b : TextAttribute) : bool :=
  ((foreground_color a =? foreground_color b) && (background_color a =? background_color b) && (attr a =? attr b))%N.
Definition cell_eqb (c d : cell) : bool := ((c_ch c =? c_ch d)%N && attr_eqb (c_attr c) (c_attr d)).

(* ------------------------------------------------------------------ lines and layers *)
Record layer := mkLayer { l_w : Z; l_h : Z; l_lines : list (list cell) }.

Definition line_create (w : Z) : list cell := repeat invisible_cell (Z.to_nat w).
Definition layer_new (w h : Z) : layer := mkLayer w h (repeat (line_create w) (Z.to_nat h)).

Definition line_set (l : list cell) (x : nat) (c : cell) : list cell :=
  updf (pad l (S x) invisible_cell) x (fun _ => c).
Definition lines_set (lw : Z) (ls : list (list cell)) (x y : nat) (c : cell) : list (list cell) :=
  updf (pad ls (S y) (line_create lw)) y (fun l => line_set l x c).

Definition out_of_layer (L : layer) (x y : Z) : bool :=
  (x <? 0) || (y <? 0) || (x >=? l_w L) || (y >=? l_h L).

Definition layer_set_char (L : layer) (x y : Z) (c : cell) : layer :=
  if out_of_layer L x y then L
  else mkLayer (l_w L) (l_h L) (lines_set (l_w L) (l_lines L) (Z.to_nat x) (Z.to_nat y) c).

(* content of the raw line vector, absent cells read as invisible *)
Definition cell_at (ls : list (list cell)) (x y : nat) : cell :=
  match nth_error ls y with
  | Some l => match nth_error l x with Some c => c | None => invisible_cell end
  | None => invisible_cell
  end.

Definition layer_get_char (L : layer) (x y : Z) : cell :=
  (* a position outside the layer or absent from the vector reads as invisible with the layer's default font
     page, 0 = DEFAULT_FONT_PAGE (Gen/Codepage.v), which is also the page of the cells Line::create makes *)
  if out_of_layer L x y then cell_with_page invisible_cell 0
  else cell_at (l_lines L) (Z.to_nat x) (Z.to_nat y).

Definition layer_set_height (L : layer) (h : Z) : layer := mkLayer (l_w L) h (l_lines L).
Definition layer_set_size (L : layer) (w h : Z) : layer := mkLayer w h (l_lines L).
Definition layer_clear_lines (L : layer) : layer := mkLayer (l_w L) (l_h L) [].

(* ------------------------------------------------------------------ palettes *)
Definition rgb := (N * N * N)%type.
Definition rgb_eqb (a b : rgb) : bool :=
  let '(r, g, bl) := a in let '(r', g', bl') := b in ((r =? r') && (g =? g') && (bl =? bl'))%N.

Definition pal_get_rgb (p : list rgb) (c : N) : rgb :=
  if N.testbit c 31 then (((c / 65536) mod 256)%N, ((c / 256) mod 256)%N, (c mod 256)%N)
  else match nth_error p (N.to_nat c) with Some v => v | None => (0%N, 0%N, 0%N) end.

Fixpoint find_rgb (p : list rgb) (c : rgb) (i : N) : option N :=
  match p with
  | [] => None
  | h :: t => if rgb_eqb h c then Some i else find_rgb t c (i + 1)%N
  end.
Definition insert_color (p : list rgb) (c : rgb) : list rgb * N :=
  match find_rgb p c 0 with
  | Some i => (p, i)
  | None => (p ++ [c], N.of_nat (length p))
  end.

Fixpoint pal_eqb (p q : list rgb) : bool :=
  match p, q with
  | [], [] => true
  | a :: p', b :: q' => rgb_eqb a b && pal_eqb p' q'
  | _, _ => false
  end.
Definition pal_is_default (p : list rgb) : bool := pal_eqb p DOS_DEFAULT_PALETTE.
Definition fill_to_16 (p : list rgb) : list rgb := p ++ skipn (length p) DOS_DEFAULT_PALETTE.

Definition reduce6 (c : N) : N := (c / 4)%N.                              (* u8 >> 2 *)
Definition expand6 (r : N) : N := N.lor ((r * 4) mod 256) (r / 16)%N.     (* u8: r << 2 | r >> 4 *)
Definition as_vec_63 (p : list rgb) : list N :=
  flat_map (fun c : rgb => let '(r, g, b) := c in [reduce6 r; reduce6 g; reduce6 b]) p.
(* Palette::from_63: reads triples while o < len; a length that is not a multiple of 3 indexes out of bounds *)
Fixpoint from_63 (l : list N) : res (list rgb) :=
  match l with
  | [] => Ok []
  | r :: g :: b :: t => let* p := from_63 t in Ok ((expand6 r, expand6 g, expand6 b) :: p)
  | _ => Panic 1
  end.

(* ------------------------------------------------------------------ fonts *)
Record font := mkFont { f_h : N; f_len : N; f_default : bool; f_glyphs : list (list N) }.

(* glyphs_from_u8_data: consecutive chunks of `height` bytes; a ragged tail panics (`data[..font_height]`);
   height 0 with data never terminates in Rust - reported here as Panic 3 when the fuel runs out *)
Definition glyphs_from (h : N) (data : list N) : res (list (list N)) :=
  match chunks_aux (length data) (N.to_nat h) data with
  | Some g => Ok g
  | None => if (h =? 0)%N then Panic 3 else Panic 2
  end.
Definition font_create_8 (h : N) (data : list N) : res font :=
  let* g := glyphs_from h data in Ok (mkFont h 256 false g).

Definition convert_to_u8_data (f : font) : list N :=
  flat_map (fun ch => match nth_error (f_glyphs f) (N.to_nat ch) with
                      | Some g => g
                      | None => repeat 0%N (N.to_nat (f_h f))
                      end) (nrange (f_len f)).

Definition default_font : font :=
  mkFont DEFAULT_FONT_HEIGHT 256 true
         (match chunks_aux 256 (N.to_nat DEFAULT_FONT_HEIGHT) DEFAULT_FONT_DATA with Some g => g | None => [] end).

Fixpoint get_font (fs : list (N * font)) (slot : N) : option font :=
  match fs with
  | [] => None
  | (k, f) :: t => if (k =? slot)%N then Some f else get_font t slot
  end.

(* ------------------------------------------------------------------ buffers *)
Record buffer := mkBuf {
  b_w : Z; b_h : Z; b_ice : IceMode;
  b_pmode : N;               (* PaletteMode::to_byte *)
  b_fmode : N;               (* FontMode::to_byte *)
  b_layer : layer;
  b_pal : list rgb;
  b_fonts : list (N * font)
}.

Definition buffer_new (w h : Z) : buffer :=
  mkBuf w h Unlimited 1 1 (layer_new w h) DOS_DEFAULT_PALETTE [(0%N, default_font)].

Definition set_layer (b : buffer) (L : layer) : buffer :=
  mkBuf (b_w b) (b_h b) (b_ice b) (b_pmode b) (b_fmode b) L (b_pal b) (b_fonts b).
Definition set_width (b : buffer) (w : Z) : buffer :=
  mkBuf w (b_h b) (b_ice b) (b_pmode b) (b_fmode b) (b_layer b) (b_pal b) (b_fonts b).
Definition set_height (b : buffer) (h : Z) : buffer :=
  mkBuf (b_w b) h (b_ice b) (b_pmode b) (b_fmode b) (b_layer b) (b_pal b) (b_fonts b).
Definition set_ice (b : buffer) (m : IceMode) : buffer :=
  mkBuf (b_w b) (b_h b) m (b_pmode b) (b_fmode b) (b_layer b) (b_pal b) (b_fonts b).
Definition set_modes (b : buffer) (pm fm : N) : buffer :=
  mkBuf (b_w b) (b_h b) (b_ice b) pm fm (b_layer b) (b_pal b) (b_fonts b).
Definition set_pal (b : buffer) (p : list rgb) : buffer :=
  mkBuf (b_w b) (b_h b) (b_ice b) (b_pmode b) (b_fmode b) (b_layer b) p (b_fonts b).
Definition set_fonts (b : buffer) (fs : list (N * font)) : buffer :=
  mkBuf (b_w b) (b_h b) (b_ice b) (b_pmode b) (b_fmode b) (b_layer b) (b_pal b) fs.

(* the fields of SauceData a loader looks at *)
Record sauce := mkSauce { s_w : Z; s_h : Z; s_ice : bool }.

Definition set_sauce (b : buffer) (s : option sauce) : buffer :=
  match s with
  | None => b
  | Some s =>
    let w := if (s_w s =? 0) || (s_w s >? 1000) then 80 else s_w s in
    let b := set_height (set_width b w) (s_h s) in
    let b := set_layer b (layer_set_size (b_layer b) w (s_h s)) in
    if s_ice s then set_ice b Ice else b
  end.

Definition buffer_get_char (b : buffer) (x y : Z) : cell :=
  let L := b_layer b in
  if out_of_layer L x y then cell_with_page invisible_cell 0
  else let c := layer_get_char L x y in
       if is_visible c then c else cell_with_page default_cell 0.

Definition crop_loaded_file (b : buffer) : buffer :=
  (* lines whose `chars` vector is empty are popped from the end while more than one line is left *)
  let fix crop (rev_lines : list (list cell)) : list (list cell) :=
      match rev_lines with
      | [] :: ((_ :: _) as rest) => crop rest
      | _ => rev_lines
      end in
  let lines := rev (crop (rev (l_lines (b_layer b)))) in
  let h := Z.of_nat (length lines) in
  set_height (set_layer b (mkLayer (l_w (b_layer b)) h lines)) h.

(* ------------------------------------------------------------------ pictures: what a writer sees *)
Record pic := mkPic {
  p_w : Z; p_h : Z; p_ice : IceMode;
  p_rows : list (list cell);          (* what Buffer::get_char returns for y in 0..height, x in 0..width *)
  p_pal : list rgb;
  p_fonts : list (N * font)
}.

Definition pic_of (b : buffer) : pic :=
  mkPic (b_w b) (b_h b) (b_ice b)
        (map (fun y => map (fun x => buffer_get_char b (Z.of_nat x) (Z.of_nat y)) (seq 0 (Z.to_nat (b_w b))))
             (seq 0 (Z.to_nat (b_h b))))
        (b_pal b) (b_fonts b).

Fixpoint insert_sorted (x : N) (l : list N) : list N :=
  match l with
  | [] => [x]
  | h :: t => if (x <? h)%N then x :: l else if (x =? h)%N then l else h :: insert_sorted x t
  end.
(* AFTER the fix commit: a buffer without cells reports page 0 *)
Definition used_pages (rows : list (list cell)) : list N :=
  match fold_left (fun acc c => insert_sorted (font_page (c_attr c)) acc) (concat rows) [] with
  | [] => [0%N]
  | l => l
  end.
