(* M-text (part 1): cells, the source buffer as the text writers read it, and the NON-terminal buffer + caret
   as the file loaders drive it (executable definitions only).

   Rust item                                              model
   ----------------------------------------------------   ---------------------------------------------------
   struct AttributedChar {ch, attribute}                  cell (cch : N = the char's scalar value, cat : TextAttribute)
   AttributedChar::default() / ::invisible()              blank / invisible
   AttributedChar::is_visible / is_transparent            is_visible / is_transparent
   impl PartialEq for TextAttribute (fg, bg, attr;        attr_eqb        (the font page is NOT compared)
        not font_page), for AttributedChar                cell_eqb
   Buffer::get_char on a one-layer source buffer          row_get r x = nth x r blank   (a cell that was never set, or is
        (x < width, y < line count)                       invisible, reads as AttributedChar::default(); src/buffers.rs get_char,
                                                          the `!has_alpha_channel` arm)
   <Buffer as TextPane>::get_line_length                  line_length w r   (loop over x in 0..width, last non-transparent + 1)
   Line::set_char / Layer::set_char (src/line.rs,         set_pad invisible / layer_set  (resize with invisible cells /
        src/layer.rs)                                     with Line::create(width) rows; guards x >= width, y >= layer height)
   Buffer::print_char (src/parsers/mod.rs), non-terminal  print_char w      (insert_mode = false, AutoWrap, the layer height
        buffer                                            grows to y+1, auto-wrap by Caret::lf at x >= layer width)
   Caret::lf / cr / ff / bs / del / ins                   lf / cr / ff / bs / del / ins   (is_terminal_buffer = false: lf returns
                                                          after padding `lines` with empty rows)
   Caret::reset_color_attribute                           reset_color
   Buffer::clear_screen (non-terminal)                    clear_screen
   crop_loaded_file (src/formats/mod.rs)                  crop
   the bold-folding loop at the end of parse_with_parser  fold_bold   (rewrites visible bold cells in place; cells that
                                                          are absent or invisible read as default and are not bold)
   <Buffer as TextPane>::get_char on the loaded buffer    lget w p x y

   Positions, widths and counts are nat (they index lists); characters and colours are N.
   State that the loaders never change on the modelled paths is not represented: terminal_state (AutoWrap, no
   margins - only ESC sequences change it, and ESC is outside the model, see ansi_print), insert_mode = false,
   caret ice_mode = false (no SAUCE record), Buffer.ice_mode = Unlimited (Buffer::new). *)
From Coq Require Import NArith Bool List Arith.
From IE Require Import Lib.Tbl Gen.Codepage Gen.TextFmt Model.Attr.
Import ListNotations.

Record cell := mkCell { cch : N; cat : TextAttribute }.

Definition blank : cell := mkCell 32 default_attribute.
Definition invisible_attr : TextAttribute := mkAttr DEFAULT_FONT_PAGE DEFAULT_FG DEFAULT_BG ATTR_INVISIBLE.
Definition invisible : cell := mkCell 32 invisible_attr.

Definition is_visible (c : cell) : bool := (N.land (attr (cat c)) ATTR_INVISIBLE =? 0)%N.
Definition is_transparent (c : cell) : bool :=
  ((cch c =? 0)%N || (cch c =? 32)%N) && (background_color (cat c) =? 0)%N.

Definition attr_eqb (a b : TextAttribute) : bool :=
  (foreground_color a =? foreground_color b)%N && (background_color a =? background_color b)%N && (attr a =? attr b)%N.
Definition cell_eqb (c d : cell) : bool := (cch c =? cch d)%N && attr_eqb (cat c) (cat d).

(* ---- source buffer ---- *)
Definition srow := list cell.
Definition sbuf := list srow.

Definition row_get (r : srow) (x : nat) : cell := nth x r blank.

Definition line_length (w : nat) (r : srow) : nat :=
  fold_left (fun len x => if is_transparent (row_get r x) then len else S x) (seq 0 w) 0.

Definition row_cells (w : nat) (r : srow) : list cell := map (row_get r) (seq 0 (line_length w r)).

(* ---- loaded buffer + caret ---- *)
Record pbuf := mkP {
  lines : list (list cell);   (* layers[0].lines *)
  px : nat; py : nat;         (* caret.pos *)
  pattr : TextAttribute;      (* caret.attribute *)
  lh : nat                    (* layers[0].size.height *)
}.

Definition set_attr (p : pbuf) (a : TextAttribute) : pbuf := mkP (lines p) (px p) (py p) a (lh p).
Definition set_pos (p : pbuf) (x y : nat) : pbuf := mkP (lines p) x y (pattr p) (lh p).
Definition set_lines (p : pbuf) (l : list (list cell)) : pbuf := mkP l (px p) (py p) (pattr p) (lh p).

(* vec.resize(i + 1, d) when i >= len, then vec[i] = v *)
Fixpoint set_pad {A} (d : A) (l : list A) (i : nat) (v : A) : list A :=
  match i, l with
  | O, [] => [v]
  | O, _ :: t => v :: t
  | S i', [] => d :: set_pad d [] i' v
  | S i', h :: t => h :: set_pad d t i' v
  end.

Definition layer_set (w : nat) (ls : list (list cell)) (h : nat) (x y : nat) (c : cell) : list (list cell) :=
  if (w <=? x) || (h <=? y) then ls
  else set_pad (repeat invisible w) ls y (set_pad invisible (nth y ls (repeat invisible w)) x c).

Definition lf (p : pbuf) : pbuf :=
  let y := S (py p) in
  mkP (lines p ++ repeat [] (S y - length (lines p))) 0 y (pattr p) (lh p).

Definition cr (p : pbuf) : pbuf := set_pos p 0 (py p).

Definition print_char (w : nat) (p : pbuf) (c : cell) : pbuf :=
  let h := Nat.max (lh p) (S (py p)) in
  let p2 := mkP (layer_set w (lines p) h (px p) (py p) c) (S (px p)) (py p) (pattr p) h in
  if w <=? px p2 then lf p2 else p2.

Definition reset_color (a : TextAttribute) : TextAttribute :=
  mkAttr (font_page a) DEFAULT_FG DEFAULT_BG DEFAULT_ATTR.

Definition ff (p : pbuf) : pbuf := mkP [] 0 0 (reset_color (pattr p)) (lh p).
Definition clear_screen (p : pbuf) : pbuf := mkP [] 0 0 (pattr p) (lh p).

Definition bs (w : nat) (p : pbuf) : pbuf :=
  let x := Nat.pred (px p) in
  mkP (layer_set w (lines p) (lh p) x (py p) (mkCell 32 (pattr p))) x (py p) (pattr p) (lh p).

Fixpoint remove_at {A} (l : list A) (i : nat) : list A :=
  match l, i with
  | [], _ => []
  | _ :: t, O => t
  | h :: t, S i' => h :: remove_at t i'
  end.
Fixpoint insert_at {A} (l : list A) (i : nat) (v : A) : list A :=
  match i, l with
  | O, _ => v :: l
  | S i', h :: t => h :: insert_at t i' v
  | S _, [] => []
  end.
Fixpoint update_at {A} (l : list A) (i : nat) (f : A -> A) : list A :=
  match l, i with
  | [], _ => []
  | h :: t, O => f h :: t
  | h :: t, S i' => h :: update_at t i' f
  end.

Definition del (p : pbuf) : pbuf := set_lines p (update_at (lines p) (py p) (fun l => remove_at l (px p))).
Definition ins (p : pbuf) : pbuf :=
  set_lines p (update_at (lines p) (py p)
                 (fun l => if px p <? length l then insert_at l (px p) (mkCell 32 (pattr p)) else l)).

(* ---- epilogue of parse_with_parser ---- *)
Fixpoint crop_lines (fuel : nat) (ls : list (list cell)) : list (list cell) :=
  match fuel with
  | O => ls
  | S f => if (1 <? length ls) && (match last ls [blank] with [] => true | _ => false end)
           then crop_lines f (removelast ls) else ls
  end.
Definition crop (p : pbuf) : pbuf :=
  let ls := crop_lines (length (lines p)) (lines p) in
  mkP ls (px p) (py p) (pattr p) (length ls).

Definition fold_bold_cell (c : cell) : cell :=
  if is_visible c && is_bold (cat c) then
    let a := cat c in
    let fg := foreground_color a in
    mkCell (cch c) (set_is_bold (mkAttr (font_page a) (if fg <? 8 then fg + 8 else fg)%N (background_color a) (attr a)) false)
  else c.
Definition fold_bold (p : pbuf) : pbuf := set_lines p (map (map fold_bold_cell) (lines p)).

(* ---- observation: Buffer::get_char on the loaded one-layer buffer (layer width w) ---- *)
Definition view (ls : list (list cell)) (x y : nat) : option cell :=
  match nth_error ls y with
  | Some l => match nth_error l x with
              | Some c => if is_visible c then Some c else None
              | None => None
              end
  | None => None
  end.

Definition lget (w : nat) (p : pbuf) (x y : nat) : cell :=
  if (x <? w) && (y <? lh p) then
    match view (lines p) x y with Some c => c | None => blank end
  else invisible.
