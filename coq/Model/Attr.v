(* M-attr: the 8-bit DOS attribute codec of src/text_attribute.rs (executable definitions only).

   Rust item                                   model
   -----------------------------------------   ------------------------------------------
   enum IceMode (src/buffers.rs)               IceMode, ice_mode_of_byte (= IceMode::from_byte)
   struct TextAttribute                        TextAttribute (font_page, foreground_color, background_color, attr)
   impl Default for TextAttribute              default_attribute (fields from Gen/Codepage.v)
   TextAttribute::is_bold / is_blinking        is_bold / is_blinking
   TextAttribute::set_is_bold/set_is_blinking  set_is_bold / set_is_blinking   (u16: `!x` is xor 0xFFFF)
   TextAttribute::from_u8                      from_u8            (argument is a u8: callers pass b < 256)
   TextAttribute::as_u8                        as_u8 / as_u8_core (AFTER fix commit "as_u8 writes the blink bit in IceMode::Unlimited")
   TextAttribute::from_color                   from_color         (arguments are u8)
   Buffer::render_to_rgba foreground choice    shown_fg           (bold and fg < 8 shows fg + 8; src/buffers.rs)

   The flag constants (ATTR_BOLD, ATTR_BLINK, ...) and the default field values are regenerated from the
   source on every run (Gen/Codepage.v).  The function bodies are hand-written and tied to the code by
   stage C over their complete domains (256 bytes x 3 modes, the 16x16 colour grid with arbitrary flag words,
   u8 x u8 for from_color, all 65536 flag words for the setters/getters).
   Colours are u32, flag words u16, font pages usize in the code; the model uses N and the only places
   where the width matters are `!flag` (xor with 0xFFFF) and `as u8` (mod 256): `bg << 4` cannot overflow
   u32 because bg was masked to 4 bits before. *)
From Coq Require Import NArith Bool List.
From IE Require Import Gen.Codepage.
Import ListNotations.
Local Open Scope N_scope.

Inductive IceMode := Unlimited | Blink | Ice.

(* IceMode::from_byte / to_byte *)
Definition ice_mode_of_byte (b : N) : IceMode :=
  match b with 0 => Unlimited | 1 => Blink | _ => Ice end.
Definition ice_mode_to_byte (m : IceMode) : N :=
  match m with Unlimited => 0 | Blink => 1 | Ice => 2 end.

Record TextAttribute := mkAttr {
  font_page : N;
  foreground_color : N;
  background_color : N;
  attr : N
}.

Definition default_attribute : TextAttribute :=
  mkAttr DEFAULT_FONT_PAGE DEFAULT_FG DEFAULT_BG DEFAULT_ATTR.

Definition has_flag (w flag : N) : bool := N.land w flag =? flag.
Definition set_flag (w flag : N) (on : bool) : N :=
  if on then N.lor w flag else N.land w (N.lxor flag 65535).

Definition is_bold (a : TextAttribute) : bool := has_flag (attr a) ATTR_BOLD.
Definition is_blinking (a : TextAttribute) : bool := has_flag (attr a) ATTR_BLINK.

Definition with_attr (a : TextAttribute) (w : N) : TextAttribute :=
  mkAttr (font_page a) (foreground_color a) (background_color a) w.

Definition set_is_bold (a : TextAttribute) (on : bool) : TextAttribute :=
  with_attr a (set_flag (attr a) ATTR_BOLD on).
Definition set_is_blinking (a : TextAttribute) (on : bool) : TextAttribute :=
  with_attr a (set_flag (attr a) ATTR_BLINK on).

(* TextAttribute::from_u8(attr: u8, ice_mode) *)
Definition from_u8 (b : N) (m : IceMode) : TextAttribute :=
  let '(blink, bg) :=
    match m with
    | Ice => (false, N.shiftr b 4)
    | _ => (negb (N.land b 128 =? 0), N.land (N.shiftr b 4) 7)
    end in
  let fg := N.land b 15 in
  set_is_blinking (mkAttr DEFAULT_FONT_PAGE fg bg DEFAULT_ATTR) blink.

(* TextAttribute::from_color(fg: u8, bg: u8) *)
Definition from_color (fg bg : N) : TextAttribute :=
  let res := mkAttr DEFAULT_FONT_PAGE (N.land fg 7) (N.land bg 7) DEFAULT_ATTR in
  let res := set_is_bold res (negb (N.land fg 8 =? 0)) in
  set_is_blinking res (negb (N.land bg 8 =? 0)).

(* TextAttribute::as_u8(self, ice_mode): only the two colours and the bold / blink flags are read *)
Definition as_u8_core (fgc bgc : N) (bold blink : bool) (m : IceMode) : N :=
  let fg := N.land fgc 15 in
  let fg := if bold then N.lor fg 8 else fg in
  let bg :=
    match m with
    | Blink => N.lor (N.land bgc 7) (if blink then 8 else 0)
    | Unlimited => N.lor (N.land bgc 15) (if blink then 8 else 0)
    | Ice => N.land bgc 15
    end in
  (N.lor fg (N.shiftl bg 4)) mod 256.

Definition as_u8 (a : TextAttribute) (m : IceMode) : N :=
  as_u8_core (foreground_color a) (background_color a) (is_bold a) (is_blinking a) m.

(* what a cell looks like: the foreground the renderer uses (Buffer::render_to_rgba adds 8 to a bold
   low-intensity foreground), the background and the blink flag *)
Definition shown_fg_core (fgc : N) (bold : bool) : N :=
  if bold && (fgc <? 8) then fgc + 8 else fgc.
Definition shown_fg (a : TextAttribute) : N := shown_fg_core (foreground_color a) (is_bold a).
Definition shown (a : TextAttribute) : N * N * bool :=
  (shown_fg a, background_color a, is_blinking a).

(* "expressible in a mode": the 8-bit byte has 4 foreground bits and either a blink bit and 3 background
   bits (Blink, and Unlimited, where from_u8 reads bit 7 as blink) or 4 background bits and no blink (Ice) *)
Definition expressible_core (m : IceMode) (fgc bgc : N) (blink : bool) : bool :=
  (fgc <? 16) &&
  match m with
  | Ice => (bgc <? 16) && negb blink
  | _ => bgc <? 8
  end.
Definition expressible (m : IceMode) (a : TextAttribute) : Prop :=
  expressible_core m (foreground_color a) (background_color a) (is_blinking a) = true.

Definition all_modes : list IceMode := [Unlimited; Blink; Ice].
