(* Unicode scalar values and UTF-8, as the Rust standard library defines them.  Executable definitions only.

   char::from_u32            -> char_from_u32            (None for surrogates and values above 0x10FFFF)
   char::from_u32_unchecked  -> char_from_u32_unchecked  (release semantics: the number is materialised as it is;
                                                          the dev profile aborts on a non-scalar instead)
   char::encode_utf8 / String::push            -> utf8_encode_char, utf8_encode   (the SPECIFICATION of UTF-8)
   core::str::from_utf8 (run_utf8_validation)  -> utf8_valid
   String::from_utf8_lossy (Utf8Chunks::next)  -> utf8_lossy
   String::from_utf8_unchecked                 -> the identity on bytes

   A char is identified with its code point (N); a String with its byte list (list N, bytes < 256).
   utf8_step is one iteration of the `while i < len` loop of Utf8Chunks::next: it looks at up to four bytes
   (safe_get = nth _ _ 0, a missing byte reads as 0, which is never a continuation byte) and says either
   "well-formed sequence of n bytes encoding c" or "ill-formed, the maximal prefix that was accepted has n bytes". *)
From Coq Require Import NArith List Bool.
Import ListNotations.
Local Open Scope N_scope.

Definition scalarb (c : N) : bool := (c <? 0xD800) || ((0xE000 <=? c) && (c <? 0x110000)).

Definition char_from_u32 (x : N) : option N := if scalarb x then Some x else None.
Definition char_from_u32_unchecked (x : N) : option N := Some x.

(* ---- encoding (specification) *)
Definition utf8_encode_char (c : N) : list N :=
  if c <? 0x80 then [c]
  else if c <? 0x800 then [0xC0 + c / 64; 0x80 + c mod 64]
  else if c <? 0x10000 then [0xE0 + c / 4096; 0x80 + (c / 64) mod 64; 0x80 + c mod 64]
  else [0xF0 + c / 262144; 0x80 + (c / 4096) mod 64; 0x80 + (c / 64) mod 64; 0x80 + c mod 64].

Definition utf8_encode (cs : list N) : list N := flat_map utf8_encode_char cs.

(* ---- decoding step shared by the validator and the lossy converter *)
Definition in_range (lo hi b : N) : bool := (lo <=? b) && (b <=? hi).
Definition is_cont (b : N) : bool := in_range 0x80 0xBF b.          (* b & 0xC0 == 0x80 on a byte *)

(* second byte of a three-byte sequence: (E0, A0..BF) | (E1..EC, 80..BF) | (ED, 80..9F) | (EE..EF, 80..BF) *)
Definition second3_ok (b0 b1 : N) : bool :=
  if b0 =? 0xE0 then in_range 0xA0 0xBF b1
  else if b0 =? 0xED then in_range 0x80 0x9F b1
  else is_cont b1.
(* second byte of a four-byte sequence: (F0, 90..BF) | (F1..F3, 80..BF) | (F4, 80..8F) *)
Definition second4_ok (b0 b1 : N) : bool :=
  if b0 =? 0xF0 then in_range 0x90 0xBF b1
  else if b0 =? 0xF4 then in_range 0x80 0x8F b1
  else is_cont b1.

Definition byte_at (bs : list N) (i : nat) : N := nth i bs 0.

Inductive ustep :=
| UOk (c : N) (n : nat)      (* well-formed: n bytes encode code point c *)
| UBad (n : nat).            (* ill-formed: n >= 1 bytes were inspected and accepted before the break *)

Definition utf8_step (bs : list N) : ustep :=
  let b0 := byte_at bs 0 in
  if b0 <? 0x80 then UOk b0 1
  else if in_range 0xC2 0xDF b0 then
    let b1 := byte_at bs 1 in
    if is_cont b1 then UOk ((b0 - 0xC0) * 64 + (b1 - 0x80)) 2 else UBad 1
  else if in_range 0xE0 0xEF b0 then
    let b1 := byte_at bs 1 in
    if second3_ok b0 b1 then
      let b2 := byte_at bs 2 in
      if is_cont b2 then UOk ((b0 - 0xE0) * 4096 + (b1 - 0x80) * 64 + (b2 - 0x80)) 3 else UBad 2
    else UBad 1
  else if in_range 0xF0 0xF4 b0 then
    let b1 := byte_at bs 1 in
    if second4_ok b0 b1 then
      let b2 := byte_at bs 2 in
      if is_cont b2 then
        let b3 := byte_at bs 3 in
        if is_cont b3 then UOk ((b0 - 0xF0) * 262144 + (b1 - 0x80) * 4096 + (b2 - 0x80) * 64 + (b3 - 0x80)) 4
        else UBad 3
      else UBad 2
    else UBad 1
  else UBad 1.

(* from_utf8(..).is_ok(): every step is well-formed.  fuel = length suffices (every step consumes >= 1 byte) *)
Fixpoint utf8_valid_fuel (fuel : nat) (bs : list N) : bool :=
  match bs with
  | [] => true
  | _ :: _ =>
    match fuel with
    | O => false
    | S f => match utf8_step bs with
             | UOk _ n => utf8_valid_fuel f (skipn n bs)
             | UBad _ => false
             end
    end
  end.
Definition utf8_valid (bs : list N) : bool := utf8_valid_fuel (length bs) bs.

(* String::from_utf8_lossy: valid runs are copied, each ill-formed maximal prefix becomes U+FFFD *)
Definition REPLACEMENT : N := 0xFFFD.
Fixpoint utf8_lossy_fuel (fuel : nat) (bs : list N) : list N :=
  match bs with
  | [] => []
  | _ :: _ =>
    match fuel with
    | O => []
    | S f => match utf8_step bs with
             | UOk _ n => firstn n bs ++ utf8_lossy_fuel f (skipn n bs)
             | UBad n => utf8_encode_char REPLACEMENT ++ utf8_lossy_fuel f (skipn n bs)
             end
    end
  end.
Definition utf8_lossy (bs : list N) : list N := utf8_lossy_fuel (length bs) bs.

(* the ways the engine turns file bytes into a String *)
Definition str_unchecked (bs : list N) : list N := bs.         (* String::from_utf8_unchecked *)
Definition str_lossy (bs : list N) : list N := utf8_lossy bs.  (* String::from_utf8_lossy(..).into_owned() *)
