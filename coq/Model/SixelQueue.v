(* Model of the sixel decode queue: Buffer::sixel_threads (VecDeque<JoinHandle<EngineResult<Sixel>>>),
   ansi::Parser::execute_dcs (push_back of a spawned decode) and Buffer::update_sixel_threads
   (poll: pop finished decodes from the front only, drop older images the new one covers, push).
   Runtime facts the model assumes (named in DESIGN.md, trusted base): VecDeque is FIFO;
   JoinHandle::is_finished() = true implies join() returns at once with the closure's result.
   The model makes "join on an unfinished handle" an explicit [PBlocked] outcome so that
   "polling never blocks" is a theorem about the bookkeeping, not an assumption.
   Executable definitions only. *)
From Coq Require Import ZArith List Bool Arith.
Import ListNotations.
Local Open Scope Z_scope.

Definition rect := (Z * Z * Z * Z)%type.      (* start.x, start.y, width, height in pixels *)

(* Rectangle::contains_pt / contains_rect (inclusive on both ends, as in src/lib.rs) *)
Definition contains_pt (r : rect) (px py : Z) : bool :=
  let '(x, y, w, h) := r in (x <=? px) && (px <=? x + w) && (y <=? py) && (py <=? y + h).
Definition contains_rect (outer inner : rect) : bool :=
  let '(x, y, w, h) := inner in contains_pt outer x y && contains_pt outer (x + w) (y + h).

Inductive outcome := OOk (r : rect) | OErr | OPanicked.   (* closure result: Ok(sixel) | Err(_) | thread panicked *)
Inductive status := Running | Done (o : outcome).

Definition is_finished (s : status) : bool := match s with Done _ => true | Running => false end.
Inductive jres := JBlocked | JVal (o : outcome).
Definition join (s : status) : jres := match s with Done o => JVal o | Running => JBlocked end.

Record qstate := {
  next : nat;                               (* number of arrivals so far = next ticket *)
  queue : list (nat * status);              (* sixel_threads, front first *)
  screen : list (nat * rect);               (* layers[0].sixels, oldest first *)
  popped : list (nat * outcome) }.          (* ghost: handles popped so far, in pop order *)

Definition init : qstate := {| next := O; queue := []; screen := []; popped := [] |}.

(* remove old sixels shadowed by the new one, then push *)
Definition deliver (id : nat) (r : rect) (scr : list (nat * rect)) : list (nat * rect) :=
  filter (fun e => negb (contains_rect r (snd e))) scr ++ [(id, r)].

Inductive pres := PBool (b : bool) | PErr | PBlocked.

(* Buffer::update_sixel_threads *)
Fixpoint poll_loop (q : list (nat * status)) (scr : list (nat * rect)) (pp : list (nat * outcome)) (updated : bool)
  : pres * list (nat * status) * list (nat * rect) * list (nat * outcome) :=
  match q with
  | [] => (PBool updated, [], scr, pp)
  | (id, stt) :: q' =>
    if negb (is_finished stt) then (PBool false, q, scr, pp)
    else match join stt with
         | JBlocked => (PBlocked, q, scr, pp)
         | JVal OPanicked => poll_loop q' scr (pp ++ [(id, OPanicked)]) updated
         | JVal OErr => (PErr, q', scr, pp ++ [(id, OErr)])
         | JVal (OOk r) => poll_loop q' (deliver id r scr) (pp ++ [(id, OOk r)]) true
         end
  end.

Definition poll (s : qstate) : pres * qstate :=
  let '(r, q, scr, pp) := poll_loop (queue s) (screen s) (popped s) false in
  (r, {| next := next s; queue := q; screen := scr; popped := pp |}).

Inductive event := Arrive | Finish (id : nat) | Poll.

Section Run.
Variable outcome_of : nat -> outcome.     (* what decode number id returns: a function of its payload only *)

Definition finish (id : nat) (q : list (nat * status)) : list (nat * status) :=
  map (fun e => if Nat.eqb (fst e) id then (fst e, match snd e with Running => Done (outcome_of id) | d => d end) else e) q.

Definition step (s : qstate) (e : event) : qstate :=
  match e with
  | Arrive => {| next := S (next s); queue := queue s ++ [(next s, Running)]; screen := screen s; popped := popped s |}
  | Finish id => {| next := next s; queue := finish id (queue s); screen := screen s; popped := popped s |}
  | Poll => snd (poll s)
  end.

Definition run (evs : list event) : qstate := fold_left step evs init.

(* the specification: images appear in arrival order, each Ok decode delivered once *)
Definition spec_step (scr : list (nat * rect)) (e : nat * outcome) : list (nat * rect) :=
  match snd e with OOk r => deliver (fst e) r scr | _ => scr end.
Definition spec_screen (n : nat) : list (nat * rect) :=
  fold_left spec_step (map (fun id => (id, outcome_of id)) (seq 0 n)) [].

Fixpoint drain (fuel : nat) (s : qstate) : qstate :=
  match fuel with O => s | S f => drain f (snd (poll s)) end.
End Run.
