(* M-file: the terminal core on a FILE buffer (is_terminal_buffer = false) - what the text loaders run on.  Executable only.

   Model/TermCore.v models the functions below for TERMINAL buffers only (its header says so).  `Buffer::from_bytes` makes
   every buffer with `is_terminal_buffer = false`; this file gives the OTHER branch of each function that reads the flag,
   and repeats (verbatim) the functions that call one of them.  Everything else (the record [term], its setters, Line, Layer,
   tab stops, margins, reset_terminal, caret_cr/eol/bs/del/ins/erase, fill_cells, clear_line*, layer_insert_line,
   remove/insert_terminal_line, ...) does not read the flag and is re-exported from Model/TermCore.v unchanged.
   A file that imports this module sees the file-buffer versions under the usual names (later definitions shadow).

   Rust (is_terminal_buffer = false)                                       here
   ----------------------------------------------------------------------  ---------------------------------------------
   Buffer::get_first_visible_line           -> 0                           first
   Buffer::get_last_visible_line            first + height                 last_visible
   Buffer::get_first_editable_line          first (margins are not read)   first_edit
   Buffer::get_first_editable_column        0                              first_col
   Buffer::get_last_editable_column         width.saturating_sub(1)        last_col
   Buffer::needs_scrolling                  false                          needs_scrolling
   Buffer::get_last_editable_line           max(lines.len(), height.saturating_sub(1))     last_edit
   Buffer::upper_left_position                                             upper_left_y
   TerminalState::limit_caret_pos           `caret.pos.y = caret.pos.y.max(0)` (the fix d135f2b), x clamped as always
   Buffer::max_effective_scrolls                                           max_effective_scrolls
   Buffer::scroll_up/_down/_left/_right     (text as in TermCore)          scroll_up ...
   Caret::check_scrolling_on_caret_up/down  (with the `min(.., max_effective_scrolls)` of the code)
   Caret::lf                                returns after growing `lines`: the buffer height is NOT raised, no clamp, no scroll
   Caret::ff                                no `set_size`                  caret_ff
   Caret::home/left/right/up/down/index/reverse_index/next_line            (text as in TermCore)
   Buffer::print_char                       the buffer height is not raised; wraps at the LAYER width (`buffer_width`)
   Buffer::clear_screen                     no `set_size`                  clear_screen
   Buffer::clear_buffer_down/_up            (text as in TermCore)

   TerminalState::get_margins_top_bottom is read by remove/insert_terminal_line without looking at the flag: those two are
   shared.  Conventions (Z for i32, explicit panic sites, unbounded row counters) as in Model/TermCore.v. *)
From Coq Require Import ZArith NArith List Bool Lia.
From IE Require Export Model.TermCore.
Import ListNotations.
Local Open Scope Z_scope.

(* ---- Buffer geometry of a file buffer ------------------------------------------------------------------------------- *)
Definition first (t : term) : Z := 0.
Definition last_visible (t : term) : Z := first t + bh t.
Definition first_edit (t : term) : Z := first t.
Definition first_col (t : term) : Z := 0.
Definition last_col (t : term) : Z := sat_sub (bw t) 1.
Definition needs_scrolling (t : term) : bool := false.
Definition last_edit (t : term) : Z := Z.max (zlen (lines t)) (sat_sub (bh t) 1).
Definition upper_left_y (t : term) : Z := if origin_m t then first_edit t else first t.

Definition limit_caret_pos (t : term) : res term :=
  if origin_m t then
    let f := first_edit t in
    let height := last_edit t - f in
    ROk (set_pos t (clampz (cx t) 0 (Z.max (tw t - 1) 0)) (clampz (cy t) f (Z.max (f + height - 1) f)))
  else
    (* a file buffer grows downwards only: cursor up in the first row stays there; clamp(0, max(w - 1, 0)) cannot fail *)
    ROk (set_pos t (clampz (cx t) 0 (Z.max (tw t - 1) 0)) (Z.max (cy t) 0)).

(* ---- scrolling ----------------------------------------------------------------------------------------------------------- *)
Definition max_effective_scrolls (t : term) : Z :=
  Z.max 0 (sat_add (sat_sub (Z.min (last_edit t) (sat_sub (lh t) 1)) (first_edit t)) 1).
Definition scroll_up (t : term) : term :=
  set_lines t (fold_left (scroll_up_col (lw t) (lh t) (first_edit t) (last_edit t)) (zrange_incl (first_col t) (last_col t)) (lines t)).
Definition scroll_down (t : term) : term :=
  set_lines t (fold_left (scroll_down_col (lw t) (lh t) (first_edit t) (last_edit t)) (zrange_incl (first_col t) (last_col t)) (lines t)).
Definition scroll_left (t : term) : term :=
  let sc := first_col t in let ec := last_col t + 1 in
  set_lines t (fold_left (fun ls i => if i <? 0 then ls else
                            match nth_error ls (Z.to_nat i) with
                            | Some row => set_nth ls (Z.to_nat i) (sl_row sc ec row)
                            | None => ls end)
                         (zrange_incl (first_edit t) (last_edit t)) (lines t)).
Definition scroll_right (t : term) : res term :=
  let sc := first_col t in let ec := last_col t in
  do ls <- fold_left (fun acc i => do ls <- acc;
                          if i <? 0 then ROk ls else
                          match nth_error ls (Z.to_nat i) with
                          | Some row => do r <- sr_row sc ec row; ROk (set_nth ls (Z.to_nat i) r)
                          | None => ROk ls end)
                     (zrange_incl (first_edit t) (last_edit t)) (ROk (lines t));
  ROk (set_lines t ls).

(* ---- Caret motions --------------------------------------------------------------------------------------------------------- *)
Definition check_scrolling_down (t : term) (force : bool) : term :=
  if (needs_scrolling t || force) && (cy t >? last_edit t) then let t1 := scroll_up t in set_cy t1 (cy t1 - 1) else t.
Definition check_scrolling_up (t : term) (force : bool) : term :=
  if needs_scrolling t || force then
    let lastl := first_edit t in
    if cy t <? lastl then set_cy (N.iter (Z.to_N (Z.min (lastl - cy t) (max_effective_scrolls t))) scroll_down t) lastl else t
  else t.

(* Caret::lf on a file buffer: `if !buf.is_terminal_buffer { return; }` right after the rows were added *)
Definition caret_lf (t : term) : res term :=
  let y := cy t + 1 in
  let t1 := set_pos t 0 y in
  let n := length (lines t1) in
  ROk (if y >=? Z.of_nat n then set_lines t1 (lines t1 ++ repeat [] (Z.to_nat (y + 1) - n)) else t1).

Definition caret_ff (t : term) : term :=
  let t1 := reset_terminal t in
  let t2 := set_lines t1 [] in
  caret_reset_color (set_pos t2 0 0).
Definition caret_home (t : term) : term := set_pos t 0 (upper_left_y t).

Definition caret_left (t : term) (n : Z) : res term := limit_caret_pos (set_cx t (sat_sub (cx t) n)).
Definition caret_right (t : term) (n : Z) : res term := limit_caret_pos (set_cx t (sat_add (cx t) n)).
Definition caret_up (t : term) (n : Z) : res term := limit_caret_pos (check_scrolling_up (set_cy t (sat_sub (cy t) n)) false).
Definition caret_down (t : term) (n : Z) : res term := limit_caret_pos (check_scrolling_down (set_cy t (sat_add (cy t) n)) false).
Definition caret_index (t : term) : res term := limit_caret_pos (check_scrolling_down (set_cy t (cy t + 1)) true).
Definition caret_reverse_index (t : term) : res term := limit_caret_pos (check_scrolling_up (set_cy t (cy t - 1)) true).
Definition caret_next_line (t : term) : res term := limit_caret_pos (check_scrolling_down (set_pos t 0 (cy t + 1)) true).

(* ---- Buffer::print_char on a file buffer ------------------------------------------------------------------------------------ *)
Definition print_char (t : term) (c : cell) : res term :=
  do t1 <- (if ins t then
              if cy t <? 0 then RPanic SITE_PRINT_ROW else
              let yn := Z.to_nat (cy t) in
              let ls1 := if Nat.ltb (length (lines t)) (S yn) then resize (lines t) (S yn) [] else lines t in
              match nth_error ls1 yn with
              | Some row => do r <- line_insert_char row (cx t) blank; ROk (set_lines t (set_nth ls1 yn r))
              | None => ROk t   (* unreachable *)
              end
            else ROk t);
  let t2 := if cy t1 + 1 >? lh t1 then set_lh t1 (cy t1 + 1) else t1 in
  let t4 := layer_set t2 (cx t2) (cy t2) c in
  let t5 := set_cx t4 (cx t4 + 1) in
  if cx t5 >=? lw t5 then (if awrap t5 then caret_lf t5 else ROk (set_cx t5 (cx t5 - 1))) else ROk t5.

(* ---- clearing ------------------------------------------------------------------------------------------------------------------ *)
Definition clear_screen (t : term) : term := set_lines (set_pos t 0 0) [].
Definition clear_buffer_down (t : term) : term := fill_cells t (zrange (cy t) (last_visible t)) (zrange 0 (bw t)) (32, cbg t).
Definition clear_buffer_up (t : term) : term := fill_cells t (zrange (first t) (cy t)) (zrange 0 (bw t)) (32, cbg t).
