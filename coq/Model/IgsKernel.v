(* Model of the IGS pixel kernel and of the DrawExecutor commands built on it: src/parsers/igs/paint.rs
     struct DrawExecutor {screen, terminal_resolution, pen_colors, polymarker_color, line_color, fill_color, text_color,
                          fill_pattern, draw_border} (the fields these commands read or write),
     DrawExecutor::{default, get_resolution, set_pixel, get_pixel, fill_pixel, fill_rect, clear, get_picture_data},
     execute_command arms ColorSet, FilledRectangle, AttributeForFills, ScreenClear, SetResolution, HollowSet, DrawingMode,
     SetPenColor.
   i32 arithmetic is checked (chk, Panic SITE_I32), Vec / slice indexing is checked, `%` by zero is a panic site.
   [igs_x] packages the executor as the total `exec` function Model/IgsTok.v takes as a parameter: a panic or a command outside
   this kernel is a sticky outcome.  Executable definitions only. *)
From Coq Require Import NArith ZArith List Bool.
From IE Require Import Gen.IgsGen Model.RipTok Model.BgiKernel Model.IgsTok.
Import ListNotations.
Local Open Scope Z_scope.

Definition SITE_IGS_SCREEN : N := 40.    (* self.screen[offset] *)
Definition SITE_IGS_PATTERN : N := 41.   (* self.fill_pattern[..] / TYPE_PATTERN[..] / HATCH_PATTERN[..] / % fill_pattern.len() *)
Definition SITE_IGS_PEN : N := 42.       (* self.pen_colors[*i as usize] in get_picture_data *)
Definition SITE_IGS_PARAM : N := 43.     (* parameters[k] (every modelled arm checks parameters.len() first) *)

Record iexec := {
  e_screen : list N; e_res : N;                     (* TerminalResolution: 0 Low, 1 Medium, 2 High *)
  e_poly_color : N; e_line_color : N; e_fill_color : N; e_text_color : N;
  e_pattern : list Z;                               (* fill_pattern: &'static [u16] *)
  e_border : bool; e_pens : list (N * N * N) }.

Definition e_upd_screen (e : iexec) (scr : list N) : iexec :=
  {| e_screen := scr; e_res := e_res e; e_poly_color := e_poly_color e; e_line_color := e_line_color e; e_fill_color := e_fill_color e;
     e_text_color := e_text_color e; e_pattern := e_pattern e; e_border := e_border e; e_pens := e_pens e |}.

(* get_resolution *)
Definition res_of (r : N) : Z * Z := nth (N.to_nat r) IGS_RESOLUTIONS (0, 0).
Definition e_w (e : iexec) : Z := fst (res_of (e_res e)).
Definition e_h (e : iexec) : Z := snd (res_of (e_res e)).

(* DrawExecutor::default *)
Definition iexec_new : iexec :=
  {| e_screen := repeat IGS_INIT_PIXEL (Z.to_nat (fst (res_of 0) * snd (res_of 0))); e_res := 0;
     e_poly_color := 0; e_line_color := 0; e_fill_color := 0; e_text_color := 0; e_pattern := SOLID_PATTERN; e_border := false;
     e_pens := IGS_SYSTEM_PALETTE |}.

(* set_pixel *)
Definition igs_set_pixel (e : iexec) (x y : Z) (c : N) : res iexec :=
  if (x <? 0) || (y <? 0) || (e_w e <=? x) || (e_h e <=? y) then Ok e
  else m <- chk (y * e_w e) ;; off <- chk (m + x) ;;
       if (off <? 0) || (Z.of_nat (length (e_screen e)) <=? off) then Ok e
       else scr <- (match set_nth (e_screen e) (Z.to_nat off) c with Some l => Ok l | None => Panic SITE_IGS_SCREEN end) ;;
            Ok (e_upd_screen e scr).

(* get_pixel *)
Definition igs_get_pixel (e : iexec) (x y : Z) : res N :=
  if (x <? 0) || (y <? 0) || (e_w e <=? x) || (e_h e <=? y) then Ok 0%N
  else m <- chk (y * e_w e) ;; off <- chk (m + x) ;;
       if (off <? 0) || (Z.of_nat (length (e_screen e)) <=? off) then Ok 0%N
       else idx SITE_IGS_SCREEN (e_screen e) off.

(* fill_pixel: w = fill_pattern[(y as usize) % len]; if w & (1 << (x as usize % 16)) != 0 { set_pixel(x, y, fill_color) } *)
Definition igs_fill_pixel (e : iexec) (x y : Z) : res iexec :=
  if Nat.eqb (length (e_pattern e)) 0 then Panic SITE_IGS_PATTERN
  else w <- idx SITE_IGS_PATTERN (e_pattern e) (Z.rem (i32_as_usize y) (Z.of_nat (length (e_pattern e)))) ;;
       if Z.testbit w (Z.rem (i32_as_usize x) 16) then igs_set_pixel e x y (e_fill_color e) else Ok e.

(* for x in x0..=x1 { self.fill_pixel(x, y) } *)
Fixpoint fill_row (n : nat) (e : iexec) (x y : Z) : res iexec :=
  match n with O => Ok e | S n' => e' <- igs_fill_pixel e x y ;; fill_row n' e' (x + 1) y end.
(* for y in y0..=y1 { row } *)
Fixpoint fill_rows (n : nat) (e : iexec) (x0 : Z) (nx : nat) (y : Z) : res iexec :=
  match n with O => Ok e | S n' => e' <- fill_row nx e x0 y ;; fill_rows n' e' x0 nx (y + 1) end.

Definition irange (a b : Z) : nat := Z.to_nat (b - a + 1).

(* fill_rect (after the fix: clipped to the screen before the loops) *)
Definition igs_fill_rect (e : iexec) (x0 y0 x1 y1 : Z) : res iexec :=
  let '(ya, yb) := if y1 <? y0 then (y1, y0) else (y0, y1) in
  let '(xa, xb) := if x1 <? x0 then (x1, x0) else (x0, x1) in
  let xa := Z.max xa 0 in let ya := Z.max ya 0 in
  w1 <- chk (e_w e - 1) ;; h1 <- chk (e_h e - 1) ;;
  let xb := Z.min xb w1 in let yb := Z.min yb h1 in
  fill_rows (irange ya yb) e xa (irange xa xb) ya.

(* the number of fill_pixel calls of one fill_rect *)
Definition igs_fill_rect_calls (e : iexec) (x0 y0 x1 y1 : Z) : Z :=
  let '(ya, yb) := if y1 <? y0 then (y1, y0) else (y0, y1) in
  let '(xa, xb) := if x1 <? x0 then (x1, x0) else (x0, x1) in
  Z.of_nat (irange (Z.max ya 0) (Z.min yb (e_h e - 1))) * Z.of_nat (irange (Z.max xa 0) (Z.min xb (e_w e - 1))).

(* clear / the re-allocation of SetResolution *)
Definition igs_blank (e : iexec) (px : N) : res iexec :=
  n <- chk (e_w e * e_h e) ;; Ok (e_upd_screen e (repeat px (Z.to_nat n))).

(* get_picture_data: r, g, b, (0 if black else 255) per pixel *)
Fixpoint picture (pens : list (N * N * N)) (scr : list N) : res (list N) :=
  match scr with
  | [] => Ok []
  | i :: t => c <- idx SITE_IGS_PEN pens (Z.of_N i) ;; r <- picture pens t ;;
              let '(cr, cg, cb) := c in
              Ok (cr :: cg :: cb :: (if (cr =? 0)%N && (cg =? 0)%N && (cb =? 0)%N then 0%N else 255%N) :: r)
  end.
Definition igs_picture (e : iexec) : res (list N) := picture (e_pens e) (e_screen e).

Definition par (ps : list Z) (k : nat) : res Z := match nth_error ps k with Some v => Ok v | None => Panic SITE_IGS_PARAM end.

Definition e_with_colors (e : iexec) pc lc fc tc : iexec :=
  {| e_screen := e_screen e; e_res := e_res e; e_poly_color := pc; e_line_color := lc; e_fill_color := fc; e_text_color := tc;
     e_pattern := e_pattern e; e_border := e_border e; e_pens := e_pens e |}.
Definition e_with_pattern (e : iexec) pat : iexec :=
  {| e_screen := e_screen e; e_res := e_res e; e_poly_color := e_poly_color e; e_line_color := e_line_color e; e_fill_color := e_fill_color e;
     e_text_color := e_text_color e; e_pattern := pat; e_border := e_border e; e_pens := e_pens e |}.
Definition e_with_border (e : iexec) b : iexec :=
  {| e_screen := e_screen e; e_res := e_res e; e_poly_color := e_poly_color e; e_line_color := e_line_color e; e_fill_color := e_fill_color e;
     e_text_color := e_text_color e; e_pattern := e_pattern e; e_border := b; e_pens := e_pens e |}.
Definition e_with_res (e : iexec) r : iexec :=
  {| e_screen := e_screen e; e_res := r; e_poly_color := e_poly_color e; e_line_color := e_line_color e; e_fill_color := e_fill_color e;
     e_text_color := e_text_color e; e_pattern := e_pattern e; e_border := e_border e; e_pens := e_pens e |}.
Definition e_with_pens (e : iexec) p : iexec :=
  {| e_screen := e_screen e; e_res := e_res e; e_poly_color := e_poly_color e; e_line_color := e_line_color e; e_fill_color := e_fill_color e;
     e_text_color := e_text_color e; e_pattern := e_pattern e; e_border := e_border e; e_pens := p |}.

(* `v as u8` of an i32 *)
Definition z_as_u8 (z : Z) : N := Z.to_N (z mod 256).

Inductive xres := XOk (e : iexec) (ok : bool) | XPanic (site : N) | XUnmodelled.
Definition xlift (r : res (iexec * bool)) : xres := match r with Ok (e, ok) => XOk e ok | Panic s => XPanic s end.

(* DrawExecutor::execute_command, the arms of the kernel; true = Ok(..), false = Err(..) (the state may already have changed) *)
Definition igs_exec (e : iexec) (c : N) (ps : list Z) (s : str) : xres :=
  if (c =? 67)%N then (* 'C' ColorSet *) xlift (
    if negb (Nat.eqb (length ps) 2) then Ok (e, false)
    else p0 <- par ps 0 ;; p1 <- par ps 1 ;;
         if negb ((0 <=? p1) && (p1 <=? 15)) then Ok (e, false)
         else let v := z_as_u8 p1 in
              if p0 =? 0 then Ok (e_with_colors e v (e_line_color e) (e_fill_color e) (e_text_color e), true)
              else if p0 =? 1 then Ok (e_with_colors e (e_poly_color e) v (e_fill_color e) (e_text_color e), true)
              else if p0 =? 2 then Ok (e_with_colors e (e_poly_color e) (e_line_color e) v (e_text_color e), true)
              else if p0 =? 3 then Ok (e_with_colors e (e_poly_color e) (e_line_color e) (e_fill_color e) v, true)
              else Ok (e, false))
  else if (c =? 90)%N then (* 'Z' FilledRectangle *) xlift (
    if negb (Nat.eqb (length ps) 4) then Ok (e, false)
    else x0 <- par ps 0 ;; y0 <- par ps 1 ;; x1 <- par ps 2 ;; y1 <- par ps 3 ;;
         e' <- igs_fill_rect e x0 y0 x1 y1 ;; Ok (e', true))
  else if (c =? 65)%N then (* 'A' AttributeForFills *) xlift (
    if negb (Nat.eqb (length ps) 3) then Ok (e, false)
    else p0 <- par ps 0 ;; p1 <- par ps 1 ;; p2 <- par ps 2 ;;
         r <- (if p0 =? 0 then Ok (Some HOLLOW_PATTERN)
               else if p0 =? 1 then Ok (Some SOLID_PATTERN)
               else if p0 =? 2 then
                 (if p1 =? 0 then Ok (Some RANDOM_PATTERN)
                  else if (1 <=? p1) && (p1 <=? 24) then pat <- idx SITE_IGS_PATTERN TYPE_PATTERN (p1 - 1) ;; Ok (Some pat)
                  else Ok (Some SOLID_PATTERN))
               else if p0 =? 3 then
                 (if (1 <=? p1) && (p1 <=? 12) then
                    (if p1 <=? 6 then pat <- idx SITE_IGS_PATTERN HATCH_PATTERN (p1 - 1) ;; Ok (Some pat)
                     else pat <- idx SITE_IGS_PATTERN HATCH_WIDE_PATTERN (p1 - 7) ;; Ok (Some pat))
                  else Ok (Some SOLID_PATTERN))
               else if p0 =? 4 then Ok (Some SOLID_PATTERN)
               else Ok None) ;;
         match r with
         | None => Ok (e, false)
         | Some pat => let e1 := e_with_pattern e pat in
                       if p2 =? 0 then Ok (e_with_border e1 false, true)
                       else if p2 =? 1 then Ok (e_with_border e1 true, true)
                       else Ok (e1, false)
         end)
  else if (c =? 115)%N then (* 's' ScreenClear *) xlift (e' <- igs_blank e IGS_CLEAR_PIXEL ;; Ok (e', true))
  else if (c =? 82)%N then (* 'R' SetResolution *) xlift (
    if negb (Nat.eqb (length ps) 2) then Ok (e, false)
    else p0 <- par ps 0 ;; p1 <- par ps 1 ;;
         if negb ((p0 =? 0) || (p0 =? 1)) then Ok (e, false)
         else let e1 := e_with_res e (Z.to_N p0) in
              n <- chk (e_w e1 * e_h e1) ;;
              let e2 := if Nat.eqb (length (e_screen e1)) (Z.to_nat n) then e1 else e_upd_screen e1 (repeat IGS_SETRES_PIXEL (Z.to_nat n)) in
              if p1 =? 0 then Ok (e2, true)
              else if p1 =? 1 then Ok (e_with_pens e2 IGS_SYSTEM_PALETTE, true)
              else if p1 =? 2 then Ok (e_with_pens e2 IGS_PALETTE, true)
              else Ok (e2, false))
  else if (c =? 72)%N then (* 'H' HollowSet: hollow_set is read by no modelled command *) xlift (
    if negb (Nat.eqb (length ps) 1) then Ok (e, false)
    else p0 <- par ps 0 ;; Ok (e, (p0 =? 0) || (p0 =? 1)))
  else if (c =? 77)%N then (* 'M' DrawingMode: drawing_mode is read by no modelled command *) xlift (
    if negb (Nat.eqb (length ps) 1) then Ok (e, false)
    else p0 <- par ps 0 ;; Ok (e, (1 <=? p0) && (p0 <=? 4)))
  else if (c =? 83)%N then (* 'S' SetPenColor: pen_colors[color] = ((p as u8) << 5 | p as u8) per channel *) xlift (
    if negb (Nat.eqb (length ps) 4) then Ok (e, false)
    else p0 <- par ps 0 ;; p1 <- par ps 1 ;; p2 <- par ps 2 ;; p3 <- par ps 3 ;;
         if negb ((0 <=? p0) && (p0 <=? 15)) then Ok (e, false)
         else let ch v := let b := z_as_u8 v in N.lor (N.land (N.shiftl b 5) 255) b in
              match set_nth (e_pens e) (Z.to_nat p0) (ch p1, ch p2, ch p3) with
              | Some pens => Ok (e_with_pens e pens, true)
              | None => Panic SITE_IGS_PEN
              end)
  else (* every other arm that begins with `if parameters.len() != N { return Err(..) }` (generated table): the wrong number of
          parameters is an error before anything is touched; with the right number the command is outside this kernel *)
    match lookup c IGS_ARITY with
    | Some n => if negb (Z.of_nat (length ps) =? n) then XOk e false else XUnmodelled
    | None => XUnmodelled
    end.

(* the executor as the total function the tokenizer model is parameterised with *)
Inductive xstate := SOkE (e : iexec) | SPanicE (site : N) | SUnmodelledE.
Definition igs_x (x : xstate) (c : N) (ps : list Z) (s : str) : xstate * bool :=
  match x with
  | SOkE e => match igs_exec e c ps s with
              | XOk e' ok => (SOkE e', ok)
              | XPanic p => (SPanicE p, false)
              | XUnmodelled => (SUnmodelledE, false)
              end
  | _ => (x, false)
  end.
