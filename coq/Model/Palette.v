(* Model of the palette container of src/palette_handling.rs (executable Gallina only).

   Rust                                   model
   ------------------------------------   -------------------------------------------
   struct Color {name, r, g, b}           color  (cname : option str, crgb : N*N*N)
   struct Palette {title, description,    palette (old_checksum/checksum are a cache of get_checksum and
                   author, colors, …}              are not observable through the modelled functions)
   Color::default()                       default_color
   Palette::get_rgb / get_color           get_rgb / get_color   (direct-RGB channel expressions: Gen/PaletteSrc.v)
   Palette::insert_color(_rgb)            insert_color          (linear search on r,g,b, then push; result `as u32`)
   Palette::set_color / set_color_rgb     set_color             (resize with Color::default() up to index+1)
   Palette::push / clear / fill_to_16     push_color / clear / fill_to_16
   Palette::resize                        resize                (fill_to_16 first when growing, exactly as the code)
   Palette::from / as_vec                 from_bytes / as_vec   (None = index-out-of-bounds panic)
   Palette::from_63 / as_vec_63           from_63 / as_vec_63   (channel expressions: Gen/PaletteSrc.v)
   artworx::from_ega_data / to_ega_data   from_ega_data / to_ega_data (None = panic)

   Numbers: colour indices are u32 in Rust; the model takes any N and the statements say `i < 2^32` where it
   matters.  `self.colors.len() as u32` is modelled with its truncation (`u32`).
   Checked indexing: `self.colors[color as usize]` in get_rgb/get_color is only reached when the index is below
   the length (lemma get_rgb_in_range in Proofs/PaletteProofs.v), hence `nth … default_color` there. *)
From Coq Require Import NArith List Bool.
From IE Require Import Lib.Tbl Lib.C16Lib Gen.PaletteSrc.
Import ListNotations.
Local Open Scope N_scope.

Definition str := list N.
Definition rgb := (N * N * N)%type.
Record color := mkColor { cname : option str; crgb : rgb }.
Record palette := mkPal { ptitle : str; pdescription : str; pauthor : str; pcolors : list color }.

Definition black : rgb := (0, 0, 0).
Definition default_color : color := mkColor None black.
Definition unnamed (c : rgb) : color := mkColor None c.
Definition with_colors (p : palette) (l : list color) : palette :=
  mkPal (ptitle p) (pdescription p) (pauthor p) l.
Definition empty_palette : palette := mkPal [] [] [] [].          (* Palette::new() *)
Definition of_colors (l : list color) : palette := mkPal [] [] [] l.   (* Palette::from_slice *)

Definition rgb_eqb (a b : rgb) : bool :=
  let '(r1, g1, b1) := a in let '(r2, g2, b2) := b in (r1 =? r2) && (g1 =? g2) && (b1 =? b2).

Definition plen (p : palette) : N := N.of_nat (length (pcolors p)).
Definition u32 (x : N) : N := x mod 4294967296.

(* ---- lookup --------------------------------------------------------------------------------------- *)
Definition direct_rgb (i : N) : rgb := (get_rgb_direct_r i, get_rgb_direct_g i, get_rgb_direct_b i).

Definition get_rgb (p : palette) (i : N) : rgb :=
  if N.testbit i 31 then direct_rgb i                            (* color & (1 << 31) != 0 *)
  else if u32 (plen p) <=? i then black                          (* color >= self.colors.len() as u32 *)
  else crgb (nth (N.to_nat i) (pcolors p) default_color).

Definition get_color (p : palette) (i : N) : color :=
  if N.testbit i 31 then unnamed (get_color_direct_r i, get_color_direct_g i, get_color_direct_b i)
  else if plen p <=? i then unnamed black                        (* color as usize >= self.colors.len() *)
  else nth (N.to_nat i) (pcolors p) default_color.

(* ---- insert ------------------------------------------------------------------------------------------ *)
Fixpoint find_rgb (c : rgb) (l : list color) (k : N) : option N :=
  match l with
  | [] => None
  | x :: l' => if rgb_eqb (crgb x) c then Some k else find_rgb c l' (N.succ k)
  end.

Definition insert_color (p : palette) (c : color) : palette * N :=
  match find_rgb (crgb c) (pcolors p) 0 with
  | Some i => (p, u32 i)
  | None => (with_colors p (pcolors p ++ [c]), u32 (plen p))   (* (len_after_push - 1) as u32 *)
  end.

(* ---- set ------------------------------------------------------------------------------------------------ *)
Fixpoint set_nth {A} (l : list A) (k : nat) (x : A) : list A :=
  match l, k with
  | [], _ => []
  | _ :: t, O => x :: t
  | h :: t, S k' => h :: set_nth t k' x
  end.

(* Vec::resize(n, Color::default()) *)
Definition vec_resize (l : list color) (n : nat) : list color :=
  if Nat.leb n (length l) then firstn n l else l ++ repeat default_color (n - length l).

Definition set_color (p : palette) (i : N) (c : color) : palette :=
  let l := if plen p <=? i then vec_resize (pcolors p) (N.to_nat i + 1) else pcolors p in
  with_colors p (set_nth l (N.to_nat i) c).

(* ---- push, clear, fill_to_16, resize -------------------------------------------------------------- *)
Definition push_color (p : palette) (c : color) : palette := with_colors p (pcolors p ++ [c]).
Definition clear (p : palette) : palette := with_colors p [].

Definition fill16_list (l : list color) : list color :=
  l ++ map unnamed (skipn (length l) DOS_DEFAULT_PALETTE).
Definition fill_to_16 (p : palette) : palette := with_colors p (fill16_list (pcolors p)).

Definition resize (p : palette) (n : N) : palette :=
  let n' := N.to_nat n in
  let l1 := if plen p <? n then vec_resize (fill16_list (pcolors p)) n' else pcolors p in
  let l2 := if Nat.ltb n' (length l1) then vec_resize l1 n' else l1 in
  with_colors p l2.

(* ---- byte vectors ----------------------------------------------------------------------------------- *)
Fixpoint triples (bs : list N) : option (list rgb) :=      (* pal[o], pal[o+1], pal[o+2]; None = panic *)
  match bs with
  | [] => Some []
  | r :: g :: b :: t => match triples t with Some l => Some ((r, g, b) :: l) | None => None end
  | _ => None
  end.

Definition from_bytes (bs : list N) : option palette :=
  match triples bs with Some l => Some (of_colors (map unnamed l)) | None => None end.
Definition as_vec (p : palette) : list N :=
  flat_map (fun c => let '(r, g, b) := crgb c in [r; g; b]) (pcolors p).

Definition expand63 (c : rgb) : rgb := let '(r, g, b) := c in (from63_r r, from63_g g, from63_b b).
Definition reduce63 (c : rgb) : list N := let '(r, g, b) := c in [to63_r r; to63_g g; to63_b b].

Definition from_63 (bs : list N) : option palette :=
  match triples bs with Some l => Some (of_colors (map (fun c => unnamed (expand63 c)) l)) | None => None end.
Definition as_vec_63 (p : palette) : list N := flat_map (fun c => reduce63 (crgb c)) (pcolors p).

(* ---- EGA (ADF) palette ---------------------------------------------------------------------------- *)
Definition ega_expand (c : rgb) : rgb := let '(r, g, b) := c in (ega_from_r r, ega_from_g g, ega_from_b b).
Definition ega_reduce (c : rgb) : list N := let '(r, g, b) := c in [ega_to_r r; ega_to_g g; ega_to_b b].

Definition byte_at (bs : list N) (i : N) : option N := nth_error bs (N.to_nat i).

Fixpoint from_ega_cols (offs : list N) (bs : list N) : option (list rgb) :=
  match offs with
  | [] => Some []
  | off :: t =>
      match byte_at bs (3 * off), byte_at bs (3 * off + 1), byte_at bs (3 * off + 2) with
      | Some r, Some g, Some b =>
          match from_ega_cols t bs with Some l => Some (ega_expand (r, g, b) :: l) | None => None end
      | _, _, _ => None
      end
  end.
Definition from_ega_data (bs : list N) : option palette :=
  match from_ega_cols EGA_COLOR_OFFSETS bs with Some l => Some (of_colors (map unnamed l)) | None => None end.

(* ega_colors[EGA_COLOR_OFFSETS[i]] = palette.get_color(i);  both indexings are checked.
   `if i >= palette.len() { break; }`: the condition is monotone in i, so leaving the loop and skipping the
   remaining iterations are the same thing. *)
Definition ega_store (p : palette) (acc : option (list rgb)) (i : N) : option (list rgb) :=
  match acc with
  | None => None
  | Some l =>
      if plen p <=? i then Some l
      else match nth_error EGA_COLOR_OFFSETS (N.to_nat i) with
           | None => None
           | Some off => if N.of_nat (length l) <=? off then None
                         else Some (set_nth l (N.to_nat off) (crgb (get_color p i)))
           end
  end.
Definition ega_overlay (p : palette) : option (list rgb) :=
  fold_left (ega_store p) (nrange ega_to_count) (Some EGA_PALETTE).
Definition to_ega_data (p : palette) : option (list N) :=
  match ega_overlay p with Some l => Some (flat_map ega_reduce l) | None => None end.

(* ---- operation sequences --------------------------------------------------------------------------- *)
Inductive op :=
| OInsert (c : color)            (* insert_color / insert_color_rgb *)
| OSet (i : N) (c : color)       (* set_color / set_color_rgb *)
| OLookup (i : N)                (* get_rgb / get_color *)
| OPush (c : color)
| OFill16
| OResize (n : N)
| OClear.

Definition step (p : palette) (o : op) : palette :=
  match o with
  | OInsert c => fst (insert_color p c)
  | OSet i c => set_color p i c
  | OLookup _ => p
  | OPush c => push_color p c
  | OFill16 => fill_to_16 p
  | OResize n => resize p n
  | OClear => clear p
  end.
Definition run (p : palette) (ops : list op) : palette := fold_left step ops p.
