(* Model/Composite.v — executable model of layer compositing (C13).  Definitions only, no proofs.

   Mirrors (icy_engine, after the fix: commit of /repo "fix: invisible cells of a Chars-mode layer …"):
     src/text_attribute.rs    TextAttribute {foreground_color, background_color, attr, font_page},
                              default(), with_font_page, set_font_page, TRANSPARENT_COLOR, attribute::INVISIBLE
     src/attributed_char.rs   AttributedChar {ch, attribute}, default(), invisible(), is_visible,
                              is_transparent, with_font_page
     src/position.rs          impl Sub for Position (plain `-` on i32: overflow panics in the dev profile)
     src/layer.rs             Layer::get_offset (preview_offset overrides properties.offset),
                              impl TextPane for Layer :: get_char (ragged `lines`), get_width/get_height
     src/paint/half_block.rs  HalfBlock::from (position argument is Position::default(); `is_top` is unused
                              by make_solid_color and not modelled)
     src/buffers.rs           merge, Buffer::make_solid_color, Buffer::get_font,
                              impl TextPane for Buffer :: get_char (the top-down loop, `step` = one iteration,
                              `run` = the loop, `finish` = the code after the loop)
   Constants come from Gen/Comp.v (regenerated from the source on every run).

   Not modelled: the overlay layer (`overlay_layer` is None in every buffer considered: Buffer::new never
   sets it); i32 overflow inside HalfBlock::from (`font.size.width * font.size.height`, glyph bit counts).
   Coordinates are Z; the only i32 effect the loop has, the checked subtraction `pos - offset`, is explicit. *)
From Coq Require Import NArith ZArith List Bool.
From IE Require Import Gen.Comp.
Import ListNotations.

(* ---------- cells ---------- *)
Record tattr := mkAttr { a_fg : N; a_bg : N; a_flags : N; a_fpage : N }.
Record cell := mkCell { c_ch : N; c_at : tattr }.

Definition default_attr : tattr := mkAttr DEFAULT_FG DEFAULT_BG DEFAULT_ATTR DEFAULT_FONT_PAGE.
Definition default_cell : cell := mkCell DEFAULT_CH default_attr.
(* AttributedChar::invisible(): TextAttribute { attr: INVISIBLE, ..Default::default() } *)
Definition invisible_cell : cell := mkCell INVISIBLE_CH (mkAttr DEFAULT_FG DEFAULT_BG INVISIBLE_ATTR DEFAULT_FONT_PAGE).

Definition is_visible (c : cell) : bool := N.eqb (N.land (a_flags (c_at c)) VISIBLE_MASK) VISIBLE_RHS.
Definition is_transparent (c : cell) : bool :=
  (N.eqb (c_ch c) TRANSPARENT_CH_A || N.eqb (c_ch c) TRANSPARENT_CH_B) && N.eqb (a_bg (c_at c)) TRANSPARENT_BG.
Definition attr_with_font_page (a : tattr) (p : N) : tattr := mkAttr (a_fg a) (a_bg a) (a_flags a) p.
Definition with_font_page (c : cell) (p : N) : cell := mkCell (c_ch c) (attr_with_font_page (c_at c) p).
Definition has_transparent_colour (c : cell) : bool :=
  N.eqb (a_fg (c_at c)) TRANSPARENT_COLOR || N.eqb (a_bg (c_at c)) TRANSPARENT_COLOR.

(* ---------- layers ---------- *)
Inductive lmode := MNormal | MChars | MAttributes.
Record layer := mkLayer {
  l_visible : bool; l_alpha : bool; l_mode : lmode;
  l_offset : Z * Z;                (* properties.offset *)
  l_preview : option (Z * Z);      (* preview_offset *)
  l_w : Z; l_h : Z;                (* size *)
  l_dfp : N;                       (* default_font_page *)
  l_lines : list (list cell) }.    (* lines[y].chars[x], ragged *)

Definition get_offset (L : layer) : Z * Z :=
  match l_preview L with Some o => o | None => l_offset L end.

(* impl TextPane for Layer :: get_char.  Both index tests of the Rust code (`y < lines.len()`,
   `x < chars.len()`) are the `None` cases of nth_error: no access can be out of bounds. *)
Definition layer_get_char (L : layer) (x y : Z) : cell :=
  let inv := with_font_page invisible_cell (l_dfp L) in
  if (x <? 0)%Z || (y <? 0)%Z || (x >=? l_w L)%Z || (y >=? l_h L)%Z then inv else
  match nth_error (l_lines L) (Z.to_nat y) with
  | Some line => match nth_error line (Z.to_nat x) with Some c => c | None => inv end
  | None => inv
  end.

(* ---------- fonts, HalfBlock::from ---------- *)
Record font := mkFont { f_w : Z; f_h : Z; f_glyph : N -> option (list N) }.   (* size, glyphs: char -> data *)

Fixpoint pop_pos (p : positive) : Z :=
  match p with xH => 1 | xO q => pop_pos q | xI q => 1 + pop_pos q end%Z.
Definition count_ones (b : N) : Z := match b with N0 => 0%Z | Npos p => pop_pos p end.
Definition sum_ones (l : list N) : Z := fold_left (fun acc b => (acc + count_ones b)%Z) l 0%Z.

(* (upper_block_color, lower_block_color) *)
Definition half_block (fonts : N -> option font) (block : cell) : N * N :=
  let fg := a_fg (c_at block) in
  let bg := a_bg (c_at block) in
  match fonts (a_fpage (c_at block)) with
  | None => (bg, bg)
  | Some f =>
    match f_glyph f (c_ch block) with
    | None => (bg, bg)
    | Some data =>
      let half := Nat.div (length data) 2 in
      let upper := sum_ones (firstn half data) in
      let lower := sum_ones (firstn half (skipn half data)) in
      let thr := Z.quot (f_w f * f_h f) 4 in
      ((if (upper >? thr)%Z then fg else bg), (if (lower >? thr)%Z then fg else bg))
    end
  end.

(* Buffer::make_solid_color *)
Definition make_solid_color (fonts : N -> option font) (tc under : cell) : cell :=
  let '(up, lo) := half_block fonts under in
  let a := c_at tc in
  let sel (colour repl : N) := if N.eqb colour TRANSPARENT_COLOR then repl else colour in
  if N.eqb (c_ch tc) HALF_BLOCK_TOP then
    mkCell (c_ch tc) (mkAttr (sel (a_fg a) up) (sel (a_bg a) lo) (a_flags a) (a_fpage a))
  else if N.eqb (c_ch tc) HALF_BLOCK_BOTTOM then
    mkCell (c_ch tc) (mkAttr (sel (a_fg a) lo) (sel (a_bg a) up) (a_flags a) (a_fpage a))
  else
    mkCell (c_ch tc) (mkAttr (sel (a_fg a) lo) (sel (a_bg a) lo) (a_flags a) (a_fpage a)).

(* fn merge *)
Definition merge (input : cell) (ch_opt : option N) (attr_opt : option tattr) : cell :=
  if negb (is_visible input) then input else
  mkCell (match ch_opt with Some c => c | None => c_ch input end)
         (match attr_opt with Some a => a | None => c_at input end).

(* ---------- the loop of Buffer::get_char ---------- *)
Definition i32_min : Z := (-2147483648)%Z.
Definition i32_max : Z := 2147483647%Z.
(* checked `a - b` on i32 (dev profile): None = "attempt to subtract with overflow" *)
Definition i32_sub (a b : Z) : option Z :=
  let r := (a - b)%Z in if (i32_min <=? r)%Z && (r <=? i32_max)%Z then Some r else None.

Record st := mkSt {
  s_ch : option N;          (* ch_opt *)
  s_attr : option tattr;    (* attr_opt *)
  s_dfp : N;                (* default_font_page *)
  s_tc : option cell }.     (* transparent_char *)
Definition init_st : st := mkSt None None 0%N None.

Inductive outcome := Ret (c : cell) | Cont (s : st) | Pan.

Definition is_some {A} (o : option A) : bool := match o with Some _ => true | None => false end.
Definition solid (fonts : N -> option font) (tc : option cell) (under : cell) : cell :=
  match tc with Some t => make_solid_color fonts t under | None => under end.

(* one iteration of `for i in (0..self.layers.len()).rev()` for layer L, query position (px,py) *)
Definition step (fonts : N -> option font) (L : layer) (px py : Z) (s : st) : outcome :=
  if negb (l_visible L) then Cont s else
  match i32_sub px (fst (get_offset L)), i32_sub py (snd (get_offset L)) with
  | Some qx, Some qy =>
    if (qx <? 0)%Z || (qy <? 0)%Z || (qx >=? l_w L)%Z || (qy >=? l_h L)%Z then Cont s else
    let ch := layer_get_char L qx qy in
    let dfp := l_dfp L in
    match l_mode L with
    | MNormal =>
      (* the code after the `if ch.is_visible() { … }` block, entered with transparent_char = tc *)
      let rest (tc : option cell) : outcome :=
        if negb (l_alpha L) then
          let res := merge (with_font_page default_cell dfp) (s_ch s) (s_attr s) in
          if is_some (s_ch s) || is_some (s_attr s)
          then Ret (make_solid_color fonts res default_cell)
          else Ret (solid fonts tc res)
        else Cont (mkSt (s_ch s) (s_attr s) dfp tc) in
      if is_visible ch then
        let found := merge ch (s_ch s) (s_attr s) in
        if has_transparent_colour found
        then rest (match s_tc s with None => Some found | Some t => Some t end)
        else Ret (solid fonts (s_tc s) found)
      else rest (s_tc s)
    | MChars =>
      Cont (mkSt (if is_visible ch && negb (is_transparent ch) then Some (c_ch ch) else s_ch s) (s_attr s) dfp (s_tc s))
    | MAttributes =>
      Cont (mkSt (s_ch s) (if is_visible ch then Some (c_at ch) else s_attr s) dfp (s_tc s))
    end
  | _, _ => Pan
  end.

(* the loop over the layers, topmost first *)
Fixpoint run (fonts : N -> option font) (px py : Z) (ls : list layer) (s : st) : outcome :=
  match ls with
  | [] => Cont s
  | L :: rest => match step fonts L px py s with Cont s' => run fonts px py rest s' | o => o end
  end.

(* the code after the loop *)
Definition finish (term : bool) (s : st) : cell :=
  match s_tc s with
  | Some t => t
  | None =>
    let c := if term || is_some (s_ch s) || is_some (s_attr s)
             then merge default_cell (s_ch s) (s_attr s) else invisible_cell in
    with_font_page c (s_dfp s)
  end.

Record buffer := mkBuffer {
  b_term : bool;                    (* is_terminal_buffer *)
  b_fonts : N -> option font;       (* font_table *)
  b_layers : list layer }.          (* layers, bottom first as in the Vec *)

(* None = panic (subtract with overflow in `pos - cur_layer.get_offset()`) *)
Definition get_char (B : buffer) (px py : Z) : option cell :=
  match run (b_fonts B) px py (rev (b_layers B)) init_st with
  | Ret c => Some c
  | Cont s => Some (finish (b_term B) s)
  | Pan => None
  end.

Definition with_layers (B : buffer) (ls : list layer) : buffer := mkBuffer (b_term B) (b_fonts B) ls.

(* moving a layer: set_offset semantics on both offsets the code may read *)
Definition shift_pos (d : Z * Z) (o : Z * Z) : Z * Z := ((fst o + fst d)%Z, (snd o + snd d)%Z).
Definition shift_layer (d : Z * Z) (L : layer) : layer :=
  mkLayer (l_visible L) (l_alpha L) (l_mode L) (shift_pos d (l_offset L))
          (match l_preview L with Some o => Some (shift_pos d o) | None => None end)
          (l_w L) (l_h L) (l_dfp L) (l_lines L).
Definition shift_buffer (d : Z * Z) (B : buffer) : buffer := with_layers B (map (shift_layer d) (b_layers B)).
