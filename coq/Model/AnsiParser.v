(* M-ansi (the slice C04 needs): the ANSI parser as the file loader runs it, on a NON-terminal buffer
   (executable definitions only).

   Rust item                                                     model
   -----------------------------------------------------------   ---------------------------------------------
   parsers::ansi::parse_next_number                              parse_next_number (i32 saturating ops on Z)
   Caret::get_attribute (ice handling)                           get_attribute
   Caret::reset_color_attribute                                  reset_color_attribute
   Parser::select_graphic_rendition + parse_extended_colors      sgr_loop / select_graphic_rendition
   Parser::select_24bit_color                                    select_24bit_color
   Line::set_char, Layer::set_char (plain visible layer)         line_set_char / layer_set_char
   Caret::lf, Caret::cr, Caret::right (non-terminal buffer)      caret_lf / (inline) / caret_right
   TerminalState::limit_caret_pos (UpperLeftCorner, non-terminal) limit_x
   Buffer::print_char (no insert mode, AutoWrap)                 print_char
   Buffer::clear_screen (non-terminal)                           in csi_final 'J'
   impl BufferParser for ansi::Parser :: print_char              pstep, for the states Default, ReadEscapeSequence,
                                                                 ReadCSISequence, ReadCSICommand and exactly the
                                                                 finals m H C b t J (and ?h ?l) — everything else sets
                                                                 the sticky flag p_unmodelled (the stream left the slice)
   Ansi::load_buffer + parse_with_parser + crop_loaded_file      load   (SAUCE record already split off: its width, height
                                                                 and ice flag are an argument; the bytes are C11's business)
   Buffer::get_char on the single layer + bold folding            loaded_cell / shown_cell

   Errors: `print_char` returns Err for unsupported sequences and the loader ignores it (skip_errors = true);
   inside the slice the only Err paths are in select_graphic_rendition / select_24bit_color, where the model
   stops exactly where the code returns (state changes made before the error are kept, as in the code).
   Positions are i32 in the code; `pos.y += 1`, `pos.x += 1` are modelled without overflow (needs 2^31 rows). *)
From Coq Require Import NArith ZArith Bool List.
From IE Require Import Lib.Tbl Gen.Codepage Gen.AnsiConsts Model.Attr Model.AnsiWriter.
Import ListNotations.
Local Open Scope Z_scope.

Definition i32_max : Z := 2147483647.
Definition i32_min : Z := -2147483648.
Definition sat (x : Z) : Z := Z.max i32_min (Z.min i32_max x).
(* x.saturating_mul(10).saturating_add(ch as i32).saturating_sub(b'0' as i32) *)
Definition parse_next_number (x : Z) (ch : N) : Z := sat (sat (sat (x * 10) + Z.of_N ch) - 48).

(* ---------------------------------------------------------------- attributes *)
Definition set_attr_flag (a : TextAttribute) (flag : N) (on : bool) : TextAttribute :=
  with_attr a (set_flag (attr a) flag on).
Definition set_font_page (a : TextAttribute) (p : N) : TextAttribute :=
  mkAttr p (foreground_color a) (background_color a) (attr a).

Definition get_attribute (ice_mode : bool) (a : TextAttribute) : TextAttribute :=
  if ice_mode then
    let bg := background_color a in
    let r := if (bg <? 8)%N && is_blinking a then set_bg a (bg + 8)%N else a in
    set_is_blinking r false
  else a.

Definition reset_color_attribute (a : TextAttribute) : TextAttribute :=
  set_font_page default_attribute (font_page a).

(* ---------------------------------------------------------------- SGR *)
Definition zn (z : Z) : N := Z.to_N z.
Definition in_range (lo hi z : Z) : bool := (lo <=? z) && (z <=? hi).

(* one plain (non 38/48) parameter; None = the `return Err(..)` arms *)
Definition sgr_plain (n : Z) (a : TextAttribute) : option TextAttribute :=
  if n =? 0 then Some (reset_color_attribute a)
  else if n =? 1 then Some (set_is_bold a true)
  else if n =? 2 then Some (set_attr_flag a ATTR_FAINT true)
  else if n =? 3 then Some (set_attr_flag a ATTR_ITALIC true)
  else if n =? 4 then Some (set_attr_flag a ATTR_UNDERLINE true)
  else if (n =? 5) || (n =? 6) then Some (set_is_blinking a true)
  else if n =? 7 then Some (set_bg (set_fg a (background_color a)) (foreground_color a))
  else if n =? 8 then Some (set_attr_flag a ATTR_CONCEAL true)
  else if n =? 9 then Some (set_attr_flag a ATTR_CROSSED_OUT true)
  else if n =? 10 then Some (set_font_page a 0)
  else if in_range 11 20 n then Some a
  else if n =? 21 then Some (set_attr_flag a ATTR_DOUBLE_UNDERLINE true)
  else if n =? 22 then Some (set_attr_flag (set_is_bold a false) ATTR_FAINT false)
  else if n =? 23 then Some (set_attr_flag a ATTR_ITALIC false)
  else if n =? 24 then Some (set_attr_flag a ATTR_UNDERLINE false)
  else if n =? 25 then Some (set_is_blinking a false)
  else if n =? 28 then Some (set_attr_flag a ATTR_CONCEAL false)
  else if n =? 29 then Some (set_attr_flag a ATTR_CROSSED_OUT false)
  else if in_range 30 37 n then Some (set_fg a (tget COLOR_OFFSETS (zn (n - 30))))
  else if n =? 39 then Some (set_fg a 7%N)
  else if in_range 40 47 n then Some (set_bg a (tget COLOR_OFFSETS (zn (n - 40))))
  else if n =? 49 then Some (set_bg a 0%N)
  else if n =? 53 then Some (set_attr_flag a ATTR_OVERLINE true)
  else if n =? 55 then Some (set_attr_flag a ATTR_OVERLINE false)
  else if in_range 90 97 n then Some (set_fg a (8 + tget COLOR_OFFSETS (zn (n - 90)))%N)
  else if in_range 100 107 n then Some (set_bg a (8 + tget COLOR_OFFSETS (zn (n - 100)))%N)
  else None.

(* parse_extended_colors, inlined so that the loop is structurally recursive: `ext_kind` is what the colour is
   stored into (38 foreground, 48 background); an Err (None of sgr_plain, malformed 38/48) stops the loop and
   keeps what was done so far, exactly as the `?` / `return Err` of the code *)
Definition store_ext (fg : bool) (a : TextAttribute) (i : N) : TextAttribute := if fg then set_fg a i else set_bg a i.

Fixpoint sgr_loop (l : list Z) (a : TextAttribute) (pal : palette) : TextAttribute * palette :=
  match l with
  | [] => (a, pal)
  | n :: rest =>
    if (n =? 38) || (n =? 48) then
      match rest with
      | [] => (a, pal)                                            (* *i + 1 >= len *)
      | sel :: rest1 =>
        if sel =? 5 then
          match rest1 with
          | c :: rest2 =>                                          (* *i + 3 <= len *)
            if in_range 0 255 c then
              let ip := pal_insert pal (pal_rgb XTERM_256_PALETTE (zn c)) in
              sgr_loop rest2 (store_ext (n =? 38) a (fst ip)) (snd ip)
            else (a, pal)
          | [] => (a, pal)
          end
        else if sel =? 2 then
          match rest1 with
          | r :: g :: b :: rest2 =>                                (* *i + 5 <= len *)
            if in_range 0 255 r && in_range 0 255 g && in_range 0 255 b then
              let ip := pal_insert pal (zn r, zn g, zn b) in
              sgr_loop rest2 (store_ext (n =? 38) a (fst ip)) (snd ip)
            else (a, pal)
          | _ => (a, pal)
          end
        else (a, pal)
      end
    else
      match sgr_plain n a with
      | Some a' => sgr_loop rest a' pal
      | None => (a, pal)
      end
  end.

Definition select_graphic_rendition (l : list Z) (a : TextAttribute) (pal : palette) : TextAttribute * palette :=
  match l with
  | [] => (reset_color_attribute a, pal)
  | _ => sgr_loop l a pal
  end.

(* CSI k ; r ; g ; b t : the colour is inserted before the selector is looked at *)
Definition select_24bit_color (k r g b : Z) (a : TextAttribute) (pal : palette) : TextAttribute * palette :=
  let '(i, pal') := pal_insert pal (zn (r mod 256), zn (g mod 256), zn (b mod 256)) in
  if k =? 0 then (set_bg a i, pal') else if k =? 1 then (set_fg a i, pal') else (a, pal').

(* ---------------------------------------------------------------- layer *)
Definition invisible_cell : cell := (32%N, mkAttr DEFAULT_FONT_PAGE DEFAULT_FG DEFAULT_BG ATTR_INVISIBLE).
Definition default_cell : cell := (32%N, default_attribute).
Definition cell_visible (c : cell) : bool := (N.land (attr (snd c)) ATTR_INVISIBLE =? 0)%N.

Fixpoint list_set {A} (l : list A) (i : nat) (fill v : A) : list A :=
  match i, l with
  | O, [] => [v]
  | O, _ :: r => v :: r
  | S i', [] => fill :: list_set [] i' fill v
  | S i', x :: r => x :: list_set r i' fill v
  end.

(* Line::set_char: grows the row with invisible cells up to the index *)
Definition line_set_char (row : list cell) (x : nat) (c : cell) : list cell := list_set row x invisible_cell c.

(* Layer::set_char on an unlocked, visible layer without alpha channel: outside width x height nothing happens;
   missing rows are created as Line::create(width) (a full row of invisible cells) *)
Definition layer_set_char (lines : list (list cell)) (w h x y : Z) (c : cell) : list (list cell) :=
  if (x <? 0) || (y <? 0) || (w <=? x) || (h <=? y) then lines
  else
    let yn := Z.to_nat y in
    let lines1 := if (length lines <=? yn)%nat
                  then lines ++ repeat (repeat invisible_cell (Z.to_nat w)) (yn + 1 - length lines) else lines in
    match nth_error lines1 yn with
    | Some row => list_set lines1 yn [] (line_set_char row (Z.to_nat x) c)
    | None => lines1                          (* unreachable: lines1 has more than yn rows *)
    end.

(* ---------------------------------------------------------------- parser state *)
Inductive pmode := PDefault | PEsc | PCsi (is_start : bool) | PCsiCmd.

Record pst := mkP {
  p_mode : pmode; p_nums : list Z; p_last : N;
  p_x : Z; p_y : Z; p_attr : TextAttribute; p_cice : bool;
  p_lines : list (list cell); p_w : Z; p_h : Z;
  p_pal : palette; p_bice : bool;
  p_unmodelled : bool }.

Definition upd_mode (p : pst) (m : pmode) : pst :=
  mkP m (p_nums p) (p_last p) (p_x p) (p_y p) (p_attr p) (p_cice p) (p_lines p) (p_w p) (p_h p) (p_pal p) (p_bice p) (p_unmodelled p).
Definition upd_mode_nums (p : pst) (m : pmode) (l : list Z) : pst :=
  mkP m l (p_last p) (p_x p) (p_y p) (p_attr p) (p_cice p) (p_lines p) (p_w p) (p_h p) (p_pal p) (p_bice p) (p_unmodelled p).
Definition upd_pos (p : pst) (x y : Z) : pst :=
  mkP (p_mode p) (p_nums p) (p_last p) x y (p_attr p) (p_cice p) (p_lines p) (p_w p) (p_h p) (p_pal p) (p_bice p) (p_unmodelled p).
Definition upd_attr_pal (p : pst) (ap : TextAttribute * palette) : pst :=
  mkP (p_mode p) (p_nums p) (p_last p) (p_x p) (p_y p) (fst ap) (p_cice p) (p_lines p) (p_w p) (p_h p) (snd ap) (p_bice p) (p_unmodelled p).
Definition upd_ice (p : pst) (cice bice : bool) : pst :=
  mkP (p_mode p) (p_nums p) (p_last p) (p_x p) (p_y p) (p_attr p) cice (p_lines p) (p_w p) (p_h p) (p_pal p) bice (p_unmodelled p).
Definition upd_lines (p : pst) (l : list (list cell)) (h : Z) : pst :=
  mkP (p_mode p) (p_nums p) (p_last p) (p_x p) (p_y p) (p_attr p) (p_cice p) l (p_w p) h (p_pal p) (p_bice p) (p_unmodelled p).
Definition upd_last (p : pst) (c : N) : pst :=
  mkP (p_mode p) (p_nums p) c (p_x p) (p_y p) (p_attr p) (p_cice p) (p_lines p) (p_w p) (p_h p) (p_pal p) (p_bice p) (p_unmodelled p).
Definition unmodelled (p : pst) : pst :=
  mkP PDefault (p_nums p) (p_last p) (p_x p) (p_y p) (p_attr p) (p_cice p) (p_lines p) (p_w p) (p_h p) (p_pal p) (p_bice p) true.

(* Caret::lf on a non-terminal buffer: new rows are empty (Line::with_capacity) *)
Definition caret_lf (p : pst) : pst :=
  let y := p_y p + 1 in
  let n := length (p_lines p) in
  let lines := if (n <=? Z.to_nat y)%nat then p_lines p ++ repeat [] (Z.to_nat y + 1 - n) else p_lines p in
  upd_pos (upd_lines p lines (p_h p)) 0 y.

(* limit_caret_pos, non-terminal buffer, OriginMode::UpperLeftCorner: only x is clamped *)
Definition limit_x (w x : Z) : Z := Z.max 0 (Z.min x (Z.max (w - 1) 0)).

Definition caret_right (p : pst) (n : Z) : pst := upd_pos p (limit_x (p_w p) (sat (p_x p + n))) (p_y p).

(* Buffer::print_char *)
Definition print_char (p : pst) (ch : N) : pst :=
  let c : cell := (ch, get_attribute (p_cice p) (p_attr p)) in
  let h := if p_h p <? p_y p + 1 then p_y p + 1 else p_h p in
  let lines := layer_set_char (p_lines p) (p_w p) h (p_x p) (p_y p) c in
  let p1 := upd_pos (upd_lines p lines h) (p_x p + 1) (p_y p) in
  if p_w p <=? p_x p + 1 then caret_lf p1 else p1.

Fixpoint repeat_print (n : nat) (p : pst) (ch : N) : pst :=
  match n with O => p | S k => repeat_print k (print_char p ch) ch end.

Definition is_digit (ch : N) : bool := (48 <=? ch)%N && (ch <=? 57)%N.

Definition push_digit (l : list Z) (ch : N) : list Z :=
  match rev l with
  | [] => [parse_next_number 0 ch]
  | d :: r => rev r ++ [parse_next_number d ch]
  end.

(* the final byte of `CSI … <final>` in state ReadCSISequence, for the finals of the slice *)
Definition csi_final (p : pst) (ch : N) : pst :=
  let p0 := upd_mode p PDefault in
  let nums := p_nums p in
  if (ch =? 109)%N (* m *) then upd_attr_pal p0 (select_graphic_rendition nums (p_attr p) (p_pal p))
  else if (ch =? 72)%N (* H *) then
    match nums with
    | [] => upd_pos p0 0 0
    | n0 :: rest =>
      let y := if 0 <=? n0 then Z.max 0 (n0 - 1) else p_y p in
      let x := match rest with
               | n1 :: _ => if 0 <=? n1 then Z.max 0 (n1 - 1) else p_x p
               | [] => 0
               end in
      upd_pos p0 (limit_x (p_w p) x) y
    end
  else if (ch =? 67)%N (* C *) then
    caret_right p0 (match nums with [] => 1 | n :: _ => n end)
  else if (ch =? 98)%N (* b *) then
    let n := match nums with [] => 1 | n :: _ => n end in
    repeat_print (Z.to_nat n) p0 (p_last p)
  else if (ch =? 116)%N (* t *) then
    match nums with
    | [k; r; g; b] => upd_attr_pal p0 (select_24bit_color k r g b (p_attr p) (p_pal p))
    | _ => unmodelled p
    end
  else if (ch =? 74)%N (* J *) then
    match nums with
    | [2] | [3] => upd_pos (upd_lines p0 [] (p_h p)) 0 0
    | _ => unmodelled p
    end
  else unmodelled p.

Definition pstep (p : pst) (ch : N) : pst :=
  if p_unmodelled p then p else
  match p_mode p with
  | PDefault =>
    if (ch =? 27)%N then upd_mode p PEsc
    else if (ch =? 10)%N then caret_lf p
    else if (ch =? 13)%N then upd_pos p 0 (p_y p)
    else if (ch =? 12)%N || (ch =? 7)%N || (ch =? 127)%N then unmodelled p    (* FF, BEL, DEL: outside the slice *)
    else print_char (upd_last p ch) ch
  | PEsc =>
    if (ch =? 91)%N (* [ *) then upd_mode_nums p (PCsi true) []
    else if (ch =? 12)%N || (ch =? 7)%N || (ch =? 8)%N || (ch =? 9)%N || (ch =? 127)%N || (ch =? 27)%N || (ch =? 10)%N || (ch =? 13)%N
    then print_char (upd_last (upd_mode p PDefault) ch) ch
    else unmodelled p
  | PCsi is_start =>
    if is_digit ch then upd_mode_nums p (PCsi false) (push_digit (p_nums p) ch)
    else if (ch =? 59)%N then upd_mode_nums p (PCsi false) (p_nums p ++ [0])
    else if (ch =? 63)%N (* ? *) then (if is_start then upd_mode p PCsiCmd else unmodelled p)
    else csi_final p ch
  | PCsiCmd =>
    if is_digit ch then upd_mode_nums p PCsiCmd (push_digit (p_nums p) ch)
    else if (ch =? 59)%N then upd_mode_nums p PCsiCmd (p_nums p ++ [0])
    else if (ch =? 104)%N (* h *) then
      match p_nums p with [33] => upd_ice (upd_mode p PDefault) true true | _ => unmodelled p end
    else if (ch =? 108)%N (* l *) then
      match p_nums p with [33] => upd_ice (upd_mode p PDefault) false (p_bice p) | _ => unmodelled p end
    else unmodelled p
  end.

Definition prun (p : pst) (bytes : list N) : pst := fold_left pstep bytes p.

(* ---------------------------------------------------------------- loading *)
(* Ansi::load_buffer: Buffer::new((80, 25)), set_sauce (size, ice), parse_with_parser: lines cleared, Caret::default()
   with the ice mode of the SAUCE record *)
Definition init_parser (sauce : option (N * N * bool)) : pst :=
  let '(w, h, ice) :=
    match sauce with
    | Some (w, h, ice) => ((if (w =? 0)%N || (1000 <? w)%N then 80 else Z.of_N w), Z.of_N h, ice)
    | None => (80, 25, false)
    end in
  mkP PDefault [] 0%N 0 0 default_attribute ice [] w h DOS_DEFAULT_PALETTE ice false.

(* crop_loaded_file: `while lines.len() > 1 && lines.last().chars.is_empty() { pop }` (argument: rows reversed) *)
Fixpoint crop_rev (rl : list (list cell)) : list (list cell) :=
  match rl with
  | [] => []
  | [x] => [x]
  | x :: r => if is_nil x then crop_rev r else rl
  end.
Definition crop_lines (lines : list (list cell)) : list (list cell) := rev (crop_rev (rev lines)).

(* the bold folding at the end of parse_with_parser *)
Definition fold_bold (a : TextAttribute) : TextAttribute :=
  if is_bold a then
    let fg := foreground_color a in
    set_is_bold (if (fg <? 8)%N then set_fg a (fg + 8)%N else a) false
  else a.

Record Loaded := mkLoaded {
  ld_width : Z; ld_height : Z; ld_ice : bool; ld_lines : list (list cell); ld_pal : palette; ld_unmodelled : bool }.

(* convert_ansi_to_utf8 switches to UTF-8 decoding when the data starts with a BOM (and is valid UTF-8): outside the slice *)
Definition starts_with_bom (bytes : list N) : bool :=
  match bytes with 239%N :: 187%N :: 191%N :: _ => true | _ => false end.

Definition load (bytes : list N) (sauce : option (N * N * bool)) : Loaded :=
  let p := prun (init_parser sauce) bytes in
  let lines := crop_lines (p_lines p) in
  mkLoaded (p_w p) (Z.of_nat (length lines)) (p_bice p) lines (p_pal p) (p_unmodelled p || starts_with_bom bytes).

(* Layer::get_char inside width x height, then Buffer::get_char of a single plain layer, then the bold folding *)
Definition raw_cell (lines : list (list cell)) (x y : nat) : cell :=
  match nth_error lines y with
  | Some row => match nth_error row x with Some c => c | None => invisible_cell end
  | None => invisible_cell
  end.
Definition loaded_cell (b : Loaded) (x y : Z) : cell :=
  if (0 <=? x) && (x <? ld_width b) && (0 <=? y) && (y <? ld_height b) then
    let c := raw_cell (ld_lines b) (Z.to_nat x) (Z.to_nat y) in
    if cell_visible c then (fst c, fold_bold (snd c)) else default_cell
  else invisible_cell.

(* what a cell shows: character, displayed foreground (bold low colours are drawn bright), background, blink *)
Definition shown_cell (pal : palette) (c : cell) : N * rgb * rgb * bool :=
  (fst c, pal_rgb pal (shown_fg (snd c)), pal_rgb pal (background_color (snd c)), is_blinking (snd c)).
