(* The decoder of base64::engine::general_purpose::STANDARD (crate base64 0.22: standard alphabet, padding required
   and canonical, non-zero trailing bits rejected), as `Parser::load_custom_font` (src/parsers/ansi/dcs.rs) uses it on
   the payload of a `CTerm:Font:` DCS string.  Executable definitions only.  The crate is not part of icy_engine; this
   model is tied to it by stage C of C01 (valid, truncated, badly padded, non-canonical and non-alphabet payloads).

   decode s = Some bytes | None (any DecodeError; the error kinds are not distinguished: the caller maps all of
   them to one ParserError).  The input is a list of character codes; a character that is not ASCII becomes UTF-8
   bytes >= 128 in `as_bytes()`, none of which is in the alphabet: one None covers both views. *)
From Coq Require Import NArith List Bool.
Import ListNotations.
Local Open Scope N_scope.

Definition b64_val (c : N) : option N :=
  if (65 <=? c) && (c <=? 90) then Some (c - 65)            (* A-Z *)
  else if (97 <=? c) && (c <=? 122) then Some (c - 71)      (* a-z *)
  else if (48 <=? c) && (c <=? 57) then Some (c + 4)        (* 0-9 *)
  else if c =? 43 then Some 62                              (* + *)
  else if c =? 47 then Some 63                              (* / *)
  else None.

(* a complete quad of symbols -> three bytes *)
Definition quad (a b c d : N) : option (list N) :=
  match b64_val a, b64_val b, b64_val c, b64_val d with
  | Some x, Some y, Some z, Some w => Some [x * 4 + y / 16; (y mod 16) * 16 + z / 4; (z mod 4) * 64 + w]
  | _, _, _, _ => None
  end.
(* the last quad may end in `=` (one byte missing) or `==` (two missing); the unused low bits must be zero *)
Definition last_quad (a b c d : N) : option (list N) :=
  if d =? 61 then
    if c =? 61 then
      match b64_val a, b64_val b with
      | Some x, Some y => if y mod 16 =? 0 then Some [x * 4 + y / 16] else None
      | _, _ => None
      end
    else
      match b64_val a, b64_val b, b64_val c with
      | Some x, Some y, Some z => if z mod 4 =? 0 then Some [x * 4 + y / 16; (y mod 16) * 16 + z / 4] else None
      | _, _, _ => None
      end
  else quad a b c d.

Fixpoint decode (s : list N) : option (list N) :=
  match s with
  | [] => Some []
  | a :: b :: c :: d :: r =>
    match r with
    | [] => last_quad a b c d
    | _ => match quad a b c d, decode r with
           | Some x, Some y => Some (x ++ y)
           | _, _ => None
           end
    end
  | _ => None                 (* 1, 2 or 3 symbols left: padding is required *)
  end.
