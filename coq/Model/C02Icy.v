(* C02 — IcyDraw (src/formats/icy_draw.rs, IcyDraw::load_buffer) chunk payload decoding on ARBITRARY payloads, as the code
   is AFTER property C02's fix commits; executable definitions only.  The PNG / zTXt / zlib / base64 container is an
   oracle: the model starts at the list of (keyword, decoded payload) pairs the container yields.

   Rust item                                        model
   -----------------------------------------------  ------------------------------------------------------------------
   read_utf8_encoded_string (returns Option now)    read_str          (`data[0..4]`, `data[4..4+size]` stay checked reads)
   one cell record (first chunk / continuation)     dec_cell          (the three `data length out ouf bounds` guards,
                                                                       `char::from_u32` failing -> Err 3)
   `for x in 0..width { … }`                        dec_row           (INVISIBLE_SHORT ends the row)
   `for y in a..height { if o >= len {break} … }`   dec_rows
   the `LAYER_n` record                             dec_layer         (FileTooShort guards of the fixes = Err 1; mode -> Err 4;
                                                                       `bytes.len() - o < length` -> Err 2)
   the `LAYER_n~k` continuation                     dec_cont          (`result.layers.get_mut(n)` None -> Err 6)
   "ICED" header                                    dec_iced          (`len != ICED_HEADER_SIZE` -> Err 5; fixed offsets checked)
   "FONT_k" chunk: name + BitFont::from_bytes       dec_font          (font decoder = parameter, C17 proves it total)
   the keyword dispatch and the chunk loop          step / run_chunks (keyword classification = parameter `kind_of`:
                                                                       "END", "ICED", "PALETTE", "SAUCE", strip_prefix("FONT_") +
                                                                       parse, starts_with("LAYER_"), LAYER_CONTINUE_REGEX)
   A layer is summarised by (role, width, height, line_count): `Layer::set_char` inside the loops is always in range
   (x < width, y < height, fresh unlocked layer), it cannot fail; `line_count` = 1 + the last row that received a cell.
   Every `bytes[i]` / `bytes[a..b]` is a checked read: `Panic 1`. *)
From Coq Require Import NArith ZArith Bool List.
From IE Require Import Lib.Tbl Lib.C05Lib Gen.IcyGen.
Import ListNotations.
Local Open Scope N_scope.

Definition take (n : nat) (bs : list N) : res (list N * list N) :=
  if (length bs <? n)%nat then Panic 1 else Ok (firstn n bs, skipn n bs).

Fixpoint unle (bs : list N) : N := match bs with [] => 0 | b :: t => b + 256 * unle t end.
Definition as_i32 (v : N) : Z := if v <? 2147483648 then Z.of_N v else (Z.of_N v - 4294967296)%Z.
Definition is_scalar (c : N) : bool := (c <? 55296) || ((57343 <? c) && (c <? 1114112)).

(* read_utf8_encoded_string: None when the prefix or the string is cut off *)
Definition read_str (bs : list N) : res (option (list N * list N)) :=
  if (length bs <? 4)%nat then Ok None else
  let* '(l4, r) := take 4 bs in
  if N.of_nat (length bs - 4) <? unle l4 then Ok None else                 (* `data.len() - 4 < size` *)
  let* '(s, r') := take (N.to_nat (unle l4)) r in Ok (Some (s, r')).

Inductive cstep := CEnd (rest : list N) | CSkip (rest : list N) | CCell (rest : list N).

Definition dec_cell (bs : list N) : res cstep :=
  if (length bs <? 2)%nat then Err 2 else
  let* '(a2, r) := take 2 bs in
  let a := unle a2 in
  if a =? INVISIBLE_SHORT then Ok (CEnd r) else
  let is_short := negb (N.land a SHORT_DATA =? 0) in
  let a' := if is_short then N.ldiff a SHORT_DATA else a in
  if a' =? INVISIBLE then Ok (CSkip r) else
  if is_short then
    if (length r <? 4)%nat then Err 2 else
    let* '(_, r') := take 4 r in Ok (CCell r')                    (* a byte is always a scalar value *)
  else
    if (length r <? 14)%nat then Err 2 else
    let* '(d, r') := take 14 r in
    if is_scalar (unle (firstn 4 d)) then Ok (CCell r') else Err 3.

(* one row: n = number of columns left; returns (a cell was stored in this row, rest) *)
Fixpoint dec_row (n : nat) (stored : bool) (bs : list N) : res (bool * list N) :=
  match n with
  | O => Ok (stored, bs)
  | S k =>
    let* st := dec_cell bs in
    match st with
    | CEnd r => Ok (stored, r)
    | CSkip r => dec_row k stored r
    | CCell r => dec_row k true r
    end
  end.

(* rows y, y+1, …; lc = line count of the layer so far *)
Fixpoint dec_rows (n : nat) (wn : nat) (y lc : Z) (bs : list N) : res Z :=
  match n with
  | O => Ok lc
  | S k =>
    match bs with
    | [] => Ok lc                                                  (* `if o >= bytes.len() { break }` *)
    | _ => let* '(stored, r) := dec_row wn false bs in
           dec_rows k wn (y + 1)%Z (if stored then Z.max lc (y + 1) else lc) r
    end
  end.

(* layer summary: role (1 = Image), width, height, line count *)
Record lsum := mkL { l_role : N; l_wd : Z; l_ht : Z; l_lc : Z }.

Definition LAYER_RECORD_SIZE : nat := 41.

Definition dec_layer (bs : list N) : res lsum :=
  let* t := read_str bs in
  match t with
  | None => Err 1
  | Some (_, r) =>
    if (length r <? LAYER_RECORD_SIZE)%nat then Err 1 else
    let* '(role, r) := take 1 r in
    let* '(_, r) := take 4 r in
    let* '(mode, r) := take 1 r in
    if 2 <? unle mode then Err 4 else
    let* '(_, r) := take 4 r in                                    (* colour *)
    let* '(_, r) := take 4 r in                                    (* flags *)
    let* '(_, r) := take 1 r in                                    (* transparency *)
    let* '(_, r) := take 4 r in let* '(_, r) := take 4 r in        (* offset *)
    let* '(w4, r) := take 4 r in let* '(h4, r) := take 4 r in
    let w := as_i32 (unle w4) in let h := as_i32 (unle h4) in
    let* '(_, r) := take 2 r in                                    (* default font page *)
    let* '(l8, r) := take 8 r in
    if unle role =? 1 then
      if (length r <? 16)%nat then Err 1 else
      let* '(_, r) := take 16 r in Ok (mkL 1 w h 0)
    else
      if N.of_nat (length r) <? unle l8 then Err 2 else                    (* `bytes.len() - o < length` *)
      let* lc := dec_rows (Z.to_nat h) (Z.to_nat w) 0 0 r in
      Ok (mkL 0 w h lc)
  end.

(* continuation chunk of layer number n *)
Definition dec_cont (layers : list lsum) (n : nat) (bs : list N) : res (list lsum) :=
  match nth_error layers n with
  | None => Err 6
  | Some l =>
    if l_role l =? 1 then Ok layers                                (* picture data appended to sixels[0], which exists *)
    else
      let* lc := dec_rows (Z.to_nat (l_ht l - l_lc l)) (Z.to_nat (l_wd l)) (l_lc l) (l_lc l) bs in
      Ok (firstn n layers ++ mkL 0 (l_wd l) (l_ht l) lc :: skipn (S n) layers)
  end.

Definition dec_iced (bs : list N) : res unit :=
  if negb (length bs =? N.to_nat ICED_HEADER_SIZE)%nat then Err 5 else
  let* '(_, r) := take 6 bs in
  let* '(_, r) := take 2 r in                                      (* buffer type *)
  let* '(_, r) := take 3 r in                                      (* ice, palette, font mode *)
  let* '(_, r) := take 4 r in
  let* '(_, r) := take 4 r in Ok tt.

(* keyword classes, in the order the loader tests them *)
Inductive kind := KEnd | KIced | KPalette | KSauce | KFont (slot : option N) | KOther | KCont (n : option nat) | KLayer.

Section Doc.
  Variable font_ok : list N -> bool.        (* BitFont::from_bytes returns Ok (C17: it never panics) *)
  Variable pal_ok : list N -> bool.         (* Palette::load_palette(Ice, ..) returns Ok (no panic site) *)
  Variable sauce_ok : list N -> bool.       (* SauceData::extract returns Ok (C11: it never panics) *)

  Definition dec_font (bs : list N) : res unit :=
    let* t := read_str bs in
    match t with
    | None => Err 1
    | Some (_, r) => if font_ok r then Ok tt else Err 7
    end.

  (* one chunk: None = END *)
  Definition step (layers : list lsum) (k : kind) (bs : list N) : res (option (list lsum)) :=
    match k with
    | KEnd => Ok None
    | KIced => let* _ := dec_iced bs in Ok (Some layers)
    | KPalette => if pal_ok bs then Ok (Some layers) else Err 8
    | KSauce => if sauce_ok bs then Ok (Some layers) else Err 9
    | KFont None => Err 10
    | KFont (Some _) => let* _ := dec_font bs in Ok (Some layers)
    | KOther => Ok (Some layers)
    | KCont None => Err 11
    | KCont (Some n) => let* ls := dec_cont layers n bs in Ok (Some ls)
    | KLayer => let* l := dec_layer bs in Ok (Some (layers ++ [l]))
    end.

  Fixpoint run_chunks (layers : list lsum) (cs : list (kind * list N)) : res (list lsum) :=
    match cs with
    | [] => Ok layers
    | (k, bs) :: t =>
      let* r := step layers k bs in
      match r with None => Ok layers | Some ls => run_chunks ls t end
    end.
End Doc.
