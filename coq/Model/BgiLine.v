(* Model of the line family of the BGI kernel: src/parsers/rip/bgi/mod.rs
     Bgi::{fill_x, fill_y, line, rectangle, draw_poly, draw_poly_line, set_line_style, set_line_pattern, set_line_thickness},
     LineStyle::{from, get_line_pattern, LINE_PATTERNS}
   and of Command::run of Line, Rectangle, Polygon, PolyLine, LineStyle (src/parsers/rip/commands.rs).

   `Bgi::line` is a run-slice line: it cuts the line into min(|dx|,|dy|)+1 horizontal (fill_x) or vertical (fill_y) runs; each
   run is clipped to  0 .. viewport.right()-1  x  0 .. viewport.bottom()-1  BEFORE its pixel loop, and every pixel goes through
   Bgi::put_pixel (Model/BgiKernel.v, checked).  The functions are written over an abstract canvas [A] with a plot function:
     - A = bgi, plot = put_pixel with the current colour   -> the model of the code ([bgi_line], …);
     - A = nat, plot = successor                           -> the number of put_pixel calls ([line_plots]): the cost theorem.
   (fill_x / fill_y / line read only viewport, line_pattern, line_thickness, color from `self`; put_pixel changes only `screen`.)

   i32 arithmetic is checked ([chk], Panic SITE_I32); `x / 2`, `a / b`, `a % b` on i32 truncate ([Z.quot], [Z.rem]); the index
   `line_pattern[*offset as usize % line_pattern.len()]` is a checked `%` (SITE_REM_ZERO for an empty pattern) and a checked index.
   Executable definitions only. *)
From Coq Require Import NArith ZArith List Bool.
From IE Require Import Gen.RipGen Gen.RipLineGen Model.RipTok Model.BgiKernel.
Import ListNotations.
Local Open Scope Z_scope.

Definition SITE_REM_ZERO : N := 16.      (* % self.line_pattern.len() with an empty pattern *)
Definition SITE_LINE_PATTERN : N := 17.  (* self.line_pattern[i] *)
Definition SITE_DIV_ZERO : N := 18.      (* lx_delta2 / ly_delta (the branch conditions exclude a zero divisor) *)

(* `x as usize` of an i32 on a 64-bit target *)
Definition as_usize (z : Z) : Z := if z <? 0 then z + 18446744073709551616 else z.

(* self.line_pattern[*offset as usize % self.line_pattern.len()] *)
Definition pat_at (pat : list bool) (offset : Z) : res bool :=
  if Nat.eqb (length pat) 0 then Panic SITE_REM_ZERO
  else idx SITE_LINE_PATTERN pat (Z.rem (as_usize offset) (Z.of_nat (length pat))).

(* number of iterations of `for v in a..=b` *)
Definition span (a b : Z) : nat := Z.to_nat (b - a + 1).

Section Canvas.
  Variable A : Type.
  Variable plot : A -> Z -> Z -> res A.     (* self.put_pixel(x, y, self.color) *)

  (* for cy in start_y..=end_y { self.put_pixel(x, cy, self.color) } *)
  Fixpoint vrun (n : nat) (a : A) (x cy : Z) : res A :=
    match n with O => Ok a | S n' => a' <- plot a x cy ;; vrun n' a' x (cy + 1) end.
  (* for cx in start_x..=end_x { self.put_pixel(cx, y, self.color) } *)
  Fixpoint hrun (n : nat) (a : A) (cx y : Z) : res A :=
    match n with O => Ok a | S n' => a' <- plot a cx y ;; hrun n' a' (cx + 1) y end.

  (* the loop of fill_x: for x in startx..=end_x { if pattern[offset] { column } ; *offset += inc } *)
  Fixpoint fill_x_loop (n : nat) (a : A) (pat : list bool) (x start_y : Z) (ny : nat) (offset inc : Z) : res (A * Z) :=
    match n with
    | O => Ok (a, offset)
    | S n' =>
      b <- pat_at pat offset ;;
      a' <- (if b then vrun ny a x start_y else Ok a) ;;
      offset' <- chk (offset + inc) ;;
      fill_x_loop n' a' pat (x + 1) start_y ny offset' inc
    end.

  (* the loop of fill_y: for y in start_y..=end_y { if pattern[offset] { row } ; *offset += 1 } *)
  Fixpoint fill_y_loop (n : nat) (a : A) (pat : list bool) (y start_x : Z) (nx : nat) (offset : Z) : res (A * Z) :=
    match n with
    | O => Ok (a, offset)
    | S n' =>
      b <- pat_at pat offset ;;
      a' <- (if b then hrun nx a start_x y else Ok a) ;;
      offset' <- chk (offset + 1) ;;
      fill_y_loop n' a' pat (y + 1) start_x nx offset'
    end.

  (* Bgi::fill_x(y, startx, count, &mut offset) *)
  Definition fill_x (vp : rect) (pat : list bool) (thick : Z) (a : A) (y startx count offset : Z) : res (A * Z) :=
    start_y0 <- chk (y - Z.quot thick 2) ;;
    e0 <- chk (start_y0 + thick) ;; end_y0 <- chk (e0 - 1) ;;
    end_x0 <- chk (startx + count) ;;
    eo <- (if 0 <? count then e <- chk (end_x0 - 1) ;; Ok (e, offset)
           else e <- chk (end_x0 + 1) ;; o <- chk (offset - count) ;; Ok (e, o)) ;;
    let '(end_x1, offset1) := eo in
    let start_y := if start_y0 <? 0 then 0 else start_y0 in
    vb <- r_bottom vp ;; vb1 <- chk (vb - 1) ;;
    let end_y := Z.min end_y0 vb1 in
    let inc := if 0 <=? count then 1 else -1 in
    let '(sx, ex) := if end_x1 <? startx then (end_x1, startx) else (startx, end_x1) in
    vr <- r_right vp ;;
    if vr <=? sx then Ok (a, offset1)
    else
      let sx' := if sx <? 0 then 0 else sx in
      vr1 <- chk (vr - 1) ;;
      let ex' := Z.min ex vr1 in
      r <- fill_x_loop (span sx' ex') a pat sx' start_y (span start_y end_y) offset1 inc ;;
      let '(a', offset2) := r in
      if count <? 0 then o <- chk (offset2 - count) ;; Ok (a', o) else Ok (a', offset2).

  (* Bgi::fill_y(x, start_y, count, &mut offset) *)
  Definition fill_y (vp : rect) (pat : list bool) (thick : Z) (a : A) (x start_y count offset : Z) : res (A * Z) :=
    start_x0 <- chk (x - Z.quot thick 2) ;;
    e0 <- chk (start_x0 + thick) ;; end_x0 <- chk (e0 - 1) ;;
    end_y0 <- chk (start_y + count) ;;
    eo <- (if 0 <? count then e <- chk (end_y0 - 1) ;; Ok (e, offset)
           else e <- chk (end_y0 + 1) ;; o <- chk (offset - count) ;; Ok (e, o)) ;;
    let '(end_y1, offset1) := eo in
    let start_x := if start_x0 <? 0 then 0 else start_x0 in
    vr <- r_right vp ;; vr1 <- chk (vr - 1) ;;
    let end_x := Z.min end_x0 vr1 in
    let '(sy, ey) := if end_y1 <? start_y then (end_y1, start_y) else (start_y, end_y1) in
    vb <- r_bottom vp ;;
    if vb <=? sy then Ok (a, offset1)
    else
      let sy' := if sy <? 0 then 0 else sy in
      vb1 <- chk (vb - 1) ;;
      let ey' := Z.min ey vb1 in
      r <- fill_y_loop (span sy' ey') a pat sy' start_x (span start_x end_x) offset1 ;;
      let '(a', offset2) := r in
      if count <? 0 then o <- chk (offset2 + count) ;; Ok (a', o) else Ok (a', offset2).

  (* the middle loop of the x-major branch: for _ in 0..(ly_delta - 1) { … fill_x(pos.y, pos.x, run) ; pos.x += run ; pos.y += 1 } *)
  Fixpoint line_x_loop (n : nat) (vp : rect) (pat : list bool) (thick : Z) (a : A) (px py err offset whole step adj_up adj_down : Z)
    : res (A * (Z * Z) * Z) :=
    match n with
    | O => Ok (a, (px, py), offset)
    | S n' =>
      err1 <- chk (err + adj_up) ;;
      re <- (if 0 <? err1 then r <- chk (whole + step) ;; e <- chk (err1 - adj_down) ;; Ok (r, e) else Ok (whole, err1)) ;;
      let '(run, err2) := re in
      r <- fill_x vp pat thick a py px run offset ;;
      let '(a', offset') := r in
      px' <- chk (px + run) ;; py' <- chk (py + 1) ;;
      line_x_loop n' vp pat thick a' px' py' err2 offset' whole step adj_up adj_down
    end.

  (* the middle loop of the y-major branch: … fill_y(pos.x, pos.y, run) ; pos.y += run ; pos.x += l_advance *)
  Fixpoint line_y_loop (n : nat) (vp : rect) (pat : list bool) (thick : Z) (a : A) (px py err offset whole adv adj_up adj_down : Z)
    : res (A * (Z * Z) * Z) :=
    match n with
    | O => Ok (a, (px, py), offset)
    | S n' =>
      err1 <- chk (err + adj_up) ;;
      re <- (if 0 <? err1 then r <- chk (whole + 1) ;; e <- chk (err1 - adj_down) ;; Ok (r, e) else Ok (whole, err1)) ;;
      let '(run, err2) := re in
      r <- fill_y vp pat thick a px py run offset ;;
      let '(a', offset') := r in
      py' <- chk (py + run) ;; px' <- chk (px + adv) ;;
      line_y_loop n' vp pat thick a' px' py' err2 offset' whole adv adj_up adj_down
    end.

  Definition i32_abs (z : Z) : res Z := chk (Z.abs z).
  Definition i32_div (a b : Z) : res Z := if b =? 0 then Panic SITE_DIV_ZERO else chk (Z.quot a b).
  Definition i32_rem (a b : Z) : res Z := if b =? 0 then Panic SITE_DIV_ZERO else chk (Z.rem a b).

  (* the branch `lx_delta2 >= ly_delta` of Bgi::line, from the end point (px, py) with the smaller y; sgn = l_step *)
  Definition line_xmajor (vp : rect) (pat : list bool) (thick : Z) (a : A) (px py sgn lx ly : Z) : res A :=
    q <- i32_div lx ly ;; whole <- chk (q * sgn) ;;
    adj_up0 <- i32_rem lx ly ;; adj_down <- chk (ly * 2) ;;
    err0 <- chk (adj_up0 - adj_down) ;; adj_up <- chk (adj_up0 * 2) ;;
    sl0 <- chk (Z.quot whole 2 + sgn) ;;
    let end_len := sl0 in
    sl <- (if (adj_up =? 0) && negb (Z.odd whole) then chk (sl0 - sgn) else Ok sl0) ;;
    err <- (if Z.odd whole then chk (err0 + ly) else Ok err0) ;;
    r <- fill_x vp pat thick a py px sl 0 ;;
    let '(a1, off1) := r in
    px1 <- chk (px + sl) ;; py1 <- chk (py + 1) ;;
    n <- chk (ly - 1) ;;
    r2 <- line_x_loop (Z.to_nat n) vp pat thick a1 px1 py1 err off1 whole sgn adj_up adj_down ;;
    let '(a2, (px2, py2), off2) := r2 in
    r3 <- fill_x vp pat thick a2 py2 px2 end_len off2 ;; Ok (fst r3).

  (* the branch `lx_delta2 < ly_delta`; sgn = l_advance *)
  Definition line_ymajor (vp : rect) (pat : list bool) (thick : Z) (a : A) (px py sgn lx ly : Z) : res A :=
    whole <- i32_div ly lx ;;
    adj_up0 <- i32_rem ly lx ;; adj_down <- chk (lx * 2) ;;
    err0 <- chk (adj_up0 - adj_down) ;; adj_up <- chk (adj_up0 * 2) ;;
    sl0 <- chk (Z.quot whole 2 + 1) ;;
    let end_len := sl0 in
    sl <- (if (adj_up =? 0) && negb (Z.odd whole) then chk (sl0 - 1) else Ok sl0) ;;
    err <- (if Z.odd whole then chk (err0 + lx) else Ok err0) ;;
    r <- fill_y vp pat thick a px py sl 0 ;;
    let '(a1, off1) := r in
    py1 <- chk (py + sl) ;; px1 <- chk (px + sgn) ;;
    n <- chk (lx - 1) ;;
    r2 <- line_y_loop (Z.to_nat n) vp pat thick a1 px1 py1 err off1 whole sgn adj_up adj_down ;;
    let '(a2, (px2, py2), off2) := r2 in
    r3 <- fill_y vp pat thick a2 px2 py2 end_len off2 ;; Ok (fst r3).

  (* both sloped branches start from the end point with the smaller y; the sign is the x direction from there *)
  Definition line_start (x1 y1 x2 y2 : Z) : Z * Z * Z :=
    if y1 <? y2 then (x1, y1, if x2 <? x1 then -1 else 1) else (x2, y2, if x1 <? x2 then -1 else 1).

  (* Bgi::line(x1, y1, x2, y2) *)
  Definition line (vp : rect) (pat : list bool) (thick : Z) (a : A) (x1 y1 x2 y2 : Z) : res A :=
    d1 <- chk (y2 - y1) ;; ly <- i32_abs d1 ;;
    d2 <- chk (x2 - x1) ;; lx <- i32_abs d2 ;;
    if lx =? 0 then
      c <- chk (ly + 1) ;; r <- fill_y vp pat thick a x1 (Z.min y1 y2) c 0 ;; Ok (fst r)
    else if ly =? 0 then
      c <- chk (lx + 1) ;; r <- fill_x vp pat thick a y1 (Z.min x1 x2) c 0 ;; Ok (fst r)
    else
      let '(px, py, sgn) := line_start x1 y1 x2 y2 in
      if ly <=? lx then line_xmajor vp pat thick a px py sgn lx ly
      else line_ymajor vp pat thick a px py sgn lx ly.

  (* Bgi::rectangle *)
  Definition rectangle (vp : rect) (pat : list bool) (thick : Z) (a : A) (left top right bottom : Z) : res A :=
    a1 <- line vp pat thick a left top right top ;;
    a2 <- line vp pat thick a1 left bottom right bottom ;;
    a3 <- line vp pat thick a2 right top right bottom ;;
    line vp pat thick a3 left top left bottom.

  (* for point in points { self.line(last_point, point) ; last_point = *point } *)
  Fixpoint poly_loop (vp : rect) (pat : list bool) (thick : Z) (a : A) (last : Z * Z) (pts : list (Z * Z)) : res (A * (Z * Z)) :=
    match pts with
    | [] => Ok (a, last)
    | p :: t => a' <- line vp pat thick a (fst last) (snd last) (fst p) (snd p) ;; poly_loop vp pat thick a' p t
    end.

  (* Bgi::draw_poly (after the fix: an empty slice returns at once) *)
  Definition draw_poly (vp : rect) (pat : list bool) (thick : Z) (a : A) (pts : list (Z * Z)) : res A :=
    match pts with
    | [] => Ok a
    | p0 :: _ => r <- poly_loop vp pat thick a p0 pts ;;
                 let '(a', last) := r in line vp pat thick a' (fst last) (snd last) (fst p0) (snd p0)
    end.

  (* Bgi::draw_poly_line *)
  Definition draw_poly_line (vp : rect) (pat : list bool) (thick : Z) (a : A) (pts : list (Z * Z)) : res A :=
    match pts with
    | [] => Ok a
    | p0 :: _ => r <- poly_loop vp pat thick a p0 pts ;; Ok (fst r)
    end.
End Canvas.

Arguments vrun {A}. Arguments hrun {A}. Arguments fill_x_loop {A}. Arguments fill_y_loop {A}. Arguments fill_x {A}. Arguments fill_y {A}.
Arguments line_x_loop {A}. Arguments line_y_loop {A}. Arguments line_xmajor {A}. Arguments line_ymajor {A}. Arguments line {A}. Arguments rectangle {A}. Arguments poly_loop {A}.
Arguments draw_poly {A}. Arguments draw_poly_line {A}.

(* ---- the BGI state with its line attributes ---- *)
Record lbgi := { lb : bgi; line_style : N; line_pattern : list bool; line_thickness : Z }.

(* LineStyle::get_line_pattern / Bgi::set_line_pattern: bit i of the 16-bit pattern, i = 0..15 *)
Definition bits16 (v : Z) : list bool := map (fun i => Z.testbit v (Z.of_nat i)) (seq 0 LINE_PATTERN_BITS).

Definition ls_from (n : N) : N := match lookup n LINESTYLE_FROM with Some k => k | None => LINESTYLE_FROM_DEFAULT end.
Definition ls_pattern (style : N) : res (list bool) :=
  v <- idx SITE_LINE_PATTERN LINE_PATTERNS (Z.of_N style) ;; Ok (bits16 v).

Definition lbgi_new : lbgi :=
  {| lb := bgi_new; line_style := 0; line_pattern := bits16 (nth 0 LINE_PATTERNS 0); line_thickness := 1 |}.

Definition plot_bgi (s : bgi) (x y : Z) : res bgi := put_pixel s x y (color s).

Definition with_lb (s : lbgi) (b : bgi) : lbgi :=
  {| lb := b; line_style := line_style s; line_pattern := line_pattern s; line_thickness := line_thickness s |}.

Definition bgi_line (s : lbgi) (x1 y1 x2 y2 : Z) : res lbgi :=
  b <- line plot_bgi (viewport (lb s)) (line_pattern s) (line_thickness s) (lb s) x1 y1 x2 y2 ;; Ok (with_lb s b).
Definition bgi_rectangle (s : lbgi) (l t r b : Z) : res lbgi :=
  b' <- rectangle plot_bgi (viewport (lb s)) (line_pattern s) (line_thickness s) (lb s) l t r b ;; Ok (with_lb s b').
Definition bgi_draw_poly (s : lbgi) (pts : list (Z * Z)) : res lbgi :=
  b <- draw_poly plot_bgi (viewport (lb s)) (line_pattern s) (line_thickness s) (lb s) pts ;; Ok (with_lb s b).
Definition bgi_draw_poly_line (s : lbgi) (pts : list (Z * Z)) : res lbgi :=
  b <- draw_poly_line plot_bgi (viewport (lb s)) (line_pattern s) (line_thickness s) (lb s) pts ;; Ok (with_lb s b).

(* the number of put_pixel calls of one Bgi::line *)
Definition plot_count (n : nat) (_ _ : Z) : res nat := Ok (S n).
Definition line_plots (vp : rect) (pat : list bool) (thick : Z) (x1 y1 x2 y2 : Z) : res nat :=
  line plot_count vp pat thick 0%nat x1 y1 x2 y2.

(* Polygon::run / PolyLine::run: for i in 0..points.len() / 2 { Position::new(points[i * 2], points[i * 2 + 1]) } — both indices are
   below 2 * (len / 2) <= len *)
Fixpoint pairs (v : list Z) : list (Z * Z) :=
  match v with a :: b :: t => (a, b) :: pairs t | _ => [] end.

Inductive run_result2 := ROk2 (s : lbgi) | RPanic2 (site : N) | RUnmodelled2.
Definition lift2 (r : res lbgi) : run_result2 := match r with Ok s => ROk2 s | Panic p => RPanic2 p end.

(* Command::run: the line family here, every other command as in BgiKernel.run_cmd (ResetWindows: graph_defaults also calls
   set_line_style(LineStyle::Solid); the thickness stays) *)
Definition run_cmd2 (s : lbgi) (c : pcmd) : run_result2 :=
  match pc_cmd c with
  | CLine => lift2 (x0 <- arg c 0 ;; y0 <- arg c 1 ;; x1 <- arg c 2 ;; y1 <- arg c 3 ;; bgi_line s x0 y0 x1 y1)
  | CRectangle => lift2 (x0 <- arg c 0 ;; y0 <- arg c 1 ;; x1 <- arg c 2 ;; y1 <- arg c 3 ;; bgi_rectangle s x0 y0 x1 y1)
  | CPolygon => lift2 (bgi_draw_poly s (pairs (pc_vec c)))
  | CPolyLine => lift2 (bgi_draw_poly_line s (pairs (pc_vec c)))
  | CLineStyle => lift2 (
      style <- arg c 0 ;; user_pat <- arg c 1 ;; thick <- arg c 2 ;;
      let st := ls_from (as_u8 style) in
      pat <- ls_pattern st ;;
      Ok {| lb := lb s; line_style := st; line_pattern := if style =? 4 then bits16 user_pat else pat; line_thickness := thick |})
  | CResetWindows =>
      match run_cmd (lb s) c with
      | ROk b => lift2 (pat <- ls_pattern 0%N ;; Ok {| lb := b; line_style := 0; line_pattern := pat; line_thickness := line_thickness s |})
      | RPanic p => RPanic2 p
      | RUnmodelled => RUnmodelled2
      end
  | _ => match run_cmd (lb s) c with ROk b => ROk2 (with_lb s b) | RPanic p => RPanic2 p | RUnmodelled => RUnmodelled2 end
  end.
