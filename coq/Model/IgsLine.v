(* Model of the IGS line drawing: src/parsers/igs/paint.rs
     DrawExecutor::draw_line: the line mask (LINE_STYLE.get(mask), solid for the unimplemented user defined type), the clip to the
     screen (clip_line, cut: the line is cut at the four screen edges in turn, in i128), then a Bresenham loop with one set_pixel
     slot and one step per point of the CLIPPED line; LineType::get_mask, LINE_STYLE, the fields line_type and cur_position,
     execute_command arms DrawLine, LineDrawTo, LineMarkerTypes (the polymarker half only validates: polymarkers are not modelled).
   The Rust loop is `loop { … if x == x1 && y == y1 { break } … }`; the model runs it with (lazily built) fuel dx + dy + 1 and a model-only site
   SITE_IGS_FUEL when the fuel runs out — Proofs/IgsLineProofs.v shows that site is never reached (each iteration moves x or y
   one step towards the end point and never beyond it).
   [igs_draw_line_unclipped] is draw_line as it was BEFORE the fix commits (LINE_STYLE[mask], no clip): kept for the statements about
   the old behaviour.  Executable definitions only. *)
From Coq Require Import NArith ZArith List Bool.
From IE Require Import Gen.IgsGen Model.RipTok Model.BgiKernel Model.IgsTok Model.IgsKernel.
Import ListNotations.
Local Open Scope Z_scope.

Definition SITE_IGS_LINESTYLE : N := 44.  (* before the fix: LINE_STYLE[mask] (mask 6 = LineType::UserDefined) *)
Definition SITE_IGS_FUEL : N := 45.       (* model only: the loop did not reach (x1, y1) within dx + dy + 1 iterations (never) *)
Definition SITE_I128 : N := 46.           (* i128 `+ - *` and `/` of cut (operands are sums and products of i32 values: never) *)
Definition SITE_IGS_DIV0 : N := 47.       (* the division of cut by u1 - u0 = 0 (never: only an end point beyond the edge is cut, the other one is not beyond it) *)

Definition I128_MIN : Z := - 170141183460469231731687303715884105728.
Definition I128_MAX : Z := 170141183460469231731687303715884105727.
Definition chkw (z : Z) : res Z := if (I128_MIN <=? z) && (z <=? I128_MAX) then Ok z else Panic SITE_I128.

(* `v as i32` of an i128 *)
Definition as_i32 (z : Z) : Z := (z + 2147483648) mod 4294967296 - 2147483648.

(* cut(u0, v0, u1, v1, bound) = (bound, v0 + (v1 - v0) * (bound - u0) / (u1 - u0)) *)
Definition cut (u0 v0 u1 v1 bound : Z) : res (Z * Z) :=
  dv <- chkw (v1 - v0) ;; db <- chkw (bound - u0) ;; m <- chkw (dv * db) ;; du <- chkw (u1 - u0) ;;
  if du =? 0 then Panic SITE_IGS_DIV0
  else q <- chkw (Z.quot m du) ;; v <- chkw (v0 + q) ;; Ok (bound, v).

(* one screen edge of clip_line, on (u, v) pairs: lo = true keeps u >= bound, lo = false keeps u <= bound.
     if out(u0) && out(u1) { return None }  if out(u0) { (u0, v0) = cut(u0, v0, u1, v1, bound) } else if out(u1) { (u1, v1) = cut(u1, v1, u0, v0, bound) } *)
Definition out_edge (lo : bool) (bound u : Z) : bool := if lo then u <? bound else bound <? u.
Definition clip_edge (lo : bool) (bound u0 v0 u1 v1 : Z) : res (option (Z * Z * Z * Z)) :=
  if out_edge lo bound u0 && out_edge lo bound u1 then Ok None
  else if out_edge lo bound u0 then p <- cut u0 v0 u1 v1 bound ;; Ok (Some (fst p, snd p, u1, v1))
  else if out_edge lo bound u1 then p <- cut u1 v1 u0 v0 bound ;; Ok (Some (u0, v0, fst p, snd p))
  else Ok (Some (u0, v0, u1, v1)).

(* clip_line: left, right edge on (x, y); top, bottom edge on (y, x) *)
Definition clip_line (x0 y0 x1 y1 x_max y_max : Z) : res (option (Z * Z * Z * Z)) :=
  r <- clip_edge true 0 x0 y0 x1 y1 ;;
  match r with None => Ok None | Some (x0, y0, x1, y1) =>
  r <- clip_edge false x_max x0 y0 x1 y1 ;;
  match r with None => Ok None | Some (x0, y0, x1, y1) =>
  r <- clip_edge true 0 y0 x0 y1 x1 ;;
  match r with None => Ok None | Some (y0, x0, y1, x1) =>
  r <- clip_edge false y_max y0 x0 y1 x1 ;;
  match r with None => Ok None | Some (y0, x0, y1, x1) => Ok (Some (as_i32 x0, as_i32 y0, as_i32 x1, as_i32 y1))
  end end end end.

(* u16::rotate_left(1) *)
Definition rotl16 (m : Z) : Z := Z.lor (Z.land (Z.shiftl m 1) 65535) (Z.shiftr m 15).

(* fuel that is built on demand: vm_compute is call-by-value, a unary number of 2^31 iterations must never be materialised
   (G#L 2147483647,0,0,0: overflows in its first iteration).  [fuel_of_pos p rest] lasts p iterations more than [rest tt]. *)
Inductive fuel := FDone | FMore (k : unit -> fuel).
Fixpoint fuel_of_pos (p : positive) (rest : unit -> fuel) : fuel :=
  match p with
  | xH => FMore rest
  | xO q => fuel_of_pos q (fun _ => fuel_of_pos q rest)
  | xI q => FMore (fun _ => fuel_of_pos q (fun _ => fuel_of_pos q rest))
  end.
Definition fuel_of_z (z : Z) : fuel := match z with Zpos p => fuel_of_pos p (fun _ => FDone) | _ => FDone end.

(* the loop of draw_line; [steps] counts the iterations (= set_pixel slots) *)
Fixpoint dl_loop (fl : fuel) (e : iexec) (x y x1 y1 dx dy sx sy err mask : Z) (color : N) (steps : Z) : res (iexec * Z) :=
  match fl with
  | FDone => Panic SITE_IGS_FUEL
  | FMore k =>
    e' <- (if Z.odd mask then igs_set_pixel e x y color else Ok e) ;;
    if (x =? x1) && (y =? y1) then Ok (e', steps + 1)
    else
      e2 <- chk (2 * err) ;;
      nd <- chk (- dy) ;;
      r1 <- (if nd <? e2 then a <- chk (err - dy) ;; b <- chk (x + sx) ;; Ok (a, b) else Ok (err, x)) ;;
      let '(err1, x') := r1 in
      r2 <- (if e2 <? dx then a <- chk (err1 + dx) ;; b <- chk (y + sy) ;; Ok (a, b) else Ok (err1, y)) ;;
      let '(err2, y') := r2 in
      dl_loop (k tt) e' x' y' x1 y1 dx dy sx sy err2 (rotl16 mask) color (steps + 1)
  end.

(* the Bresenham part of draw_line: the new canvas and the number of loop iterations *)
Definition dl_body (e : iexec) (x0 y0 x1 y1 : Z) (color : N) (lm : Z) : res (iexec * Z) :=
  d1 <- chk (x0 - x1) ;; dx <- chk (Z.abs d1) ;;
  d2 <- chk (y0 - y1) ;; dy <- chk (Z.abs d2) ;;
  let sx := if x0 <? x1 then 1 else -1 in
  let sy := if y0 <? y1 then 1 else -1 in
  err <- chk (dx - dy) ;;
  dl_loop (fuel_of_z (dx + dy + 1)) e x0 y0 x1 y1 dx dy sx sy err lm color 0.

(* LINE_STYLE.get(mask).copied().unwrap_or(0xFFFF)  (mask: usize) *)
Definition line_mask_of (mask : Z) : Z :=
  match (if mask <? 0 then None else nth_error LINE_STYLE (Z.to_nat mask)) with Some v => v | None => IGS_LINE_DEFAULT end.

(* draw_line(x0, y0, x1, y1, color, mask): the new canvas and the number of loop iterations (0 when nothing of the line is on the screen) *)
Definition igs_draw_line (e : iexec) (x0 y0 x1 y1 : Z) (color : N) (mask : Z) : res (iexec * Z) :=
  let lm := line_mask_of mask in
  w1 <- chk (e_w e - 1) ;; h1 <- chk (e_h e - 1) ;;
  c <- clip_line x0 y0 x1 y1 w1 h1 ;;
  match c with
  | None => Ok (e, 0)
  | Some (cx0, cy0, cx1, cy1) => dl_body e cx0 cy0 cx1 cy1 color lm
  end.

(* draw_line BEFORE the fix commits: LINE_STYLE[mask] and the loop over the unclipped line *)
Definition igs_draw_line_unclipped (e : iexec) (x0 y0 x1 y1 : Z) (color : N) (mask : Z) : res (iexec * Z) :=
  lm <- idx SITE_IGS_LINESTYLE LINE_STYLE mask ;; dl_body e x0 y0 x1 y1 color lm.

(* the executor with its line attributes *)
Record iexec2 := { x_e : iexec; x_line_type : Z; x_cur_x : Z; x_cur_y : Z }.
Definition iexec2_new : iexec2 := {| x_e := iexec_new; x_line_type := 0; x_cur_x := 0; x_cur_y := 0 |}.
Definition x_with_e (s : iexec2) (e : iexec) : iexec2 := {| x_e := e; x_line_type := x_line_type s; x_cur_x := x_cur_x s; x_cur_y := x_cur_y s |}.

Inductive xres2 := XOk2 (s : iexec2) (ok : bool) | XPanic2 (site : N) | XUnmodelled2.
Definition xlift2 (r : res (iexec2 * bool)) : xres2 := match r with Ok (s, ok) => XOk2 s ok | Panic p => XPanic2 p end.

Definition igs_exec2 (s : iexec2) (c : N) (ps : list Z) (str_ : str) : xres2 :=
  if (c =? 76)%N then (* 'L' DrawLine *) xlift2 (
    if negb (Nat.eqb (length ps) 4) then Ok (s, false)
    else x0 <- par ps 0 ;; y0 <- par ps 1 ;; x1 <- par ps 2 ;; y1 <- par ps 3 ;;
         r <- igs_draw_line (x_e s) x0 y0 x1 y1 (e_line_color (x_e s)) (x_line_type s) ;;
         Ok ({| x_e := fst r; x_line_type := x_line_type s; x_cur_x := x1; x_cur_y := y1 |}, true))
  else if (c =? 68)%N then (* 'D' LineDrawTo *) xlift2 (
    if negb (Nat.eqb (length ps) 2) then Ok (s, false)
    else x1 <- par ps 0 ;; y1 <- par ps 1 ;;
         r <- igs_draw_line (x_e s) (x_cur_x s) (x_cur_y s) x1 y1 (e_line_color (x_e s)) (x_line_type s) ;;
         Ok ({| x_e := fst r; x_line_type := x_line_type s; x_cur_x := x1; x_cur_y := y1 |}, true))
  else if (c =? 84)%N then (* 'T' LineMarkerTypes *) xlift2 (
    if negb (Nat.eqb (length ps) 3) then Ok (s, false)
    else p0 <- par ps 0 ;; p1 <- par ps 1 ;; p2 <- par ps 2 ;;
         if p0 =? 1 then Ok (s, (1 <=? p1) && (p1 <=? 6))                    (* polymarker type / size: read by no modelled command *)
         else if p0 =? 2 then
           (if (1 <=? p1) && (p1 <=? 7) then Ok ({| x_e := x_e s; x_line_type := p1 - 1; x_cur_x := x_cur_x s; x_cur_y := x_cur_y s |}, true)
            else Ok (s, false))
         else Ok (s, false))
  else match igs_exec (x_e s) c ps str_ with
       | XOk e ok => XOk2 (x_with_e s e) ok
       | XPanic p => XPanic2 p
       | XUnmodelled => XUnmodelled2
       end.

Inductive xstate2 := SOkE2 (s : iexec2) | SPanicE2 (site : N) | SUnmodelledE2.
Definition igs_x2 (x : xstate2) (c : N) (ps : list Z) (s : str) : xstate2 * bool :=
  match x with
  | SOkE2 e => match igs_exec2 e c ps s with
               | XOk2 e' ok => (SOkE2 e', ok)
               | XPanic2 p => (SPanicE2 p, false)
               | XUnmodelled2 => (SUnmodelledE2, false)
               end
  | _ => (x, false)
  end.
