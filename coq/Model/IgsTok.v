(* Model of the IGS tokenizer: src/parsers/igs/mod.rs
     enum State, enum LoopState, struct Parser {state, parsed_numbers, parsed_string, loop_state, loop_cmd, loop_parameters,
     got_double_colon, cur_loop}, struct Loop, Loop::{new (rejects step <= 0), next_step (saturating counter and parameter arithmetic)}, <Parser as BufferParser>::{print_char, get_next_action},
     parse_next_number; IgsCommands::from_char (src/parsers/igs/cmd.rs) through the generated letter list Gen/IgsGen.v.

   Characters are N (the Rust char's scalar value); a String is a list of characters.  Two things are NOT modelled and are
   parameters of the Section: the wrapped ansi::Parser (fb_print) and command EXECUTION, CommandExecutor::execute_command
   (exec: executor state, command letter, parameters, string -> new state, Ok/Err).  The tokenizer's own panic sites are
   explicit: parsed_numbers[k], loop_parameters.last_mut().unwrap(), the i32 arithmetic / `%` / index of Loop::next_step, and
   the thread::sleep(200 ms * delay) of next_step with a non-zero delay (a stall site).
   Not modelled: `x += p.len() as i32` in the parameter count fold is unchecked here (it needs 2^31 loop parameters).
   Executable definitions only. *)
From Coq Require Import NArith ZArith List Bool.
From IE Require Import Gen.IgsGen Model.RipTok Model.BgiKernel.
Import ListNotations.
Local Open Scope Z_scope.

Definition SITE_IGS_NUMS : N := 30.        (* self.parsed_numbers[k], k = 0..4 *)
Definition SITE_IGS_LAST : N := 31.        (* self.loop_parameters.last_mut().unwrap() (.last_mut().unwrap()) *)
Definition SITE_IGS_LOOP_ARITH : N := 32.  (* Loop::next_step: the i32 `-` and abs that are still plain (i - from, |i|, to - 1 - i); `i += step` and the
                                              +n / -n / !n parameter arithmetic saturate since the fix commits *)
Definition SITE_IGS_LOOP_REM : N := 33.    (* % self.parameters.len() with no parameter group *)
Definition SITE_IGS_LOOP_INDEX : N := 34.  (* self.parameters[cur_parameter] *)
Definition SITE_IGS_SLEEP : N := 35.       (* thread::sleep(200 ms * delay), delay <> 0: a stall (or u64 overflow for delay < 0) *)

Definition str := list N.

Definition CH_LOOP : N := 38.   (* '&': IgsCommands::LoopCommand (never produced by from_char) *)

Inductive istate := IDefault | IGotIgsStart | IReadCommandStart | ISkipNewLine | IReadCommand (c : N).
Inductive lstate := LStart | LReadCommand | LReadCount | LReadParameter.

Record iloop := { l_i : Z; l_from : Z; l_to : Z; l_step : Z; l_delay : Z; l_cmd : N; l_str : str; l_params : list (list str) }.

Record ipars := { i_state : istate; i_nums : list Z; i_str : str; i_lstate : lstate; i_lcmd : N; i_lparams : list (list str);
                  i_gdc : bool; i_loop : option iloop }.

Definition ipars_new : ipars :=
  {| i_state := IDefault; i_nums := []; i_str := []; i_lstate := LStart; i_lcmd := 32; i_lparams := []; i_gdc := false; i_loop := None |}.

(* field updates *)
Definition mkp st nums s ls lc lp g lo : ipars :=
  {| i_state := st; i_nums := nums; i_str := s; i_lstate := ls; i_lcmd := lc; i_lparams := lp; i_gdc := g; i_loop := lo |}.
Definition p_state (p : ipars) st := mkp st (i_nums p) (i_str p) (i_lstate p) (i_lcmd p) (i_lparams p) (i_gdc p) (i_loop p).
Definition p_nums (p : ipars) n := mkp (i_state p) n (i_str p) (i_lstate p) (i_lcmd p) (i_lparams p) (i_gdc p) (i_loop p).
Definition p_str (p : ipars) s := mkp (i_state p) (i_nums p) s (i_lstate p) (i_lcmd p) (i_lparams p) (i_gdc p) (i_loop p).
Definition p_lstate (p : ipars) l := mkp (i_state p) (i_nums p) (i_str p) l (i_lcmd p) (i_lparams p) (i_gdc p) (i_loop p).
Definition p_lcmd (p : ipars) c := mkp (i_state p) (i_nums p) (i_str p) (i_lstate p) c (i_lparams p) (i_gdc p) (i_loop p).
Definition p_lparams (p : ipars) lp := mkp (i_state p) (i_nums p) (i_str p) (i_lstate p) (i_lcmd p) lp (i_gdc p) (i_loop p).
Definition p_gdc (p : ipars) g := mkp (i_state p) (i_nums p) (i_str p) (i_lstate p) (i_lcmd p) (i_lparams p) g (i_loop p).
Definition p_loop (p : ipars) lo := mkp (i_state p) (i_nums p) (i_str p) (i_lstate p) (i_lcmd p) (i_lparams p) (i_gdc p) lo.

(* i32 saturating arithmetic: parse_next_number(x, ch) = x.saturating_mul(10).saturating_add(ch as i32).saturating_sub('0') *)
Definition sat (z : Z) : Z := Z.max I32_MIN (Z.min I32_MAX z).
Definition parse_next_number (x : Z) (ch : N) : Z := sat (sat (sat (x * 10) + Z.of_N ch) - 48).

(* Vec::pop / last_mut *)
Fixpoint unsnoc {A} (l : list A) : option (list A * A) :=
  match l with
  | [] => None
  | x :: t => match unsnoc t with Some (r, y) => Some (x :: r, y) | None => Some ([], x) end
  end.

(* `let d = match self.parsed_numbers.pop() { Some(n) => n, _ => 0 }; self.parsed_numbers.push(parse_next_number(d, ch))` *)
Definition push_digit (nums : list Z) (ch : N) : list Z :=
  match unsnoc nums with
  | Some (r, d) => r ++ [parse_next_number d ch]
  | None => [parse_next_number 0 ch]
  end.

Definition is_digit (ch : N) : bool := (48 <=? ch)%N && (ch <=? 57)%N.

(* IgsCommands::from_char: Some = Ok *)
Definition from_char (ch : N) : option N := if existsb (N.eqb ch) IGS_LETTERS then Some ch else None.

(* the fold `loop_parameters.iter().fold(0, |x, p| x + p.len() as i32)` *)
Definition total_params (lp : list (list str)) : Z := fold_left (fun x p => x + Z.of_nat (length p)) lp 0.

(* str::parse::<i32>(): optional sign, at least one ASCII digit, nothing else, value within i32; None = Err *)
Fixpoint digits_val (s : str) (acc : Z) : option Z :=
  match s with
  | [] => Some acc
  | c :: t => if is_digit c then digits_val t (acc * 10 + (Z.of_N c - 48)) else None
  end.
Definition parse_i32 (s : str) : option Z :=
  let body (neg : bool) (t : str) :=
    match t with
    | [] => None
    | _ => match digits_val t 0 with
           | Some n => let v := if neg then - n else n in if in_i32 v then Some v else None
           | None => None
           end
    end in
  match s with
  | [] => None
  | c :: t => if (c =? 43)%N then body false t else if (c =? 45)%N then body true t else body false s
  end.

Definition chkl (z : Z) : res Z := if in_i32 z then Ok z else Panic SITE_IGS_LOOP_ARITH.
Definition i32_as_usize (z : Z) : Z := if z <? 0 then z + 18446744073709551616 else z.

(* the prefix of a loop parameter: '+' add the step value, '-' subtract from it, '!' subtract it; 0 = none *)
Definition param_mode (p : str) : Z * str :=
  match p with
  | c :: t => if (c =? 43)%N then (1, t) else if (c =? 45)%N then (2, t) else if (c =? 33)%N then (3, t) else (0, p)
  | [] => (0, p)
  end.
(* "x" / "y" / a number *)
Definition param_base (p' : str) (x y : Z) : option Z :=
  match p' with
  | [c] => if (c =? 120)%N then Some x else if (c =? 121)%N then Some y else parse_i32 p'
  | _ => parse_i32 p'
  end.

Section Igs.
  Variable X : Type.                                        (* state of the CommandExecutor (+ buffer, caret) *)
  Variable exec : X -> N -> list Z -> str -> X * bool.     (* execute_command(command, parameters, string): Ok / Err *)
  Variable FS : Type.
  Variable fb_print : FS -> N -> FS * bool.                 (* fallback_parser.print_char *)

  (* one parameter string of a loop step: None = `continue` (not a number) *)
  Definition eval_param (l : iloop) (p : str) : res (option Z) :=
    let '(mode, p') := param_mode p in
    x <- chkl (Z.abs (l_i l)) ;;
    t1 <- chkl (l_to l - 1) ;; t2 <- chkl (t1 - l_i l) ;; y <- chkl (Z.abs t2) ;;
    match param_base p' x y with
    | None => Ok None
    | Some v =>
      (* value.saturating_add(x) / x.saturating_sub(value) / value.saturating_sub(x) *)
      Ok (Some (if mode =? 1 then sat (v + x) else if mode =? 2 then sat (x - v) else if mode =? 3 then sat (v - x) else v))
    end.

  Fixpoint eval_params (l : iloop) (ps : list str) : res (list Z) :=
    match ps with
    | [] => Ok []
    | p :: t => v <- eval_param l p ;; r <- eval_params l t ;; Ok (match v with Some z => z :: r | None => r end)
    end.

  Definition loop_running (l : iloop) : bool := if l_from l <? l_to l then l_i l <? l_to l else l_to l <? l_i l.

  (* Loop::next_step: None = not running *)
  Definition next_step (x : X) (l : iloop) : res (option (X * iloop * bool)) :=
    if negb (loop_running l) then Ok None
    else
      d <- chkl (l_i l - l_from l) ;;
      if Nat.eqb (length (l_params l)) 0 then Panic SITE_IGS_LOOP_REM
      else
        ps <- idx SITE_IGS_LOOP_INDEX (l_params l) (Z.rem (i32_as_usize d) (Z.of_nat (length (l_params l)))) ;;
        vals <- eval_params l ps ;;
        let '(x', ok) := exec x (l_cmd l) vals (l_str l) in
        if negb (l_delay l =? 0) then Panic SITE_IGS_SLEEP
        else
          (* self.i.saturating_add(self.step) / self.i.saturating_sub(self.step) *)
          let i' := if l_from l <? l_to l then sat (l_i l + l_step l) else sat (l_i l - l_step l) in
          Ok (Some (x', {| l_i := i'; l_from := l_from l; l_to := l_to l; l_step := l_step l; l_delay := l_delay l; l_cmd := l_cmd l;
                           l_str := l_str l; l_params := l_params l |}, ok)).

  Record iworld := { w_p : ipars; w_x : X; w_fb : FS }.
  Definition mkw p x f : iworld := {| w_p := p; w_x := x; w_fb := f |}.

  (* the `,` / `:` arms of LoopState::ReadParameter: enough parameters -> create the loop and run its first step *)
  Definition loop_sep (w : iworld) (colon : bool) : res (iworld * bool) :=
    let p := w_p w in
    n4 <- idx SITE_IGS_NUMS (i_nums p) 4 ;;
    if n4 <=? total_params (i_lparams p) then
      let p1 := p_state p IReadCommandStart in
      a <- idx SITE_IGS_NUMS (i_nums p) 0 ;; b <- idx SITE_IGS_NUMS (i_nums p) 1 ;; c <- idx SITE_IGS_NUMS (i_nums p) 2 ;;
      d <- idx SITE_IGS_NUMS (i_nums p) 3 ;;
      match from_char (i_lcmd p) with
      | None => Ok (mkw p1 (w_x w) (w_fb w), false)                         (* Loop::new(..)? *)
      | Some cmd =>
        if c <=? 0 then Ok (mkw p1 (w_x w) (w_fb w), false)                  (* Loop::new: `if step <= 0 { return Err(..) }` *)
        else
        let l := {| l_i := a; l_from := a; l_to := b; l_step := c; l_delay := d; l_cmd := cmd; l_str := i_str p; l_params := i_lparams p |} in
        r <- next_step (w_x w) l ;;
        match r with
        | Some (x', l', ok) => Ok (mkw (p_loop p1 (Some l')) x' (w_fb w), ok)
        | None => Ok (mkw p1 (w_x w) (w_fb w), true)
        end
      end
    else if colon then Ok (mkw (p_lparams p (i_lparams p ++ [[[]]])) (w_x w) (w_fb w), true)
    else match unsnoc (i_lparams p) with
         | Some (r, g) => Ok (mkw (p_lparams p (r ++ [g ++ [[]]])) (w_x w) (w_fb w), true)
         | None => Panic SITE_IGS_LAST
         end.

  (* the LoopCommand sub-machine (command == LoopCommand && parsed_numbers.len() >= 4) *)
  Definition loop_char (w : iworld) (ch : N) : res (iworld * bool) :=
    let p := w_p w in
    let ret p' := Ok (mkw p' (w_x w) (w_fb w), true) in
    match i_lstate p with
    | LStart => ret (if (ch =? 44)%N then p_lstate p LReadCommand else p)
    | LReadCommand =>
      if (ch =? 64)%N || (ch =? 124)%N || (ch =? 44)%N
      then ret (p_str (p_nums (p_lstate p LReadCount) (i_nums p ++ [0])) [])
      else ret (p_lcmd p ch)
    | LReadCount =>
      if is_digit ch then ret (p_nums p (push_digit (i_nums p) ch))
      else if (ch =? 44)%N then ret (p_lstate (p_gdc (p_lparams p [[[]]]) false) LReadParameter)
      else ret (p_state p IDefault)
    | LReadParameter =>
      if (ch =? 95)%N || (ch =? 10)%N || (ch =? 13)%N then ret p
      else if (ch =? 44)%N then loop_sep w false
      else if (ch =? 58)%N then loop_sep w true
      else match unsnoc (i_lparams p) with
           | None => Panic SITE_IGS_LAST
           | Some (r, g) => match unsnoc g with
                            | None => Panic SITE_IGS_LAST
                            | Some (r2, s) => ret (p_lparams p (r ++ [r2 ++ [s ++ [ch]]]))
                            end
           end
    end.

  (* <Parser as BufferParser>::print_char: the new world and Ok (true) / Err (false) *)
  Definition igs_step (w : iworld) (ch : N) : res (iworld * bool) :=
    let p := w_p w in
    let ret p' := Ok (mkw p' (w_x w) (w_fb w), true) in
    match i_state p with
    | IReadCommand c =>
      if (c =? IGS_WRITETEXT)%N && Nat.leb 3 (length (i_nums p)) then
        if (ch =? 64)%N then
          let '(x', ok) := exec (w_x w) c (i_nums p) (i_str p) in
          Ok (mkw (p_str (p_state (p_nums p []) IReadCommandStart) []) x' (w_fb w), ok)
        else if (ch =? 10)%N then ret (p_state (p_str p []) IReadCommandStart)
        else ret (p_str p (i_str p ++ [ch]))
      else if (c =? CH_LOOP)%N && Nat.leb 4 (length (i_nums p)) then loop_char w ch
      else if (ch =? 32)%N || (ch =? 62)%N || (ch =? 13)%N then ret p
      else if (ch =? 95)%N then ret (p_gdc p false)
      else if (ch =? 10)%N then ret (if i_gdc p then p_state (p_gdc p false) ISkipNewLine else p)
      else if is_digit ch then ret (p_nums (p_gdc p false) (push_digit (i_nums p) ch))
      else if (ch =? 44)%N then ret (p_nums (p_gdc p false) (i_nums p ++ [0]))
      else if (ch =? 58)%N then
        let '(x', ok) := exec (w_x w) c (i_nums p) (i_str p) in
        Ok (mkw (p_state (p_nums (p_gdc p true) []) IReadCommandStart) x' (w_fb w), ok)
      else ret (p_state (p_gdc p false) IDefault)
    | IReadCommandStart =>
      let p0 := p_nums p [] in
      if (ch =? 13)%N then ret p0
      else if (ch =? 10)%N then ret (p_state p0 ISkipNewLine)
      else if (ch =? 38)%N then ret (p_lstate (p_state p0 (IReadCommand CH_LOOP)) LStart)
      else match from_char ch with
           | Some c => ret (p_state p0 (IReadCommand c))
           | None => Ok (mkw (p_state p0 IDefault) (w_x w) (w_fb w), false)
           end
    | IGotIgsStart =>
      if (ch =? 35)%N then ret (p_state p IReadCommandStart)
      else let '(f1, _) := fb_print (w_fb w) 71%N in
           let '(f2, ok) := fb_print f1 ch in Ok (mkw (p_state p IDefault) (w_x w) f2, ok)
    | ISkipNewLine =>
      if (ch =? 13)%N then ret (p_state p IDefault)
      else if (ch =? 71)%N then ret (p_state p IGotIgsStart)
      else let '(f, ok) := fb_print (w_fb w) ch in Ok (mkw (p_state p IDefault) (w_x w) f, ok)
    | IDefault =>
      if (ch =? 71)%N then ret (p_state p IGotIgsStart)
      else let '(f, ok) := fb_print (w_fb w) ch in Ok (mkw p (w_x w) f, ok)
    end.

  (* <Parser as BufferParser>::get_next_action: true = Some(action) *)
  Definition igs_next_action (w : iworld) : res (iworld * bool) :=
    match i_loop (w_p w) with
    | None => Ok (w, false)
    | Some l =>
      r <- next_step (w_x w) l ;;
      match r with
      | Some (x', l', ok) => Ok (mkw (p_loop (w_p w) (Some l')) x' (w_fb w), ok)
      | None => Ok (mkw (p_loop (w_p w) None) (w_x w) (w_fb w), false)
      end
    end.

  (* what the terminal does with a parser: characters and get_next_action calls in any order *)
  Inductive event := EChar (ch : N) | ENext.

  Definition igs_event (w : iworld) (e : event) : res (iworld * bool) :=
    match e with EChar ch => igs_step w ch | ENext => igs_next_action w end.

  Fixpoint igs_run (w : iworld) (es : list event) : res iworld :=
    match es with
    | [] => Ok w
    | e :: t => r <- igs_event w e ;; igs_run (fst r) t
    end.
End Igs.
