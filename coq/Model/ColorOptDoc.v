(* Document level of C12: what Buffer::render_to_rgba shows for the buffer returned by
   ColorOptimizer::optimize.  optimize works on b = flat_clone(false): ONE opaque Normal layer holding the
   composited cell of every position; it reads and writes that layer's raw cells.  Rendering b goes through
   Buffer::get_char again, which for such a layer returns the stored cell when it is visible and has no
   transparent colour, and AttributedChar::default() when the stored cell is invisible ([reflat]).
   (Cells with TextAttribute::TRANSPARENT_COLOR are outside C12's quantifier; see wf_cell.) *)
From Coq Require Import NArith List Bool.
From IE Require Gen.Comp.
From IE Require Import Gen.Codepage Model.Attr Model.ColorOpt.
Import ListNotations.
Local Open Scope N_scope.

Definition is_visible (c : cell) : bool := N.land (attr (c_attr c)) ATTR_INVISIBLE =? 0.
Definition default_cell : cell := mkCell 32 default_attribute.
Definition invisible_cell0 : cell := mkCell 32 (mkAttr DEFAULT_FONT_PAGE DEFAULT_FG DEFAULT_BG ATTR_INVISIBLE).
Definition reflat (c : cell) : cell := if is_visible c then c else default_cell.

Definition no_transparent (c : cell) : Prop :=
  foreground_color (c_attr c) <> Comp.TRANSPARENT_COLOR /\ background_color (c_attr c) <> Comp.TRANSPARENT_COLOR.

(* the cells Buffer::get_char yields for documents in C12's quantifier: visible without transparent colour,
   or AttributedChar::invisible() with font page 0 (layers made by Layer::new have default_font_page 0) *)
Definition wf_cell (c : cell) : Prop := (is_visible c = true /\ no_transparent c) \/ c = invisible_cell0.

(* render_to_rgba of the optimised buffer *)
Definition render_optimised (pal : list rgb) (fs : fonts) (normalize : bool) (rows : list (list cell)) :=
  match optimize fs normalize rows with
  | Ok rows' => render pal fs (map (map reflat) rows')
  | Panic s => Panic s
  end.
