(* C02 — loaders on ARBITRARY bytes; executable definitions only.

   Models of the loaders as they are AFTER property C02's fix commits, for the two loaders whose C05 models
   (Model/C05XBin.v load_xb, Model/C05Tundra.v load_tnd) describe the unfixed code (their `Panic 6` sites are reachable):

   Rust item (src/formats/…)                      model
   ---------------------------------------------  ---------------------------------------------------------------
   xbinary.rs  XBin::load_buffer                  load_xb2   (= C05's load_xb + the two `FileTooShort` guards in front of the
                                                              palette and font slices + the compressed branch)
   xbinary.rs  read_data_compressed               xbc_loop / xb_read_compressed (on C05's layer type; the three guards
                                                              `if o >= bytes.len() { break }` in front of the Char / Attr / Full
                                                              arms are explicit, the `bytes[o]` behind them stays a checked read)
   tundra.rs   TundraDraw::load_buffer            load_tnd2 / tnd_loop2 (= C05's tnd_loop + the two `FileTooShort` guards;
                                                              every read behind a guard stays a checked read: Panic 6)
   BIN, ADF, IDF: the C05 models load_bin / load_adf / load_idf are used as they are (their slices are checked reads).

   Every slice / index keeps its explicit `Panic` result; the guards the fixes added are the `Err 5` lines.  That the
   guards make the `Panic` lines unreachable is what Proofs/C02Proofs.v proves; fuel exhaustion is `Panic 99`. *)
From Coq Require Import NArith ZArith Bool List.
From IE Require Import Lib.Tbl Lib.C05Lib Gen.Codepage Gen.Formats Model.Attr Model.C05Buf Model.C05Bin Model.C05XBin
  Model.C05Idf Model.C05Tundra.
Import ListNotations.
Local Open Scope Z_scope.

(* ------------------------------------------------------------------ XBin: compressed image data *)
(* run types: the two top bits of the run header (Compression::{Off, Char, Attr, Full} = 0x00, 0x40, 0x80, 0xC0;
   `transmute` of a masked byte can only be one of the four) *)
Definition xb_run_type (h : N) : N := N.land h 192.
Definition xb_run_count (h : N) : nat := N.to_nat (N.land h 63 + 1).

Definition xb_adv (w x y : Z) : Z * Z := if x + 1 >=? w then (0, y + 1) else (x + 1, y).

Section XbReaders.
  Variable w : Z.
  Variable dec : N -> N -> cell.

  (* Off arm: `for _ in 0..n { if o + 2 > len { break } … }` *)
  Fixpoint xbc_off (n : nat) (L : layer) (x y : Z) (bs : list N) : layer * Z * Z * list N :=
    match n with
    | O => (L, x, y, bs)
    | S k => match bs with
             | c :: a :: r => let '(x', y') := xb_adv w x y in xbc_off k (put false L x y (dec c a)) x' y' r
             | _ => (L, x, y, bs)
             end
    end.
  (* Char arm after `char_code = bytes[o]`: `for _ in 0..n { if o + 1 > len { break } … }` *)
  Fixpoint xbc_char (code : N) (n : nat) (L : layer) (x y : Z) (bs : list N) : layer * Z * Z * list N :=
    match n with
    | O => (L, x, y, bs)
    | S k => match bs with
             | a :: r => let '(x', y') := xb_adv w x y in xbc_char code k (put false L x y (dec code a)) x' y' r
             | [] => (L, x, y, bs)
             end
    end.
  Fixpoint xbc_attr (a : N) (n : nat) (L : layer) (x y : Z) (bs : list N) : layer * Z * Z * list N :=
    match n with
    | O => (L, x, y, bs)
    | S k => match bs with
             | c :: r => let '(x', y') := xb_adv w x y in xbc_attr a k (put false L x y (dec c a)) x' y' r
             | [] => (L, x, y, bs)
             end
    end.
  Fixpoint xbc_full (c : cell) (n : nat) (L : layer) (x y : Z) : layer * Z * Z :=
    match n with
    | O => (L, x, y)
    | S k => let '(x', y') := xb_adv w x y in xbc_full c k (put false L x y c) x' y'
    end.

  (* `bytes[o]` *)
  Definition rd (bs : list N) : res (N * list N) := match bs with b :: t => Ok (b, t) | [] => Panic 6 end.

  (* `while o < bytes.len()`; every iteration consumes the run header: fuel = number of bytes *)
  Fixpoint xbc_loop (fuel : nat) (L : layer) (x y : Z) (bs : list N) : res layer :=
    match bs with
    | [] => Ok L
    | h :: t =>
      match fuel with
      | O => Panic 99
      | S f =>
        let ty := xb_run_type h in
        let n := xb_run_count h in
        if (ty =? 0)%N then
          let '(L', x', y', r) := xbc_off n L x y t in xbc_loop f L' x' y' r
        else if (ty =? 64)%N then
          if (length t <? 1)%nat then Ok L else                       (* the fix: header is the last byte -> break *)
          let* '(code, t') := rd t in
          let '(L', x', y', r) := xbc_char code n L x y t' in xbc_loop f L' x' y' r
        else if (ty =? 128)%N then
          if (length t <? 1)%nat then Ok L else
          let* '(a, t') := rd t in
          let '(L', x', y', r) := xbc_attr a n L x y t' in xbc_loop f L' x' y' r
        else
          if (length t <? 1)%nat then Ok L else
          let* '(code, t') := rd t in
          if (length t' <? 1)%nat then Ok L else                      (* `if o + 1 > len { break }` (was there before) *)
          let* '(a, r) := rd t' in
          let '(L', x', y') := xbc_full (dec code a) n L x y in xbc_loop f L' x' y' r
      end
    end.
End XbReaders.

Definition xb_read_compressed (w : Z) (m : IceMode) (fixed : bool) (L : layer) (data : list N) : res layer :=
  xbc_loop w (xb_decode m fixed) (length data) L 0 0 data.

(* ------------------------------------------------------------------ XBin: load_buffer after the fixes *)
Definition load_xb2 (data : list N) (s : option sauce) : res buffer :=
  let b := set_sauce (buffer_new 80 25) s in
  if (length data <? N.to_nat XBIN_HEADER_SIZE)%nat then Err 1 else
  match data with
  | i0 :: i1 :: i2 :: i3 :: _eof :: wl :: wh :: hl :: hh :: fs :: flags :: rest =>
    if negb (if list_eq_dec N.eq_dec [i0; i1; i2; i3] XBIN_ID then true else false) then Err 2 else
    let w := Z.of_N (wl + wh * 256)%N in
    if (w <? 1) || (4096 <? w) then Err 3 else
    let h := Z.of_N (hl + hh * 256)%N in
    let b := set_height (set_width b w) h in
    let b := set_layer b (layer_clear_lines (layer_set_size (b_layer b) w h)) in
    let font_size := if (fs =? 0)%N then 16%N else fs in
    if (32 <? font_size)%N then Err 4 else
    let ext := has_flag8 flags XBIN_FLAG_512CHAR_MODE in
    let b := set_modes b (if ext then 2 else 3)%N (if ext then 3 else 2)%N in
    let b := set_ice b (if has_flag8 flags XBIN_FLAG_NON_BLINK_MODE then Ice else Blink) in
    let* '(b, rest) :=
       if has_flag8 flags XBIN_FLAG_PALETTE then
         if (length rest <? N.to_nat XBIN_PALETTE_LENGTH)%nat then Err 5 else        (* fix: FileTooShort *)
         let* '(pb, rest) := take_slice (N.to_nat XBIN_PALETTE_LENGTH) rest in
         let* pal := from_63 pb in Ok (set_pal b pal, rest)
       else Ok (b, rest) in
    let* '(b, rest) :=
       if has_flag8 flags XBIN_FLAG_FONT then
         let fl := (N.to_nat font_size * 256)%nat in
         if (length rest <? fl * (if ext then 2 else 1))%nat then Err 5 else         (* fix: FileTooShort *)
         let* '(fb, rest) := take_slice fl rest in
         let* f0 := font_create_8 font_size fb in
         if ext then
           let* '(fb1, rest) := take_slice fl rest in
           let* f1 := font_create_8 font_size fb1 in
           Ok (set_fonts b [(0%N, font_named_default f0); (1%N, font_named_default f1)], rest)
         else Ok (set_fonts b [(0%N, font_named_default f0)], rest)
       else Ok (b, rest) in
    let* L := if has_flag8 flags XBIN_FLAG_COMPRESS
              then xb_read_compressed (b_w b) (b_ice b) ext (b_layer b) rest
              else Ok (xb_read_uncompressed (b_w b) (b_ice b) ext (b_layer b) 0 0 rest) in
    Ok (crop_loaded_file (set_layer b L))
  | _ => Err 1
  end.

(* ------------------------------------------------------------------ Tundra: load_buffer after the fix *)
Definition tnd_record_len (cmd : N) : nat :=
  (1 + (if negb (N.land cmd TUNDRA_COLOR_FOREGROUND =? 0)%N then 4 else 0)
     + (if negb (N.land cmd TUNDRA_COLOR_BACKGROUND =? 0)%N then 4 else 0))%nat.

Fixpoint tnd_loop2 (fuel : nat) (w : Z) (L : layer) (pal : list rgb) (at0 : TextAttribute) (x y : Z) (data : list N)
  : res (layer * list rgb) :=
  match data with
  | [] => Ok (L, pal)
  | cmd :: rest =>
    match fuel with
    | O => Panic 99
    | S fuel' =>
      if (cmd =? TUNDRA_POSITION)%N then
        if (length rest <? 8)%nat then Err 5 else                                     (* fix: FileTooShort *)
        match rest with
        | a0 :: a1 :: a2 :: a3 :: rest1 =>
          let y' := be_i32 a0 a1 a2 a3 in
          if y' >=? 65535 then Err 3 else
          match rest1 with
          | c0 :: c1 :: c2 :: c3 :: rest2 =>
            let x' := be_i32 c0 c1 c2 c3 in
            if x' >=? w then Err 4 else tnd_loop2 fuel' w L pal at0 x' y' rest2
          | _ => Panic 6
          end
        | _ => Panic 6
        end
      else
        let* '(ch, pal1, at1, rest1) :=
           if (1 <? cmd)%N && (cmd <=? 6)%N then
             if (length rest <? tnd_record_len cmd)%nat then Err 5 else               (* fix: FileTooShort *)
             match rest with
             | [] => Panic 6
             | ch :: r0 =>
               let* '(pal1, at1, r1) :=
                  if negb (N.land cmd TUNDRA_COLOR_FOREGROUND =? 0)%N then
                    let* '(c, r1) := tnd_color r0 in
                    let '(pal1, i) := insert_color pal c in Ok (pal1, with_fg at0 i, r1)
                  else Ok (pal, at0, r0) in
               let* '(pal2, at2, r2) :=
                  if negb (N.land cmd TUNDRA_COLOR_BACKGROUND =? 0)%N then
                    let* '(c, r2) := tnd_color r1 in
                    let '(pal2, i) := insert_color pal1 c in Ok (pal2, with_bg at1 i, r2)
                  else Ok (pal1, at1, r1) in
               Ok (ch, pal2, at2, r2)
             end
           else Ok (cmd, pal, at0, rest) in
        let L' := put true L x y (mkCell ch at1) in
        if x + 1 >=? w then tnd_loop2 fuel' w L' pal1 at1 0 (y + 1) rest1
        else tnd_loop2 fuel' w L' pal1 at1 (x + 1) y rest1
    end
  end.

Definition load_tnd2 (data : list N) (s : option sauce) : res buffer :=
  let b := set_sauce (buffer_new 80 25) s in
  if (length data <? 1 + length TUNDRA_HEADER)%nat then Err 1 else
  match data with
  | [] => Err 1
  | _ver :: rest =>
    if negb (if list_eq_dec N.eq_dec (firstn (length TUNDRA_HEADER) rest) TUNDRA_HEADER then true else false) then Err 2 else
    let b := set_modes (set_ice (set_pal b [(0, 0, 0)%N]) Ice) 0 (b_fmode b) in
    let body := skipn (length TUNDRA_HEADER) rest in
    let* '(L, pal) := tnd_loop2 (length body) (b_w b) (b_layer b) (b_pal b) (from_u8 0 Ice) 0 0 body in
    Ok (set_height (set_width (set_pal (set_layer b L) pal) (l_w L)) (l_h L))
  end.
