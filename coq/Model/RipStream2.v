(* The RIP parser as a whole with the extended command set (line family): as Model/RipStream.v, with the BGI state [lbgi]
   (kernel state + line style / pattern / thickness) and Command::run = BgiLine.run_cmd2.
   Mirrors <rip::Parser as BufferParser>::print_char seen from outside.  Executable definitions only. *)
From Coq Require Import NArith ZArith List Bool.
From IE Require Import Gen.RipGen Model.RipTok Model.BgiKernel Model.BgiLine Model.RipStream.
Import ListNotations.
Local Open Scope Z_scope.

Section Stream2.
  Variable FS : Type.                           (* state of the fallback ansi::Parser (+ the buffer it prints into) *)
  Variable fb_print : FS -> N -> FS * bool.     (* fallback_parser.print_char: new state, true = Ok / false = Err *)
  Variable fb_mode : FS -> fbmode.              (* fallback_parser.state / parsed_numbers.first() *)
  Variable fb_reset : FS -> FS.                 (* fallback_parser.state = EngineState::Default *)

  Record rstate2 := { r_tok2 : tok; r_bgi2 : lbgi; r_fb2 : FS }.

  Inductive outcome2 := OOk2 (s : rstate2) (ok : bool) | OPanic2 (site : N) | OUnmodelled2.

  Definition rip_step2 (s : rstate2) (ch : N) : outcome2 :=
    match tok_step (fb_mode (r_fb2 s)) (r_tok2 s) ch with
    | SPanic p => OPanic2 p
    | SOk t a reset =>
      let fs := if reset then fb_reset (r_fb2 s) else r_fb2 s in
      match a with
      | ANone => OOk2 {| r_tok2 := t; r_bgi2 := r_bgi2 s; r_fb2 := fs |} true
      | AErrQuery => OOk2 {| r_tok2 := t; r_bgi2 := r_bgi2 s; r_fb2 := fs |} false
      | ARun c =>
        match run_cmd2 (r_bgi2 s) c with
        | ROk2 b => OOk2 {| r_tok2 := t; r_bgi2 := b; r_fb2 := fs |} true
        | RPanic2 p => OPanic2 p
        | RUnmodelled2 => OUnmodelled2
        end
      | APrint cs =>
        if suspend_text (lb (r_bgi2 s)) then OOk2 {| r_tok2 := t; r_bgi2 := r_bgi2 s; r_fb2 := fs |} true
        else let '(fs', ok) := print_all FS fb_print fs cs in OOk2 {| r_tok2 := t; r_bgi2 := r_bgi2 s; r_fb2 := fs' |} ok
      | APrintAlways cs =>
        let '(fs', ok) := print_all FS fb_print fs cs in OOk2 {| r_tok2 := t; r_bgi2 := r_bgi2 s; r_fb2 := fs' |} ok
      end
    end.

  (* feed a stream; the second component counts the characters answered with Err *)
  Fixpoint rip_run2 (s : rstate2) (errs : N) (cs : list N) : outcome2 * N :=
    match cs with
    | [] => (OOk2 s true, errs)
    | c :: t => match rip_step2 s c with
                | OOk2 s' ok => rip_run2 s' (if ok then errs else N.succ errs) t
                | o => (o, errs)
                end
    end.
End Stream2.

Arguments r_tok2 {FS}. Arguments r_bgi2 {FS}. Arguments r_fb2 {FS}.
Arguments OOk2 {FS}. Arguments OPanic2 {FS}. Arguments OUnmodelled2 {FS}.
