(* Specification-side definitions for C11 (executable, no proofs): the values a SAUCE variant carries
   (`carried`), the normal forms of the string fields after a write/read cycle, well-formedness of the
   writer's input, and the byte layout the writer appends (`sauce_tail`). *)
From Coq Require Import NArith ZArith List Bool Arith.
From IE Require Import Lib.Tbl Gen.Sauce Model.Sauce.
Import ListNotations.
Local Open Scope nat_scope.

Definition is32 (b : N) : bool := N.eqb b 32.
Definition nz (b : N) : bool := negb (N.eqb b 0).
Fixpoint take_while (p : N -> bool) (s : list N) : list N :=
  match s with [] => [] | x :: t => if p x then x :: take_while p t else [] end.

(* a blank-padded field after append_to + read: trailing blanks (0x20) removed; an all-blank field comes back
   as LEN blanks (last_non_empty stays LEN, nothing is truncated) *)
Definition norm_blank (LEN : nat) (s : list N) : list N :=
  if forallb is32 s then repeat 32%N LEN else strip_end is32 s.
(* a NUL-padded field after append_to + read: cut at the first NUL *)
Definition norm_nul (s : list N) : list N := take_while nz s.

Definition pad (LEN : nat) (E : N) (s : list N) : list N := s ++ repeat E (LEN - length s).

(* TInfoS: the font name as it comes back (CP437-encoded, at most 22 characters, cut at the first NUL,
   Display strips trailing blanks/NULs) *)
Definition carried_font (name : list N) : list N := ss_to_string (norm_nul (ss_from TINFOS_LEN name)).

Definition wf_sauce (s : wsauce) : Prop :=
  length (w_title s) <= TITLE_LEN /\ length (w_author s) <= AUTHOR_LEN /\ length (w_group s) <= GROUP_LEN /\
  length (w_comments s) <= 255 /\ Forall (fun c => length c <= COMMENT_LEN) (w_comments s).
Definition wf (b : wbuf) : Prop := match b_sauce b with Some s => wf_sauce s | None => True end.

Definition w_strings (b : wbuf) : list N * list N * list N * list (list N) :=
  match b_sauce b with
  | Some s => (w_title s, w_author s, w_group s, w_comments s)
  | None => ([], [], [], [])
  end.
Definition w_flags (b : wbuf) : bool * bool :=      (* (letter spacing, aspect ratio) *)
  match b_sauce b with Some s => (w_ls s, w_ar s) | None => (false, false) end.

Definition comment_block_len (n : nat) : nat := match n with O => 0 | _ => COMMENT_ID_LEN + COMMENT_STRIDE * n end.

(* what `extract` returns for a file written as variant ft (FtUndefined is written as ANSi) *)
Definition carried (ft : sft) (b : wbuf) (name : list N) (date : ymd) : sauce :=
  let '(t, a, g, cs) := w_strings b in
  let '(ls, ar) := w_flags b in
  let w16 := (b_width b mod 65536)%Z in
  let h16 := (b_height b mod 65536)%Z in
  let hl := 1 + comment_block_len (length cs) + SAUCE_LEN in
  let mk dt w h font ice ls ar ftype :=
    mkSauce (norm_blank TITLE_LEN t) (norm_blank AUTHOR_LEN a) (norm_blank GROUP_LEN g) (map norm_nul cs)
            dt w h date font ice ls ar hl ftype in
  match ft with
  | FtAscii => mk DT_CHARACTER w16 h16 (Some (carried_font name)) (b_ice b) ls ar FtAscii
  | FtUndefined | FtAnsi => mk DT_CHARACTER w16 h16 (Some (carried_font name)) (b_ice b) ls ar FtAnsi
  | FtANSiMation => mk DT_CHARACTER w16 h16 (Some (carried_font name)) (b_ice b) false false FtANSiMation
  | FtPCBoard => mk DT_CHARACTER w16 h16 None false false false FtPCBoard
  | FtAvatar => mk DT_CHARACTER w16 h16 None false false false FtAvatar
  | FtTundraDraw => mk DT_CHARACTER w16 0%Z None false false false FtTundraDraw
  | FtBin => mk DT_BINARYTEXT ((Z.quot (b_width b) 2 mod 256) * 2)%Z 25%Z (Some (carried_font name)) (b_ice b) false false FtBin
  | FtXBin => mk DT_XBIN w16 h16 None false false false FtXBin
  end.

(* the bytes write_sauce_info appends to a content of length clen *)
Definition comment_block (cs : list (list N)) : list N :=
  match cs with [] => [] | _ => SAUCE_COMMENT_ID ++ concat (map (pad COMMENT_LEN COMMENT_PAD) cs) end.
Definition sauce_record (t a g date : list N) (file_size : N) (dt fty : N) (t1 t2 : Z) (nc fl : N) (nm : list N) : list N :=
  SAUCE_ID ++ SAUCE_VERSION ++ pad TITLE_LEN TITLE_PAD t ++ pad AUTHOR_LEN AUTHOR_PAD a ++ pad GROUP_LEN GROUP_PAD g
  ++ date ++ le32 file_size ++ [dt; fty] ++ le16 t1 ++ le16 t2 ++ [0; 0; 0; 0; nc; fl]%N
  ++ pad TINFOS_LEN TINFOS_PAD (ss_from TINFOS_LEN nm).
