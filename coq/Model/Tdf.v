(* Model of the TheDraw font (TDF) reader and writer of icy_engine (executable Gallina only, no proofs).

   Mirrors, in src/tdf_font/mod.rs (after the `fix:` commits of the C17 branch):
     TheDrawFont::add_font_data      -> add_font_data  (enc_table is its `for glyph in &self.char_table` loop)
     TheDrawFont::as_tdf_bytes       -> as_tdf_bytes
     TheDrawFont::create_font_bundle -> create_font_bundle
     TheDrawFont::from_tdf_bytes     -> from_tdf_bytes (read_fonts = its `while o < bytes.len()` loop,
                                        read_font = one iteration, read_glyph / read_glyph_data = the glyph scan)

   Coordinates. The Rust reader keeps an absolute offset `o` into `bytes` and compares offsets with
   `bytes.len()`. The model works on the suffix `bytes[o..]`: `bytes[o + k]` is element k of the suffix and
   `x >= bytes.len()` is "the suffix after x - o elements is empty". Error payloads (offsets) are not observed,
   only error classes. Every index is a checked access (`take`, pattern match) that yields `Panic site`:
     site 11 header fields of from_tdf_bytes (bytes[o], bytes[o..o+4], name, type, spaces, block size, table)
     site 12 glyph width/height bytes     site 13 attribute byte of a colour glyph
   Error classes: 11 FileTooShort, 12 IdMismatch, 13 NameTooLong, 14 UnsupportedTtfType, 15 DataOverflow,
     16 GlyphOutsideFontDataSize, 17 LetterSpaceTooMuch, 18 IdLengthMismatch, 19 FontIndicatorMismatch.

   The writer's loop over the glyph table is written as a structural recursion that returns (lookup table bytes,
   glyph data bytes) given the length of the glyph data written so far; the Rust code accumulates the same two
   vectors left to right.

   String::from_utf8_lossy is a parameter (`lossy`) of the reader; the theorems that need it assume only that it
   is the identity on valid UTF-8 (utf8_valid below mirrors the validity rules of core::str). *)
From Coq Require Import NArith ZArith List Bool.
From IE Require Import Lib.C17Lib Gen.FontConsts.
Import ListNotations.
Local Open Scope N_scope.

Inductive ftype := Outline | Block | Color.
Record tglyph := mkGlyph { g_w : Z; g_h : Z; g_data : list N }.        (* FontGlyph { size: Size, data } *)
Record tfont := mkTFont { t_name : list N; t_type : ftype; t_spaces : Z; t_table : list (option tglyph) }.

Definition E_TOO_SHORT : N := 11.
Definition E_ID_MISMATCH : N := 12.
Definition E_NAME_TOO_LONG : N := 13.
Definition E_TYPE : N := 14.
Definition E_DATA_OVERFLOW : N := 15.
Definition E_GLYPH_OUTSIDE : N := 16.
Definition E_LETTER_SPACE : N := 17.
Definition E_ID_LENGTH : N := 18.
Definition E_INDICATOR : N := 19.

Definition type_byte (t : ftype) : N := match t with Outline => 0 | Block => 1 | Color => 2 end.
Definition is_color (t : ftype) : bool := match t with Color => true | _ => false end.

(* ------------------------------------------------------------------------------------------------ writer *)
Definition glyph_bytes (g : tglyph) : list N := as_u8 (g_w g) :: as_u8 (g_h g) :: g_data g ++ [0].

(* off = font_data.len() so far; `font_data.len() as u16` *)
Fixpoint enc_table (tbl : list (option tglyph)) (off : N) : list N * list N :=
  match tbl with
  | [] => ([], [])
  | None :: t => let r := enc_table t off in (u16le 65535 ++ fst r, snd r)
  | Some g :: t =>
    let ge := glyph_bytes g in
    let r := enc_table t (off + lenN ge) in
    (u16le (off mod 65536) ++ fst r, ge ++ snd r)
  end.

Definition add_font_data (f : tfont) : res (list N) :=
  if FONT_NAME_LEN <? lenN (t_name f) then Err E_NAME_TOO_LONG else
  if (Z.of_N MAX_LETTER_SPACE <? t_spaces f)%Z then Err E_LETTER_SPACE else
  let r := enc_table (t_table f) 0 in
  if 65535 <? lenN (snd r) then Err E_DATA_OVERFLOW else
  Ok (u32le FONT_INDICATOR ++ [FONT_NAME_LEN] ++ t_name f
      ++ repeat 0 (N.to_nat (FONT_NAME_LEN - lenN (t_name f))) ++ [0; 0; 0; 0]
      ++ [type_byte (t_type f)] ++ [as_u8 (t_spaces f)]
      ++ u16le (lenN (snd r)) ++ fst r ++ snd r).

Definition tdf_header : list N := [lenN THE_DRAW_FONT_ID + 1] ++ THE_DRAW_FONT_ID ++ [CTRL_Z].

Definition as_tdf_bytes (f : tfont) : res (list N) :=
  do d <- add_font_data f; Ok (tdf_header ++ d).

Fixpoint add_fonts (fs : list tfont) : res (list N) :=
  match fs with
  | [] => Ok []
  | f :: t => do d <- add_font_data f; do r <- add_fonts t; Ok (d ++ r)
  end.
Definition create_font_bundle (fs : list tfont) : res (list N) :=
  do d <- add_fonts fs; Ok (tdf_header ++ d ++ [0]).

(* ------------------------------------------------------------------------------------------------ reader *)
(* the `loop { … }` that collects glyph bytes up to the terminating 0; s = bytes[char_offset..] *)
Fixpoint read_glyph_data (color : bool) (s : list N) (acc : list N) : res (list N) :=
  match s with
  | [] => Err E_DATA_OVERFLOW
  | ch :: s' =>
    if ch =? 0 then Ok (rev acc)
    else if color then
      if ch =? 13 then read_glyph_data color s' (ch :: acc)
      else match s' with
           | [] => Err E_DATA_OVERFLOW                     (* fix: was an out-of-bounds index *)
           | a :: s'' => read_glyph_data color s'' (a :: ch :: acc)
           end
    else read_glyph_data color s' (ch :: acc)
  end.

(* data = bytes[o..] with o just behind the lookup table; one lookup-table entry *)
Definition read_glyph (color : bool) (block_size : N) (data : list N) (off : N) : res (option tglyph) :=
  if off =? 65535 then Ok None else
  if block_size <=? off then Err E_GLYPH_OUTSIDE else
  if lenN data <? off + 2 then Err E_DATA_OVERFLOW else     (* fix: char_offset + 2 > bytes.len() *)
  match skipn (N.to_nat off) data with
  | w :: h :: s => do d <- read_glyph_data color s []; Ok (Some (mkGlyph (Z.of_N w) (Z.of_N h) d))
  | _ => Panic 12
  end.

Fixpoint read_glyphs (color : bool) (block_size : N) (data : list N) (offs : list N) : res (list (option tglyph)) :=
  match offs with
  | [] => Ok []
  | off :: t => do g <- read_glyph color block_size data off;
                do r <- read_glyphs color block_size data t; Ok (g :: r)
  end.

(* `for _ in 0..CHAR_TABLE_SIZE { bytes[o] as u16 | (bytes[o+1] as u16) << 8 }` *)
Fixpoint read_u16s (k : nat) (s : list N) : res (list N * list N) :=
  match k with
  | O => Ok ([], s)
  | S k' => match s with
            | a :: b :: t => do r <- read_u16s k' t; Ok (le16 [a; b] :: fst r, snd r)
            | _ => Panic 11
            end
  end.

(* the name scan: `for i in 0..font_name_len { if bytes[o + i] == 0 { font_name_len = i; break; } }` *)
Fixpoint until_nul (s : list N) : list N :=
  match s with [] => [] | c :: t => if c =? 0 then [] else c :: until_nul t end.

(* `bytes[o]` followed by `o += 1` *)
Definition take1 (site : N) (s : list N) : res (N * list N) :=
  match s with [] => Panic site | x :: t => Ok (x, t) end.

Section Lossy.
  Variable lossy : list N -> list N.     (* String::from_utf8_lossy(..).to_string() as UTF-8 bytes *)

  (* one iteration of the `while o < bytes.len()` loop, s = bytes[o..] (non-empty, s[0] != 0);
     returns the font and bytes[o + header + block_size ..] *)
  Definition read_font (s : list N) : res (tfont * list N) :=
    if lenN s <? THE_DRAW_FONT_HEADER_SIZE - (lenN THE_DRAW_FONT_ID + 2) then Err E_TOO_SHORT else   (* fix *)
    do i <- take 11 4 s;
    if negb (le32 (fst i) =? FONT_INDICATOR) then Err E_INDICATOR else
    do l <- take1 11 (snd i);
    let name_len := fst l in
    if FONT_NAME_LEN <? name_len then Err E_NAME_TOO_LONG else
    do nm <- take 11 (N.to_nat name_len) (snd l);          (* bytes[o + i], i < font_name_len *)
    let name := lossy (until_nul (fst nm)) in
    do pad <- take 11 (N.to_nat FONT_NAME_LEN) (snd l);     (* o += FONT_NAME_LEN *)
    do magic <- take 11 4 (snd pad);                        (* o += 4 *)
    do tb <- take1 11 (snd magic);
    do ty <- (if fst tb =? 0 then Ok Outline else if fst tb =? 1 then Ok Block
              else if fst tb =? 2 then Ok Color else Err E_TYPE);
    do sp <- take1 11 (snd tb);
    let spaces := fst sp in
    if MAX_LETTER_SPACE <? spaces then Err E_LETTER_SPACE else
    do bs <- take 11 2 (snd sp);
    let block_size := le16 (fst bs) in
    do tbl <- read_u16s (N.to_nat CHAR_TABLE_SIZE) (snd bs);
    let data := snd tbl in
    do gl <- read_glyphs (is_color ty) block_size data (fst tbl);
    Ok (mkTFont name ty (Z.of_N spaces) gl, skipn (N.to_nat block_size) data).

  (* fuel = number of bytes: every iteration advances o by at least the 213 header bytes *)
  Fixpoint read_fonts (fuel : nat) (s : list N) (acc : list tfont) : res (list tfont) :=
    match fuel with
    | O => Diverge
    | S k =>
      match s with
      | [] => Ok (rev acc)                                  (* while o < bytes.len() *)
      | c :: _ =>
        if c =? 0 then Ok (rev acc)                         (* if bytes[o] == 0 { break; } *)
        else do fr <- read_font s; read_fonts k (snd fr) (fst fr :: acc)
      end
    end.

  Definition from_tdf_bytes (bytes : list N) : res (list tfont) :=
    if lenN bytes <? THE_DRAW_FONT_HEADER_SIZE then Err E_TOO_SHORT else
    do l <- take1 11 bytes;
    if negb (fst l =? lenN THE_DRAW_FONT_ID + 1) then Err E_ID_LENGTH else
    do id <- take 11 (length THE_DRAW_FONT_ID) (snd l);
    if negb (forallb (fun p => fst p =? snd p) (combine (fst id) THE_DRAW_FONT_ID)) then Err E_ID_MISMATCH else
    do z <- take1 11 (snd id);
    if negb (fst z =? CTRL_Z) then Err E_ID_MISMATCH else
    read_fonts (S (length bytes)) (snd z) [].
End Lossy.

(* ---------------------------------------------------------------------------------------- UTF-8 validity *)
(* core::str::from_utf8 accepts exactly the well-formed sequences of Unicode table 3-7 *)
Definition in_range (lo hi b : N) : bool := (lo <=? b) && (b <=? hi).
Definition cont (b : N) : bool := in_range 128 191 b.
Fixpoint utf8_valid (s : list N) : bool :=
  match s with
  | [] => true
  | a :: t =>
    if a <? 128 then utf8_valid t
    else if in_range 194 223 a then
      match t with b :: t1 => cont b && utf8_valid t1 | _ => false end
    else if in_range 224 239 a then
      match t with
      | b :: c :: t2 =>
        (if a =? 224 then in_range 160 191 b else if a =? 237 then in_range 128 159 b else cont b)
        && cont c && utf8_valid t2
      | _ => false
      end
    else if in_range 240 244 a then
      match t with
      | b :: c :: d :: t3 =>
        (if a =? 240 then in_range 144 191 b else if a =? 244 then in_range 128 143 b else cont b)
        && cont c && cont d && utf8_valid t3
      | _ => false
      end
    else false
  end.
