(* M-sixelcost (C03 extension d): the sixel decoder of Model/Sixel.v (SixelParser::parse_from / parse_char, src/sixel_mod.rs) with an
   iteration counter.  Executable definitions only.
     iterations = calls of parse_char + calls of parse_sixel_data made by the `for _ in 0..*i` loop of SixelState::Repeat
     rep_sum    = the repeat counts that are executed (the known class `sixel-repeat`)
     decl_max   = the largest width / height declared by raster attributes (double quote, then v ; h ; width ; height)  (the known class `sixel-raster`)
     sixel_bytes = bytes held by picture_data : Vec<Vec<u8>> *)
From Coq Require Import ZArith NArith List Bool.
From IE Require Import Model.Sixel.
From IE Require Model.Cost.
Import ListNotations.
Local Open Scope Z_scope.

Definition zlenN {A} (l : list A) : Z := Z.of_nat (length l).
Definition sixel_bytes (r : list (list N)) : Z := fold_right (fun l a => zlenN l + a) 0 r.
Definition mxl (r : list (list N)) : Z := Z.of_nat (max_len r).

Section WithHsl.
Variable hsl : Z -> Z -> Z -> rgb.

Definition parse_char_t (s : sx) (ch : Z) : res sx * Z :=
  match st s with
  | Repeat =>
    if is_digit ch then (parse_char hsl s ch, 1)
    else match nums s with
         | i :: _ => if MAX_SIXEL_DIMENSION <? i then (Err 3, 1)          (* the fix: a count beyond the limit is refused before the loop *)
                     else let r := Cost.repeat_data_t (Z.to_nat i) s ch 0 in (do s' <- fst r; Ok (set_st s' Read), 1 + snd r)
         | [] => (Err 4, 1)
         end
  | _ => (parse_char hsl s ch, 1)
  end.
Fixpoint parse_chars_t (s : sx) (cs : list Z) (k : Z) : res sx * Z :=
  match cs with
  | [] => (Ok s, k)
  | c :: t => let r := parse_char_t s c in
              match fst r with
              | Ok s' => parse_chars_t s' t (k + snd r)
              | e => (e, k + snd r)
              end
  end.
(* the repeat count executed by this character (0 when it is not the character that ends a `!n` group) *)
Definition rep_of (s : sx) (ch : Z) : Z :=
  match st s with
  | Repeat => if is_digit ch then 0 else match nums s with i :: _ => if MAX_SIXEL_DIMENSION <? i then 0 else Z.max 0 i | [] => 0 end
  | _ => 0
  end.
Fixpoint rep_sum (s : sx) (cs : list Z) : Z :=
  match cs with
  | [] => 0
  | c :: t => rep_of s c + match parse_char hsl s c with Ok s' => rep_sum s' t | _ => 0 end
  end.
(* width / height declared by this character (the one that ends raster attributes) *)
Definition decl_of (s : sx) (ch : Z) : Z * Z :=
  match st s with
  | ReadSize => if is_digit ch || (ch =? 59) then (0, 0)
                else match nums s with
                     | _ :: _ :: [hh] => (0, Z.max 0 hh)
                     | _ :: _ :: [ww; hh] => (Z.max 0 ww, Z.max 0 hh)
                     | _ => (0, 0)
                     end
  | _ => (0, 0)
  end.
Fixpoint decl_max (s : sx) (cs : list Z) : Z * Z :=
  match cs with
  | [] => (0, 0)
  | c :: t => let d := decl_of s c in
              let r := match parse_char hsl s c with Ok s' => decl_max s' t | _ => (0, 0) end in
              (Z.max (fst d) (fst r), Z.max (snd d) (snd r))
  end.
End WithHsl.

(* the bound of sixel_alloc_bound, as a function (stage C evaluates it) *)
Definition sixel_cap (x0 y0 h0 l0 T dw dh : Z) : Z :=
  Z.max (Z.max h0 (6 * (y0 + T) + 6)) dh * Z.max (Z.max l0 (4 * (x0 + T))) (4 * dw).
