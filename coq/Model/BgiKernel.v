(* Model of the BGI kernel the modelled RIP commands draw with: src/parsers/rip/bgi/mod.rs
     struct Bgi {color, bkcolor, write_mode, fill_style, fill_user_pattern, fill_color, window, viewport, palette, screen,
                 current_pos, suspend_text, text_window, text_window_wrap}
     Bgi::{set_color, set_bk_color, set_fill_style, set_fill_color, set_user_fill_pattern, set_write_mode, set_palette,
           set_palette_color, get_pixel, put_pixel, move_to, bar, bar_rect, clear_device, graph_defaults, set_text_window,
           clear_text_window, set_viewport, clear_viewport}, FillStyle::get_fill_pattern, WriteMode::from, FillStyle::from
   src/lib.rs  Rectangle::{from, contains, intersect, left, top, right, bottom, get_width, get_height}, Position::{min, max}
   src/palette_handling.rs  Palette::{new, clear, push, set_color, dos_default}
   and of Command::run of the level-0 commands that touch nothing else (src/parsers/rip/commands.rs):
     TextWindow, ViewPort, ResetWindows, EraseWindow, EraseView, GotoXY, Color, SetPalette, OnePalette, WriteMode, Move, Pixel,
     Bar, FillStyle, FillPattern, and the commands whose run does nothing to the BGI state (Home, EraseEOL, TextVariable,
     MouseFields, BeginText, RegionText, EndText, WriteIcon, Define, Query, ReadScene, EnterBlockMode).

   i32 arithmetic is checked (dev profile): [chk] returns Panic SITE_I32 when a result leaves the i32 range.  Slice / Vec
   indexing is checked: [idx] / [set_px] return Panic when out of bounds.  `as usize` of a negative i32 is a huge number:
   modelled by the explicit sign tests.  Not in the record (no modelled command reads them): line style / pattern /
   thickness, font, direction, char_size, button style, mouse fields, rip_image, file_path.
   Executable definitions only. *)
From Coq Require Import NArith ZArith List Bool.
From IE Require Import Gen.RipGen Model.RipTok.
Import ListNotations.
Local Open Scope Z_scope.

Definition SITE_I32 : N := 10.          (* arithmetic overflow *)
Definition SITE_SCREEN_INDEX : N := 11. (* self.screen[pos] *)
Definition SITE_PATTERN_INDEX : N := 12. (* pattern[ypat as usize] / DEFAULT_FILL_PATTERNS[self as usize] *)
Definition SITE_SHIFT : N := 13. (* 128 >> (rect.left() % 8) with a negative amount *)
Definition SITE_EGA_INDEX : N := 14.    (* EGA_PALETTE[i] (in range by the modulus after the fix) *)
Definition SITE_ARG : N := 15.          (* model encoding: a command without the fields its run reads (never) *)

Definition bind {A B} (r : res A) (k : A -> res B) : res B := match r with Ok a => k a | Panic s => Panic s end.
Notation "x <- r ;; k" := (bind r (fun x => k)) (at level 61, r at next level, right associativity).

Definition chk (z : Z) : res Z := if in_i32 z then Ok z else Panic SITE_I32.

Definition rect := (Z * Z * Z * Z)%type.   (* start.x, start.y, size.width, size.height *)
Definition rgb := (N * N * N)%type.

Inductive wmode := WCopy | WXor | WOr | WAnd | WNot.

Record bgi := {
  color : N; bkcolor : N; write_mode : wmode;
  fill_style : N;                (* FillStyle as usize: 0 Empty, 1 Solid, …, 12 User *)
  fill_user_pattern : list N; fill_color : N;
  win_w : Z; win_h : Z;          (* window: Size *)
  viewport : rect; palette : list rgb; screen : list N;
  cur_x : Z; cur_y : Z; suspend_text : bool;
  text_window : option rect; text_window_wrap : bool }.

Definition upd_screen (s : bgi) (scr : list N) : bgi :=
  {| color := color s; bkcolor := bkcolor s; write_mode := write_mode s; fill_style := fill_style s;
     fill_user_pattern := fill_user_pattern s; fill_color := fill_color s; win_w := win_w s; win_h := win_h s;
     viewport := viewport s; palette := palette s; screen := scr; cur_x := cur_x s; cur_y := cur_y s;
     suspend_text := suspend_text s; text_window := text_window s; text_window_wrap := text_window_wrap s |}.

(* Bgi::new *)
Definition bgi_new : bgi :=
  {| color := 7; bkcolor := 0; write_mode := WCopy; fill_style := 1; fill_user_pattern := DEFAULT_USER_PATTERN; fill_color := 0;
     win_w := SCREEN_W; win_h := SCREEN_H; viewport := (0, 0, SCREEN_W, SCREEN_H); palette := DOS_DEFAULT_PALETTE;
     screen := repeat 0%N (Z.to_nat (SCREEN_W * SCREEN_H)); cur_x := 0; cur_y := 0; suspend_text := false;
     text_window := None; text_window_wrap := false |}.

(* ---- Rectangle ---- *)
Definition r_right (r : rect) : res Z := let '(x, _, w, _) := r in chk (x + w).
Definition r_bottom (r : rect) : res Z := let '(_, y, _, h) := r in chk (y + h).

(* Rectangle::contains (inclusive on both ends) *)
Definition r_contains (r : rect) (px py : Z) : res bool :=
  let '(x, y, w, h) := r in
  if negb (x <=? px) then Ok false
  else xr <- chk (x + w) ;;
       if negb (px <=? xr) then Ok false
       else if negb (y <=? py) then Ok false
       else yb <- chk (y + h) ;; Ok (py <=? yb).

(* Rectangle::intersect: min = start.max(other.start) ; max = bottom_right.min(other.bottom_right) ; size = max - min *)
Definition r_intersect (a b : rect) : res rect :=
  let '(ax, ay, aw, ah) := a in let '(bx, by_, bw, bh) := b in
  let minx := Z.max ax bx in let miny := Z.max ay by_ in
  ar <- chk (ax + aw) ;; ab <- chk (ay + ah) ;; br <- chk (bx + bw) ;; bb <- chk (by_ + bh) ;;
  w <- chk (Z.min ar br - minx) ;; h <- chk (Z.min ab bb - miny) ;;
  Ok (minx, miny, w, h).

(* ---- checked indexing ---- *)
Definition idx {A} (site : N) (l : list A) (i : Z) : res A :=
  if i <? 0 then Panic site else match nth_error l (Z.to_nat i) with Some v => Ok v | None => Panic site end.

Definition set_px (scr : list N) (i : nat) (v : N) : res (list N) :=
  match set_nth scr i v with Some l => Ok l | None => Panic SITE_SCREEN_INDEX end.

Definition wm_apply (m : wmode) (old c : N) : N :=
  match m with
  | WCopy => c
  | WXor => N.lxor old c
  | WOr => N.lor old c
  | WAnd => N.land old c
  | WNot => ((255 - c) mod NOT_MOD)%N      (* !color % 16 on u8 *)
  end.

(* Bgi::put_pixel *)
Definition put_pixel (s : bgi) (x y : Z) (c : N) : res bgi :=
  inside <- r_contains (viewport s) x y ;;
  if negb inside then Ok s
  else m <- chk (y * win_w s) ;; pos <- chk (m + x) ;;
       (* `as usize`: a negative offset is astronomically large and fails the length test below *)
       if (pos <? 0) || (Z.of_nat (length (screen s)) <=? pos) then Ok s
       else old <- idx SITE_SCREEN_INDEX (screen s) pos ;;
            scr <- set_px (screen s) (Z.to_nat pos) (wm_apply (write_mode s) old c) ;;
            Ok (upd_screen s scr).

(* Bgi::get_pixel *)
Definition get_pixel (s : bgi) (x y : Z) : res N :=
  m <- chk (y * win_w s) ;; o <- chk (m + x) ;;
  if (o <? 0) || (Z.of_nat (length (screen s)) <=? o) then Ok 0%N else idx SITE_SCREEN_INDEX (screen s) o.

(* ---- bar_rect ---- *)
(* the inner loop of bar_rect, one pixel at a time:
     for each value v: if x_start >= screen.len() { break } ; screen[x_start] = v ; x_start += 1            *)
Fixpoint row_loop_px (scr : list N) (start : nat) (vals : list N) : res (list N) :=
  match vals with
  | [] => Ok scr
  | v :: vs => if Nat.leb (length scr) start then Ok scr
               else scr' <- set_px scr start v ;; row_loop_px scr' (S start) vs
  end.

(* the same loop in one pass over the list (Proofs/BgiProofs.v: row_loop_px scr start vals = Ok (row_fill scr start vals)) *)
Fixpoint row_fill (scr : list N) (start : nat) (vals : list N) : list N :=
  match scr with
  | [] => []
  | p :: t => match start with
              | S k => p :: row_fill t k vals
              | O => match vals with [] => scr | v :: vs => v :: row_fill t O vs end
              end
  end.

(* values written along one row in the pattern branch: xpatmask walks 128 >> (left % 8), …, 1, 128, … *)
Fixpoint pat_vals (n : nat) (pat mask fillc bk : N) : list N :=
  match n with
  | O => []
  | S n' => (if (N.land pat mask =? 0)%N then bk else fillc)
            :: pat_vals n' pat (let m := N.shiftr mask 1 in if (m =? 0)%N then 128%N else m) fillc bk
  end.

(* FillStyle::get_fill_pattern *)
Definition get_fill_pattern (s : bgi) : res (list N) :=
  if (fill_style s =? 12)%N then Ok (fill_user_pattern s)
  else idx SITE_PATTERN_INDEX DEFAULT_FILL_PATTERNS (Z.of_N (fill_style s)).

(* the row loop `for _ in rect.top()..bottom`; ystart accumulates window.width *)
(* [len] is screen.len() (rows do not change it): a row that starts at or beyond it breaks out at its first pixel *)
Fixpoint bar_rows_solid (n : nat) (scr : list N) (len ystart ww : Z) (w : nat) (fillc : N) : res (list N) :=
  match n with
  | O => Ok scr
  | S n' =>
    let scr' := if (ystart <? 0) || (len <=? ystart) then scr else row_fill scr (Z.to_nat ystart) (repeat fillc w) in
    ystart' <- chk (ystart + ww) ;;
    bar_rows_solid n' scr' len ystart' ww w fillc
  end.

Fixpoint bar_rows_pattern (n : nat) (scr : list N) (len ystart ww : Z) (w : nat) (pattern : list N) (ypat : Z) (mask0 fillc bk : N)
  : res (list N) :=
  match n with
  | O => Ok scr
  | S n' =>
    pat <- idx SITE_PATTERN_INDEX pattern ypat ;;
    let scr' := if (ystart <? 0) || (len <=? ystart) then scr else row_fill scr (Z.to_nat ystart) (pat_vals w pat mask0 fillc bk) in
    ystart' <- chk (ystart + ww) ;;
    bar_rows_pattern n' scr' len ystart' ww w pattern (Z.rem (ypat + 1) 8) mask0 fillc bk
  end.

(* Bgi::bar_rect *)
Definition bar_rect (s : bgi) (r : rect) : res bgi :=
  r' <- r_intersect r (viewport s) ;;
  let '(l, t, w, h) := r' in
  if (w =? 0) || (h =? 0) then Ok s
  else _right <- chk (l + w) ;; _bottom <- chk (t + h) ;;
       m <- chk (t * win_w s) ;; ystart <- chk (m + l) ;;
       if (fill_style s =? 1)%N then
         scr <- bar_rows_solid (Z.to_nat h) (screen s) (Z.of_nat (length (screen s))) ystart (win_w s) (Z.to_nat w) (fill_color s) ;;
         Ok (upd_screen s scr)
       else
         pattern <- get_fill_pattern s ;;
         let ypat := Z.rem t 8 in
         if h <=? 0 then Ok s
         else let sh := Z.rem l 8 in
              if sh <? 0 then Panic SITE_SHIFT
              else scr <- bar_rows_pattern (Z.to_nat h) (screen s) (Z.of_nat (length (screen s))) ystart (win_w s) (Z.to_nat w) pattern ypat
                                           (N.shiftr 128 (Z.to_N sh)) (fill_color s) (bkcolor s) ;;
                   Ok (upd_screen s scr).

(* Bgi::bar *)
Definition bar (s : bgi) (left top right bottom : Z) : res bgi :=
  a <- chk (right - left) ;; w <- chk (a + 1) ;; b <- chk (bottom - top) ;; h <- chk (b + 1) ;;
  bar_rect s (left, top, w, h).

(* field setters *)
Definition mk (c bk : N) (wm : wmode) (fs : N) (pat : list N) (fc : N) (ww wh : Z) (vp : rect) (pal : list rgb) (scr : list N)
              (cx cy : Z) (sus : bool) (tw : option rect) (tww : bool) : bgi :=
  {| color := c; bkcolor := bk; write_mode := wm; fill_style := fs; fill_user_pattern := pat; fill_color := fc; win_w := ww; win_h := wh;
     viewport := vp; palette := pal; screen := scr; cur_x := cx; cur_y := cy; suspend_text := sus; text_window := tw; text_window_wrap := tww |}.
Definition set_cur (s : bgi) (x y : Z) : bgi :=
  mk (color s) (bkcolor s) (write_mode s) (fill_style s) (fill_user_pattern s) (fill_color s) (win_w s) (win_h s) (viewport s) (palette s)
     (screen s) x y (suspend_text s) (text_window s) (text_window_wrap s).
Definition with_color (s : bgi) (c : N) : bgi :=
  mk c (bkcolor s) (write_mode s) (fill_style s) (fill_user_pattern s) (fill_color s) (win_w s) (win_h s) (viewport s) (palette s)
     (screen s) (cur_x s) (cur_y s) (suspend_text s) (text_window s) (text_window_wrap s).
Definition with_bk (s : bgi) (c : N) : bgi :=
  mk (color s) c (write_mode s) (fill_style s) (fill_user_pattern s) (fill_color s) (win_w s) (win_h s) (viewport s) (palette s)
     (screen s) (cur_x s) (cur_y s) (suspend_text s) (text_window s) (text_window_wrap s).
Definition with_wm (s : bgi) (m : wmode) : bgi :=
  mk (color s) (bkcolor s) m (fill_style s) (fill_user_pattern s) (fill_color s) (win_w s) (win_h s) (viewport s) (palette s)
     (screen s) (cur_x s) (cur_y s) (suspend_text s) (text_window s) (text_window_wrap s).
Definition with_fill (s : bgi) (fs : N) (pat : list N) (fc : N) : bgi :=
  mk (color s) (bkcolor s) (write_mode s) fs pat fc (win_w s) (win_h s) (viewport s) (palette s)
     (screen s) (cur_x s) (cur_y s) (suspend_text s) (text_window s) (text_window_wrap s).
Definition with_viewport (s : bgi) (vp : rect) : bgi :=
  mk (color s) (bkcolor s) (write_mode s) (fill_style s) (fill_user_pattern s) (fill_color s) (win_w s) (win_h s) vp (palette s)
     (screen s) (cur_x s) (cur_y s) (suspend_text s) (text_window s) (text_window_wrap s).
Definition with_palette (s : bgi) (pal : list rgb) : bgi :=
  mk (color s) (bkcolor s) (write_mode s) (fill_style s) (fill_user_pattern s) (fill_color s) (win_w s) (win_h s) (viewport s) pal
     (screen s) (cur_x s) (cur_y s) (suspend_text s) (text_window s) (text_window_wrap s).
Definition with_suspend (s : bgi) (b : bool) : bgi :=
  mk (color s) (bkcolor s) (write_mode s) (fill_style s) (fill_user_pattern s) (fill_color s) (win_w s) (win_h s) (viewport s) (palette s)
     (screen s) (cur_x s) (cur_y s) b (text_window s) (text_window_wrap s).
Definition with_text_window (s : bgi) (tw : option rect) (wrap : bool) : bgi :=
  mk (color s) (bkcolor s) (write_mode s) (fill_style s) (fill_user_pattern s) (fill_color s) (win_w s) (win_h s) (viewport s) (palette s)
     (screen s) (cur_x s) (cur_y s) (suspend_text s) tw wrap.

(* Bgi::clear_device *)
Definition clear_device (s : bgi) : res bgi :=
  s' <- bar s 0 0 (win_w s) (win_h s) ;; Ok (set_cur s' 0 0).

(* Bgi::graph_defaults (line style, font, char_size, mouse fields are outside the record) *)
Definition graph_defaults (s : bgi) : res bgi :=
  let s1 := with_viewport (with_palette s DOS_DEFAULT_PALETTE) (0, 0, win_w s, win_h s) in
  let s2 := with_bk (with_color s1 (7 mod COLOR_MOD)%N) (0 mod BKCOLOR_MOD)%N in
  let s3 := with_fill s2 1%N DEFAULT_USER_PATTERN (0 mod FILLCOLOR_MOD)%N in
  s4 <- clear_device s3 ;;
  Ok (with_suspend s4 false).

(* Bgi::clear_text_window / clear_viewport *)
Definition clear_text_window (s : bgi) : res bgi :=
  match text_window s with Some tw => bar_rect s tw | None => Ok s end.
Definition clear_viewport (s : bgi) : res bgi := bar_rect s (viewport s).

(* `x as u8` of an i32 *)
Definition as_u8 (z : Z) : N := Z.to_N (z mod 256).

Definition wm_from (n : N) : wmode :=
  match (match lookup n WRITEMODE_FROM with Some k => k | None => WRITEMODE_FROM_DEFAULT end) with
  | 1 => WXor | 2 => WOr | 3 => WAnd | 4 => WNot | _ => WCopy
  end%N.
Definition fs_from (n : N) : N := match lookup n FILLSTYLE_FROM with Some k => k | None => FILLSTYLE_FROM_DEFAULT end.

(* EGA_PALETTE[i % 64] *)
Definition ega (i : Z) : res rgb := idx SITE_EGA_INDEX EGA_PALETTE (i mod Z.of_nat (length EGA_PALETTE)).

Fixpoint map_res {A B} (f : A -> res B) (l : list A) : res (list B) :=
  match l with [] => Ok [] | a :: t => b <- f a ;; r <- map_res f t ;; Ok (b :: r) end.

(* Palette::set_color: grow with Color::default() (black) up to the index, then store *)
Definition pal_set_color (pal : list rgb) (i : nat) (c : rgb) : list rgb :=
  let pal' := if Nat.leb (length pal) i then pal ++ repeat (0, 0, 0)%N (S i - length pal) else pal in
  match set_nth pal' i c with Some p => p | None => pal' end.    (* the index is in range after the resize *)

Definition cell_of (size : Z) : Z * Z :=
  (fix go (l : list (Z * (Z * Z))) := match l with [] => TEXTWINDOW_CELL_DEFAULT | (k, v) :: t => if size =? k then v else go t end) TEXTWINDOW_CELLS.

Definition arg (c : pcmd) (i : nat) : res Z :=
  match nth_error (pc_fields c) i with Some v => Ok v | None => Panic SITE_ARG end.

Inductive run_result := ROk (s : bgi) | RPanic (site : N) | RUnmodelled.
Definition lift (r : res bgi) : run_result := match r with Ok s => ROk s | Panic p => RPanic p end.

(* Command::run of the modelled commands *)
Definition run_cmd (s : bgi) (c : pcmd) : run_result :=
  match pc_cmd c with
  | CTextWindow => lift (
      x0 <- arg c 0 ;; y0 <- arg c 1 ;; x1 <- arg c 2 ;; y1 <- arg c 3 ;; wrap <- arg c 4 ;; size <- arg c 5 ;;
      let '(cx, cy) := cell_of size in
      let s1 := if (x0 =? 0) && (y0 =? 0) && (x1 =? 0) && (y1 =? 0) && (size =? 0) && (wrap =? 0)
                then with_suspend s (negb (suspend_text s)) else s in
      (* buf.terminal_state.set_text_window(x0, y0, x1, y1): terminal state, outside the BGI; y1 - y0 and x1 - x0 are i32 *)
      _d1 <- chk (Z.max y0 y1 - Z.min y0 y1) ;; _d2 <- chk (Z.max x0 x1 - Z.min x0 x1) ;;
      a <- chk (x0 * cx) ;; b <- chk (y0 * cy) ;; a2 <- chk (x1 * cx) ;; b2 <- chk (y1 * cy) ;;
      w <- chk (a2 - a) ;; h <- chk (b2 - b) ;;
      Ok (with_text_window s1 (Some (a, b, w, h)) (negb (wrap =? 0))))
  | CViewPort => lift (
      x0 <- arg c 0 ;; y0 <- arg c 1 ;; x1 <- arg c 2 ;; y1 <- arg c 3 ;;
      w <- chk (x1 - x0) ;; h <- chk (y1 - y0) ;; Ok (with_viewport s (x0, y0, w, h)))
  | CResetWindows => lift (s1 <- clear_text_window s ;; graph_defaults s1)
  | CEraseWindow => lift (clear_text_window s)
  | CEraseView => lift (clear_viewport s)
  | CGotoXY | CMove => lift (x <- arg c 0 ;; y <- arg c 1 ;; Ok (set_cur s x y))
  | CColor => lift (v <- arg c 0 ;; Ok (with_color s (as_u8 v mod COLOR_MOD)%N))
  | CSetPalette => lift (pal <- map_res ega (pc_vec c) ;; Ok (with_palette s pal))
  | COnePalette => lift (
      i <- arg c 0 ;; v <- arg c 1 ;; col <- ega (Z.of_N (as_u8 v)) ;;
      (* `index as u32` *)
      Ok (with_palette s (pal_set_color (palette s) (Z.to_nat (i mod 4294967296)) col)))
  | CWriteMode => lift (m <- arg c 0 ;; Ok (with_wm s (wm_from (as_u8 m))))
  | CPixel => lift (x <- arg c 0 ;; y <- arg c 1 ;; put_pixel s x y (color s))
  | CBar => lift (
      x0 <- arg c 0 ;; y0 <- arg c 1 ;; x1 <- arg c 2 ;; y1 <- arg c 3 ;;
      let '(l, r) := if x0 <? x1 then (x0, x1) else (x1, x0) in
      let '(t, b) := if y0 <? y1 then (y0, y1) else (y1, y0) in
      bar s l t r b)
  | CFillStyle => lift (
      p <- arg c 0 ;; col <- arg c 1 ;;
      Ok (with_fill s (fs_from (as_u8 p)) (fill_user_pattern s) (as_u8 col mod FILLCOLOR_MOD)%N))
  | CFillPattern => lift (
      c1 <- arg c 0 ;; c2 <- arg c 1 ;; c3 <- arg c 2 ;; c4 <- arg c 3 ;; c5 <- arg c 4 ;; c6 <- arg c 5 ;; c7 <- arg c 6 ;; c8 <- arg c 7 ;;
      col <- arg c 8 ;;
      Ok (with_fill s 12%N (map as_u8 [c1; c2; c3; c4; c5; c6; c7; c8]) (as_u8 col mod FILLCOLOR_MOD)%N))
  | CHome | CEraseEOL | CTextVariable | CMouseFields | CBeginText | CRegionText | CEndText | CWriteIcon | CDefine | CQuery
  | CReadScene | CEnterBlockMode => ROk s
  | _ => RUnmodelled
  end.
