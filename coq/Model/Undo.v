(* M-undo, part 1: the undo machinery of src/editor/mod.rs, independent of what a document is.

   Rust                                                          here
   ------------------------------------------------------------  -----------------------------------------
   trait UndoOperation { undo(&mut self, &mut EditState);        op_undo, op_redo : uop -> st -> res (uop * st)
                         redo(&mut self, &mut EditState) }         (the operation may re-capture its payload: &mut self)
   undo_operations::AtomicUndo { stack }  undo / redo             Atomic l ; f_undo walks l back to front, f_redo front to back,
                                                                   `?` stops at the first Err
   EditState { undo_stack, redo_stack } (Vec, last = top)        es { ustk; rstk } (list, head = top)
   EditState::push_plain_undo                                     push_plain
   EditState::push_undo_action  (= op.redo(self)?; push_plain)    push_action
   EditState::begin_atomic_undo (clears redo, remembers len)      begin_guard
   AtomicUndoGuard::drop / end  (drain(base..) into AtomicUndo)   end_guard  (the test `base_count >= count` is Gen.UndoGen.guard_keeps)
   UndoState::undo / redo for EditState                           undo / redo

   `st` is everything an operation may touch (buffer, caret, selection, current layer); the stacks are kept apart.
   A failing undo/redo returns Err without a state: the theorems show it cannot happen on a sound history. *)
From Coq Require Import List ZArith Arith Bool.
From IE Require Import Gen.UndoGen.
Import ListNotations.

Inductive res (A : Type) : Type :=
| Ok (a : A)
| Err (e : Z)
| Panic (site : Z).
Arguments Ok {A} a.
Arguments Err {A} e.
Arguments Panic {A} site.

Definition bind {A B} (r : res A) (f : A -> res B) : res B :=
  match r with Ok a => f a | Err e => Err e | Panic p => Panic p end.
Notation "'do' x <- r ; k" := (bind r (fun x => k)) (at level 200, x name, r at level 100, k at level 200).
Notation "'do' ' p <- r ; k" := (bind r (fun p => k)) (at level 200, p pattern, r at level 100, k at level 200).

Inductive fop (uop : Type) : Type :=
| Leaf (o : uop)
| Atomic (l : list (fop uop)).
Arguments Leaf {uop} o.
Arguments Atomic {uop} l.

Section Machinery.
  Context {st uop : Type}.
  Variable op_undo : uop -> st -> res (uop * st).
  Variable op_redo : uop -> st -> res (uop * st).

  (* AtomicUndo::undo: `for op in stack.iter_mut().rev() { op.undo(edit_state)?; }` *)
  Fixpoint f_undo (o : fop uop) (s : st) {struct o} : res (fop uop * st) :=
    match o with
    | Leaf u => do '(u', s') <- op_undo u s; Ok (Leaf u', s')
    | Atomic l =>
      do '(l', s') <-
        (fix go (l : list (fop uop)) (s : st) {struct l} : res (list (fop uop) * st) :=
           match l with
           | [] => Ok ([], s)
           | x :: r => do '(r', s1) <- go r s; do '(x', s2) <- f_undo x s1; Ok (x' :: r', s2)
           end) l s;
      Ok (Atomic l', s')
    end.

  (* AtomicUndo::redo: `for op in stack.iter_mut() { op.redo(edit_state)?; }` *)
  Fixpoint f_redo (o : fop uop) (s : st) {struct o} : res (fop uop * st) :=
    match o with
    | Leaf u => do '(u', s') <- op_redo u s; Ok (Leaf u', s')
    | Atomic l =>
      do '(l', s') <-
        (fix go (l : list (fop uop)) (s : st) {struct l} : res (list (fop uop) * st) :=
           match l with
           | [] => Ok ([], s)
           | x :: r => do '(x', s1) <- f_redo x s; do '(r', s2) <- go r s1; Ok (x' :: r', s2)
           end) l s;
      Ok (Atomic l', s')
    end.

  (* the two inner loops, named (Proofs/UndoProofs.v shows they are the `go`s above) *)
  Fixpoint undo_list (l : list (fop uop)) (s : st) : res (list (fop uop) * st) :=
    match l with
    | [] => Ok ([], s)
    | x :: r => do '(r', s1) <- undo_list r s; do '(x', s2) <- f_undo x s1; Ok (x' :: r', s2)
    end.
  Fixpoint redo_list (l : list (fop uop)) (s : st) : res (list (fop uop) * st) :=
    match l with
    | [] => Ok ([], s)
    | x :: r => do '(x', s1) <- f_redo x s; do '(r', s2) <- redo_list r s1; Ok (x' :: r', s2)
    end.

  Record es : Type := mkEs { cur : st; ustk : list (fop uop); rstk : list (fop uop) }.

  Definition set_cur (e : es) (s : st) : es := mkEs s (ustk e) (rstk e).

  Definition push_plain (o : fop uop) (e : es) : es := mkEs (cur e) (o :: ustk e) [].

  Definition push_action (o : fop uop) (e : es) : res es :=
    do '(o', s') <- f_redo o (cur e); Ok (mkEs s' (o' :: ustk e) []).

  Definition begin_guard (e : es) : nat * es := (length (ustk e), mkEs (cur e) (ustk e) []).

  (* Drop: `if self.base_count >= count { return; }` else drain(base..) into one AtomicUndo (oldest first) *)
  Definition end_guard (base : nat) (e : es) : es :=
    let n := length (ustk e) in
    if guard_keeps base n then e
    else let k := (n - base)%nat in mkEs (cur e) (Atomic (rev (firstn k (ustk e))) :: skipn k (ustk e)) (rstk e).

  (* guard around a body, as every public operation that opens one does: `let _undo = self.begin_atomic_undo(..); body` *)
  Definition with_guard (body : es -> res es) (e : es) : res es :=
    let '(base, e1) := begin_guard e in
    do e2 <- body e1; Ok (end_guard base e2).

  Definition undo (e : es) : res es :=
    match ustk e with
    | [] => Ok e
    | o :: u => do '(o', s') <- f_undo o (cur e); Ok (mkEs s' u (o' :: rstk e))
    end.

  Definition redo (e : es) : res es :=
    match rstk e with
    | [] => Ok e
    | o :: r => do '(o', s') <- f_redo o (cur e); Ok (mkEs s' (o' :: ustk e) r)
    end.

  (* an interleaving of undo (true) and redo (false) steps *)
  Fixpoint run_ur (w : list bool) (e : es) : res es :=
    match w with
    | [] => Ok e
    | b :: w' => do e' <- (if b then undo e else redo e); run_ur w' e'
    end.

  (* where such a walk ends: position = number of operations on the undo stack, between 0 and total *)
  Fixpoint walk (w : list bool) (pos total : nat) : nat :=
    match w with
    | [] => pos
    | true :: w' => walk w' (pred pos) total
    | false :: w' => walk w' (if (pos <? total)%nat then S pos else pos) total
    end.
End Machinery.
