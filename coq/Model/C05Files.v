(* M-fmt: whole files as `Buffer::to_bytes(ext, SaveOptions { save_sauce, .. })` writes them and `Buffer::from_bytes` reads
   them, for the formats whose loaders take their width from the SAUCE record (BIN, Tundra) and for XBin;
   executable definitions only.  This file composes C05's format models with C11's SAUCE model (Model/Sauce.v).

   Rust item                                               model
   -----------------------------------------------------   ---------------------------------------------------------
   the part of Buffer that write_sauce_info reads          wbuf_of      (width, height, ice mode, `get_font(0).map(name)`, get_sauce())
   `if options.save_sauce { buf.write_sauce_info(T, &mut   with_sauce   (T = Bin for BIN, TundraDraw for Tundra, XBin for XBin;
      result)?; }` at the end of to_bytes                               src/formats/{bin,tundra,xbinary}.rs)
   Bin / TundraDraw / XBin ::to_bytes                      bin_to_bytes / tnd_to_bytes / xb_to_bytes
   Artworx / IceDraw ::to_bytes                            adf_to_bytes (record of type Ansi) / idf_to_bytes (record of type Bin:
                                                           the writer refuses widths with w / 2 > 255)
   Buffer::from_bytes: SauceData::extract,                 from_bytes_with (Sauce.split, then the loader on the content with the
     `len -= sauce_header_len`, `&bytes[..len]`,                            fields of the record it reads: sauce_view, the same
     fmt.load_buffer(.., sauce_data)                                        projection as C02Dispatch.view)
   (src/buffers.rs)                                        bin_from_bytes / tnd_from_bytes / xb_from_bytes / adf_from_bytes /
                                                           idf_from_bytes (IceDraw::load_buffer calls set_sauce(.., false): the
                                                           record changes nothing the picture shows; load_idf takes none)
   The extension dispatch of from_bytes is C02's (Gen/C02Ext.v, ext_table_ok); here the format is given.

   A SAUCE error class e is `Err (200 + e)`, a panic site s of the SAUCE code `Panic (200 + s)`.
   `date` is the 8 bytes chrono formats today's date to, `dp` chrono's parser (C11's oracles); `name` the name of font 0. *)
From Coq Require Import NArith ZArith Bool List.
From IE Require Import Lib.Tbl Lib.C05Lib Gen.Codepage Gen.Formats Model.Attr Model.C05Buf Model.C05Bin Model.C05XBin
  Model.C05Idf Model.C05Tundra Model.C02Loaders Model.C05XBinC.
From IE Require Model.Sauce.
Import ListNotations.

Definition lift {A} (r : Sauce.res A) : res A :=
  match r with Sauce.Ok a => Ok a | Sauce.Err e => Err (200 + e) | Sauce.Panic s => Panic (200 + s) end.

(* SauceData -> the fields set_sauce reads *)
Definition sauce_view (m : Sauce.sauce) : sauce := mkSauce (Sauce.s_width m) (Sauce.s_height m) (Sauce.s_ice m).

Definition wbuf_of (p : pic) (name : list N) (ws : option Sauce.wsauce) : Sauce.wbuf :=
  Sauce.mkWBuf (p_w p) (p_h p) (is_ice (p_ice p))
               (match get_font (p_fonts p) 0 with Some _ => Some name | None => None end) ws.

Definition with_sauce (save_sauce : bool) (ft : Sauce.sft) (p : pic) (name : list N) (ws : option Sauce.wsauce)
           (date : list N) (data : list N) : res (list N) :=
  if save_sauce then lift (Sauce.write ft (wbuf_of p name ws) date data) else Ok data.

Definition bin_to_bytes (save_sauce : bool) (p : pic) name ws date : res (list N) :=
  with_sauce save_sauce Sauce.FtBin p name ws date (save_bin p).
Definition tnd_to_bytes (save_sauce : bool) (p : pic) name ws date : res (list N) :=
  let* d := save_tnd p in with_sauce save_sauce Sauce.FtTundraDraw p name ws date d.
Definition xb_to_bytes (compress save_sauce : bool) (p : pic) name ws date : res (list N) :=
  let* d := save_xbo compress p in with_sauce save_sauce Sauce.FtXBin p name ws date d.

Definition from_bytes_with (dp : list N -> option Sauce.ymd) (loader : list N -> option sauce -> res buffer)
           (bytes : list N) : res buffer :=
  let* '(content, m) := lift (Sauce.split dp bytes) in loader content (option_map sauce_view m).

Definition bin_from_bytes dp := from_bytes_with dp load_bin.
Definition tnd_from_bytes dp := from_bytes_with dp load_tnd2.
Definition xb_from_bytes dp := from_bytes_with dp load_xb2.

Definition adf_to_bytes (save_sauce : bool) (p : pic) name ws date : res (list N) :=
  let* d := save_adf p in with_sauce save_sauce Sauce.FtAnsi p name ws date d.
Definition idf_to_bytes (compress save_sauce : bool) (p : pic) name ws date : res (list N) :=
  let* d := save_idf compress p in with_sauce save_sauce Sauce.FtBin p name ws date d.
Definition adf_from_bytes dp := from_bytes_with dp load_adf.
Definition idf_from_bytes dp := from_bytes_with dp (fun content _ => load_idf content).
