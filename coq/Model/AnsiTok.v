(* M-ansi: the ANSI parser at CHARACTER level.  Executable definitions only.

   Mirrors src/parsers/ansi/mod.rs   ansi::Parser::print_char (every EngineState), invoke_macro_by_id, parse_next_number
           src/parsers/ansi/ansi_commands.rs  every command function called from print_char
           src/parsers/ansi/dcs.rs    execute_dcs, parse_macro, parse_macro_sequence, parse_hex_macro_sequence
           src/parsers/ansi/osc.rs    parse_osc, handle_osc_hyperlinks
           src/parsers/ansi/sound.rs  parse_ansi_music, parse_default_ansi_music
   (worktree with the fix: commits).  A character is its code (bytes 0..255 are fed as `b as char`).

   Outcome of one character: OOk m' (an action) | OErr m' (an error value; the machine continues from m') |
   ODeep m' (the error value ParserError::MacroNestingTooDeep: macro invocations nested deeper than MAX_MACRO_NESTING;
   for the caller of print_char an error value like every other, the machine continues from m'; the replay loop of
   invoke_macro_by_id is the one place that tells it from other errors: it ends the loop) | OPanic site.

   What is abstracted (none of it can influence geometry or a panic site):
   * colours: basic colours exact, extended colours (38/48;5;n, 38/48;2;r;g;b, CSI .. t) only up to "is palette index 0":
     black -> 0, any other colour -> 1000 (see TermCore: a cell's transparency reads only bg = 0);
   * text of SendString / PlayMusic / hyperlink payloads, font tables, the palette, rendition flags other than blink;
   * OSC 4 is accepted without evaluating the palette regex (its only failure is an Err for an index >= 2^32);
   * a `CTerm:Font:` DCS string is loaded by C17's model of Parser::load_custom_font / BitFont::from_bytes (Model/Font.v)
     with the base64 decoder of Model/Base64.v; of the loaded font only its slot number is kept ([fonts]: font_selection
     succeeds for a slot that holds a font). *)
From Coq Require Import ZArith NArith List Bool Lia.
From IE Require Import Model.TermCore.
From IE Require Lib.C17Lib Model.Font Model.Base64.      (* the BitFont model of C17 (load_custom_font, from_bytes); used qualified *)
From IE Require Import Gen.MacroLimit.                    (* MAX_MACRO_NESTING, read from src/parsers/ansi/mod.rs by translator/gen_macro.py *)
Import ListNotations.
Local Open Scope Z_scope.

Definition SITE_FONT : Z := 20.        (* a panic site inside C17's model of load_custom_font / BitFont::from_bytes (none is reachable: font_dcs_total) *)
Definition SITE_NUMS_INDEX : Z := 22.  (* parsed_numbers[i] out of range *)
Definition SITE_FONT_SEL : Z := 23.    (* font_selection: BitFont::from_ansi_font_page *)

Definition parse_next_number (x ch : Z) : Z := sat_sub (sat_add (sat_mul x 10) ch) 48.

Inductive mstate := MDefault | MStyle | MTempo (x : Z) | MPause (x : Z) | MOctave | MNote (n len : Z) | MLength (x : Z).
Inductive estate :=
  | SDefault | SEsc | SCsi (is_start : bool) | SCsiCmd | SCsiReq | SRip | SDevAttr | SEndCsi (f : Z)
  | SDcs | SDcsEsc | SDcsMacro (i : Z) | SMusic (m : mstate) | SAps | SApsEsc | SOsc | SOscEsc.

(* a saved caret (ESC 7 clones the whole Caret) *)
Definition saved := (Z * Z * Z * Z * bool * bool * bool)%type.   (* cx cy fg bg blink ice insert *)

Record pst := mkPst {
  st : estate;
  nums : list Z;                 (* parsed_numbers *)
  saved_pos : Z * Z;
  saved_cur : option saved;      (* saved_cursor_opt *)
  last_char : Z;
  music_opt : Z;                 (* 0 Off 1 Conflicting 2 Banana 3 Both *)
  bs_ctrl : bool;                (* bs_is_ctrl_char *)
  octave : Z; mlength : Z; tempo : Z;
  pstr : list Z;                 (* parse_string, REVERSED *)
  macro_dcs : list Z;            (* REVERSED *)
  macros : list (Z * list Z);    (* HashMap<usize,String>: first match wins, insert = cons *)
  hlinks : nat;                  (* hyper_links.len() *)
  bice : bool;                   (* Buffer.ice_mode = Ice (set by CSI ?33h, read by the Avatar / PCBoard colour bytes) *)
  fonts : list Z;                (* keys of Buffer.font_table added by `CTerm:Font:` DCS strings (slot 0 and the slots that
                                    font_selection itself fills are in [font_slot]; nothing ever removes a key) *)
  resized : bool }.              (* GHOST: a text-area resize (CSI 8;h;w t) has been executed; C09 speaks about streams without one *)

Record amach := mkA { tm : term; ps : pst }.
Inductive outcome := OOk (m : amach) | OErr (m : amach) | OPanic (site : Z) | ODeep (m : amach).

Definition set_st (p : pst) (s : estate) : pst :=
  mkPst s (nums p) (saved_pos p) (saved_cur p) (last_char p) (music_opt p) (bs_ctrl p) (octave p) (mlength p) (tempo p) (pstr p) (macro_dcs p) (macros p) (hlinks p) (bice p) (fonts p) (resized p).
Definition set_nums (p : pst) (l : list Z) : pst :=
  mkPst (st p) l (saved_pos p) (saved_cur p) (last_char p) (music_opt p) (bs_ctrl p) (octave p) (mlength p) (tempo p) (pstr p) (macro_dcs p) (macros p) (hlinks p) (bice p) (fonts p) (resized p).
Definition set_saved_pos (p : pst) (x : Z * Z) : pst :=
  mkPst (st p) (nums p) x (saved_cur p) (last_char p) (music_opt p) (bs_ctrl p) (octave p) (mlength p) (tempo p) (pstr p) (macro_dcs p) (macros p) (hlinks p) (bice p) (fonts p) (resized p).
Definition set_saved_cur (p : pst) (x : option saved) : pst :=
  mkPst (st p) (nums p) (saved_pos p) x (last_char p) (music_opt p) (bs_ctrl p) (octave p) (mlength p) (tempo p) (pstr p) (macro_dcs p) (macros p) (hlinks p) (bice p) (fonts p) (resized p).
Definition set_last (p : pst) (c : Z) : pst :=
  mkPst (st p) (nums p) (saved_pos p) (saved_cur p) c (music_opt p) (bs_ctrl p) (octave p) (mlength p) (tempo p) (pstr p) (macro_dcs p) (macros p) (hlinks p) (bice p) (fonts p) (resized p).
Definition set_music (p : pst) (o l tp : Z) : pst :=
  mkPst (st p) (nums p) (saved_pos p) (saved_cur p) (last_char p) (music_opt p) (bs_ctrl p) o l tp (pstr p) (macro_dcs p) (macros p) (hlinks p) (bice p) (fonts p) (resized p).
Definition set_pstr (p : pst) (l : list Z) : pst :=
  mkPst (st p) (nums p) (saved_pos p) (saved_cur p) (last_char p) (music_opt p) (bs_ctrl p) (octave p) (mlength p) (tempo p) l (macro_dcs p) (macros p) (hlinks p) (bice p) (fonts p) (resized p).
Definition set_mdcs (p : pst) (l : list Z) : pst :=
  mkPst (st p) (nums p) (saved_pos p) (saved_cur p) (last_char p) (music_opt p) (bs_ctrl p) (octave p) (mlength p) (tempo p) (pstr p) l (macros p) (hlinks p) (bice p) (fonts p) (resized p).
Definition set_macros (p : pst) (l : list (Z * list Z)) : pst :=
  mkPst (st p) (nums p) (saved_pos p) (saved_cur p) (last_char p) (music_opt p) (bs_ctrl p) (octave p) (mlength p) (tempo p) (pstr p) (macro_dcs p) l (hlinks p) (bice p) (fonts p) (resized p).
Definition set_hlinks (p : pst) (n : nat) : pst :=
  mkPst (st p) (nums p) (saved_pos p) (saved_cur p) (last_char p) (music_opt p) (bs_ctrl p) (octave p) (mlength p) (tempo p) (pstr p) (macro_dcs p) (macros p) n (bice p) (fonts p) (resized p).

Definition set_bice (p : pst) (b : bool) : pst :=
  mkPst (st p) (nums p) (saved_pos p) (saved_cur p) (last_char p) (music_opt p) (bs_ctrl p) (octave p) (mlength p) (tempo p) (pstr p) (macro_dcs p) (macros p) (hlinks p) b (fonts p) (resized p).

Definition set_fonts (p : pst) (l : list Z) : pst :=
  mkPst (st p) (nums p) (saved_pos p) (saved_cur p) (last_char p) (music_opt p) (bs_ctrl p) (octave p) (mlength p) (tempo p) (pstr p) (macro_dcs p) (macros p) (hlinks p) (bice p) l (resized p).

Definition set_resized (p : pst) : pst :=
  mkPst (st p) (nums p) (saved_pos p) (saved_cur p) (last_char p) (music_opt p) (bs_ctrl p) (octave p) (mlength p) (tempo p) (pstr p) (macro_dcs p) (macros p) (hlinks p) (bice p) (fonts p) true.

Definition init_pst (music : Z) (bs : bool) : pst :=
  mkPst SDefault [] (0, 0) None 0 music bs 3 4 120 [] [] [] O false [] false.

(* results of a command: state after, and whether it is an action or an error *)
Definition ok (t : term) (p : pst) : outcome := OOk (mkA t p).
Definition err (t : term) (p : pst) : outcome := OErr (mkA t p).
Definition lift (r : res term) (p : pst) : outcome := match r with ROk t => OOk (mkA t p) | RPanic s => OPanic s end.
Definition dflt (p : pst) : pst := set_st p SDefault.

Definition is_digit (c : Z) : bool := (48 <=? c) && (c <=? 57).
(* the `'0'..='9'` / `';'` arms: pop-or-0, push *)
Definition push_digit (l : list Z) (c : Z) : list Z :=
  match rev l with
  | [] => [parse_next_number 0 c]
  | d :: r => rev r ++ [parse_next_number d c]
  end.
Definition push_semi (l : list Z) : list Z := l ++ [0].
Definition first_or (l : list Z) (d : Z) : Z := match l with a :: _ => a | [] => d end.
Definition nlen (l : list Z) : Z := Z.of_nat (length l).
Definition nth_num (l : list Z) (i : nat) : res Z := match nth_error l i with Some a => ROk a | None => RPanic SITE_NUMS_INDEX end.

(* n times f, stopping at the first panic *)
Definition iter_res (n : Z) (f : term -> res term) (t : term) : res term :=
  N.iter (Z.to_N n) (fun r => bind r f) (ROk t).
Definition iter_tot (n : Z) (f : term -> term) (t : term) : term := N.iter (Z.to_N n) f t.
(* REP (CSI Pn b, after the fix): `min(num, width.saturating_mul(height))` copies - one screen full *)
Definition rep_limit (t : term) : Z := sat_mul (tw t) (th t).

(* ---- SGR --------------------------------------------------------------------------------------- *)
Definition COLOR_OFFSETS (i : Z) : Z :=      (* constants::COLOR_OFFSETS = [0, 4, 2, 6, 1, 5, 3, 7] *)
  if i =? 0 then 0 else if i =? 1 then 4 else if i =? 2 then 2 else if i =? 3 then 6 else
  if i =? 4 then 1 else if i =? 5 then 5 else if i =? 6 then 3 else 7.
Definition in255 (x : Z) : bool := (0 <=? x) && (x <=? 255).
(* parse_extended_colors: Some (colour, params consumed) | None = Err *)
Definition ext_color (l : list Z) : option (Z * nat) :=
  match l with
  | _ :: 5 :: c :: _ => if in255 c then Some (if (c =? 0) || (c =? 16) then 0 else 1000, 3%nat) else None
  | _ :: 2 :: r :: g :: b :: _ =>
      if in255 r && in255 g && in255 b then Some (if (r =? 0) && (g =? 0) && (b =? 0) then 0 else 1000, 5%nat) else None
  | _ => None
  end.
(* the while loop of select_graphic_rendition over the remaining parameters; true = ended with Err *)
Fixpoint sgr_loop (fuel : nat) (t : term) (l : list Z) : term * bool :=
  match fuel with
  | O => (t, false)
  | S k =>
    match l with
    | [] => (t, false)
    | n :: r =>
      if n =? 0 then sgr_loop k (caret_reset_color t) r
      else if (n =? 5) || (n =? 6) then sgr_loop k (set_attr t (cfg t) (cbg t) true) r
      else if n =? 7 then sgr_loop k (set_attr t (cbg t) (cfg t) (cblink t)) r
      else if n =? 25 then sgr_loop k (set_attr t (cfg t) (cbg t) false) r
      else if n =? 27 then (t, true)
      else if (30 <=? n) && (n <=? 37) then sgr_loop k (set_attr t (COLOR_OFFSETS (n - 30)) (cbg t) (cblink t)) r
      else if n =? 38 then match ext_color l with
                          | Some (c, used) => sgr_loop k (set_attr t c (cbg t) (cblink t)) (skipn used l)
                          | None => (t, true) end
      else if n =? 39 then sgr_loop k (set_attr t 7 (cbg t) (cblink t)) r
      else if (40 <=? n) && (n <=? 47) then sgr_loop k (set_attr t (cfg t) (COLOR_OFFSETS (n - 40)) (cblink t)) r
      else if n =? 48 then match ext_color l with
                          | Some (c, used) => sgr_loop k (set_attr t (cfg t) c (cblink t)) (skipn used l)
                          | None => (t, true) end
      else if n =? 49 then sgr_loop k (set_attr t (cfg t) 0 (cblink t)) r
      else if (90 <=? n) && (n <=? 97) then sgr_loop k (set_attr t (8 + COLOR_OFFSETS (n - 90)) (cbg t) (cblink t)) r
      else if (100 <=? n) && (n <=? 107) then sgr_loop k (set_attr t (cfg t) (8 + COLOR_OFFSETS (n - 100)) (cblink t)) r
      else if ((1 <=? n) && (n <=? 4)) || ((8 <=? n) && (n <=? 24)) || (n =? 28) || (n =? 29) || (n =? 53) || (n =? 55)
           then sgr_loop k t r          (* rendition flags that are not part of the model *)
      else (t, true)
    end
  end.
Definition cmd_sgr (t : term) (p : pst) : outcome :=
  let p1 := dflt p in
  let t1 := match nums p with [] => caret_reset_color t | _ => t end in
  let '(t2, e) := sgr_loop (S (length (nums p))) t1 (nums p) in
  if e then err t2 p1 else ok t2 p1.

(* ---- commands of ansi_commands.rs --------------------------------------------------------------------- *)
Definition margins_args (p : pst) (dflt_hi : Z) : option (Z * Z) :=
  match nums p with
  | [a; b] => Some (a - 1, b - 1)
  | [a] => Some (0, a - 1)
  | [] => Some (0, dflt_hi)
  | _ => None
  end.
Definition cmd_decstbm (t : term) (p : pst) : outcome :=       (* set_top_and_bottom_margins *)
  match margins_args p (th t) with
  | Some (a, b) => let t1 := set_margins_tb t a b in ok (set_pos t1 0 (upper_left_y t1)) (dflt p)
  | None => err t (dflt p)
  end.
Definition cmd_decslrm (t : term) (p : pst) : outcome :=       (* set_left_and_right_margins (default uses the HEIGHT, as the code does) *)
  match margins_args p (th t) with
  | Some (a, b) => ok (set_margins_lr t a b) (dflt p)
  | None => err t (dflt p)
  end.
Definition cmd_csr (t : term) (p : pst) : outcome :=           (* change_scrolling_region *)
  match nums p with
  | [a; b; c] => let t1 := set_pos t 0 (upper_left_y t) in ok (set_margins_lr (set_margins_tb t1 (a - 1) (b - 1)) (c - 1) (tw t)) (dflt p)
  | [a; b; c; d] => let t1 := set_pos t 0 (upper_left_y t) in ok (set_margins_lr (set_margins_tb t1 (a - 1) (b - 1)) (c - 1) (d - 1)) (dflt p)
  | _ => err t (dflt p)
  end.
Definition cmd_ssm (t : term) (p : pst) : outcome :=           (* set_specific_margin, called with exactly 2 numbers *)
  match nums p with
  | [k; v] =>
    let n := v - 1 in
    if k =? 0 then ok (set_margins_tb t (match mtb t with Some (a, _) => a | None => 0 end) n) (dflt p)
    else if k =? 1 then ok (set_margins_tb t n (match mtb t with Some (_, b) => b | None => th t - 1 end)) (dflt p)
    else if k =? 2 then ok (set_margins_lr t (match mlr t with Some (a, _) => a | None => 0 end) n) (dflt p)
    else if k =? 3 then ok (set_margins_lr t n (match mlr t with Some (_, b) => b | None => tw t - 1 end)) (dflt p)
    else err t (dflt p)
  | _ => OPanic SITE_NUMS_INDEX
  end.
Definition cmd_reset_margins (t : term) (p : pst) : outcome := ok (set_mtb (set_mlr t None) None) (dflt p).
Definition cmd_ech (t : term) (p : pst) : outcome :=           (* erase_character *)
  match nums p with
  | n :: _ => lift (caret_erase t n) (dflt p)
  | [] => match caret_erase t 1 with ROk t1 => err t1 (dflt p) | RPanic s => OPanic s end
  end.
(* get_rect_area *)
Definition rect_area (t : term) (a b c d : Z) : Z * Z * Z * Z :=
  let hmax := Z.max (zlen (lines t)) (th t) in
  (Z.min (Z.max a 1) hmax - 1, Z.min (Z.max b 1) (tw t) - 1, Z.min (Z.max c 1) hmax - 1, Z.min (Z.max d 1) (tw t) - 1).
(* char::from_u32(n as u32).is_some() for an i32 n (a negative n wraps to a value >= 2^31: not a char) *)
Definition is_scalar (c : Z) : bool := ((0 <=? c) && (c <? 55296)) || ((57344 <=? c) && (c <? 1114112)).
Definition cmd_fill_rect (t : term) (p : pst) : outcome :=
  match nums p with
  | [ch; a; b; c; d] =>
    if is_scalar ch then
      let '(tl, lc, bl, rc) := rect_area t a b c d in
      ok (fill_cells t (zrange_incl tl bl) (zrange_incl lc rc) (ch, cbg t)) (dflt p)
    else err t (dflt p)        (* char::from_u32 (checked, after the fix): "invalid fill character" *)
  | _ => err t (dflt p)
  end.
Definition cmd_erase_rect (t : term) (p : pst) : outcome :=
  match nums p with
  | [a; b; c; d] => let '(tl, lc, bl, rc) := rect_area t a b c d in
                    ok (fill_cells t (zrange_incl tl bl) (zrange_incl lc rc) blank) (dflt p)
  | _ => err t (dflt p)
  end.
(* selective erase keeps each cell's attribute: (' ', old background) *)
Definition cmd_sel_erase_rect (t : term) (p : pst) : outcome :=
  match nums p with
  | [a; b; c; d] => let '(tl, lc, bl, rc) := rect_area t a b c d in
      ok (set_lines t (fold_left (fun ls y => fold_left (fun l x => lset (lw t) (lh t) l x y (32, snd (lget (lw t) (lh t) l x y))) (zrange_incl lc rc) ls)
                                 (zrange_incl tl bl) (lines t))) (dflt p)
  | _ => err t (dflt p)
  end.
Definition cmd_window (t : term) (p : pst) : outcome :=        (* CSI .. t, state already Default *)
  match nums p with
  | [k; h; w] => if k =? 8 then
                   let w' := Z.max (Z.min w 132) 1 in let h' := Z.max (Z.min h 60) 1 in
                   ok (set_tabs (set_tsize t w' h') (reset_tabs w')) (set_resized (dflt p))
                 else err t (dflt p)
  | [k; r; g; b] => let c := if (r mod 256 =? 0) && (g mod 256 =? 0) && (b mod 256 =? 0) then 0 else 1000 in
                    if k =? 0 then ok (set_attr t (cfg t) c (cblink t)) (dflt p)
                    else if k =? 1 then ok (set_attr t c (cbg t) (cblink t)) (dflt p)
                    else err t (dflt p)
  | _ => err t (dflt p)
  end.
(* BitFont::from_ansi_font_page knows the slots of the fonts! table in fonts.rs; anything else is an Err.
   The font table itself is not modelled (slot 0 is always present) *)
Definition font_slot (n : Z) : bool := (0 <=? n) && (n <=? 42).     (* slots 0..=42 of the fonts! table (checked by stage C) *)
(* `nr as usize` for an i32 *)
Definition as_usize (n : Z) : Z := if n <? 0 then n + 18446744073709551616 else n.
Definition zmem (x : Z) (l : list Z) : bool := existsb (Z.eqb x) l.
Definition cmd_font_selection (t : term) (p : pst) : outcome :=
  match nums p with
  | [_; nr] => if zmem (as_usize nr) (fonts p) || font_slot nr then ok t (dflt p) else err t (dflt p)   (* buf.get_font(nr).is_some() || from_ansi_font_page(nr).is_ok() *)
  | _ => err t (dflt p)
  end.

(* ---- macros, DCS, OSC ----------------------------------------------------------------------------------- *)
Fixpoint lookup (id : Z) (l : list (Z * list Z)) : option (list Z) :=
  match l with [] => None | (k, v) :: r => if k =? id then Some v else lookup id r end.
Fixpoint starts_with (pre s : list Z) : bool :=
  match pre, s with
  | [], _ => true
  | a :: p', b :: s' => (a =? b) && starts_with p' s'
  | _, [] => false
  end.
(* leading digits / ';' of a DCS or OSC string *)
Fixpoint lead_nums (s : list Z) (acc : list Z) : list Z * list Z :=
  match s with
  | c :: r => if is_digit c then lead_nums r (push_digit acc c) else if c =? 59 then lead_nums r (push_semi acc) else (acc, s)
  | [] => (acc, [])
  end.
Definition hex_val (c : Z) : option Z :=            (* position in HEX_TABLE = b"0123456789ABCDEF" *)
  if is_digit c then Some (c - 48) else if (65 <=? c) && (c <=? 70) then Some (c - 55) else None.
Definition to_upper (c : Z) : Z := if (97 <=? c) && (c <=? 122) then c - 32 else c.
Inductive hexst := HFirst | HSecond (c : Z) | HRepeat (n : Z).
Definition repeat_str (n : Z) (s : list Z) : list Z := N.iter (Z.to_N n) (fun acc => acc ++ s) [].
(* Parser::push_repeat_group (after the fix): `count` copies of the group are appended unless the macro would then hold more than
   MAX_MACRO_SIZE characters (Gen/MacroLimit.v, read from src/parsers/ansi/mod.rs): None = that error *)
Definition push_group (rec rep_rec : list Z) (rep_n : Z) : option (list Z) :=
  if MAX_MACRO_SIZE <? zlen rec + Z.max 0 rep_n * zlen rep_rec then None
  else Some (rec ++ (match rep_rec with [] => [] | _ => repeat_str rep_n rep_rec end)).   (* `group.repeat(count)`: of an empty group it is empty, whatever the count (no loop) *)
(* the end of parse_hex_macro_sequence: a pending group is appended, the finished macro is stored unless it is larger than MAX_MACRO_SIZE *)
Definition hex_finish (read_repeat : bool) (rep_rec : list Z) (rep_n : Z) (rec : list Z) : option (list Z) :=
  match (if read_repeat then push_group rec rep_rec rep_n else Some rec) with
  | Some m => if MAX_MACRO_SIZE <? zlen m then None else Some m
  | None => None
  end.
(* parse_hex_macro_sequence: Some macro | None = Err *)
Fixpoint hex_macro (s : list Z) (stt : hexst) (read_repeat : bool) (rep_rec : list Z) (rep_n : Z) (rec : list Z) : option (list Z) :=
  match s with
  | [] => hex_finish read_repeat rep_rec rep_n rec
  | ch :: r =>
    match stt with
    | HFirst =>
      if (ch =? 59) && read_repeat then match push_group rec rep_rec rep_n with
                                        | Some rec' => hex_macro r HFirst false rep_rec rep_n rec'
                                        | None => None
                                        end
      else if ch =? 33 then hex_macro r (HRepeat 0) read_repeat rep_rec rep_n rec
      else hex_macro r (HSecond ch) read_repeat rep_rec rep_n rec
    | HSecond f =>
      match hex_val f, hex_val (to_upper ch) with
      | Some a, Some b => let cc := a * 16 + b in
                          if read_repeat then hex_macro r HFirst read_repeat (rep_rec ++ [cc]) rep_n rec
                          else hex_macro r HFirst read_repeat rep_rec rep_n (rec ++ [cc])
      | _, _ => None
      end
    | HRepeat n =>
      if is_digit ch then hex_macro r (HRepeat (parse_next_number n ch)) read_repeat rep_rec rep_n rec
      else if ch =? 59 then hex_macro r HFirst true [] n rec
      else None
    end
  end.

Definition CTERM_FONT : list Z := [67; 84; 101; 114; 109; 58; 70; 111; 110; 116; 58].   (* "CTerm:Font:" *)
(* Parser::load_custom_font: C17's model of the function (slot number, base64 payload, BitFont::from_bytes) decides
   between Ok (the slot becomes a key of the font table) and Err; parse_string and parsed_numbers stay as they are.
   C17 proves that its model never yields Panic / Diverge (Props/C17.v dcs_total; here: Proofs/FontDcsSafe.v); both are
   mapped to the panic site SITE_FONT, not hidden. *)
Definition load_custom_font (t : term) (p : pst) (s : list Z) : outcome :=
  match Font.load_custom_font Base64.decode (map Z.to_N s) with
  | C17Lib.Ok (slot, _) => ok t (set_fonts p (Z.of_N slot :: fonts p))
  | C17Lib.Err _ => err t p
  | C17Lib.Panic _ => OPanic SITE_FONT
  | C17Lib.Diverge => OPanic SITE_FONT
  end.
(* execute_dcs (state already Default) *)
Definition execute_dcs (t : term) (p : pst) : outcome :=
  let s := rev (pstr p) in
  if starts_with CTERM_FONT s then load_custom_font t p s else
  let '(ns, rest) := lead_nums s [] in
  let p1 := set_nums p ns in
  match rest with
  | 33 :: 122 :: body =>                      (* "!z" *)
    match ns with
    | pid :: _ =>
      let p2 := match ns with _ :: 1 :: _ => set_macros p1 [] | _ => p1 end in
      match nth_error ns 2 with
      | Some 0 => ok t (set_macros p2 ((pid, body) :: macros p2))
      | Some 1 => match hex_macro body HFirst false [] 0 [] with
                  | Some m => ok t (set_macros p2 ((pid, m) :: macros p2))
                  | None => err t p2 end
      | _ => err t p2
      end
    | [] => err t p1
    end
  | 113 :: _ => ok t (set_pstr p1 [])          (* 'q': sixel handed to a decode thread (C14); parse_string is taken *)
  | _ => err t p1
  end.
(* parse_osc (state already Default) *)
Definition parse_osc (t : term) (p : pst) : outcome :=
  let s := rev (pstr p) in
  let '(ns, rest) := lead_nums s (nums p) in
  let i := Z.of_nat (length s - length rest) in
  let p1 := set_nums p ns in
  match ns with
  | 4 :: _ => ok t p1
  | f :: _ => if (i =? 3) && (f =? 8) then
                match skipn 3 s with
                | [] => ok t (set_hlinks p1 (pred (hlinks p1)))
                | _ => ok t (set_hlinks p1 (S (hlinks p1)))
                end
              else err t p1
  | [] => err t p1
  end.

(* ---- ANSI music (sound.rs) --------------------------------------------------------------------------------- *)
Definition mus (p : pst) (m : mstate) : pst := set_st p (SMusic m).
Definition parse_default_music (t : term) (p : pst) (ch : Z) : outcome :=
  if ch =? 14 then ok t (set_music (dflt p) 3 (mlength p) (tempo p))
  else if ch =? 84 then ok t (mus p (MTempo 0))
  else if ch =? 76 then ok t (mus p (MLength 0))
  else if ch =? 79 then ok t (mus p MOctave)
  else if ch =? 67 then ok t (mus p (MNote 0 0))
  else if ch =? 68 then ok t (mus p (MNote 2 0))
  else if ch =? 69 then ok t (mus p (MNote 4 0))
  else if ch =? 70 then ok t (mus p (MNote 5 0))
  else if ch =? 71 then ok t (mus p (MNote 7 0))
  else if ch =? 65 then ok t (mus p (MNote 9 0))
  else if ch =? 66 then ok t (mus p (MNote 11 0))
  else if ch =? 77 then ok t (mus p MStyle)
  else if ch =? 60 then ok t (if octave p >? 0 then set_music p (octave p - 1) (mlength p) (tempo p) else p)
  else if ch =? 62 then ok t (if octave p <? 6 then set_music p (octave p + 1) (mlength p) (tempo p) else p)
  else if ch =? 80 then ok t (mus p (MPause 0))
  else ok t p.
Definition parse_music (t : term) (p : pst) (m : mstate) (ch : Z) : outcome :=
  match m with
  | MStyle =>
    let p1 := mus p MDefault in
    if (ch =? 70) || (ch =? 66) || (ch =? 78) || (ch =? 76) || (ch =? 83) then ok t p1
    else parse_default_music t p1 ch
  | MTempo x =>
    if is_digit ch then ok t (mus p (MTempo ((parse_next_number x ch) mod 65536)))
    else parse_default_music t (set_music (mus p MDefault) (octave p) (mlength p) (clampz x 32 255)) ch
  | MOctave =>
    if (48 <=? ch) && (ch <=? 54) then ok t (set_music (mus p MDefault) (ch - 48) (mlength p) (tempo p))
    else err t p
  | MNote n len =>
    let p1 := mus p MDefault in
    if (ch =? 43) || (ch =? 35) then ok t (if n + 1 <? 84 then mus p (MNote (n + 1) len) else p1)
    else if ch =? 45 then ok t (if n >? 0 then mus p (MNote (n - 1) len) else p1)
    else if is_digit ch then ok t (mus p (MNote n (parse_next_number len ch)))
    else if ch =? 46 then ok t (mus p (MNote n (sat_mul len 3 / 2)))
    else parse_default_music t p1 ch        (* PlayNote(FREQ[min(n + 12*octave, 83)], tempo.saturating_mul(len), dotted) pushed *)
  | MLength x =>
    if is_digit ch then ok t (mus p (MLength (parse_next_number x ch)))
    else if ch =? 46 then ok t (mus p (MLength (sat_mul x 3 / 2)))
    else parse_default_music t (set_music p (octave p) (clampz x 1 64) (tempo p)) ch
  | MPause x =>
    if is_digit ch then ok t (mus p (MPause (parse_next_number x ch)))
    else if ch =? 46 then ok t (mus p (MPause (sat_mul x 3 / 2)))
    else parse_default_music t p ch
  | MDefault => parse_default_music t p ch
  end.
Definition start_music (p : pst) : pst := mus p MStyle.

(* ---- CSI sequences without intermediate (EngineState::ReadCSISequence) ---------------------------------------- *)
Definition print_cell (t : term) (ch : Z) : cell := (ch, print_bg t).
Definition hpos_line (t : term) : option (list cell) :=
  if cy t <? 0 then None else nth_error (lines t) (Z.to_nat (cy t)).

(* commands that need neither recursion nor the parser beyond [nums]; [is_start] only matters for ? = ! < *)
Definition csi_final (t : term) (p : pst) (is_start : bool) (ch : Z) : outcome :=
  let ns := nums p in
  let d := dflt p in
  if ch =? 109 then cmd_sgr t p                                                  (* m *)
  else if (ch =? 72) || (ch =? 102) then                                          (* H f *)
    let t1 := match ns with
              | [] => set_pos t 0 (upper_left_y t)
              | a :: r =>
                let t2 := if a >=? 0 then set_cy t (sat_add (first t) (Z.max 0 (a - 1))) else t in
                match r with
                | b :: _ => if b >=? 0 then set_cx t2 (Z.max 0 (b - 1)) else t2
                | [] => set_cx t2 0
                end
              end in
    lift (limit_caret_pos t1) d
  else if ch =? 67 then lift (caret_right t (first_or ns 1)) d                   (* C *)
  else if (ch =? 106) || (ch =? 68) then lift (caret_left t (first_or ns 1)) d   (* j D *)
  else if (ch =? 107) || (ch =? 65) then lift (caret_up t (first_or ns 1)) d     (* k A *)
  else if ch =? 66 then lift (caret_down t (first_or ns 1)) d                    (* B *)
  else if ch =? 115 then                                                          (* s *)
    if declr t then cmd_decslrm t p else ok t (set_saved_pos d (cx t, cy t))
  else if ch =? 117 then lift (limit_caret_pos (set_pos t (fst (saved_pos p)) (snd (saved_pos p)))) d   (* u *)
  else if ch =? 100 then                                                          (* d  VPA *)
    lift (limit_caret_pos (set_cy t (sat_add (first t) (match ns with n :: _ => n - 1 | [] => 0 end)))) d
  else if ch =? 101 then lift (limit_caret_pos (set_cy t (sat_add (first t + cy t) (first_or ns 1)))) d     (* e  VPR *)
  else if ch =? 39 then                                                           (* '  HPA *)
    match hpos_line t with
    | Some row => lift (limit_caret_pos (set_cx t (clampz (match ns with n :: _ => n - 1 | [] => 0 end) 0 (line_length row)))) d
    | None => ok t d
    end
  else if ch =? 97 then                                                           (* a  HPR *)
    match hpos_line t with
    | Some row => lift (limit_caret_pos (set_cx t (Z.min (line_length row) (sat_add (cx t) (first_or ns 1))))) d
    | None => ok t d
    end
  else if ch =? 71 then lift (limit_caret_pos (set_cx t (match ns with n :: _ => n - 1 | [] => 0 end))) d    (* G *)
  else if ch =? 69 then lift (limit_caret_pos (set_pos t 0 (sat_add (first t + cy t) (first_or ns 1)))) d    (* E *)
  else if ch =? 70 then lift (limit_caret_pos (set_pos t 0 (first t + cy t - first_or ns 1))) d              (* F *)
  else if ch =? 110 then                                                          (* n  DSR *)
    match ns with
    | [k] => if (k =? 5) || (k =? 6) || (k =? 255) then ok t d else err t d
    | _ => err t d
    end
  else if ch =? 88 then cmd_ech t p                                               (* X *)
  else if ch =? 64 then                                                           (* @ *)
    match ns with
    | n :: _ => ok (iter_tot (Z.min n (Z.max 0 (lw t - cx t))) caret_ins t) d      (* after the C03 fix: clamped to the right edge *)
    | [] => err (caret_ins t) d
    end
  else if ch =? 77 then                                                           (* M *)
    if (music_opt p =? 1) || (music_opt p =? 3) then ok t (start_music p)
    else match ns with
         | [] => if cy t <? zlen (lines t) then lift (remove_terminal_line t (cy t)) d else ok t d
         | [n] => lift (iter_res (Z.min n (zlen (lines t) - cy t)) (fun x => remove_terminal_line x (cy x)) t) d
         | _ => err t d
         end
  else if ch =? 78 then                                                           (* N: the state is NOT reset *)
    if (music_opt p =? 2) || (music_opt p =? 3) then ok t (start_music p) else ok t p
  else if ch =? 124 then                                                          (* | *)
    if negb (music_opt p =? 0) then ok t (start_music p) else ok t p
  else if ch =? 80 then                                                           (* P *)
    match ns with
    | [] => ok (caret_del t) d
    | [n] => ok (iter_tot n caret_del t) d
    | _ => err t d
    end
  else if ch =? 76 then                                                           (* L *)
    match ns with
    | [] => lift (insert_terminal_line t (cy t)) d
    | [n] => lift (iter_res (Z.min n (match mtb t with
                                      | Some _ => Z.max (zlen (lines t)) (cy t + 1) + th t + 1
                                      | None => Z.max 0 (first t + th t - cy t) end))
                            (fun x => insert_terminal_line x (cy x)) t) d      (* after the C03 fix: clamped *)
    | _ => err t d
    end
  else if ch =? 74 then                                                           (* J *)
    match ns with
    | [] => ok (clear_buffer_down t) d
    | n :: _ => if n =? 0 then ok (clear_buffer_down t) d
                else if n =? 1 then ok (clear_buffer_up t) d
                else if (n =? 2) || (n =? 3) then ok (clear_screen t) d
                else err (clear_buffer_down t) d
    end
  else if ch =? 63 then if is_start then ok t (set_st p SCsiCmd) else err t p     (* ? *)
  else if ch =? 61 then if is_start then ok t (set_st p SCsiReq) else err t p     (* = *)
  else if ch =? 33 then if is_start then ok t (set_st p SRip) else err t p        (* ! *)
  else if ch =? 60 then if is_start then ok t (set_st p SDevAttr) else err t p    (* < *)
  else if (ch =? 42) || (ch =? 36) || (ch =? 32) then ok t (set_st p (SEndCsi ch))   (* * $ SP *)
  else if ch =? 75 then                                                           (* K *)
    match ns with
    | [] => ok (clear_line_end t) d
    | n :: _ => if n =? 0 then ok (clear_line_end t) d
                else if n =? 1 then ok (clear_line_start t) d
                else if n =? 2 then ok (clear_line t) d
                else err t d
    end
  else if ch =? 99 then ok t d                                                    (* c  DA *)
  else if ch =? 114 then                                                          (* r *)
    if (2 <? nlen ns) then cmd_csr t p else cmd_decstbm t p
  else if ch =? 104 then match ns with [4] => ok (set_ins t true) d | _ => err t d end      (* h *)
  else if ch =? 108 then match ns with [4] => ok (set_ins t false) d | _ => err t d end     (* l *)
  else if ch =? 126 then                                                          (* ~ *)
    match ns with
    | [k] => if k =? 1 then ok (set_cx t 0) d
             else if k =? 2 then ok (caret_ins t) d
             else if k =? 3 then ok (caret_del t) d
             else if k =? 4 then ok (caret_eol t) d
             else if (k =? 5) || (k =? 6) then ok t d
             else err t d
    | _ => err t d
    end
  else if ch =? 116 then cmd_window t p                                           (* t *)
  else if ch =? 83 then ok (iter_tot (first_or ns 1) scroll_up t) d               (* S *)
  else if ch =? 84 then ok (iter_tot (first_or ns 1) scroll_down t) d             (* T *)
  else if ch =? 98 then                                                           (* b  REP *)
    lift (iter_res (Z.min (first_or ns 1) (rep_limit t)) (fun x => print_char x (print_cell t (last_char p))) t) d
  else if ch =? 103 then                                                          (* g  TBC *)
    if 1 <? nlen ns then err t d
    else let n := first_or ns 0 in
         if n =? 0 then ok (remove_tab_stop t (cx t)) d
         else if (n =? 3) || (n =? 5) then ok (set_tabs t []) d
         else err t d
  else if ch =? 89 then                                                           (* Y  CVT (after the fix: clamped) *)
    if 1 <? nlen ns then err t d
    else lift (limit_caret_pos (iter_tot (first_or ns 1) (fun x => set_cx x (next_tab_stop x (cx x))) t)) d
  else if ch =? 90 then                                                           (* Z  CBT *)
    if 1 <? nlen ns then err t d
    else ok (iter_tot (first_or ns 1) (fun x => set_cx x (prev_tab_stop x (cx x))) t) d
  else
    (* the `_` arm *)
    if (64 <=? ch) && (ch <=? 126) then err t d
    else if is_digit ch then ok t (set_nums (set_st p (SCsi false)) (push_digit ns ch))
    else if ch =? 59 then ok t (set_nums (set_st p (SCsi false)) (push_semi ns))
    else err t d.

(* CSI ? .. *)
Definition csi_cmd (t : term) (p : pst) (ch : Z) : outcome :=
  let ns := nums p in let d := dflt p in
  if ch =? 108 then                                                               (* l *)
    match ns with
    | [k] => if k =? 7 then ok (set_awrap t false) d
             else if k =? 33 then ok (set_ice t false) d
             else if k =? 69 then ok (set_mlr (set_declr t false) None) d
             else if (k =? 4) || (k =? 6) || (k =? 25) || (k =? 35) || (k =? 9) || ((1000 <=? k) && (k <=? 1007)) || (k =? 1015) || (k =? 1016)
                  then ok t d                (* ?6l: the WithinMargins assignment is commented out in the source *)
             else err t d
    | _ => err t d
    end
  else if ch =? 104 then                                                          (* h *)
    match ns with
    | [k] => if k =? 6 then ok (set_origin t false) d
             else if k =? 7 then ok (set_awrap t true) d
             else if k =? 33 then ok (set_ice t true) (set_bice d true)
             else if k =? 69 then ok (set_declr t true) d
             else if (k =? 4) || (k =? 25) || (k =? 35) || (k =? 9) || ((1000 <=? k) && (k <=? 1007)) || (k =? 1015) || (k =? 1016)
                  then ok t d
             else err t d
    | _ => err t d
    end
  else if is_digit ch then ok t (set_nums p (push_digit ns ch))
  else if ch =? 59 then ok t (set_nums p (push_semi ns))
  else if ch =? 110 then                                                          (* n *)
    match ns with
    | 62 :: _ => ok t d
    | 63 :: r => match r with [_] => ok t d | _ => err t d end
    | _ => err t d
    end
  else err t d.
(* CSI = .. *)
Definition csi_req (t : term) (p : pst) (ch : Z) : outcome :=
  let ns := nums p in let d := dflt p in
  if ch =? 110 then match ns with [k] => if (1 <=? k) && (k <=? 3) then ok t d else err t d | _ => err t d end
  else if is_digit ch then ok t (set_nums p (push_digit ns ch))
  else if ch =? 59 then ok t (set_nums p (push_semi ns))
  else if ch =? 114 then cmd_reset_margins t p
  else if ch =? 109 then match ns with [_; _] => cmd_ssm t p | _ => err t p end   (* wrong count: Err, state kept *)
  else err t d.
(* CSI < .. *)
Definition csi_devattr (t : term) (p : pst) (ch : Z) : outcome :=
  let ns := nums p in let d := dflt p in
  if is_digit ch then ok t (set_nums p (push_digit ns ch))
  else if ch =? 59 then ok t (set_nums p (push_semi ns))
  else if ch =? 99 then if 1 <? nlen ns then err t d else ok t d
  else err t d.

(* the Default state: also the target of the re-dispatch from CSI ! <not p> *)
Definition step_default (t : term) (p : pst) (ch : Z) : outcome :=
  if ch =? 27 then ok t (set_st p SEsc)
  else if ch =? 10 then lift (caret_lf t) p
  else if ch =? 12 then ok (caret_ff t) p
  else if ch =? 13 then ok (caret_cr t) p
  else if ch =? 7 then ok t p
  else if ch =? 127 then ok (caret_del t) p
  else if (ch =? 8) && bs_ctrl p then ok (caret_bs t) p
  else if ((ch =? 0) || (ch =? 255)) && bs_ctrl p then ok (caret_reset_color t) p
  else lift (print_char t (print_cell t ch)) (set_last p ch).

Definition restore_saved (t : term) (s : saved) : term :=
  let '(x, y, fg, bg, bl, ice, i) := s in
  set_ice (set_ins (set_attr (set_pos t x y) fg bg bl) i) ice.

(* one character, given the macro invoker ([invoke_macro_by_id]) *)
Definition astep_gen (invoke : term -> pst -> Z -> outcome) (m : amach) (ch : Z) : outcome :=
  let t := tm m in let p := ps m in
  match st p with
  | SMusic ms => parse_music t p ms ch
  | SEsc =>
    let d := dflt p in
    if ch =? 91 then ok t (set_nums (set_st p (SCsi true)) [])                    (* [ *)
    else if ch =? 93 then ok t (set_pstr (set_nums (set_st p SOsc) []) [])        (* ] *)
    else if ch =? 55 then ok t (set_saved_cur d (Some (cx t, cy t, cfg t, cbg t, cblink t, cice t, ins t)))   (* 7 *)
    else if ch =? 56 then                                                         (* 8 (after the fix: clamped) *)
      match saved_cur p with
      | Some s => lift (limit_caret_pos (restore_saved t s)) d
      | None => ok t d
      end
    else if ch =? 99 then ok (reset_terminal (caret_reset (caret_ff t))) (set_macros d [])   (* c  RIS *)
    else if ch =? 68 then lift (caret_index t) d                                  (* D *)
    else if ch =? 77 then lift (caret_reverse_index t) d                          (* M *)
    else if ch =? 69 then lift (caret_next_line t) d                              (* E *)
    else if ch =? 80 then ok t (set_nums (set_pstr (set_st p SDcs) []) [])        (* P *)
    else if ch =? 72 then ok (set_tab_at t (cx t)) d                              (* H *)
    else if ch =? 95 then ok t (set_pstr (set_st p SAps) [])                      (* _ *)
    else if (48 <=? ch) && (ch <=? 126) then ok t d
    else if (ch =? 12) || (ch =? 7) || (ch =? 8) || (ch =? 9) || (ch =? 127) || (ch =? 27) || (ch =? 10) || (ch =? 13)
         then lift (print_char t (print_cell t ch)) (set_last d ch)
    else err t d
  | SAps => if ch =? 27 then ok t (set_st p SApsEsc) else ok t (set_pstr p (ch :: pstr p))
  | SApsEsc => if ch =? 92 then ok t (dflt p) else ok t (set_pstr (set_st p SAps) (ch :: 27 :: pstr p))
  | SDcsMacro i =>
    let p1 := set_mdcs p (ch :: macro_dcs p) in
    if is_digit ch then
      if negb (i =? 1) then err t (dflt p1) else ok t (set_nums p1 (push_digit (nums p1) ch))
    else if ch =? 91 then if negb (i =? 0) then err t (dflt p1) else ok t (set_st p1 (SDcsMacro 1))
    else if ch =? 42 then if negb (i =? 1) then err t (dflt p1) else ok t (set_st p1 (SDcsMacro 2))
    else if ch =? 122 then
      if negb (i =? 2) then err t (dflt p1)
      else match nums p1 with
           | [id] => invoke t (set_st p1 SDcs) id
           | _ => err t (dflt p1)
           end
    else ok t (set_st (set_pstr p1 (macro_dcs p1 ++ 91 :: 27 :: pstr p1)) SDcs)
  | SDcs => if ch =? 27 then ok t (set_st p SDcsEsc) else ok t (set_pstr p (ch :: pstr p))
  | SDcsEsc =>
    if ch =? 92 then execute_dcs t (dflt p)
    else if ch =? 91 then ok t (set_mdcs (set_st p (SDcsMacro 1)) [])
    else ok t (set_pstr (set_st p SDcs) (ch :: 27 :: pstr p))
  | SOsc => if ch =? 27 then ok t (set_st p SOscEsc) else ok t (set_pstr p (ch :: pstr p))
  | SOscEsc => if ch =? 92 then parse_osc t (dflt p) else ok t (set_pstr (set_st p SOsc) (ch :: 27 :: pstr p))
  | SCsiCmd => csi_cmd t p ch
  | SCsiReq => csi_req t p ch
  | SRip => if ch =? 112 then lift (limit_caret_pos (caret_reset (reset_terminal t))) (dflt p)   (* DECSTR (after the fix: clamped) *)
            else step_default t (dflt p) ch
  | SDevAttr => csi_devattr t p ch
  | SEndCsi f =>
    let d := dflt p in
    if f =? 42 then                                                               (* * *)
      if ch =? 122 then match nums p with id :: _ => invoke t d id | [] => ok t d end      (* invoke_macro: `invoke_macro_by_id(..)?; Ok(Update)` *)
      else if ch =? 114 then ok t d                                               (* DECSCS: baud emulation not modelled *)
      else if ch =? 121 then match nums p with
                             | [_; _; pt; pl; pb; pr] =>
                               if (pt >? pb) || (pl >? pr) || (pr >? tw t) || (pb >? th t) || (pl <? 0) || (pt <? 0) then err t d else ok t d
                             | _ => err t d end
      else ok t p
    else if f =? 36 then                                                          (* $ *)
      if ch =? 119 then ok t d
      else if ch =? 120 then cmd_fill_rect t p
      else if ch =? 122 then cmd_erase_rect t p
      else if ch =? 123 then cmd_sel_erase_rect t p
      else ok t p
    else if f =? 32 then                                                          (* SP *)
      if ch =? 68 then cmd_font_selection t p
      else if ch =? 65 then lift (iter_res (first_or (nums p) 1) scroll_right t) d
      else if ch =? 64 then ok (iter_tot (first_or (nums p) 1) scroll_left t) d
      else if ch =? 100 then match nums p with [n] => ok (remove_tab_stop t (n - 1)) d | _ => err t d end
      else err t d
    else err t d
  | SCsi is_start => csi_final t p is_start ch
  | SDefault => step_default t p ch
  end.

(* invoke_macro_by_id, the replay loop: feed the macro text through print_char; an error is logged and ignored, except
   MacroNestingTooDeep: it ends the loop (`break`) and is the result of the invocation *)
Definition feed_macro (stepf : amach -> Z -> outcome) (body : list Z) (t0 : term) (p0 : pst) : outcome :=
  fold_left (fun acc c => match acc with
                          | OOk m1 => match stepf m1 c with OErr m2 => OOk m2 | o => o end
                          | o => o end) body (ok t0 p0).
(* print_char with [fuel] = MAX_MACRO_NESTING - self.macro_nesting, the number of further nesting levels the counter of
   the code admits: invoke_macro_by_id with the counter at the limit (fuel 0) returns Err(MacroNestingTooDeep) before it
   touches anything; otherwise the counter is incremented around the replay loop (the replayed characters run with fuel - 1)
   and decremented after it, whichever way the loop ends *)
Fixpoint astep (fuel : nat) (m : amach) (ch : Z) : outcome :=
  astep_gen (fun t0 p0 id =>
               match lookup id (macros p0) with
               | None => ok t0 p0
               | Some body => match fuel with
                              | O => ODeep (mkA t0 p0)
                              | S k => feed_macro (astep k) body t0 p0
                              end
               end) m ch.

(* print_char as its callers see it: the counter is 0 whenever the parser is entered from outside (translator/gen_macro.py
   pins that nothing else writes it), so every character starts with the full budget *)
Definition ansi_step (m : amach) (ch : Z) : outcome := astep MAX_MACRO_NESTING m ch.
Definition ansi_init (music : Z) (bs : bool) (w h : Z) : amach := mkA (init_term w h) (init_pst music bs).
