(* Model/XBinLegacy.v — compress_backtrack as it was at the pinned commit, BEFORE the `fix:` commit:
   the Full-run continuation test was `end_run = cur != run_ch` (font-page-blind Rust equality).
   Only used to state the refutation lemma of Props/C06.v; everything else is Model/XBin.v. *)
From Coq Require Import NArith List Bool.
From IE Require Import Lib.Tbl Gen.XBinConst Model.XBin.
Import ListNotations.
Local Open Scope N_scope.

Definition legacy_end_run_of (o : oracle) (s : cstate) (cs : list cell) (cur : cell) : bool :=
  if RUN_MAX <=? run_count s then true
  else match run_mode s with
       | MFull => negb (cell_eqb cur (run_ch s))
       | _ => end_run_of o s cs cur
       end.

Fixpoint legacy_crow (o : oracle) (fonts : list N) (ic : ice_mode) (cs : list cell) (s : cstate) : res (list N) :=
  match cs with
  | [] => Ok (if 0 <? run_count s then flush s else [])
  | cur :: rest =>
      let ended := (0 <? run_count s) && legacy_end_run_of o s cs cur in
      if 255 <? ch cur then ErrOnly8Bit
      else
        let s' := if (0 <? run_count s) && negb ended then push_cell fonts ic s cur
                  else start_run fonts ic cur rest in
        match legacy_crow o fonts ic rest s' with
        | Ok bs => Ok (if ended then flush s ++ bs else bs)
        | ErrOnly8Bit => ErrOnly8Bit
        end
  end.

(* the row of DESIGN.md section 8 "C06 xb-full-run-fontpage": one character, one colour, font pages 0000 1111 *)
Definition row_0000_1111 : list cell :=
  map (fun p => mkcell 65 (mkattr 7 0 0 p)) [0; 0; 0; 0; 1; 1; 1; 1].
