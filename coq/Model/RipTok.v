(* Model of the RIPscrip tokenizer: src/parsers/rip/mod.rs
     enum State, struct Parser {state, parameter_state, command, enable_rip}, Parser::parse_parameter, start_command,
     push_command, <Parser as BufferParser>::print_char, parse_base_36
   and of Command::parse of every command in src/parsers/rip/commands.rs (the regular ones through the tables generated into
   Gen/RipGen.v, the nine irregular ones written out here; gen_rip.py pins their source text).

   Characters are N (the Rust char's scalar value).  The fallback ANSI parser the RIP parser wraps is NOT modelled: what the
   tokenizer asks of it (print these characters; what is your state; reset your state) is a parameter of [tok_step]'s
   caller, see Section Stream.  Executable definitions only. *)
From Coq Require Import NArith ZArith List Bool.
From IE Require Import Gen.RipGen.
Import ListNotations.
Local Open Scope Z_scope.

Inductive res (A : Type) : Type := Ok (a : A) | Panic (site : N).
Arguments Ok {A} a. Arguments Panic {A} site.

(* panic sites *)
Definition SITE_UNWRAP_COMMAND : N := 1.   (* parse_parameter: self.command.as_mut().unwrap() *)
Definition SITE_PSTATE_OVERFLOW : N := 2.  (* parse_parameter: self.parameter_state += 1 (i32, dev profile) *)
Definition SITE_POP_UNWRAP : N := 3.       (* SetPalette / Polygon parse: pop().unwrap() *)
Definition SITE_FIELD : N := 4.            (* model encoding: a table names a field the command does not have (never, see field_tables_ok) *)
Definition SITE_POLY_ARITH : N := 5.       (* Polygon parse: (self.npoints + 1) * 4 *)

Definition I32_MIN : Z := -2147483648.
Definition I32_MAX : Z := 2147483647.
Definition in_i32 (z : Z) : bool := (I32_MIN <=? z) && (z <=? I32_MAX).

(* char::to_digit(36) *)
Definition to_digit36 (ch : N) : option Z :=
  let c := Z.of_N ch in
  if (48 <=? c) && (c <=? 57) then Some (c - 48)
  else if (65 <=? c) && (c <=? 90) then Some (c - 55)
  else if (97 <=? c) && (c <=? 122) then Some (c - 87)
  else None.

(* parse_base_36 (after the fix: checked_mul / checked_add); None = Err *)
Definition parse_base_36 (number : Z) (ch : N) : option Z :=
  match to_digit36 ch with
  | Some d => let n := number * 36 in
              if in_i32 n then (let m := n + d in if in_i32 m then Some m else None) else None
  | None => None
  end.

(* a command under construction: its i32 / bool / char fields by declaration index (other fields: slot unused),
   its Vec<i32> (palette / points), the number of text characters pushed so far (their values are never looked at by
   the modelled code, only stored) *)
Record pcmd := { pc_cmd : cmd; pc_fields : list Z; pc_vec : list Z; pc_textlen : N }.

Definition new_cmd (c : cmd) : pcmd :=
  {| pc_cmd := c; pc_fields := repeat 0 (cmd_nfields c); pc_vec := []; pc_textlen := 0 |}.

Fixpoint set_nth {A} (l : list A) (n : nat) (v : A) : option (list A) :=
  match l, n with
  | [], _ => None
  | _ :: t, O => Some (v :: t)
  | h :: t, S n' => match set_nth t n' v with Some t' => Some (h :: t') | None => None end
  end.

Inductive presult := PMore (c : pcmd) | PDone (c : pcmd) | PErr | PPanic (site : N).

Definition with_field (c : pcmd) (f : nat) (k : Z -> option Z) (cont : pcmd -> presult) : presult :=
  match nth_error (pc_fields c) f with
  | None => PPanic SITE_FIELD
  | Some v =>
    match k v with
    | None => PErr
    | Some v' => match set_nth (pc_fields c) f v' with
                 | Some fs => cont {| pc_cmd := pc_cmd c; pc_fields := fs; pc_vec := pc_vec c; pc_textlen := pc_textlen c |}
                 | None => PPanic SITE_FIELD
                 end
    end
  end.

Definition push_text (c : pcmd) : pcmd :=
  {| pc_cmd := pc_cmd c; pc_fields := pc_fields c; pc_vec := pc_vec c; pc_textlen := N.succ (pc_textlen c) |}.
Definition with_vec (c : pcmd) (v : list Z) : pcmd :=
  {| pc_cmd := pc_cmd c; pc_fields := pc_fields c; pc_vec := v; pc_textlen := pc_textlen c |}.

Definition apply_ret (r : ret) (st : Z) (c : pcmd) : presult :=
  match r with
  | RTrue => PMore c
  | RFalse => PDone c
  | RLt n => if st <? n then PMore c else PDone c
  end.

Definition apply_act (a : act * ret) (st : Z) (c : pcmd) (ch : N) : presult :=
  match fst a with
  | ADig f => with_field c f (fun v => parse_base_36 v ch) (apply_ret (snd a) st)
  | AFlag f => with_field c f (fun _ => Some (if (ch =? 49)%N then 1 else 0)) (apply_ret (snd a) st)
  | AText => apply_ret (snd a) st (push_text c)
  | AErr => PErr
  end.

(* Vec::pop().unwrap() then push: the last element is replaced *)
Definition pop_last (v : list Z) : option (list Z * Z) :=
  match rev v with [] => None | x :: r => Some (rev r, x) end.

Definition vec_digit (c : pcmd) (st : Z) (ch : N) (cont : pcmd -> presult) : presult :=
  let v := if Z.rem st 2 =? 0 then pc_vec c ++ [0] else pc_vec c in
  match pop_last v with
  | None => PPanic SITE_POP_UNWRAP
  | Some (rest, x) =>
    match parse_base_36 x ch with
    | None => PErr          (* `?` leaves the vector one element short; the command is dropped by the caller *)
    | Some x' => cont (with_vec c (rest ++ [x']))
    end
  end.

(* Command::parse, dispatched on the generated description *)
Definition cmd_parse_step (c : pcmd) (st : Z) (ch : N) : presult :=
  match cmd_parse (pc_cmd c) with
  | PTable arms dflt =>
    let a := if (0 <=? st) then match nth_error arms (Z.to_nat st) with Some a => a | None => dflt end else dflt in
    apply_act a st c ch
  | PSetPalette => vec_digit c st ch (fun c' => if st <? 31 then PMore c' else PDone c')
  | PPoly =>
    if (st =? 0) || (st =? 1) then
      (* npoints is the second field of the three polygon structs *)
      with_field c 1 (fun v => parse_base_36 v ch) PMore
    else
      vec_digit c st ch (fun c' =>
        match nth_error (pc_fields c') 1 with
        | None => PPanic SITE_FIELD
        | Some np => let a := np + 1 in
                     if in_i32 a && in_i32 (a * 4) then (if st <? a * 4 then PMore c' else PDone c') else PPanic SITE_POLY_ARITH
        end)
  | PText => PMore (push_text c)
  | PFlagText => if st =? 0 then with_field c 0 (fun _ => Some (if (ch =? 49)%N then 1 else 0)) PMore else PMore (push_text c)
  | PChrText => if st =? 0 then with_field c 0 (fun _ => Some (Z.of_N ch)) PMore else PMore (push_text c)
  | PResText => PMore (push_text c)
  | PTextVar => if (ch =? 36)%N then PDone c else PMore (push_text c)
  | PNone => PErr            (* the trait's default parse: Err("Invalid state") *)
  end.

(* ------------------------------------------------------------------------------------------------------------- *)
Inductive tstate := SDefault | SGotRipStart | SReadCommand (level : Z) | SReadParams | SSkipEOL | SEndRip.

Record tok := { t_state : tstate; t_pstate : Z; t_cmd : option pcmd; t_enable : bool }.

Definition tok_init : tok := {| t_state := SDefault; t_pstate := 0; t_cmd := None; t_enable := true |}.

(* what print_char does besides changing the tokenizer: *)
Inductive action :=
  | ANone                      (* Ok(NoUpdate / Update / SendString) without touching anything else *)
  | AErrQuery                  (* Err(InvalidRipAnsiQuery) *)
  | ARun (c : pcmd)            (* record_rip_command: cmd.run(buf, caret, bgi) *)
  | APrint (cs : list N)       (* fallback_parser.print_char on these characters in order, `?` on all but the last *)
  | APrintAlways (cs : list N) (* the same, not subject to bgi.suspend_text (enable_rip = false) *).

(* the state of the wrapped ansi parser as far as print_char looks at it *)
Inductive fbmode := FDefault | FCsi (first_number : option Z) | FOther.

Definition set_state (t : tok) (s : tstate) : tok :=
  {| t_state := s; t_pstate := t_pstate t; t_cmd := t_cmd t; t_enable := t_enable t |}.
Definition start_command (t : tok) (c : cmd) : tok :=
  {| t_state := SReadParams; t_pstate := 0; t_cmd := Some (new_cmd c); t_enable := t_enable t |}.
Definition take_cmd (t : tok) (s : tstate) : tok * action :=
  match t_cmd t with
  | Some c => ({| t_state := s; t_pstate := t_pstate t; t_cmd := None; t_enable := t_enable t |}, ARun c)
  | None => (set_state t s, ANone)
  end.

Fixpoint lookup {A} (k : N) (l : list (N * A)) : option A :=
  match l with [] => None | (k', v) :: t => if (k =? k')%N then Some v else lookup k t end.

(* Parser::parse_parameter: PPReturn = `return Some(value)` (tokenizer after the call, what to do), PPFall = returned None
   (the character was consumed as a parameter, Ok(true)) *)
Inductive pp_result := PPReturn (t : tok) (a : action) | PPFall (t : tok) | PPPanic (site : N).

Definition parse_parameter (t : tok) (ch : N) : pp_result :=
  if (ch =? 92)%N then PPReturn (set_state t SSkipEOL) ANone
  else if (ch =? 13)%N then PPReturn t ANone
  else if (ch =? 10)%N then let '(t', a) := take_cmd t SDefault in PPReturn t' a
  else if (ch =? 124)%N then let '(t', a) := take_cmd t (SReadCommand 0) in PPReturn t' a
  else match t_cmd t with
       | None => PPPanic SITE_UNWRAP_COMMAND
       | Some c =>
         match cmd_parse_step c (t_pstate t) ch with
         | PPanic s => PPPanic s
         | PMore c' =>
           if in_i32 (t_pstate t + 1) then
             PPFall {| t_state := t_state t; t_pstate := t_pstate t + 1; t_cmd := Some c'; t_enable := t_enable t |}
           else PPPanic SITE_PSTATE_OVERFLOW
         | PDone c' =>
           (* `if let Some(t) = self.command.take()`: state GotRipStart, run it *)
           PPReturn {| t_state := SGotRipStart; t_pstate := t_pstate t; t_cmd := None; t_enable := t_enable t |} (ARun c')
         | PErr =>
           (* parse may have mutated the boxed command up to the failing `?`; it is never read again before start_command
              replaces it, so the model keeps the old value *)
           PPReturn (set_state t SDefault) ANone
         end
       end.

Inductive step_result := SOk (t : tok) (a : action) (reset_fallback : bool) | SPanic (site : N).

Definition dispatch (t : tok) (tab : list (N * (cmd * bool))) (ch : N) : option step_result :=
  match lookup ch tab with
  | Some (c, true) => Some (SOk (start_command t c) ANone false)
  | Some (c, false) => Some (SOk (set_state t SGotRipStart) (ARun (new_cmd c)) false)     (* push_command *)
  | None => None
  end.

(* <Parser as BufferParser>::print_char, without the `cleared_screen` prologue (the flag is never set by the engine) *)
Definition tok_step (fb : fbmode) (t : tok) (ch : N) : step_result :=
  match t_state t with
  | SReadParams =>
    match parse_parameter t ch with
    | PPReturn t' a => SOk t' a false
    | PPFall t' => SOk t' ANone false
    | PPPanic s => SPanic s
    end
  | SSkipEOL =>
    if (ch =? 13)%N then SOk t ANone false
    else if (ch =? 10)%N then SOk (set_state t SReadParams) ANone false
    else match parse_parameter t ch with
         | PPReturn t' a => SOk t' a false
         | PPFall t' => SOk (set_state t' SReadParams) ANone false
         | PPPanic s => SPanic s
         end
  | SEndRip =>
    if (ch =? 13)%N then SOk t ANone false
    else if (ch =? 10)%N then SOk (set_state t SDefault) ANone false
    else if (ch =? 124)%N then SOk (set_state t (SReadCommand 0)) ANone false
    else SOk (set_state t SDefault) ANone false
  | SReadCommand level =>
    if (ch =? 33)%N then SOk (set_state t SGotRipStart) ANone false
    else if level =? 1 then
      match dispatch t rip_level1 ch with
      | Some r => r
      | None => SOk (set_state t SDefault) ANone false
      end
    else if level =? 9 then
      match dispatch t rip_level9 ch with
      | Some r => r
      | None => SOk (set_state t SDefault) ANone false
      end
    else
      match dispatch t rip_level0 ch with
      | Some r => r
      | None =>
        if (ch =? 49)%N then SOk (set_state t (SReadCommand 1)) ANone false
        else if (ch =? 57)%N then SOk (set_state t (SReadCommand 9)) ANone false
        else if (ch =? 35)%N then SOk (set_state t SEndRip) ANone false
        else SOk (set_state t SDefault) (APrint [33; 124; ch]%N) false
      end
  | SGotRipStart =>
    if (ch =? 33)%N then SOk t ANone false
    else if (ch =? 10)%N || (ch =? 13)%N then SOk t ANone false
    else if negb (ch =? 124)%N then SOk (set_state t SDefault) (APrint [33; ch]%N) false
    else SOk (set_state t (SReadCommand 0)) ANone false
  | SDefault =>
    match fb with
    | FCsi first =>
      if (ch =? 33)%N then
        match first with
        | None => SOk t ANone true                                   (* SendString(RIP_TERMINAL_ID) *)
        | Some n =>
          if n =? 0 then SOk t ANone true
          else if n =? 1 then SOk {| t_state := t_state t; t_pstate := t_pstate t; t_cmd := t_cmd t; t_enable := false |} ANone true
          else if n =? 2 then SOk {| t_state := t_state t; t_pstate := t_pstate t; t_cmd := t_cmd t; t_enable := true |} ANone true
          else SOk t AErrQuery true
        end
      else SOk t (APrint [ch]) false
    | FDefault =>
      if negb (t_enable t) then SOk t (APrintAlways [ch]) false
      else if (ch =? 33)%N then SOk (set_state t SGotRipStart) ANone false
      else SOk t (APrint [ch]) false
    | FOther => SOk t (APrint [ch]) false
    end
  end.
