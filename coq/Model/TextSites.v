(* The places where icy_engine turns numbers that come from a terminal stream, a file or clipboard data into
   `char`s, and file bytes into `String`s.  Executable definitions only.  Every function takes the conversion
   [conv : N -> option N] as a parameter; Gen/TextSitesGen.v says, from the source, which one each site calls
   (Model.Unicode.char_from_u32 = checked, char_from_u32_unchecked = the number is materialised as it is).

   Rust                                                       here
   ---------------------------------------------------------  -----------------------------------------
   ansi::Parser, EngineState::ReadCSISequence digits and ';'   csi_numbers  (push_digit/parse_next_number of Model.Sixel)
   Parser::fill_rectangular_area + get_rect_area               fill
   Layer::from_clipboard_data                                  clipboard
   IcyDraw::load_buffer, LAYER_n chunk (header + cells)        icy_layer      (cells: decode_cell, cells_loop true)
   IcyDraw::load_buffer, LAYER_n~k chunk, Role::Normal         icy_continue   (cells_loop false)
   icy_draw::read_utf8_encoded_string                          read_string
   fonts::glyphs_from_u8_data                                  glyphs         (glyphs_v0: the loop of the snapshot commit)
   BitFont::{from_bytes, load_psf1, load_psf2, load_plain_font,
             create_8, from_basic}: length + glyph map         font_from_bytes, load_psf1, load_psf2, load_plain, font_create
   BitFont::{calculate_checksum, convert_to_u8_data,
             to_psf2_bytes}: the chars they look up            lookup_keys
   Parser::parse_hex_macro_sequence                            hexmacro

   A char is its code point, a byte an N below 256, an i32 a Z.  Checked indexing/slicing is modelled: an access
   the Rust code would panic on yields [Panic].  Loops that the Rust code bounds by the data (every iteration
   consumes input) run on a fuel that the entry points set from the input length (sufficiency is proved). *)
From Coq Require Import NArith ZArith List Bool.
From IE Require Model.Sixel.
From IE Require Import Lib.Tbl Model.Unicode Gen.TextSitesGen.
Import ListNotations.
Local Open Scope N_scope.

Inductive outcome (A : Type) : Type :=
| Done (a : A)      (* the function returned normally (Ok / Some) with this observable state *)
| Rejected          (* Err(..) / None *)
| Panic             (* index or slice out of range, add overflow *)
| Diverge.          (* the Rust loop does not terminate (snapshot code: font height 0); also "out of fuel", proved unreachable *)
Arguments Done {A} _. Arguments Rejected {A}. Arguments Panic {A}. Arguments Diverge {A}.

Definition omap {A B} (f : A -> B) (o : outcome A) : outcome B :=
  match o with Done a => Done (f a) | Rejected => Rejected | Panic => Panic | Diverge => Diverge end.

Definition le16 (a b : N) : N := a + 256 * b.
Definition le32 (a b c d : N) : N := a + 256 * b + 65536 * c + 16777216 * d.
Definition as_i32 (x : N) : Z := if x <? 2147483648 then Z.of_N x else (Z.of_N x - 4294967296)%Z.   (* u32 as i32 *)
Definition i32_as_u32 (x : Z) : N := Z.to_N (x mod 4294967296).                                     (* i32 as u32 *)

(* a stored character cell: column, row, code point *)
Definition event := (Z * Z * N)%type.
Definition ev_char (e : event) : N := snd e.

(* ------------------------------------------------------------------ CSI Pch;Pt;Pl;Pb;Pr $ x *)

(* ReadCSISequence: a digit replaces the last number by parse_next_number(last, digit) (or pushes onto an empty
   list), ';' pushes 0.  [text] is the parameter text between CSI and '$'. *)
Definition csi_step (ns : list Z) (ch : Z) : list Z :=
  if Sixel.is_digit ch then Sixel.push_digit ns ch else if (ch =? 59)%Z then ns ++ [0%Z] else ns.
Definition csi_numbers (text : list Z) : list Z := fold_left csi_step text [].

(* get_rect_area: p.max(1).min(rows) - 1 *)
Definition clamp1 (p hi : Z) : Z := (Z.min (Z.max p 1) hi - 1)%Z.

Record fill_result := { f_char : N; f_top : Z; f_left : Z; f_bottom : Z; f_right : Z }.

(* rows = max(line_count, terminal height), cols = terminal width *)
Definition fill (conv : N -> option N) (rows cols : Z) (ns : list Z) : outcome fill_result :=
  match ns with
  | [pch; pt; pl; pb; pr] =>
    match conv (i32_as_u32 pch) with
    | None => Rejected
    | Some c => Done {| f_char := c; f_top := clamp1 pt rows; f_left := clamp1 pl cols;
                        f_bottom := clamp1 pb rows; f_right := clamp1 pr cols |}
    end
  | _ => Rejected
  end.

(* every cell (x, y) of the rectangle receives f_char *)
Definition fill_events (r : fill_result) : list event :=
  flat_map (fun dy => map (fun dx => ((f_left r + Z.of_nat dx)%Z, (f_top r + Z.of_nat dy)%Z, f_char r))
                          (seq 0 (Z.to_nat (f_right r - f_left r + 1))))
           (seq 0 (Z.to_nat (f_bottom r - f_top r + 1))).

(* ------------------------------------------------------------------ Layer::from_clipboard_data *)

(* l[..n] and l[n..]; None when l is shorter than n (the Rust slice expression panics).  Written so that the cost
   depends on n only; take n l = if length l <? n then None else Some (firstn n l, skipn n l) is proved. *)
Fixpoint take (n : nat) (l : list N) : option (list N * list N) :=
  match n with
  | O => Some ([], l)
  | S n' => match l with
            | [] => None
            | a :: r => match take n' r with Some (f, s) => Some (a :: f, s) | None => None end
            end
  end.

(* length l < n, without walking the whole list *)
Fixpoint shorter (l : list N) (n : nat) {struct n} : bool :=
  match n with
  | O => false
  | S n' => match l with [] => true | _ :: r => shorter r n' end
  end.

(* cells k .. total-1 in row-major order, 14 bytes each.  The character field (bytes 0, 1) is read and converted
   first: a rejected character returns None before the other fields are indexed; any short read panics *)
Fixpoint clip_cells (conv : N -> option N) (fuel : nat) (k total w : N) (data : list N) : outcome (list event) :=
  if total <=? k then Done [] else
  match fuel with
  | O => Diverge
  | S f =>
    match data with
    | d0 :: d1 :: _ =>
      match conv (le16 d0 d1) with
      | None => Rejected
      | Some c =>
        match take 14 data with
        | None => Panic
        | Some (_, rest) => omap (cons (Z.of_N (k mod w), Z.of_N (k / w), c)) (clip_cells conv f (k + 1) total w rest)
        end
      end
    | _ => Panic
    end
  end.

Record clip_result := { c_width : N; c_height : N; c_cells : list event }.

Definition clipboard (conv : N -> option N) (data : list N) : outcome clip_result :=
  match data with
  | [] => Panic
  | tag :: _ =>
    if negb (tag =? 0) then Rejected else
    match take 17 data with
    | None => Panic
    | Some (hd, rest) =>
      let w := le32 (byte_at hd 9) (byte_at hd 10) (byte_at hd 11) (byte_at hd 12) in
      let h := le32 (byte_at hd 13) (byte_at hd 14) (byte_at hd 15) (byte_at hd 16) in
      omap (fun ev => {| c_width := w; c_height := h; c_cells := ev |})
           (clip_cells conv (S (length rest)) 0 (w * h) w rest)
    end
  end.

(* ------------------------------------------------------------------ IcyDraw layer chunks *)

Inductive cellr :=
| CEnd (rest : list N)                 (* INVISIBLE_SHORT: end of line *)
| CSkip (rest : list N)                (* INVISIBLE: default cell *)
| CCell (ch : N) (rest : list N)       (* character field of a short (u8) or long (u32) cell *)
| CErr                                 (* "data length out ouf bounds" (LAYER_n only) *)
| CPanic.                              (* slice/index out of range *)

(* one cell record; [chk] = the bounds tests of the LAYER_n decoder (o + 2, o + 3, o + 14 > len => Err),
   which the LAYER_n~k decoder does not have *)
Definition decode_cell (chk : bool) (bs : list N) : cellr :=
  match bs with
  | a0 :: a1 :: r =>
    let attr := le16 a0 a1 in
    if attr =? INVISIBLE_SHORT then CEnd r else
    let is_short := negb (N.land attr SHORT_DATA =? 0) in
    let attr' := if is_short then N.land attr (N.lxor SHORT_DATA 0xFFFF) else attr in
    if attr' =? INVISIBLE then CSkip r else
    if is_short then
      if chk && shorter r 4 then CErr else                             (* C02 fix d6295fe: was `o + 3 > len` *)
      match take 4 r with Some (f, r') => CCell (byte_at f 0) r' | None => CPanic end
    else
      if chk && shorter r 14 then CErr else
      match take 14 r with
      | Some (f, r') => CCell (le32 (byte_at f 0) (byte_at f 1) (byte_at f 2) (byte_at f 3)) r'
      | None => CPanic
      end
  | _ => if chk then CErr else CPanic
  end.

(* `for y in y0..h { if o >= len { break }; for x in 0..w { cell } }` for w > 0, flattened: x = 0 marks a row start *)
Fixpoint cells_loop (conv : N -> option N) (chk : bool) (fuel : nat) (x y w h : Z) (bs : list N)
  : outcome (list event) :=
  match fuel with
  | O => Diverge
  | S f =>
    if (h <=? y)%Z then Done []
    else if (x =? 0)%Z && match bs with [] => true | _ => false end then Done []
    else if (w <=? x)%Z then cells_loop conv chk f 0 (y + 1) w h bs
    else match decode_cell chk bs with
         | CEnd r => cells_loop conv chk f 0 (y + 1) w h r
         | CSkip r => cells_loop conv chk f (x + 1) y w h r
         | CCell ch r =>
           match conv ch with
           | None => Rejected
           | Some c => omap (cons (x, y, c)) (cells_loop conv chk f (x + 1) y w h r)
           end
         | CErr => Rejected
         | CPanic => Panic
         end
  end.

Definition cells_fuel (bs : list N) : nat := S (S (2 * length bs)).

(* for w <= 0 the Rust loops store nothing and consume nothing *)
Definition cells (conv : N -> option N) (chk : bool) (y0 w h : Z) (bs : list N) : outcome (list event) :=
  if (w <=? 0)%Z then Done [] else cells_loop conv chk (cells_fuel bs) 0 y0 w h bs.

(* read_utf8_encoded_string: u32 length prefix, then that many bytes; returns (string, bytes consumed) *)
Definition read_string (sconv : list N -> list N) (data : list N) : outcome (list N * list N) :=
  match take 4 data with
  | None => Rejected                                  (* C02 fix 4f977d8: None -> Err(FileTooShort) in both callers *)
  | Some (p, r) =>
    let size := le32 (byte_at p 0) (byte_at p 1) (byte_at p 2) (byte_at p 3) in
    match take (N.to_nat size) r with
    | None => Rejected
    | Some (s, rest) => Done (sconv s, rest)
    end
  end.

Record icy_layer_result := {
  l_title : list N;           (* bytes of layer.properties.title *)
  l_image : bool;             (* role == 1: sixel layer, no character cells *)
  l_width : Z; l_height : Z;
  l_cells : list event }.

(* line count of a fresh layer after these set_char calls: 1 + the largest row written *)
Definition line_count (ev : list event) : Z := fold_left (fun m e => Z.max m (snd (fst e) + 1)%Z) ev 0%Z.

(* LAYER_n payload.  After the title: role(1) unused(4) mode(1) colour(4) flags(4) transparency(1) x(4) y(4)
   width(4) height(4) default_font_page(2) length(8) = 41 bytes; mode is read at offset 5 and checked first *)
Definition icy_layer (sconv : list N -> list N) (conv : N -> option N) (bytes : list N) : outcome icy_layer_result :=
  match read_string sconv bytes with
  | Done (title, r) =>
    if shorter r 41 then Rejected                       (* C02 fix 2015626: FileTooShort before any field is read *)
    else if 2 <? byte_at r 5 then Rejected
    else match take 41 r with
    | None => Panic
    | Some (hd, body) =>
      let role := byte_at hd 0 in
      let w := as_i32 (le32 (byte_at hd 23) (byte_at hd 24) (byte_at hd 25) (byte_at hd 26)) in
      let h := as_i32 (le32 (byte_at hd 27) (byte_at hd 28) (byte_at hd 29) (byte_at hd 30)) in
      let len := le32 (byte_at hd 33) (byte_at hd 34) (byte_at hd 35) (byte_at hd 36)
                 + 4294967296 * le32 (byte_at hd 37) (byte_at hd 38) (byte_at hd 39) (byte_at hd 40) in
      let o := N.of_nat (length bytes - length body) in
      if role =? 1 then
        if shorter body 16 then Rejected                  (* C02 fix 2015626 *)
        else Done {| l_title := title; l_image := true; l_width := w; l_height := h; l_cells := [] |}
      else if N.of_nat (length body) <? len then Rejected                (* C02 fix bcdfc94: `bytes.len() - o < length` *)
      else omap (fun ev => {| l_title := title; l_image := false; l_width := w; l_height := h; l_cells := ev |})
                (cells conv true 0 w h body)
    end
  | Rejected => Rejected | Panic => Panic | Diverge => Diverge
  end.

(* LAYER_n~k payload for a Normal layer of size w x h whose lines vector has [lines] rows *)
Definition icy_continue (conv : N -> option N) (w h lines : Z) (bytes : list N) : outcome (list event) :=
  cells conv true lines w h bytes.                     (* C02 fix 294b0bb: the same length checks as the first chunk *)

(* ------------------------------------------------------------------ fonts *)

(* glyphs_from_u8_data AS IT WAS at the snapshot commit (`while !data.is_empty() { .. data[..font_height] ..
   data = &data[font_height..]; ch += 1 }`): a height of 0 with data left never ends, an incomplete last glyph
   panics, the index runs as far as the data goes.  Kept for the *_before_fix_refuted / fix_is_local theorems *)
Fixpoint glyphs_loop_v0 (conv : N -> option N) (fuel : nat) (h : nat) (ch : N) (data : list N)
  : outcome (list (N * list N)) :=
  match data with
  | [] => Done []
  | _ :: _ =>
    match fuel with
    | O => Diverge
    | S f =>
      match take h data with
      | None => Panic
      | Some (g, rest) =>
        let tl := glyphs_loop_v0 conv f h (ch + 1) rest in
        match conv ch with Some c => omap (cons (c, g)) tl | None => tl end
      end
    end
  end.

Definition glyphs_v0 (conv : N -> option N) (h : nat) (data : list N) : outcome (list (N * list N)) :=
  match h, data with
  | O, _ :: _ => Diverge                          (* `data = &data[0..]`: the loop never ends *)
  | _, _ => glyphs_loop_v0 conv (length data) h 0 data
  end.

(* glyphs_from_u8_data of the merged tree:
     while font_height > 0 && data.len() >= font_height && ch < MAX_GLYPHS {
         glyph = data[..font_height]; if let Some(ch) = conv(ch as u32) { insert(ch, glyph) }
         data = &data[font_height..]; ch += 1 }
   (key, glyph) insertions in order; a glyph index that is not a char inserts nothing.  The slice is still a
   checked access here ([take] -> Panic); that it cannot fail behind the loop test is proved, not assumed.
   Fuel: every iteration consumes font_height >= 1 bytes; the entry point gives length data (proved enough). *)
Fixpoint glyphs_loop (conv : N -> option N) (fuel : nat) (h : nat) (ch : N) (data : list N)
  : outcome (list (N * list N)) :=
  if Nat.eqb h 0 || shorter data h || (MAX_GLYPHS <=? ch) then Done [] else
  match fuel with
  | O => Diverge
  | S f =>
    match take h data with
    | None => Panic
    | Some (g, rest) =>
      let tl := glyphs_loop conv f h (ch + 1) rest in
      match conv ch with Some c => omap (cons (c, g)) tl | None => tl end
    end
  end.

Definition glyphs (conv : N -> option N) (h : nat) (data : list N) : outcome (list (N * list N)) :=
  glyphs_loop conv (length data) h 0 data.

(* the same for a height that arrives as a u32 (PSF2 header): a height above the data length ends the loop at
   once, so the unary number is only built when it is at most length data (glyphs_n_eq: equal to [glyphs]) *)
Definition glyphs_n (conv : N -> option N) (h : N) (data : list N) : outcome (list (N * list N)) :=
  if N.of_nat (length data) <? h then Done [] else glyphs conv (N.to_nat h) data.

(* `for ch in 0..length { .. conv(ch as u32) .. get_glyph(c) }`: the chars that are looked up *)
Definition lookup_keys (conv : N -> option N) (length : N) : list N :=
  flat_map (fun i => match conv i with Some c => [c] | None => [] end) (nrange length).

(* a loaded BitFont: `length` (the bound of the three lookup loops) and the insertions into `glyphs` *)
Record font_result := { ft_length : N; ft_glyphs : list (N * list N) }.
Definition mk_font (length : N) (g : outcome (list (N * list N))) : outcome font_result :=
  omap (fun g => {| ft_length := length; ft_glyphs := g |}) g.

Definition le32_at (l : list N) (i : nat) : N :=
  le32 (byte_at l i) (byte_at l (i + 1)) (byte_at l (i + 2)) (byte_at l (i + 3)).

(* &l[n..] *)
Definition drop (n : N) (l : list N) : option (list N) :=
  if N.of_nat (length l) <? n then None else Some (skipn (N.to_nat n) l).

(* usize::checked_mul / checked_add on a 64-bit target *)
Definition usize_checked (x : N) : option N := if x <? 18446744073709551616 then Some x else None.

(* BitFont::create_8 / from_basic (height: u8): length 256 whatever the data holds *)
Definition font_create (conv : N -> option N) (h : N) (data : list N) : outcome font_result :=
  mk_font 256 (glyphs conv (N.to_nat h) data).

(* load_psf1: data[2], data[3], &data[4..] (from_bytes has checked data.len() >= 4 before);
   fix fB: `if charsize == 0 || charsize as usize > MAX_FONT_HEIGHT { return Err(..) }` *)
Definition load_psf1 (conv : N -> option N) (data : list N) : outcome font_result :=
  match data with
  | _ :: _ :: mode :: charsize :: rest =>
    if (charsize =? 0) || (MAX_FONT_HEIGHT <? charsize) then Rejected else
    mk_font (if N.land mode PSF1_MODE512 =? PSF1_MODE512 then 512 else 256) (glyphs conv (N.to_nat charsize) rest)
  | _ => Panic
  end.

(* load_plain_font; fix fB: `data.len() % 256 != 0 || char_height == 0 || char_height > MAX_FONT_HEIGHT` is an error *)
Definition load_plain (conv : N -> option N) (data : list N) : outcome font_result :=
  let n := N.of_nat (length data) in
  if negb (n mod 256 =? 0) || (n / 256 =? 0) || (MAX_FONT_HEIGHT <? n / 256) then Rejected
  else mk_font 256 (glyphs conv (N.to_nat (n / 256)) data).

(* load_psf2: the header fields are sliced after the `data.len() < 32` test ([byte_at] below is in range);
   length * charsize + headersize with checked arithmetic must be the file length and length <= MAX_GLYPHS;
   the glyph rows are `height` bytes each; fix fB: width 1..=MAX_FONT_WIDTH, height 1..=MAX_FONT_HEIGHT and
   charsize = height, else an error *)
Definition load_psf2 (conv : N -> option N) (data : list N) : outcome font_result :=
  let n := N.of_nat (length data) in
  if n <? 32 then Rejected else
  if PSF2_MAXVERSION <? le32_at data 4 then Rejected else
  let headersize := le32_at data 8 in
  let length := le32_at data 16 in
  let charsize := le32_at data 20 in
  let expected := match usize_checked (length * charsize) with
                  | Some size => usize_checked (size + headersize)
                  | None => None
                  end in
  if negb (match expected with Some e => e =? n | None => false end) || (MAX_GLYPHS <? length) then Rejected else
  let height := le32_at data 24 in
  let width := le32_at data 28 in
  if (width =? 0) || (MAX_FONT_WIDTH <? width) || (height =? 0) || (MAX_FONT_HEIGHT <? height) then Rejected else
  if negb (charsize =? height) then Rejected else
  match drop headersize data with
  | None => Panic
  | Some body => mk_font length (glyphs_n conv (le32_at data 24) body)
  end.

(* BitFont::from_bytes *)
Definition font_from_bytes (conv : N -> option N) (data : list N) : outcome font_result :=
  if shorter data 4 then Rejected
  else if le16 (byte_at data 0) (byte_at data 1) =? PSF1_MAGIC then load_psf1 conv data
  else if le32_at data 0 =? PSF2_MAGIC then load_psf2 conv data
  else load_plain conv data.

(* ------------------------------------------------------------------ DCS hex macros *)

Inductive hstate := FirstHex | SecondHex (c : N) | RepeatNumber (n : Z).

Record hm := { h_state : hstate; h_read_repeat : bool; h_repeat_rec : list N; h_repeat_number : Z; h_macro : list N }.

Definition to_ascii_uppercase (c : N) : N := if (97 <=? c) && (c <=? 122) then c - 32 else c.
Definition as_u8 (c : N) : N := c mod 256.

(* HEX_TABLE.iter().position(|&x| x == v) *)
Fixpoint position (v : N) (t : list N) : option N :=
  match t with
  | [] => None
  | x :: r => if x =? v then Some 0 else match position v r with Some i => Some (i + 1) | None => None end
  end.

Definition repeat_str (n : Z) (s : list N) : list N := concat (repeat s (Z.to_nat n)).
Definition is_ascii_digit (c : N) : bool := (48 <=? c) && (c <=? 57).

Definition hex_step (conv : N -> option N) (s : hm) (ch : N) : outcome hm :=
  match h_state s with
  | FirstHex =>
    if (ch =? 59) && h_read_repeat s then
      Done {| h_state := FirstHex; h_read_repeat := false; h_repeat_rec := h_repeat_rec s;
              h_repeat_number := h_repeat_number s;
              h_macro := h_macro s ++ repeat_str (h_repeat_number s) (h_repeat_rec s) |}
    else if ch =? 33 then
      Done {| h_state := RepeatNumber 0; h_read_repeat := h_read_repeat s; h_repeat_rec := h_repeat_rec s;
              h_repeat_number := h_repeat_number s; h_macro := h_macro s |}
    else
      Done {| h_state := SecondHex ch; h_read_repeat := h_read_repeat s; h_repeat_rec := h_repeat_rec s;
              h_repeat_number := h_repeat_number s; h_macro := h_macro s |}
  | SecondHex first =>
    match position (as_u8 first) HEX_TABLE, position (as_u8 (to_ascii_uppercase ch)) HEX_TABLE with
    | Some a, Some b =>
      match conv (a * 16 + b) with
      | None => Rejected        (* not reachable: char::from_u32 on a value below 256 *)
      | Some cc =>
        if h_read_repeat s then
          Done {| h_state := FirstHex; h_read_repeat := true; h_repeat_rec := h_repeat_rec s ++ [cc];
                  h_repeat_number := h_repeat_number s; h_macro := h_macro s |}
        else
          Done {| h_state := FirstHex; h_read_repeat := false; h_repeat_rec := h_repeat_rec s;
                  h_repeat_number := h_repeat_number s; h_macro := h_macro s ++ [cc] |}
      end
    | _, _ => Rejected
    end
  | RepeatNumber n =>
    if is_ascii_digit ch then
      Done {| h_state := RepeatNumber (Sixel.parse_next_number n (Z.of_N (as_u8 ch))); h_read_repeat := h_read_repeat s;
              h_repeat_rec := h_repeat_rec s; h_repeat_number := h_repeat_number s; h_macro := h_macro s |}
    else if ch =? 59 then
      Done {| h_state := FirstHex; h_read_repeat := true; h_repeat_rec := []; h_repeat_number := n; h_macro := h_macro s |}
    else Rejected
  end.

Fixpoint hex_run (conv : N -> option N) (s : hm) (cs : list N) : outcome hm :=
  match cs with
  | [] => Done s
  | c :: r => match hex_step conv s c with Done s' => hex_run conv s' r | Rejected => Rejected | Panic => Panic | Diverge => Diverge end
  end.

Definition hex_init : hm :=
  {| h_state := FirstHex; h_read_repeat := false; h_repeat_rec := []; h_repeat_number := 0%Z; h_macro := [] |}.

(* the chars of the String stored in self.macros *)
Definition hexmacro (conv : N -> option N) (cs : list N) : outcome (list N) :=
  omap (fun s => if h_read_repeat s then h_macro s ++ repeat_str (h_repeat_number s) (h_repeat_rec s) else h_macro s)
       (hex_run conv hex_init cs).
