(* M-cost: iteration / allocation counters for the loops of property C03.  Executable definitions only.

   Every loop of the terminal core that is driven by a number taken from the input stream is re-stated here with an
   accumulator (same recursion as the function of Model/TermCore.v / Model/AnsiTok.v / Model/Sixel.v / Model/Font.v it
   annotates; Proofs/CostProofs.v shows that the first component IS that function).

     cost = { iters : calls of the primitive the control function repeats (scroll_up, caret.ins, print_char, ...)
              ticks : iters weighted with the primitive's own inner iterations (cells visited, tab stops scanned)
              alloc : rows + cells by which the line table grew (sum over the iterations of the positive growth) }

   The CSI arms changed by the fix: commits of notes/C03.md (SU SD ICH DCH IL SL SR CVT CBT, cursor up above the top margin)
   are modelled AS FIXED; every other arm takes its outcome from AnsiTok.csi_final verbatim.

   Rust:  src/parsers/ansi/mod.rs  arms S T @ P L M Y Z b A k m J K X of EngineState::ReadCSISequence
          src/parsers/ansi/ansi_commands.rs  scroll_left, scroll_right, erase_character, fill/erase_rectangular_area
          src/parsers/mod.rs  Buffer::{max_effective_scrolls, scroll_up, scroll_down, scroll_left, scroll_right, clear_*},
                              Caret::{up, check_scrolling_on_caret_up, erase_charcter}
          src/parsers/ansi/dcs.rs  parse_hex_macro_sequence      src/sixel_mod.rs  SixelState::Repeat, ReadSize
          src/parsers/avatar/mod.rs  AvtReadState::RepeatChars   src/fonts.rs  glyphs_from_u8_data *)
From Coq Require Import ZArith NArith List Bool Lia.
From IE Require Import Model.TermCore Model.AnsiTok.
From IE Require Model.Sixel Model.Font.
Import ListNotations.
Local Open Scope Z_scope.

Record cost := mkCost { iters : Z; ticks : Z; alloc : Z }.
Definition cost0 : cost := mkCost 0 0 0.
Definition cadd (a b : cost) : cost := mkCost (iters a + iters b) (ticks a + ticks b) (alloc a + alloc b).

(* ---- size of the state --------------------------------------------------------------------------------------------- *)
Fixpoint cells (ls : list (list cell)) : Z := match ls with [] => 0 | r :: t => zlen r + cells t end.
Fixpoint maxrow (ls : list (list cell)) : Z := match ls with [] => 0 | r :: t => Z.max (zlen r) (maxrow t) end.
Definition size_of (t : term) : Z := zlen (lines t) + cells (lines t).
Definition grow (t t' : term) : Z := Z.max 0 (size_of t' - size_of t).
(* screen width incl. the widest allocated row and the tab table; screen height incl. scrollback *)
Definition scrW (t : term) : Z := tw t + bw t + Z.max 0 (lw t) + zlen (tabs t) + maxrow (lines t).
Definition scrH (t : term) : Z := th t + Z.max (bh t) (zlen (lines t)).
Definition scr (t : term) : Z := scrW t * scrH t + 1.

(* ---- folds with a counter ---------------------------------------------------------------------------------------------- *)
Definition fold_sum {A B} (f : A -> B -> A * Z) (l : list B) (a : A) : A * Z :=
  fold_left (fun xk b => (fst (f (fst xk) b), snd xk + snd (f (fst xk) b))) l (a, 0).
Definition fold_count {A B} (f : A -> B -> A) (l : list B) (a : A) : A * Z := fold_sum (fun x b => (f x b, 1)) l a.

(* ---- primitives ------------------------------------------------------------------------------------------------------------ *)
Definition scroll_up_col_t (w h sl el : Z) (ls : list (list cell)) (x : Z) : list (list cell) * Z :=
  let r := fold_count (fun l y => lset w h l x y (lget w h l x (y + 1))) (zrange sl el) ls in
  (lset w h (fst r) x el blank, snd r + 1).
Definition scroll_up_t (t : term) : term * Z :=
  let r := fold_sum (scroll_up_col_t (lw t) (lh t) (first_edit t) (last_edit t)) (zrange_incl (first_col t) (last_col t)) (lines t) in
  (set_lines t (fst r), snd r).
Definition scroll_down_col_t (w h sl el : Z) (ls : list (list cell)) (x : Z) : list (list cell) * Z :=
  let r := fold_count (fun l y => lset w h l x y (lget w h l x (y - 1))) (rev (zrange_incl (sl + 1) el)) ls in
  (lset w h (fst r) x sl blank, snd r + 1).
Definition scroll_down_t (t : term) : term * Z :=
  let r := fold_sum (scroll_down_col_t (lw t) (lh t) (first_edit t) (last_edit t)) (zrange_incl (first_col t) (last_col t)) (lines t) in
  (set_lines t (fst r), snd r).
Definition scroll_left_t (t : term) : term * Z :=
  let sc := first_col t in let ec := last_col t + 1 in
  let r := fold_count (fun ls i => if i <? 0 then ls else
                            match nth_error ls (Z.to_nat i) with
                            | Some row => set_nth ls (Z.to_nat i) (sl_row sc ec row)
                            | None => ls end)
                      (zrange_incl (first_edit t) (last_edit t)) (lines t) in
  (set_lines t (fst r), snd r).
Definition scroll_right_t (t : term) : res term * Z :=
  let sc := first_col t in let ec := last_col t in
  let r := fold_count (fun acc i => do ls <- acc;
                          if i <? 0 then ROk ls else
                          match nth_error ls (Z.to_nat i) with
                          | Some row => do r <- sr_row sc ec row; ROk (set_nth ls (Z.to_nat i) r)
                          | None => ROk ls end)
                      (zrange_incl (first_edit t) (last_edit t)) (ROk (lines t)) in
  (do ls <- fst r; ROk (set_lines t ls), snd r).
Definition fill_cells_t (t : term) (ys xs : list Z) (c : cell) : term * Z :=
  let r := fold_sum (fun ls y => fold_count (fun l x => lset (lw t) (lh t) l x y c) xs ls) ys (lines t) in
  (set_lines t (fst r), snd r).
Fixpoint erase_loop_t (row : list cell) (i : Z) (c : cell) (n : nat) (k : Z) : res (list cell) * Z :=
  match n with
  | O => (ROk row, k)
  | S m => match line_set_char row i c with
           | ROk r => erase_loop_t r (i + 1) c m (k + 1)
           | RPanic s => (RPanic s, k + 1)
           end
  end.
(* TerminalState::next_tab_stop / prev_tab_stop: the `while` scans *)
Fixpoint drop_le_t (x : Z) (l : list Z) (k : Z) : list Z * Z :=
  match l with [] => ([], k) | a :: r => if a <=? x then drop_le_t x r (k + 1) else (l, k) end.
Fixpoint drop_ge_t (x : Z) (l : list Z) (k : Z) : list Z * Z :=
  match l with [] => ([], k) | a :: r => if a >=? x then drop_ge_t x r (k + 1) else (l, k) end.
Definition next_tab_t (t : term) (x : Z) : Z * Z :=
  let r := drop_le_t x (tabs t) 1 in (match fst r with a :: _ => a | [] => tw t end, snd r).
Definition prev_tab_t (t : term) (x : Z) : Z * Z :=
  let r := drop_ge_t x (rev (tabs t)) 1 in (match fst r with a :: _ => a | [] => 0 end, snd r).

(* ---- counted repetition of a primitive ---------------------------------------------------------------------------------------- *)
Definition iter_cost (n : Z) (f : term -> term) (w : term -> Z) (t : term) : term * cost :=
  N.iter (Z.to_N n) (fun xc => (f (fst xc),
                                mkCost (iters (snd xc) + 1) (ticks (snd xc) + w (fst xc)) (alloc (snd xc) + grow (fst xc) (f (fst xc)))))
         (t, cost0).
Definition iter_cost_res (n : Z) (f : term -> res term) (w : term -> Z) (t : term) : res term * cost :=
  N.iter (Z.to_N n) (fun rc => match fst rc with
                               | ROk x => (f x, mkCost (iters (snd rc) + 1) (ticks (snd rc) + w x)
                                                       (alloc (snd rc) + match f x with ROk x' => grow x x' | RPanic _ => 0 end))
                               | RPanic _ => rc
                               end)
         (ROk t, cost0).

(* ---- the clamps of the fix: commits ----------------------------------------------------------------------------------------------- *)
(* Buffer::max_effective_scrolls *)
Definition eff_scrolls (t : term) : Z := Z.max 0 (Z.min (last_edit t) (lh t - 1) - first_edit t + 1).
Definition eff_cols (t : term) : Z := Z.max 0 (last_col t - first_col t + 1).
Definition ich_limit (t : term) : Z := Z.max 0 (lw t - cx t).
Definition dch_limit (t : term) : Z :=
  if (cy t <? 0) || (cx t <? 0) then 0 else
  match nth_error (lines t) (Z.to_nat (cy t)) with Some row => Z.max 0 (zlen row - cx t) | None => 0 end.
Definition il_limit (t : term) : Z :=
  match mtb t with
  | Some _ => Z.max (zlen (lines t)) (cy t + 1) + th t + 1
  | None => Z.max 0 (first t + th t - cy t)
  end.
Definition tab_limit (t : term) : Z := zlen (tabs t) + 1.

Definition su_c (t : term) (n : Z) := iter_cost (Z.min n (eff_scrolls t)) scroll_up (fun x => snd (scroll_up_t x)) t.
Definition sd_c (t : term) (n : Z) := iter_cost (Z.min n (eff_scrolls t)) scroll_down (fun x => snd (scroll_down_t x)) t.
Definition ich_c (t : term) (n : Z) := iter_cost (Z.min n (ich_limit t)) caret_ins (fun _ => 1) t.
Definition dch_c (t : term) (n : Z) := iter_cost (Z.min n (dch_limit t)) caret_del (fun _ => 1) t.
Definition il_c (t : term) (n : Z) := iter_cost_res (Z.min n (il_limit t)) (fun x => insert_terminal_line x (cy x)) (fun _ => 1) t.
Definition dl_c (t : term) (n : Z) := iter_cost_res (Z.min n (zlen (lines t) - cy t)) (fun x => remove_terminal_line x (cy x)) (fun _ => 1) t.
Definition sl_c (t : term) (n : Z) := iter_cost (Z.min n (eff_cols t)) scroll_left (fun x => snd (scroll_left_t x)) t.
Definition sr_c (t : term) (n : Z) := iter_cost_res (Z.min n (eff_cols t)) scroll_right (fun x => snd (scroll_right_t x)) t.
Definition cvt_c (t : term) (n : Z) :=
  iter_cost (Z.min n (tab_limit t)) (fun x => set_cx x (next_tab_stop x (cx x))) (fun x => snd (next_tab_t x (cx x))) t.
Definition cbt_c (t : term) (n : Z) :=
  iter_cost (Z.min n (tab_limit t)) (fun x => set_cx x (prev_tab_stop x (cx x))) (fun x => snd (prev_tab_t x (cx x))) t.
(* Caret::check_scrolling_on_caret_up (fixed) and Caret::up *)
Definition check_scrolling_up_c (t : term) (force : bool) : term * cost :=
  if needs_scrolling t || force then
    let lastl := first_edit t in
    if cy t <? lastl then
      let r := iter_cost (Z.min (lastl - cy t) (eff_scrolls t)) scroll_down (fun x => snd (scroll_down_t x)) t in
      (set_cy (fst r) lastl, snd r)
    else (t, cost0)
  else (t, cost0).
Definition caret_up_c (t : term) (n : Z) : res term * cost :=
  let r := check_scrolling_up_c (set_cy t (sat_sub (cy t) n)) false in
  (limit_caret_pos (fst r), cadd (mkCost 1 1 0) (snd r)).
(* REP: the weight of one print_char is 1 plus the scroll an auto-wrap may trigger when margins are set *)
Definition print_weight (t : term) : Z := 1 + (if needs_scrolling t then snd (scroll_up_t t) else 0).
Definition rep_c (t : term) (c : cell) (n : Z) := iter_cost_res (Z.min n (rep_limit t)) (fun x => print_char x c) print_weight t.
(* the code before the fix: one print_char per count *)
Definition rep_c_before_fix (t : term) (c : cell) (n : Z) := iter_cost_res n (fun x => print_char x c) print_weight t.

(* ---- one CSI final byte (no intermediate): outcome and cost ----------------------------------------------------------------------- *)
Definition out_grow (t : term) (o : outcome) : Z := match o with OOk m | OErr m | ODeep m => grow t (tm m) | OPanic _ => 0 end.
Definition one (t : term) (o : outcome) (k : Z) : outcome * cost := (o, mkCost 1 k (out_grow t o)).
Definition zl (a b : Z) : Z := zlen (zrange a b).

(* ticks of the arms that are not changed by the fixes: the inner loops of the clear / erase functions *)
Definition plain_ticks (t : term) (p : pst) (ch : Z) : Z :=
  let ns := nums p in
  if ch =? 109 then nlen ns + 1                                                               (* m: the while loop over the parameters *)
  else if ch =? 74 then                                                                       (* J *)
    match ns with
    | [] => snd (fill_cells_t t (zrange (cy t) (last_visible t)) (zrange 0 (bw t)) (32, cbg t))
    | n :: _ => if n =? 1 then snd (fill_cells_t t (zrange (first t) (cy t)) (zrange 0 (bw t)) (32, cbg t))
                else if (n =? 2) || (n =? 3) then 1
                else snd (fill_cells_t t (zrange (cy t) (last_visible t)) (zrange 0 (bw t)) (32, cbg t))
    end
  else if ch =? 75 then                                                                       (* K *)
    match ns with
    | [] => snd (fill_cells_t t [cy t] (zrange (cx t) (bw t)) (32, cbg t))
    | n :: _ => if n =? 0 then snd (fill_cells_t t [cy t] (zrange (cx t) (bw t)) (32, cbg t))
                else if n =? 1 then snd (fill_cells_t t [cy t] (zrange 0 (cx t)) (32, cbg t))
                else if n =? 2 then snd (fill_cells_t t [cy t] (zrange 0 (bw t)) (32, cbg t))
                else 1
    end
  else if ch =? 88 then 1 + Z.max 0 (Z.min (tw t - cx t) (first_or ns 1))                      (* X: erase_charcter clamps *)
  else if ch =? 116 then match ns with [k; _; w] => if k =? 8 then 1 + zlen (reset_tabs (Z.max (Z.min w 132) 1)) else 1 | _ => 1 end   (* t: the tab table is rebuilt (window_ticks) *)
  else 1.

Definition csi_final_c (t : term) (p : pst) (is_start : bool) (ch : Z) : outcome * cost :=
  let ns := nums p in
  let d := dflt p in
  if ch =? 83 then let r := su_c t (first_or ns 1) in (ok (fst r) d, snd r)                  (* S *)
  else if ch =? 84 then let r := sd_c t (first_or ns 1) in (ok (fst r) d, snd r)             (* T *)
  else if ch =? 64 then                                                                       (* @ *)
    match ns with
    | n :: _ => let r := ich_c t n in (ok (fst r) d, snd r)
    | [] => one t (err (caret_ins t) d) 1
    end
  else if ch =? 80 then                                                                       (* P *)
    match ns with
    | [] => one t (ok (caret_del t) d) 1
    | [n] => let r := dch_c t n in (ok (fst r) d, snd r)
    | _ => one t (err t d) 1
    end
  else if ch =? 76 then                                                                       (* L *)
    match ns with
    | [] => one t (lift (insert_terminal_line t (cy t)) d) 1
    | [n] => let r := il_c t n in (lift (fst r) d, snd r)
    | _ => one t (err t d) 1
    end
  else if ch =? 77 then                                                                       (* M *)
    if (music_opt p =? 1) || (music_opt p =? 3) then one t (ok t (start_music p)) 1
    else match ns with
         | [n] => let r := dl_c t n in (lift (fst r) d, snd r)
         | _ => one t (csi_final t p is_start ch) 1
         end
  else if ch =? 89 then                                                                       (* Y *)
    if 1 <? nlen ns then one t (err t d) 1
    else let r := cvt_c t (first_or ns 1) in (lift (limit_caret_pos (fst r)) d, snd r)
  else if ch =? 90 then                                                                       (* Z *)
    if 1 <? nlen ns then one t (err t d) 1
    else let r := cbt_c t (first_or ns 1) in (ok (fst r) d, snd r)
  else if (ch =? 107) || (ch =? 65) then                                                      (* k A *)
    let r := caret_up_c t (first_or ns 1) in (lift (fst r) d, snd r)
  else if ch =? 98 then                                                                       (* b  REP *)
    let r := rep_c t (print_cell t (last_char p)) (first_or ns 1) in (lift (fst r) d, snd r)
  else one t (csi_final t p is_start ch) (plain_ticks t p ch).

(* CSI SP @ / CSI SP A; the two other finals of the SP group (D font selection, d tab stop remove) have no loop: outcome as in AnsiTok.astep_gen *)
Definition csi_sp_c (t : term) (p : pst) (ch : Z) : outcome * cost :=
  let d := dflt p in
  if ch =? 65 then let r := sr_c t (first_or (nums p) 1) in (lift (fst r) d, snd r)
  else if ch =? 64 then let r := sl_c t (first_or (nums p) 1) in (ok (fst r) d, snd r)
  else if ch =? 68 then (cmd_font_selection t p, mkCost 1 1 0)
  else if ch =? 100 then (match nums p with [n] => ok (remove_tab_stop t (n - 1)) d | _ => err t d end, mkCost 1 1 0)
  else (err t d, mkCost 1 1 0).


(* ---- rectangular-area operations: cells visited (the area is clamped by get_rect_area) ------------------------------------------------ *)
Definition rect_ticks (t : term) (a b c d : Z) : Z :=
  let '(tl, lc, bl, rc) := rect_area t a b c d in zlen (zrange_incl tl bl) * zlen (zrange_incl lc rc).

(* ---- window manipulation: CSI 8;h;w t clamps to 132 x 60; the tab table is rebuilt ------------------------------------------------------- *)
Definition window_ticks (w : Z) : Z := 1 + zlen (reset_tabs (Z.max (Z.min w 132) 1)).

(* ---- DCS: parse_hex_macro_sequence with counters (characters read + characters appended by repeat groups) --------------------------------- *)
Definition repeat_cost (n : Z) (s : list Z) : Z := Z.max 0 n * zlen s.
(* characters appended by a group: nothing when push_repeat_group refuses it *)
Definition group_cost (rec rep_rec : list Z) (rep_n : Z) : Z := match push_group rec rep_rec rep_n with Some _ => repeat_cost rep_n rep_rec | None => 0 end.
Fixpoint hex_macro_t (s : list Z) (stt : hexst) (read_repeat : bool) (rep_rec : list Z) (rep_n : Z) (rec : list Z) (k : Z) : option (list Z) * Z :=
  match s with
  | [] => (hex_finish read_repeat rep_rec rep_n rec, if read_repeat then k + group_cost rec rep_rec rep_n else k)
  | ch :: r =>
    match stt with
    | HFirst =>
      if (ch =? 59) && read_repeat then match push_group rec rep_rec rep_n with
                                        | Some rec' => hex_macro_t r HFirst false rep_rec rep_n rec' (k + 1 + repeat_cost rep_n rep_rec)
                                        | None => (None, k + 1)          (* refused before anything is appended *)
                                        end
      else if ch =? 33 then hex_macro_t r (HRepeat 0) read_repeat rep_rec rep_n rec (k + 1)
      else hex_macro_t r (HSecond ch) read_repeat rep_rec rep_n rec (k + 1)
    | HSecond f =>
      match hex_val f, hex_val (to_upper ch) with
      | Some a, Some b => let cc := a * 16 + b in
                          if read_repeat then hex_macro_t r HFirst read_repeat (rep_rec ++ [cc]) rep_n rec (k + 1)
                          else hex_macro_t r HFirst read_repeat rep_rec rep_n (rec ++ [cc]) (k + 1)
      | _, _ => (None, k + 1)
      end
    | HRepeat n =>
      if is_digit ch then hex_macro_t r (HRepeat (parse_next_number n ch)) read_repeat rep_rec rep_n rec (k + 1)
      else if ch =? 59 then hex_macro_t r HFirst true [] n rec (k + 1)
      else (None, k + 1)
    end
  end.
(* the parser BEFORE the fix (no size limit): every group is expanded whatever its count *)
Fixpoint hex_macro_t_before_fix (s : list Z) (stt : hexst) (read_repeat : bool) (rep_rec : list Z) (rep_n : Z) (rec : list Z) (k : Z) : option (list Z) * Z :=
  match s with
  | [] => (Some (if read_repeat then rec ++ repeat_str rep_n rep_rec else rec), if read_repeat then k + repeat_cost rep_n rep_rec else k)
  | ch :: r =>
    match stt with
    | HFirst =>
      if (ch =? 59) && read_repeat then hex_macro_t_before_fix r HFirst false rep_rec rep_n (rec ++ repeat_str rep_n rep_rec) (k + 1 + repeat_cost rep_n rep_rec)
      else if ch =? 33 then hex_macro_t_before_fix r (HRepeat 0) read_repeat rep_rec rep_n rec (k + 1)
      else hex_macro_t_before_fix r (HSecond ch) read_repeat rep_rec rep_n rec (k + 1)
    | HSecond f =>
      match hex_val f, hex_val (to_upper ch) with
      | Some a, Some b => let cc := a * 16 + b in
                          if read_repeat then hex_macro_t_before_fix r HFirst read_repeat (rep_rec ++ [cc]) rep_n rec (k + 1)
                          else hex_macro_t_before_fix r HFirst read_repeat rep_rec rep_n (rec ++ [cc]) (k + 1)
      | _, _ => (None, k + 1)
      end
    | HRepeat n =>
      if is_digit ch then hex_macro_t_before_fix r (HRepeat (parse_next_number n ch)) read_repeat rep_rec rep_n rec (k + 1)
      else if ch =? 59 then hex_macro_t_before_fix r HFirst true [] n rec (k + 1)
      else (None, k + 1)
    end
  end.
(* the largest repeat count written in the string (what the bound is conditional on) *)
Fixpoint hex_max_rep (s : list Z) (stt : hexst) (m : Z) : Z :=
  match s with
  | [] => m
  | ch :: r =>
    match stt with
    | HFirst => if ch =? 33 then hex_max_rep r (HRepeat 0) m else hex_max_rep r (HSecond ch) m
    | HSecond _ => hex_max_rep r HFirst m
    | HRepeat n => if is_digit ch then hex_max_rep r (HRepeat (parse_next_number n ch)) m
                   else hex_max_rep r HFirst (Z.max m n)
    end
  end.

(* ---- macro invocation: characters replayed, nesting included ------------------------------------------------------------------------------- *)
(* every `ESC [ id * z` inside a macro body replays macro id: count the characters fed through print_char.
   [fuel] = MAX_MACRO_NESTING - Parser::macro_nesting, the nesting levels the counter of invoke_macro_by_id still admits (Model/AnsiTok.v astep) *)
Fixpoint find_invokes (body : list Z) : list Z :=            (* ids of the `ESC [ <digits> * z` occurrences (single number) *)
  match body with
  | 27 :: 91 :: r =>
    (fix digits (l : list Z) (acc : Z) (any : bool) {struct l} : list Z :=
       match l with
       | c :: r' => if is_digit c then digits r' (parse_next_number acc c) true
                    else match l with
                         | 42 :: 122 :: _ => if any then [acc] else []
                         | _ => []
                         end
       | [] => []
       end) r 0 false ++ find_invokes r
  | _ :: r => find_invokes r
  | [] => []
  end.
(* (characters fed through print_char - an upper bound when the chain is abandoned: the rest of each body is not replayed -,
    the invocation ended in Err(MacroNestingTooDeep)): an invocation with the counter at the limit is refused before it replays
   anything; the error ends the replay loop of every enclosing level, so invocations after it are not reached *)
Fixpoint macro_chars (fuel : nat) (ms : list (Z * list Z)) (id : Z) : Z * bool :=
  match lookup id ms with
  | None => (0, false)
  | Some body =>
    match fuel with
    | O => (0, true)
    | S k => fold_left (fun (acc : Z * bool) i => if snd acc then acc else let r := macro_chars k ms i in (fst acc + fst r, snd r))
                       (find_invokes body) (zlen body, false)
    end
  end.
(* the code BEFORE the nesting limit (fix 2513579): no counter, the recursion ends only if the nesting does.
   [fuel] = nesting depth explored, None = deeper than that *)
Fixpoint macro_chars_nolimit (fuel : nat) (ms : list (Z * list Z)) (id : Z) : option Z :=
  match lookup id ms with
  | None => Some 0
  | Some body =>
    match fuel with
    | O => None
    | S k => fold_left (fun acc i => match acc, macro_chars_nolimit k ms i with Some a, Some b => Some (a + b) | _, _ => None end)
                       (find_invokes body) (Some (zlen body))
    end
  end.

(* ---- sixel: `!n` repeat and the raster attributes ------------------------------------------------------------------------------------------ *)
Fixpoint repeat_data_t (n : nat) (s : Sixel.sx) (ch : Z) (k : Z) : Sixel.res Sixel.sx * Z :=
  match n with
  | O => (Sixel.Ok s, k)
  | S n' => match Sixel.parse_sixel_data s ch with
            | Sixel.Ok s' => repeat_data_t n' s' ch (k + 1)
            | r => (r, k + 1)
            end
  end.
Definition sixel_bytes (s : Sixel.sx) : Z := fold_right (fun r a => zlen r + a) 0 (Sixel.rows s).
(* bytes requested by the raster attributes (double quote, then v;h;width;height) before any pixel arrives *)
Definition raster_alloc (rest : list Z) : Z :=
  match rest with [hh] => Z.max 0 hh | [ww; hh] => Z.max 0 hh * (4 * Z.max 0 ww) | _ => 0 end.

(* ---- Avatar `^Y c n`: n is ONE character of the stream ------------------------------------------------------------------------------------------ *)
Definition avatar_repeat_iters (n : Z) : Z := Z.max 0 n.

(* ---- fonts: glyphs_from_u8_data (after the C17 fix: a height of 0 reads nothing) --------------------------------------------------------------------- *)
Definition glyph_iters (h : N) (data : list N) : Z := zlen (Font.glyphs_from_u8_data h data).

(* ---- binary loaders: cells the header asks for, and what the loaders accept (see notes/C03.md: checked by stage S only) ------------------------------------ *)
Definition xbin_cells (w h : Z) : Z := w * h.          (* XBin: width and height are u16, width 1..=4096 *)

(* ---- CSI .. $ <final> (DECRQPSR w, DECFRA x, DECERA z, DECSERA {) and CSI .. * y (DECRQCRA) ------------------------------------------------------------------------
   outcome: the arms of AnsiTok.astep_gen for EngineState::ReadCSIEnd('$') verbatim; ticks: 1 + cells of the clipped rectangle (get_rect_area),
   for DECRQCRA the cells of the requested rectangle, which the command rejects unless it lies inside the text area *)
Definition dollar_outcome (t : term) (p : pst) (ch : Z) : outcome :=
  if ch =? 119 then ok t (dflt p)
  else if ch =? 120 then cmd_fill_rect t p
  else if ch =? 122 then cmd_erase_rect t p
  else if ch =? 123 then cmd_sel_erase_rect t p
  else ok t p.
Definition dollar_ticks (t : term) (p : pst) (ch : Z) : Z :=
  if ch =? 120 then match nums p with [c; a; b; cc; d] => if is_scalar c then rect_ticks t a b cc d else 0 | _ => 0 end
  else if (ch =? 122) || (ch =? 123) then match nums p with [a; b; c; d] => rect_ticks t a b c d | _ => 0 end
  else 0.
Definition csi_dollar_c (t : term) (p : pst) (ch : Z) : outcome * cost :=
  let o := dollar_outcome t p ch in (o, mkCost 1 (1 + dollar_ticks t p ch) (out_grow t o)).
Definition rqcra_outcome (t : term) (p : pst) : outcome :=
  match nums p with
  | [_; _; pt; pl; pb; pr] =>
    if (pt >? pb) || (pl >? pr) || (pr >? tw t) || (pb >? th t) || (pl <? 0) || (pt <? 0) then err t (dflt p) else ok t (dflt p)
  | _ => err t (dflt p) end.
Definition rqcra_ticks (t : term) (p : pst) : Z :=
  match nums p with
  | [_; _; pt; pl; pb; pr] =>
    if (pt >? pb) || (pl >? pr) || (pr >? tw t) || (pb >? th t) || (pl <? 0) || (pt <? 0) then 0 else (pb - pt) * (pr - pl)
  | _ => 0 end.
Definition rqcra_c (t : term) (p : pst) : outcome * cost := (rqcra_outcome t p, mkCost 1 (1 + rqcra_ticks t p) 0).

(* ---- extension (c): what the conditional bounds of the hex-macro repeat groups and of the macro replay are conditional ON ------------------------------------------------
   hex_reps: the largest repeat count of a group that parse_hex_macro_sequence opens in [s] (same state machine as hex_macro_t; [hex_max_rep] above loses the
   synchronisation at the `;` that closes a group and is kept only for the stage-C output) *)
Fixpoint hex_reps (s : list Z) (stt : hexst) (rr : bool) (m : Z) : Z :=
  match s with
  | [] => m
  | ch :: r =>
    match stt with
    | HFirst => if (ch =? 59) && rr then hex_reps r HFirst false m
                else if ch =? 33 then hex_reps r (HRepeat 0) rr m
                else hex_reps r (HSecond ch) rr m
    | HSecond f => match hex_val f, hex_val (to_upper ch) with
                   | Some _, Some _ => hex_reps r HFirst rr m
                   | _, _ => m
                   end
    | HRepeat n => if is_digit ch then hex_reps r (HRepeat (parse_next_number n ch)) rr m
                   else if ch =? 59 then hex_reps r HFirst true (Z.max m n)
                   else m
    end
  end.
(* 1 + c + c^2 + ... + c^(d-1): macro bodies replayed by one invocation when every body invokes at most c macros and the nesting depth is below d *)
Fixpoint geom (c : Z) (d : nat) : Z := match d with O => 0 | S k => 1 + c * geom c k end.
Definition macros_ok (ms : list (Z * list Z)) (B c : Z) : Prop :=
  forall id body, lookup id ms = Some body -> zlen body <= B /\ zlen (find_invokes body) <= c.
(* executable versions of B and c for stage C *)
Definition macros_maxlen (ms : list (Z * list Z)) : Z := fold_right (fun kv a => Z.max (zlen (snd kv)) a) 0 ms.
Definition macros_maxinv (ms : list (Z * list Z)) : Z := fold_right (fun kv a => Z.max (zlen (find_invokes (snd kv))) a) 0 ms.
(* the known class of parse_hex_macro_sequence: a repeat count beyond B *)
Definition KnownC03_hexrep (s : list Z) (B : Z) : Prop := B < hex_reps s HFirst false 0.
