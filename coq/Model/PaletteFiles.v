(* Model of Palette::export_palette / Palette::load_palette for PaletteFormat::{Hex, Pal, Gpl, Ice, Txt}
   (src/palette_handling.rs).  Executable Gallina only.

   Text is a list of Unicode scalar values: the exporter builds a `String` and returns its UTF-8 bytes, the loader
   starts with `String::from_utf8`; UTF-8 coding itself is outside the model (the harness decodes/encodes).

   export_*  : control skeleton of each `match` arm (template-matched by translator/gen_palette.py) around the
               line printers exp_<fmt>_* generated from the `format!` strings and their argument lists
               (Gen/PaletteSrc.v).  The printers of title / author / description / colour name print
               `single_line <text>` because the calls pass `single_line(&self.title)` …; `single_line` itself is
               generated from `fn single_line` (str::replace of '\r' and '\n' by " " = Lib/C16Lib.str_replace_chars).
   load_*    : `data.lines().enumerate()` loops with hand-written matchers for the regular expressions
               (pinned by the translator; any other regex breaks stage G):
                 HEX_REGEX / ICE_COLOR_REGEX   ([0-9a-fA-F]{2}){3}          hex6_at, hex_scan, hex6_search
                 TXT_COLOR_REGEX               ([0-9a-fA-F]{2}){4}          hex8_search
                 PAL_REGEX                     (\d+)\s+(\d+)\s+(\d+)        match3_at, search3, pal_matches
                 GPL_COLOR_REGEX               (\d+)\s+(\d+)\s+(\d+)\s*(.* ) search3 (first match; the name is not modelled)
               \d and \s are the Unicode classes DECIMAL_NUMBER / WHITE_SPACE of the regex-syntax crate (generated).
               Leftmost-first semantics: because \d and \s are disjoint, a match starting at a given position exists
               iff the one taking every run maximally exists, so match3_at is deterministic; the search tries every
               start position from the left; captures_iter continues after the end of the previous match.
   Results   : None = `Err(..)` (bad magic line, or `parse::<u32>()` failing on a non-ASCII digit / overflow).
   Not modelled: title/author/description/colour names read back by the loaders (only the colour list is). *)
From Coq Require Import NArith List Bool.
From IE Require Import Lib.Tbl Lib.C16Lib Gen.PaletteSrc Model.Palette.
Import ListNotations.
Local Open Scope N_scope.

(* ---- exporters ------------------------------------------------------------------------------------- *)
Definition on_rgb {A} (f : N -> N -> N -> A) (c : color) : A := let '(r, g, b) := crgb c in f r g b.

Definition export_hex (p : palette) : str :=
  flat_map (on_rgb exp_hex_color) (pcolors p).

Definition export_pal (p : palette) : str :=
  exp_pal_l0 ++ exp_pal_l1 ++ exp_pal_count (plen p) ++ flat_map (on_rgb exp_pal_color) (pcolors p).

Definition export_gpl (p : palette) : str :=
  exp_gpl_l0 ++ exp_gpl_title (ptitle p) ++ exp_gpl_author (pauthor p) ++ exp_gpl_description (pdescription p)
  ++ exp_gpl_count (plen p)
  ++ flat_map (on_rgb (fun r g b => exp_gpl_color r g b (pdescription p))) (pcolors p).

Definition ice_color_lines (c : color) : str :=
  match cname c with Some name => exp_ice_name name | None => [] end ++ on_rgb exp_ice_color c.
Definition export_ice (p : palette) : str :=
  exp_ice_l0 ++ exp_ice_title (ptitle p) ++ exp_ice_author (pauthor p) ++ exp_ice_description (pdescription p)
  ++ exp_ice_count (plen p) ++ flat_map ice_color_lines (pcolors p).

Definition export_txt (p : palette) : str :=
  exp_txt_l0 ++ exp_txt_title (ptitle p) ++ exp_txt_author (pauthor p) ++ exp_txt_description (pdescription p)
  ++ exp_txt_count (plen p) ++ flat_map (on_rgb exp_txt_color) (pcolors p).

(* ---- str::lines() ------------------------------------------------------------------------------------ *)
(* split at '\n'; a line that ended in "\r\n" loses the '\r' too; a last line without '\n' is returned as it is;
   no empty line after a final '\n'.  `cur` is the current line, reversed. *)
Definition strip_cr (rl : list N) : list N := match rl with c :: t => if c =? 13 then t else rl | [] => [] end.
Fixpoint lines_aux (s : str) (cur : list N) : list str :=
  match s with
  | [] => match cur with [] => [] | _ => [rev cur] end
  | c :: s' => if c =? 10 then rev (strip_cr cur) :: lines_aux s' [] else lines_aux s' (c :: cur)
  end.
Definition lines (s : str) : list str := lines_aux s [].

(* ---- character classes and numbers -------------------------------------------------------------- *)
Definition is_ws (c : N) : bool := in_ranges WHITE_SPACE c.
Definition is_nd (c : N) : bool := in_ranges DECIMAL_NUMBER c.
Definition is_adigit (c : N) : bool := (48 <=? c) && (c <=? 57).
Definition is_hex (c : N) : bool :=
  is_adigit c || ((97 <=? c) && (c <=? 102)) || ((65 <=? c) && (c <=? 70)).
Definition hexval (c : N) : N := if c <=? 57 then c - 48 else if c <=? 70 then c - 55 else c - 87.
Definition hex2 (a b : N) : N := 16 * hexval a + hexval b.     (* u32::from_str_radix(_, 16) on two hex digits *)
Definition u8 (x : N) : N := x mod 256.                         (* `as u8` *)

(* str::parse::<u32>() on a capture of \d+ : ASCII digits only, value at most u32::MAX *)
Definition parse_u32 (ds : str) : option N :=
  match ds with
  | [] => None
  | _ => if forallb is_adigit ds
         then let v := fold_left (fun a d => 10 * a + (d - 48)) ds 0 in
              if v <=? 4294967295 then Some v else None
         else None
  end.

Fixpoint span (f : N -> bool) (s : str) : str * str :=
  match s with
  | c :: t => if f c then let '(a, b) := span f t in (c :: a, b) else ([], s)
  | [] => ([], [])
  end.
Definition is_nil {A} (l : list A) : bool := match l with [] => true | _ => false end.

(* ---- (\d+)\s+(\d+)\s+(\d+) ------------------------------------------------------------------------ *)
(* captures r, g, b and the text after the match *)
Definition match3_at (s : str) : option (str * str * str * str) :=
  let '(r, s1) := span is_nd s in
  if is_nil r then None else
  let '(w1, s2) := span is_ws s1 in
  if is_nil w1 then None else
  let '(g, s3) := span is_nd s2 in
  if is_nil g then None else
  let '(w2, s4) := span is_ws s3 in
  if is_nil w2 then None else
  let '(b, s5) := span is_nd s4 in
  if is_nil b then None else Some (r, g, b, s5).

Fixpoint search3 (s : str) : option (str * str * str * str) :=
  match s with
  | [] => None
  | _ :: t => match match3_at s with Some m => Some m | None => search3 t end
  end.

(* r.parse::<u32>()? … Color::new(r as u8, g as u8, b as u8); None = Err *)
Definition rgb_of_dec (r g b : str) : option rgb :=
  match parse_u32 r, parse_u32 g, parse_u32 b with
  | Some r', Some g', Some b' => Some (u8 r', u8 g', u8 b')
  | _, _, _ => None
  end.

(* PAL_REGEX.captures_iter(line): every match, left to right; the rest after a match is strictly shorter *)
Fixpoint pal_matches (fuel : nat) (s : str) : option (list rgb) :=
  match fuel with
  | O => Some []
  | S f => match search3 s with
           | None => Some []
           | Some (r, g, b, rest) =>
               match rgb_of_dec r g b with
               | None => None
               | Some c => match pal_matches f rest with Some l => Some (c :: l) | None => None end
               end
           end
  end.
Definition pal_line (l : str) : option (list rgb) := pal_matches (length l) l.

Definition starts_with (c : N) (l : str) : bool := match l with x :: _ => x =? c | [] => false end.

(* GPL: comment lines are skipped, otherwise the first match of GPL_COLOR_REGEX *)
Definition gpl_line (l : str) : option (list rgb) :=
  if starts_with ld_gpl_comment l then Some []
  else match search3 l with
       | None => Some []
       | Some (r, g, b, _) => match rgb_of_dec r g b with Some c => Some [c] | None => None end
       end.

(* ---- hex colours ------------------------------------------------------------------------------------ *)
Definition hex6_at (s : str) : option (rgb * str) :=
  match s with
  | a :: b :: c :: d :: e :: f :: t =>
      if is_hex a && is_hex b && is_hex c && is_hex d && is_hex e && is_hex f
      then Some ((hex2 a b, hex2 c d, hex2 e f), t) else None
  | _ => None
  end.

(* HEX_REGEX.captures_iter(&data) over the whole file: non-overlapping matches, left to right.
   skip = characters of the previous match still to be passed over. *)
Fixpoint hex_scan (skip : nat) (s : str) : list rgb :=
  match s with
  | [] => []
  | _ :: t => match skip with
              | S k => hex_scan k t
              | O => match hex6_at s with
                     | Some (c, _) => c :: hex_scan 5 t
                     | None => hex_scan 0 t
                     end
              end
  end.

Fixpoint hex6_search (s : str) : option rgb :=
  match s with
  | [] => None
  | _ :: t => match hex6_at s with Some (c, _) => Some c | None => hex6_search t end
  end.

(* TXT_COLOR_REGEX: aa rr gg bb, alpha ignored *)
Definition hex8_at (s : str) : option rgb :=
  match s with
  | a1 :: a2 :: t => if is_hex a1 && is_hex a2 then match hex6_at t with Some (c, _) => Some c | None => None end else None
  | _ => None
  end.
Fixpoint hex8_search (s : str) : option rgb :=
  match s with
  | [] => None
  | _ :: t => match hex8_at s with Some c => Some c | None => hex8_search t end
  end.

Definition ice_line (l : str) : option (list rgb) :=
  if starts_with ld_ice_comment l then Some []
  else match hex6_search l with Some c => Some [c] | None => Some [] end.
Definition txt_line (l : str) : option (list rgb) :=
  if starts_with ld_txt_comment l then Some []
  else match hex8_search l with Some c => Some [c] | None => Some [] end.

(* ---- loaders ------------------------------------------------------------------------------------------ *)
(* the colours of all lines, or None as soon as one line is an error *)
Fixpoint collect (f : str -> option (list rgb)) (ls : list str) : option (list rgb) :=
  match ls with
  | [] => Some []
  | l :: t => match f l with
              | None => None
              | Some cs => match collect f t with Some r => Some (cs ++ r) | None => None end
              end
  end.

Definition load_hex (s : str) : option (list rgb) := Some (hex_scan 0 s).

Definition with_magic (magic : str) (f : list str -> option (list rgb)) (s : str) : option (list rgb) :=
  match lines s with
  | [] => Some []
  | l0 :: ls => if list_eqb l0 magic then f ls else None
  end.

Definition load_pal (s : str) : option (list rgb) := with_magic ld_pal_magic (fun ls => collect pal_line (skipn 2 ls)) s.
Definition load_gpl (s : str) : option (list rgb) := with_magic ld_gpl_magic (collect gpl_line) s.
Definition load_ice (s : str) : option (list rgb) := with_magic ld_ice_magic (collect ice_line) s.
Definition load_txt (s : str) : option (list rgb) := collect txt_line (lines s).

Inductive format := Hex | Pal | Gpl | Ice | Txt.
Definition export (f : format) (p : palette) : str :=
  match f with Hex => export_hex p | Pal => export_pal p | Gpl => export_gpl p | Ice => export_ice p | Txt => export_txt p end.
Definition load (f : format) (s : str) : option (list rgb) :=
  match f with Hex => load_hex s | Pal => load_pal s | Gpl => load_gpl s | Ice => load_ice s | Txt => load_txt s end.
