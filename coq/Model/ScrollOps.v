(* M-undo, part 6 (extension): scroll_area_left / scroll_area_right and scroll_area_up / scroll_area_down (src/editor/area_operations.rs).

   `for y in area.y_range() { let line = &mut layer.lines[y as usize];            -- index panic (site 44) when the row is not stored
        if line.chars.len() < area.right() { line.chars.resize(area.right(), invisible) }
        let ch = line.chars.remove(area.left());  line.chars.insert(area.right() - 1, ch);      -- left
        let ch = line.chars.remove(area.right() - 1);  line.chars.insert(area.left(), ch);      -- right }`
   inside the snapshot frame of EditOps.v (from_layer before and after, UndoLayerChange), with an early `return Ok(())` and no record
   when the area is empty.  The operations read only the layer document, so they are defined on it and lifted. *)
From Coq Require Import List ZArith NArith Bool Arith.
From IE Require Import Gen.UndoGen Model.Undo Model.EditModel Model.EditOps Model.DocModel Model.DocOps.
Import ListNotations.
Local Open Scope Z_scope.

Definition scroll_row (left : bool) (l r : nat) (row : line) : line :=
  let row1 := if (length row <? r)%nat then row ++ repeat invisible (r - length row) else row in
  if left then match nth_error row1 l with Some ch => insert_at (r - 1) ch (remove_at l row1) | None => row1 end
  else match nth_error row1 (r - 1) with Some ch => insert_at l ch (remove_at (r - 1) row1) | None => row1 end.

Definition scroll_lr_step (left : bool) (l r : nat) (L : layer) (y : Z) : res layer :=
  match nth_error (l_lines L) (Z.to_nat y) with
  | None => Panic 44
  | Some row => Ok (with_lines L (upd_nth (Z.to_nat y) (fun _ => scroll_row left l r row) (l_lines L)))
  end.

(* a negative left / top edge is a huge index after `as usize`: panic; an empty area never gets here *)
Definition mut_scroll_lr (left : bool) (L : layer) (a : rect) : res layer :=
  let '(ax, ay, aw, ah) := a in
  if rect_is_empty a then Ok L
  else if (ax <? 0) || (ay <? 0) then Panic 44
  else fold_res (scroll_lr_step left (Z.to_nat ax) (Z.to_nat (ax + aw))) (zrange_from ay ah) L.

Definition api_scroll_area_lr (left : bool) : E -> res E :=
  guarded (fun e =>
    match get_cur_layer (cur e) with
    | None => Err 3
    | Some (_, L) => if rect_is_empty (get_area (sel (cur e)) L) then Ok e else area_body (mut_scroll_lr left) e
    end).

(* ================================================================================================================
   scroll_area_up / scroll_area_down (after the fix commit for C08-scroll-area-raw-lines)

   `if area.is_empty() { return Ok(()) }
    if area.get_width() >= layer.get_width() { push_undo_action(UndoScrollWholeLayerUp / Down) }     -- the whole-layer records of DocModel.v
    else { old = from_layer; <row surgery>; new = from_layer; push_plain_undo(UndoLayerChange) }`
   row surgery (up; down is the mirror image, `y_range().rev()`, `y + 1`, first row):
   `for y in area.y_range() { let line = &mut layer.lines[y];                       -- index panic (site 44) when a row of the area is not stored
        if line.chars.len() < right { line.chars.resize(right, invisible) }
        let chars = line.chars.drain(left..right).collect();
        if y == area.top() { saved_line = chars; continue; }
        layer.lines[y - 1].chars.splice(left..left, chars); }
    layer.lines[area.bottom() - 1].chars.splice(left..left, saved_line);`
   Closed form of the loop: every row of the area is drained (drain_row), the drained pieces are rotated by one row, and each piece is
   spliced back at `left` (splice_row) — a drained row is at least `left` long, so Vec::splice cannot panic.  Tied to the code by stage C. *)
Definition drain_row (l r : nat) (row : line) : list cell * line :=
  let row1 := resize_to row r invisible in
  (firstn (r - l) (skipn l row1), firstn l row1 ++ skipn r row1).
Definition splice_row (l : nat) (cs : list cell) (row : line) : line := firstn l row ++ cs ++ skipn l row.

Fixpoint zip_with {A B C} (f : A -> B -> C) (la : list A) (lb : list B) : list C :=
  match la, lb with
  | a :: ta, b :: tb => f a b :: zip_with f ta tb
  | _, _ => []
  end.

Definition scroll_ud_rows (up : bool) (l r : nat) (rows : list line) : list line :=
  let dr := map (drain_row l r) rows in
  let chars := map fst dr in
  (* up: row k receives the cells of row k + 1, the last row those of the first; down: the other way round *)
  zip_with (splice_row l) (if up then rot_left chars else rot_right chars) (map snd dr).

Definition mut_scroll_ud (up : bool) (L : layer) (a : rect) : res layer :=
  let '(ax, ay, aw, ah) := a in
  if rect_is_empty a then Ok L
  else if (ax <? 0) || (ay <? 0) then Panic 44
  else
    let top := Z.to_nat ay in
    let n := Z.to_nat ah in
    if (length (l_lines L) <? top + n)%nat then Panic 44
    else Ok (with_lines L (firstn top (l_lines L)
                           ++ scroll_ud_rows up (Z.to_nat ax) (Z.to_nat (ax + aw)) (firstn n (skipn top (l_lines L)))
                           ++ skipn (top + n) (l_lines L))).

(* the public operations on the full document: one guard around either the whole-layer record or the snapshot frame *)
Definition x_scroll_area_ud (up : bool) : XE -> res XE :=
  xguarded (fun e =>
    let s := cur e in
    match get_cur_layer (xb s) with
    | None => Err 3
    | Some (i, L) =>
      let '(_, _, aw, ah) := get_area (sel (xb s)) L in
      if rect_is_empty (0, 0, aw, ah) then Ok e
      else if l_w L <=? aw then xpush (if up then XScrollUp i else XScrollDown i) e
      else lift_edit (area_body (mut_scroll_ud up)) e
    end).
