(* M-undo, part 6 (extension): scroll_area_left / scroll_area_right (src/editor/area_operations.rs).

   `for y in area.y_range() { let line = &mut layer.lines[y as usize];            -- index panic (site 44) when the row is not stored
        if line.chars.len() < area.right() { line.chars.resize(area.right(), invisible) }
        let ch = line.chars.remove(area.left());  line.chars.insert(area.right() - 1, ch);      -- left
        let ch = line.chars.remove(area.right() - 1);  line.chars.insert(area.left(), ch);      -- right }`
   inside the snapshot frame of EditOps.v (from_layer before and after, UndoLayerChange), with an early `return Ok(())` and no record
   when the area is empty.  The operations read only the layer document, so they are defined on it and lifted. *)
From Coq Require Import List ZArith NArith Bool Arith.
From IE Require Import Gen.UndoGen Model.Undo Model.EditModel Model.EditOps Model.DocModel Model.DocOps.
Import ListNotations.
Local Open Scope Z_scope.

Definition scroll_row (left : bool) (l r : nat) (row : line) : line :=
  let row1 := if (length row <? r)%nat then row ++ repeat invisible (r - length row) else row in
  if left then match nth_error row1 l with Some ch => insert_at (r - 1) ch (remove_at l row1) | None => row1 end
  else match nth_error row1 (r - 1) with Some ch => insert_at l ch (remove_at (r - 1) row1) | None => row1 end.

Definition scroll_lr_step (left : bool) (l r : nat) (L : layer) (y : Z) : res layer :=
  match nth_error (l_lines L) (Z.to_nat y) with
  | None => Panic 44
  | Some row => Ok (with_lines L (upd_nth (Z.to_nat y) (fun _ => scroll_row left l r row) (l_lines L)))
  end.

(* a negative left / top edge is a huge index after `as usize`: panic; an empty area never gets here *)
Definition mut_scroll_lr (left : bool) (L : layer) (a : rect) : res layer :=
  let '(ax, ay, aw, ah) := a in
  if rect_is_empty a then Ok L
  else if (ax <? 0) || (ay <? 0) then Panic 44
  else fold_res (scroll_lr_step left (Z.to_nat ax) (Z.to_nat (ax + aw))) (zrange_from ay ah) L.

Definition api_scroll_area_lr (left : bool) : E -> res E :=
  guarded (fun e =>
    match get_cur_layer (cur e) with
    | None => Err 3
    | Some (_, L) => if rect_is_empty (get_area (sel (cur e)) L) then Ok e else area_body (mut_scroll_lr left) e
    end).
