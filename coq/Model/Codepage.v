(* M-cp: the code-page converters (impl UnicodeConverter) — executable definitions only.

   Rust item                                                   model
   ---------------------------------------------------------   ---------------------------------
   parsers/ascii/mod.rs    CP437Converter, UNICODE_TO_CP437     conv CP437
   parsers/atascii/mod.rs  CharConverter,  UNICODE_TO_ATARI     conv Atascii
   parsers/petscii/mod.rs  CharConverter,  UNICODE_TO_PETSCII,
                                           PETSCII_TO_UNICODE   conv Petscii
   parsers/viewdata/mod.rs CharConverter,  constants.rs         conv Viewdata
   parsers/mode7/mod.rs    CharConverter,  constants.rs         conv Mode7   (own copy of the viewdata tables)
   UnicodeConverter::convert_to_unicode                         to_unicode
   UnicodeConverter::convert_from_unicode                       from_unicode

   A `char` is its scalar value in N.  The forward tables, the pair table and the key ranges of the
   reverse maps come from Gen/Codepage.v (regenerated from the source every run).

   The reverse maps are HashMaps filled by `insert` in increasing key order (`(lo..hi).for_each(|a| res.insert(TABLE[a], a))`,
   `CHAR_TABLE.into_iter().collect()`): a later duplicate overwrites an earlier one.  The model keeps an
   association list in which every insertion is put in front and lookup returns the first hit, which is
   the same function.  `TABLE[a]` is a checked index: if the key range ever reached past the table the
   lazy_static initialiser would panic on first use; `build_rev` returns None in that case and every
   conversion through it is None (= panic).  `TABLE.get(ch as usize)` is an unchecked-safe lookup (None
   past the end -> the character is returned unchanged).
   The font page argument of convert_from_unicode and the attribute of the AttributedChar given to
   convert_to_unicode are ignored by all five converters (checked by stage C with varying values). *)
From Coq Require Import NArith Bool List.
From IE Require Import Gen.Codepage.
Import ListNotations.
Local Open Scope N_scope.

Inductive Conv := CP437 | Atascii | Petscii | Viewdata | Mode7.
Definition all_convs : list Conv := [CP437; Atascii; Petscii; Viewdata; Mode7].

Definition revmap := list (N * N).

(* HashMap::get on a map represented newest-first *)
Fixpoint assoc (k : N) (m : revmap) : option N :=
  match m with
  | [] => None
  | (k', v) :: r => if k' =? k then Some v else assoc k r
  end.

(* `TABLE.get(i)`: None past the end (bounds test first so that huge code points never build a big nat) *)
Definition tbl_get (t : list N) (i : N) : option N :=
  if i <? N.of_nat (length t) then nth_error t (N.to_nat i) else None.

(* keys lo, lo+1, ... (n of them), each inserted in front *)
Fixpoint build_rev_aux (t : list N) (n : nat) (a : N) (m : revmap) : option revmap :=
  match n with
  | O => Some m
  | S n' =>
      match tbl_get t a with
      | None => None                                  (* TABLE[a] out of bounds: panic *)
      | Some u => build_rev_aux t n' (N.succ a) ((u, a) :: m)
      end
  end.
Definition build_rev (t : list N) (lo hi : N) : option revmap :=
  build_rev_aux t (N.to_nat (hi - lo)) lo [].

Definition cp437_rev : option revmap := build_rev CP437_TO_UNICODE CP437_REV_LO CP437_REV_HI.
Definition atari_rev : option revmap := build_rev ATARI_TO_UNICODE ATARI_REV_LO ATARI_REV_HI.
Definition viewdata_rev : option revmap := build_rev VIEWDATA_TO_UNICODE VIEWDATA_REV_LO VIEWDATA_REV_HI.
Definition mode7_rev : option revmap := build_rev MODE7_TO_UNICODE MODE7_REV_LO MODE7_REV_HI.

(* CHAR_TABLE.into_iter().collect() and …map(|(k, v)| (v, k)).collect() *)
Definition collect (ps : list (N * N)) : revmap := fold_left (fun m kv => kv :: m) ps [].
Definition unicode_to_petscii : revmap := collect PETSCII_CHAR_TABLE.
Definition petscii_to_unicode : revmap := collect (map (fun kv => (snd kv, fst kv)) PETSCII_CHAR_TABLE).

Definition fwd_table (c : Conv) : list N :=
  match c with
  | CP437 => CP437_TO_UNICODE
  | Atascii => ATARI_TO_UNICODE
  | Viewdata => VIEWDATA_TO_UNICODE
  | Mode7 => MODE7_TO_UNICODE
  | Petscii => []
  end.

Definition rev_of (c : Conv) : option revmap :=
  match c with
  | CP437 => cp437_rev
  | Atascii => atari_rev
  | Viewdata => viewdata_rev
  | Mode7 => mode7_rev
  | Petscii => Some unicode_to_petscii
  end.

(* convert_to_unicode(AttributedChar { ch, .. }) *)
Definition to_unicode (c : Conv) (ch : N) : N :=
  match c with
  | Petscii =>                                        (* PETSCII_TO_UNICODE.get(&(ch as u8)) *)
      match assoc (ch mod 256) petscii_to_unicode with Some u => u | None => ch end
  | _ =>
      match tbl_get (fwd_table c) ch with Some u => u | None => ch end
  end.

(* convert_from_unicode(ch, _font_page); None = the lazy_static initialiser panicked *)
Definition from_unicode (c : Conv) (ch : N) : option N :=
  match c with
  | Petscii =>                                        (* UNICODE_TO_PETSCII.get(&(ch as u8)) *)
      Some (match assoc (ch mod 256) unicode_to_petscii with Some v => v | None => ch end)
  | Viewdata | Mode7 =>
      if ch =? 32 then Some 32                        (* `if ch == ' ' { return ' ' }` before the map is touched *)
      else match rev_of c with
           | None => None
           | Some m => Some (match assoc ch m with Some v => v | None => ch end)
           end
  | _ =>
      match rev_of c with
      | None => None
      | Some m => Some (match assoc ch m with Some v => v | None => ch end)
      end
  end.

(* the characters a user types: ASCII letters, digits, space *)
Definition is_typed (ch : N) : bool :=
  ((48 <=? ch) && (ch <=? 57)) || ((65 <=? ch) && (ch <=? 90)) || ((97 <=? ch) && (ch <=? 122)) || (ch =? 32).

(* keys of a reverse map (for the off-key identity lemma and the stage-C sweep of the whole char domain) *)
Definition rev_keys (c : Conv) : list N :=
  match rev_of c with Some m => map fst m | None => [] end.
