(* M-fileload: the eight text loaders of `Buffer::from_bytes` (src/formats/{ansi,avatar,pcboard,ascii,ctrla,renegade,seq,atascii}.rs)
   and `parse_with_parser` (src/formats/mod.rs).  Executable definitions only.

   Rust                                                                 here
   -------------------------------------------------------------------  ------------------------------------------------------
   Buffer::new((w0, h0)); is_terminal_buffer = false;                   [file_term]: sizes from the SAUCE record (width 0 or > 1000
     set_sauce(sauce, true)                                               -> 80, height AS GIVEN - 0 is possible), tab stops of w0
   parse_with_parser: layers[0].lines.clear(); Caret::default();        [load_ansi_like]: no rows, cursor (0,0), colours 7/0,
     caret.set_ice_mode(sauce.use_ice)                                    caret ice mode and Buffer::ice_mode from the record
   `for ch in text.chars() { let res = interpreter.print_char(..); }`   [run e] of Gen/FileEmu.v (errors are ignored: skip_errors = true);
     the six parsers ansi / avatar / pcboard / ctrla / renegade / ascii   = C01's parser models over the file-buffer core
   the sixel epilogue (update_sixel_threads, one Image layer per sixel) [sixel_epilogue]: the decode threads and the font table are ORACLES
                                                                          (what was decoded: position and pixel size per sixel; the size
                                                                          of font 0); the arithmetic on them is modelled with its panic sites
   crop_loaded_file                                                     [crop]
   the bold-folding loop                                                identity on the cell projection (code, background); it only calls
                                                                          Layer::set_char on cells that Buffer::get_char found in layer 0
   Seq::load_buffer (40x25 filled with (' ', fg 14, bg 6), caret 14/6,  [load_seq]: rows are NOT cleared, no epilogue
     petscii::Parser, every byte)
   Atascii::load_buffer (40x24, atascii::Parser, every byte)            [load_ata]: rows are NOT cleared, no epilogue
   convert_ansi_to_utf8                                                 the character list [cs] is the input of the loaders here; every
                                                                          theorem is for ALL character lists (the Run entry uses bytes as chars)

   A macro nesting deeper than the model's bound (the real code recurses without bound: stack overflow, C01's known class)
   is the outcome [TOverflow]. *)
From Coq Require Import ZArith NArith List Bool Lia.
From IE Require Import Model.FileCore Gen.FileAnsiTok Gen.FileEmu Gen.FilePetscii.
Import ListNotations.
Local Open Scope Z_scope.

(* the fields of SauceData the loaders read (Model/C05Buf.sauce has the same three) *)
Record fsauce := mkFS { fs_w : Z; fs_h : Z; fs_ice : bool }.

Definition sauce_size (w0 h0 : Z) (s : option fsauce) : Z * Z :=
  match s with
  | None => (w0, h0)
  | Some sc => (if (fs_w sc =? 0) || (fs_w sc >? 1000) then 80 else fs_w sc, fs_h sc)
  end.
Definition sauce_ice (s : option fsauce) : bool := match s with Some sc => fs_ice sc | None => false end.

(* Buffer::new((w0,h0)) + set_sauce(s, true) on a file buffer, with the given rows, caret colours and caret ice mode *)
Definition file_term (w0 h0 : Z) (s : option fsauce) (rows : list (list cell)) (fg bg : Z) (ice : bool) : term :=
  let '(w, h) := sauce_size w0 h0 s in
  mkTerm w h w h w h rows 0 0 fg bg false ice false true false None None false (reset_tabs w0).
(* ansi::Parser::default() (+ the two public options) on a buffer whose ice_mode the record may have set *)
Definition file_pst (music : Z) (bs : bool) (s : option fsauce) : pst := set_bice (init_pst music bs) (sauce_ice s).
Definition file_mach (t : term) (p : pst) : mach := mkM (mkA t p) 0 0 0 0.

(* ---- the epilogue of parse_with_parser ---------------------------------------------------------------------------------------- *)
Definition SITE_SIXEL_MUL : Z := 40.    (* Sixel::get_screen_rect: position * font size overflows *)
Definition SITE_SIXEL_ADD : Z := 41.    (* Rectangle::contains_pt / bottom_right, `size + font_size - 1`: i32 overflow *)
Definition SITE_SIXEL_DIV : Z := 42.    (* parse_with_parser: `/ font_size.width`, `/ font_size.height` with a zero font size *)
Definition SITE_LAYER_NEW : Z := 43.    (* Layer::new: `lines.resize(height as usize, Line::create(width))`, a negative size as usize *)

Definition chk_at (site x : Z) : res Z := if (I32_MIN <=? x) && (x <=? I32_MAX) then ROk x else RPanic site.
(* a decoded sixel: Sixel.position (the caret when the DCS string ended) and Sixel::get_size() in pixels *)
Record sixel := mkSx { sx_x : Z; sx_y : Z; sx_w : Z; sx_h : Z }.
Definition rect : Type := (Z * Z * Z * Z)%type.     (* start.x start.y size.width size.height *)
Definition screen_rect (fw fh : Z) (s : sixel) : res rect :=
  do x <- chk_at SITE_SIXEL_MUL (sx_x s * fw); do y <- chk_at SITE_SIXEL_MUL (sx_y s * fh); ROk (x, y, sx_w s, sx_h s).
(* Rectangle::contains_pt: `&&` evaluates the additions lazily *)
Definition contains_pt (r : rect) (px py : Z) : res bool :=
  let '(rx, ry, rw, rh) := r in
  if negb (rx <=? px) then ROk false else
  do sx <- chk_at SITE_SIXEL_ADD (rx + rw);
  if negb (px <=? sx) then ROk false else
  if negb (ry <=? py) then ROk false else
  do sy <- chk_at SITE_SIXEL_ADD (ry + rh); ROk (py <=? sy).
Definition contains_rect (r o : rect) : res bool :=
  let '(ox, oy, ow, oh) := o in
  do a <- contains_pt r ox oy;
  if negb a then ROk false else
  do bx <- chk_at SITE_SIXEL_ADD (ox + ow); do by_ <- chk_at SITE_SIXEL_ADD (oy + oh); contains_pt r bx by_.
(* Buffer::update_sixel_threads for one finished sixel: older sixels it covers are removed, it is pushed *)
Fixpoint shadow (fw fh : Z) (sr : rect) (old : list sixel) : res (list sixel) :=
  match old with
  | [] => ROk []
  | o :: r => do orect <- screen_rect fw fh o; do c <- contains_rect sr orect;
              do r' <- shadow fw fh sr r; ROk (if c then r' else o :: r')
  end.
Definition add_sixel (fw fh : Z) (kept : list sixel) (s : sixel) : res (list sixel) :=
  do sr <- screen_rect fw fh s; do k <- shadow fw fh sr kept; ROk (k ++ [s]).
Fixpoint join_sixels (fw fh : Z) (kept : list sixel) (done : list sixel) : res (list sixel) :=
  match done with [] => ROk kept | s :: r => do k <- add_sixel fw fh kept s; join_sixels fw fh k r end.
(* `Size::new((size.width + font_size.width - 1) / font_size.width, ..)`; Layer::new(name, size) *)
Definition cells_of (px f : Z) : res Z :=
  do a <- chk_at SITE_SIXEL_ADD (px + f); do b <- chk_at SITE_SIXEL_ADD (a - 1);
  if f =? 0 then RPanic SITE_SIXEL_DIV else chk_at SITE_SIXEL_DIV (Z.quot b f).
Definition sixel_layer (fw fh : Z) (s : sixel) : res (Z * Z) :=
  do w <- cells_of (sx_w s) fw; do h <- cells_of (sx_h s) fh;
  if (w <? 0) || (h <? 0) then RPanic SITE_LAYER_NEW else ROk (w, h).     (* Line::create(width) is built even for 0 rows *)
Fixpoint sixel_layers (fw fh : Z) (l : list sixel) : res (list (Z * Z)) :=
  match l with [] => ROk [] | s :: r => do a <- sixel_layer fw fh s; do b <- sixel_layers fw fh r; ROk (a :: b) end.
(* everything between the character loop and crop_loaded_file: sizes (in cells) of the Image layers that are pushed *)
Definition sixel_epilogue (fw fh : Z) (done : list sixel) : res (list (Z * Z)) :=
  do kept <- join_sixels fw fh [] done; sixel_layers fw fh (rev kept).      (* `sixels.pop()`: last one first *)
(* `result.update_sixel_threads()?`: a decode thread that returns an error ends the load with Err - after the sixels that
   finished before it were joined ([serr]: part of the oracle) *)
Definition sixel_epilogue_e (fw fh : Z) (done : list sixel) (serr : bool) : res (option (list (Z * Z))) :=
  do kept <- join_sixels fw fh [] done;
  if serr then ROk None else do l <- sixel_layers fw fh (rev kept); ROk (Some l).

(* crop_loaded_file: trailing rows whose `chars` is empty are popped while more than one row is left; the height of buffer
   and layer 0 becomes Buffer::get_line_count() = the largest `lines.len()` of all layers (a sixel layer has one row per cell row) *)
Fixpoint crop_rev (rl : list (list cell)) : list (list cell) :=
  match rl with
  | [] :: ((_ :: _) as r) => crop_rev r
  | _ => rl
  end.
Definition crop (t : term) (layers : list (Z * Z)) : term :=
  let ls := rev (crop_rev (rev (lines t))) in
  let h := fold_left Z.max (map snd layers) (zlen ls) in
  set_bh (set_lh (set_lines t ls) h) h.

Inductive tout := TOk (t : term) (layers : list (Z * Z)) | TErr | TPanic (site : Z).
Definition epilogue (fw fh : Z) (done : list sixel) (serr : bool) (t : term) : tout :=
  match sixel_epilogue_e fw fh done serr with
  | ROk (Some layers) => TOk (crop t layers) layers
  | ROk None => TErr
  | RPanic s => TPanic s
  end.

(* ---- the loaders ------------------------------------------------------------------------------------------------------------------ *)
(* Ansi / Avatar / PCBoard / Ascii / CtrlA / Renegade ::load_buffer: Buffer::new((80, 25)), parse_with_parser.
   [fw fh done serr]: the oracle (font 0; the sixels whose decode thread delivered a picture, in the order they were joined;
   whether a decode thread then returned an error). *)
Definition load_ansi_like (e : emu) (music : Z) (bs : bool) (s : option fsauce) (fw fh : Z) (done : list sixel) (serr : bool) (cs : list Z) : tout :=
  match run e (file_mach (file_term 80 25 s [] 7 0 (sauce_ice s)) (file_pst music bs s)) cs with
  | RunOk m => epilogue fw fh done serr (mt m)
  | RunPanic site => TPanic site
  end.
(* Seq::load_buffer: Buffer::new((40, 25)), every cell of the 40 x 25 area set to (' ', fg 14, bg 6) BEFORE set_sauce *)
Definition seq_rows : list (list cell) := repeat (repeat (32, 6) 40%nat) 25%nat.
Definition load_seq (s : option fsauce) (cs : list Z) : tout :=
  match run_petscii (file_mach (file_term 40 25 s seq_rows 14 6 false) (file_pst 0 false s)) cs with
  | RunOk m => TOk (mt m) []
  | RunPanic site => TPanic site
  end.
(* Atascii::load_buffer: Buffer::new((40, 24)): Layer::new pre-allocates 24 rows of Line::create(40) *)
Definition load_ata (s : option fsauce) (cs : list Z) : tout :=
  match run EAtascii (file_mach (file_term 40 24 s (repeat (line_create 40) 24%nat) 7 0 false) (file_pst 0 false s)) cs with
  | RunOk m => TOk (mt m) []
  | RunPanic site => TPanic site
  end.

Inductive tfmt := TAns | TAvt | TPcb | TAsc | TMsg | TRen | TSeq | TAta.
(* the parser behind parse_with_parser; None: Seq / Atascii feed their parser themselves *)
Definition emu_of (f : tfmt) : option emu :=
  match f with TAns => Some EAnsi | TAvt => Some EAvatar | TPcb => Some EPcb | TAsc => Some EAscii | TMsg => Some ECtrlA
             | TRen => Some ERenegade | TSeq | TAta => None end.
Definition text_load (f : tfmt) (s : option fsauce) (fw fh : Z) (done : list sixel) (serr : bool) (cs : list Z) : tout :=
  match f with
  | TSeq => load_seq s cs
  | TAta => load_ata s cs
  | TAns => load_ansi_like EAnsi 0 false s fw fh done serr cs       (* ansi::Parser with bs_is_ctrl_char = false, music off (default) *)
  | TAvt => load_ansi_like EAvatar 0 false s fw fh done serr cs     (* the wrappers hold an ansi::Parser::default() *)
  | TPcb => load_ansi_like EPcb 0 false s fw fh done serr cs
  | TAsc => load_ansi_like EAscii 0 false s fw fh done serr cs
  | TMsg => load_ansi_like ECtrlA 0 false s fw fh done serr cs
  | TRen => load_ansi_like ERenegade 0 false s fw fh done serr cs
  end.
