(* Model of the LAYER_n record of the native IcyDraw format, src/formats/icy_draw.rs, as it is in the merged tree: after
   the `fix:` commits "icy_draw writer stores every invisible cell as the bare INVISIBLE marker" (C07), "IcyDraw loader
   rejects a cell whose character field is not a Unicode scalar value" and "IcyDraw read_utf8_encoded_string validates
   the bytes of layer titles and font names" (both C10):

     IcyDraw::to_bytes        the per-layer part: write_utf8_encoded_string, role/mode/colour/flags/transparency/
                              offset/size/default_font_page, the 8-byte length, the row loop with its `> MAX` break,
                              get_invisible_line_length, the short/long/invisible cell records, the INVISIBLE_SHORT
                              row terminator                                         -> enc_cell, enc_row, enc_rows, encode
     IcyDraw::load_buffer     the `LAYER_n` branch (no `~k` continuation): read_utf8_encoded_string, the header fields
                              with every slice index as an explicit Panic, the length check, the row/cell loop with its
                              `data length out ouf bounds` errors, the checked char::from_u32 with its
                              `invalid character code` error                                     -> dec_cell, dec_row, dec_rows, decode
     read_utf8_encoded_string u32 length prefix, bytes, String::from_utf8_lossy(..).into_owned() -> the first three lines of decode
     char::from_u32, String::from_utf8_lossy (std)                                    -> Model/Unicode.v (C10): char_from_u32, utf8_lossy
     Layer::get_char, Layer::set_char, Line::create, Line::set_char (src/layer.rs, src/line.rs)
                                                                                      -> get_char, set_char_lines, line_create, line_set
     AttributedChar::invisible / is_visible (src/attributed_char.rs)                  -> invisible_cell, is_visible

   Executable definitions only.  Numbers: bytes, code points, colours, attribute words are N; i32 offsets and sizes are Z.
   `as u8` / `as u16` / `as u32` are `mod`.  Every `bytes[i]` / `bytes[a..b]` is a checked access (Panic 1).
   Not modelled (explicit [Err 8]): layers of role Image (sixel payload) and layers that need `~k` continuation chunks
   (more than MAX = 3 000 000 bytes; impossible for layers up to 200 x 120, see IcyLayerProofs.fits_small). *)
From Coq Require Import ZArith NArith List Bool.
From IE Require Import Gen.IcyGen.
From IE Require Model.Unicode.          (* not imported: Unicode.is_cont would shadow IcyDoc.is_cont *)
Import ListNotations.
Local Open Scope N_scope.

Inductive res (A : Type) : Type :=
| Ok (a : A)
| Err (code : N)      (* 1 unsupported header size, 2 data length out of bounds, 3 unsupported layer mode, 4 font slot,
                         5 font decode, 6 palette decode, 7 sauce decode, 8 not modelled (image layer / continuation chunk),
                         9 invalid PNG container, 10 invalid character code in layer data *)
| Panic (site : N).   (* 1 slice index out of range, 3 arithmetic overflow
                         (site 2 was the abort of char::from_u32_unchecked; the merged loader has no such site any more) *)
Arguments Ok {A} _. Arguments Err {A} _. Arguments Panic {A} _.

Definition bind {A B} (r : res A) (f : A -> res B) : res B :=
  match r with Ok a => f a | Err c => Err c | Panic s => Panic s end.
Notation "'do' x <- r ; k" := (bind r (fun x => k)) (at level 200, x pattern, r at level 100, k at level 200).

(* ---- bytes ---- *)
Fixpoint le (n : nat) (v : N) : list N :=        (* uN::to_le_bytes(v as uN), n = N/8 *)
  match n with O => [] | S m => (v mod 256) :: le m (v / 256) end.
Fixpoint unle (bs : list N) : N :=               (* uN::from_le_bytes *)
  match bs with [] => 0 | b :: t => b + 256 * unle t end.

Definition i32_bytes (z : Z) : list N := le 4 (Z.to_N (z mod 4294967296)%Z).      (* i32::to_le_bytes *)
Definition as_i32 (v : N) : Z := if v <? 2147483648 then Z.of_N v else (Z.of_N v - 4294967296)%Z.   (* u32 as i32 *)

(* bytes[o..o+n] with the bounds check: None = out of range *)
Fixpoint takeN (n : N) (bs : list N) {struct bs} : option (list N * list N) :=
  if n =? 0 then Some ([], bs) else
  match bs with
  | [] => None
  | b :: t => match takeN (N.pred n) t with Some (a, r) => Some (b :: a, r) | None => None end
  end.
Definition take (n : N) (bs : list N) : res (list N * list N) :=
  match takeN n bs with Some p => Ok p | None => Panic 1 end.
Definition byte (bs : list N) : res (N * list N) :=
  match bs with [] => Panic 1 | b :: t => Ok (b, t) end.

(* ---- cells ---- *)
Record cell := mkc { ch : N; fg : N; bg : N; page : N; attr : N }.

Definition invisible_cell (p : N) : cell := mkc 32 7 0 p INVISIBLE.     (* AttributedChar::invisible().with_font_page(p) *)
Definition is_visible (c : cell) : bool := N.land (attr c) INVISIBLE =? 0.
Definition scalar (c : N) : bool := Unicode.scalarb c.                   (* the values a Rust `char` can hold *)

(* ---- layers ---- *)
Inductive role_t := RNormal | RPastePreview | RPasteImage | RImage.
Inductive mode_t := MNormal | MChars | MAttributes.

Record layer := mkLayer {
  title : list N;                      (* properties.title, as its UTF-8 bytes *)
  role : role_t;
  mode : mode_t;
  color : option (N * N * N);          (* properties.color (r, g, b) *)
  vis : bool; locked : bool; pos_locked : bool; alpha : bool; alpha_locked : bool;
  transparency : N;
  ox : Z; oy : Z;                      (* properties.offset *)
  preview : option (Z * Z);            (* preview_offset *)
  lw : Z; lh : Z;                      (* size *)
  dfp : N;                             (* default_font_page *)
  lines : list (list cell) }.          (* lines[y].chars, ragged as in the code *)

Definition get_offset (L : layer) : Z * Z := match preview L with Some p => p | None => (ox L, oy L) end.

Definition get_char (L : layer) (x y : Z) : cell :=
  if ((x <? 0) || (y <? 0) || (lw L <=? x) || (lh L <=? y))%Z then invisible_cell (dfp L) else
  match nth_error (lines L) (Z.to_nat y) with
  | Some l => match nth_error l (Z.to_nat x) with Some c => c | None => invisible_cell (dfp L) end
  | None => invisible_cell (dfp L)
  end.

(* ---- writer ---- *)
(* get_invisible_line_length: start at width, step left while the cell is invisible; [n] is the candidate length *)
Fixpoint inv_len (L : layer) (y : Z) (n : nat) : nat :=
  match n with
  | O => O
  | S m => if is_visible (get_char L (Z.of_nat m) y) then S m else inv_len L y m
  end.
Definition real_length (L : layer) (y : Z) : nat := inv_len L y (Z.to_nat (lw L)).

Definition is_short (c : cell) : bool :=
  is_visible c && (ch c <=? 255) && (fg c <=? 255) && (bg c <=? 255) && (page c <=? 255).

Definition enc_cell (c : cell) : list N :=
  if negb (is_visible c) then le 2 INVISIBLE
  else if is_short c then le 2 (N.lor (attr c) SHORT_DATA) ++ [ch c mod 256; fg c mod 256; bg c mod 256; page c mod 256]
  else le 2 (attr c) ++ le 4 (ch c) ++ le 4 (fg c) ++ le 4 (bg c) ++ le 2 (page c).

(* the cell record before the `fix:` commit: the attribute word of an invisible cell was written as it is *)
Definition enc_cell_before_fix (c : cell) : list N :=
  if negb (is_visible c) then le 2 (attr c) else enc_cell c.

Section Writer.
Variable ec : cell -> list N.            (* enc_cell; enc_cell_before_fix only in the refutation lemmas *)

Definition enc_row (L : layer) (y : Z) : list N :=
  let rl := real_length L y in
  flat_map (fun x => ec (get_char L (Z.of_nat x) y)) (seq 0 rl)
  ++ (if (Z.of_nat rl <? lw L)%Z then le 2 INVISIBLE_SHORT else []).

(* `while y < height { if result.len() + width * 16 > MAX { break } … y += 1 }`; [n] = rows still to write, [len] = result.len().
   Returns the bytes written and the number of rows left for `~k` chunks. *)
Fixpoint enc_rows (L : layer) (n : nat) (y : Z) (len : N) : list N * nat :=
  match n with
  | O => ([], O)
  | S m =>
    if MAX_CHUNK <? len + Z.to_N (lw L) * 16 then ([], n) else
    let r := enc_row L y in
    let '(rest, todo) := enc_rows L m (y + 1)%Z (len + N.of_nat (length r)) in
    (r ++ rest, todo)
  end.

End Writer.

Definition role_byte (r : role_t) : N := match r with RImage => 1 | _ => 0 end.
Definition mode_byte (m : mode_t) : N := match m with MNormal => 0 | MChars => 1 | MAttributes => 2 end.
Definition flag (b : bool) (v : N) : N := if b then v else 0.
Definition flags_word (L : layer) : N :=
  N.lor (N.lor (N.lor (N.lor (flag (vis L) L_IS_VISIBLE) (flag (locked L) L_EDIT_LOCK)) (flag (pos_locked L) L_POS_LOCK))
               (flag (alpha L) L_HAS_ALPHA)) (flag (alpha_locked L) L_ALPHA_LOCKED).

Definition enc_header (L : layer) : list N :=
  le 4 (N.of_nat (length (title L))) ++ title L
  ++ [role_byte (role L)] ++ [0; 0; 0; 0] ++ [mode_byte (mode L)]
  ++ (match color L with Some (r, g, b) => [r mod 256; g mod 256; b mod 256; 255] | None => [0; 0; 0; 0] end)
  ++ le 4 (flags_word L) ++ [transparency L mod 256]
  ++ i32_bytes (fst (get_offset L)) ++ i32_bytes (snd (get_offset L))
  ++ i32_bytes (lw L) ++ i32_bytes (lh L) ++ le 2 (dfp L).

(* the payload of chunk LAYER_n *)
Definition encode_with (ec : cell -> list N) (L : layer) : res (list N) :=
  match role L with
  | RImage => Err 8
  | _ =>
    let hd := enc_header L in
    if ((lw L <? 0) && (0 <? lh L))%Z then Panic 3        (* `width as u64 * 16` overflows *)
    else
    let '(rows, todo) := enc_rows ec L (Z.to_nat (lh L)) 0%Z (N.of_nat (length hd) + 8) in
    match todo with
    | O => Ok (hd ++ le 8 (N.of_nat (length rows)) ++ rows)
    | S _ => Err 8                                         (* `~k` continuation chunks *)
    end
  end.

Definition encode : layer -> res (list N) := encode_with enc_cell.

(* ---- reader ---- *)
Definition line_create (w : Z) : list cell := repeat (invisible_cell 0) (Z.to_nat w).     (* Line::create *)

Fixpoint upd_nth {A} (n : nat) (f : A -> A) (l : list A) {struct l} : list A :=
  match l, n with
  | [], _ => []
  | x :: t, O => f x :: t
  | x :: t, S n' => x :: upd_nth n' f t
  end.

(* Line::set_char *)
Definition line_set (x : nat) (c : cell) (l : list cell) : list cell :=
  let l' := if (length l <=? x)%nat then l ++ repeat (invisible_cell 0) (S x - length l) else l in
  upd_nth x (fun _ => c) l'.

(* Layer::set_char on a fresh layer (visible, not locked, no alpha lock) for a position inside the layer *)
Definition set_char_lines (w : Z) (x y : nat) (c : cell) (ls : list (list cell)) : list (list cell) :=
  let ls' := if (length ls <=? y)%nat then ls ++ repeat (line_create w) (S y - length ls) else ls in
  upd_nth y (line_set x c) ls'.

Inductive cellstep :=
| CEnd (rest : list N)                 (* INVISIBLE_SHORT: end of the row *)
| CSkip (rest : list N)                (* invisible cell *)
| CSet (c : cell) (rest : list N).

(* `let Some(ch) = char::from_u32(ch) else { return Err(anyhow!("invalid character code {ch:#x} in layer data")) };`
   then layer.set_char — the same statement closes the short and the long branch *)
Definition checked_cell (c f b p at1 : N) (rest : list N) : res cellstep :=
  match Unicode.char_from_u32 c with
  | Some c' => Ok (CSet (mkc c' f b p at1) rest)
  | None => Err 10
  end.

Definition dec_cell (bs : list N) : res cellstep :=
  match takeN 2 bs with
  | None => Err 2                                                     (* o + 2 > bytes.len() *)
  | Some (a, r) =>
    let attr0 := unle a in
    if attr0 =? INVISIBLE_SHORT then Ok (CEnd r) else
    let short := negb (N.land attr0 SHORT_DATA =? 0) in
    let at1 := if short then N.land attr0 (N.lxor 65535 SHORT_DATA) else attr0 in
    if at1 =? INVISIBLE then Ok (CSkip r) else
    if short then
      match takeN 4 r with
      | None => Err 2                                                 (* o + 4 > bytes.len() (C02 fix d6295fe: was o + 3) *)
      | Some _ =>
        match r with
        | c :: f :: b :: p :: r' => checked_cell c f b p at1 r'        (* a byte is always a scalar value *)
        | _ => Panic 1                                                (* unreachable after the check above *)
        end
      end
    else
      match takeN 14 r with
      | None => Err 2                                                 (* o + 14 > bytes.len() *)
      | Some (d, r') =>
        checked_cell (unle (firstn 4 d)) (unle (firstn 4 (skipn 4 d))) (unle (firstn 4 (skipn 8 d))) (unle (skipn 12 d)) at1 r'
      end
  end.

(* `for x in 0..width`: [n] = cells still to read in this row *)
Fixpoint dec_row (w : Z) (n : nat) (x y : nat) (ls : list (list cell)) (bs : list N) : res (list (list cell) * list N) :=
  match n with
  | O => Ok (ls, bs)
  | S m =>
    do st <- dec_cell bs;
    match st with
    | CEnd r => Ok (ls, r)
    | CSkip r => dec_row w m (S x) y ls r
    | CSet c r => dec_row w m (S x) y (set_char_lines w x y c ls) r
    end
  end.

(* `for y in 0..height { if o >= bytes.len() { break } … }` *)
Fixpoint dec_rows (w : Z) (n : nat) (y : nat) (ls : list (list cell)) (bs : list N) : res (list (list cell)) :=
  match n with
  | O => Ok ls
  | S m =>
    match bs with
    | [] => Ok ls
    | _ => do p <- dec_row w (Z.to_nat w) 0 y ls bs; dec_rows w m (S y) (fst p) (snd p)
    end
  end.

Definition has (w v : N) : bool := N.land w v =? v.

(* read_utf8_encoded_string after C02's fix 4f977d8: None (-> Err FileTooShort, 11) when the prefix or the string is cut off *)
Definition take_e (n : N) (bs : list N) : res (list N * list N) :=
  match takeN n bs with Some p => Ok p | None => Err 11 end.
Definition guard_len (n : N) (bs : list N) {A} (k : res A) : res A :=
  if N.of_nat (length bs) <? n then Err 11 else k.

Definition decode (bs : list N) : res layer :=
  do p <- take_e 4 bs;                                  (* read_utf8_encoded_string: data[0..4] *)
  let size := unle (fst p) in
  do p <- take_e size (snd p);                          (* data[4..4 + size] *)
  let ttl := Unicode.utf8_lossy (fst p) in              (* String::from_utf8_lossy(&data[4..4 + size]).into_owned() *)
  guard_len 41 (snd p) (                                (* C02 fix 2015626: `bytes.len() - o < LAYER_RECORD_SIZE` -> FileTooShort *)
  do p <- byte (snd p); let rl := fst p in
  do p <- byte (skipn 4 (snd p));                       (* o += 4; mode = bytes[o] *)
  let md := fst p in
  match (match md with 0 => Some MNormal | 1 => Some MChars | 2 => Some MAttributes | _ => None end) with
  | None => Err 3
  | Some m =>
    do p <- byte (snd p); let r := fst p in
    do p <- byte (snd p); let g := fst p in
    do p <- byte (snd p); let b := fst p in
    do p <- byte (snd p); let a := fst p in
    do p <- take 4 (snd p); let flags := unle (fst p) in
    do p <- byte (snd p); let tr := fst p in
    do p <- take 4 (snd p); let x := as_i32 (unle (fst p)) in
    do p <- take 4 (snd p); let y := as_i32 (unle (fst p)) in
    do p <- take 4 (snd p); let w := as_i32 (unle (fst p)) in
    do p <- take 4 (snd p); let h := as_i32 (unle (fst p)) in
    do p <- take 2 (snd p); let d := unle (fst p) in
    do p <- take 8 (snd p); let len := unle (fst p) in
    let rest := snd p in
    if rl =? 1 then Err 8                                (* image layer *)
    else if N.of_nat (length rest) <? len then Err 2     (* C02 fix bcdfc94: `bytes.len() - o < length`, no addition *)
    else
      do ls <- dec_rows w (Z.to_nat h) 0 [] rest;
      Ok (mkLayer ttl RNormal m (if a =? 0 then None else Some (r, g, b))
                  (has flags L_IS_VISIBLE) (has flags L_EDIT_LOCK) (has flags L_POS_LOCK) (has flags L_HAS_ALPHA) (has flags L_ALPHA_LOCKED)
                  tr x y None w h d ls)
  end).
