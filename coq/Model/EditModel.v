(* M-undo, part 2: documents, the undo operations of src/editor/undo_operations.rs and the layer primitives of
   src/layer.rs / src/line.rs they are built from (the tree AFTER the C08 fix commits).

   Rust (src/…)                                         here
   ---------------------------------------------------  ------------------------------------------------------------
   AttributedChar, ::invisible(), ::is_visible          cell, invisible, cell_visible            (constants from Gen.UndoGen)
   Line::create, Line::set_char                         line_create, line_set_char
   Layer { role, properties, size, lines }              layer (sixels, hyperlinks, preview_offset, transparency,
                                                        default_font_page are not modelled: empty / None / 0 in every
                                                        document the checks build)
   TextPane::get_char for Layer                         get_char   (raw = the stored cell, absent cells are invisible)
   Layer::set_char / restore_char / can_set_char /      l_set_char / l_restore_char / l_can_set_char / l_swap_char /
     swap_char / restore / from_layer / new / set_offset  l_restore / from_layer / layer_new / l_set_offset
   Buffer { size, layers } + EditState { current_layer, estate (palette, fonts, sauce, modes are not touched by any modelled
     selection_opt, mirror_mode, caret }                  operation and are left out)
   UndoSetChar, UndoSwapChar, AddLayer, RemoveLayer,    uop: USetChar … ULayerChange, USetSelection, USelectNothing, UDeselect
     RaiseLayer, LowerLayer, ToggleLayerVisibility,       with op_undo / op_redo : uop -> estate -> res (uop * estate)
     MoveLayer, SetLayerSize, ResizeBuffer, ClearLayer,   (payloads re-captured exactly where the Rust code assigns to a field of self)
     UndoLayerChange, SetSelection, SelectNothing, Deselect
   Vec index / insert / remove / swap, `idx - 1`        explicit Panic (site numbers in comments); Err = the EditorError /
                                                        anyhow error paths.
   Coordinates are unbounded Z: the model agrees with the code as long as no i32 addition overflows. *)
From Coq Require Import List ZArith NArith Bool Arith.
From IE Require Import Gen.UndoGen Model.Undo.
Import ListNotations.
Local Open Scope Z_scope.

(* ------------------------------------------------------------------ cells and lines *)
Record cell := mkCell { c_ch : N; c_fg : N; c_bg : N; c_fp : N; c_attr : N }.

Definition cell_visible (c : cell) : bool := attr_visible (c_attr c).
Definition invisible : cell := mkCell INVISIBLE_CH DEFAULT_FG DEFAULT_BG DEFAULT_FONT_PAGE ATTR_INVISIBLE.

Definition line := list cell.
Definition line_create (w : Z) : line := repeat invisible (Z.to_nat w).

Fixpoint upd_nth {A} (n : nat) (f : A -> A) (l : list A) {struct l} : list A :=
  match l, n with
  | [], _ => []
  | a :: t, O => f a :: t
  | a :: t, S n' => a :: upd_nth n' f t
  end.

(* Line::set_char (index >= 0 at every call site) *)
Definition line_set_char (row : line) (x : Z) (c : cell) : line :=
  let n := Z.to_nat x in
  let row' := if (Z.of_nat (length row) <=? x) then row ++ repeat invisible (n + 1 - length row) else row in
  upd_nth n (fun _ => c) row'.

(* ------------------------------------------------------------------ layers *)
Record layer := mkLayer {
  l_role : N;
  l_visible : bool; l_locked : bool; l_pos_locked : bool; l_alpha_locked : bool; l_has_alpha : bool;
  l_mode : N;
  l_ox : Z; l_oy : Z;
  l_w : Z; l_h : Z;
  l_title : N * N;            (* base name, number of " copy" suffixes *)
  l_lines : list line }.

Definition with_lines (L : layer) (v : list line) : layer :=
  mkLayer (l_role L) (l_visible L) (l_locked L) (l_pos_locked L) (l_alpha_locked L) (l_has_alpha L) (l_mode L)
          (l_ox L) (l_oy L) (l_w L) (l_h L) (l_title L) v.
Definition with_size (L : layer) (w h : Z) : layer :=
  mkLayer (l_role L) (l_visible L) (l_locked L) (l_pos_locked L) (l_alpha_locked L) (l_has_alpha L) (l_mode L)
          (l_ox L) (l_oy L) w h (l_title L) (l_lines L).
Definition with_offset (L : layer) (x y : Z) : layer :=
  mkLayer (l_role L) (l_visible L) (l_locked L) (l_pos_locked L) (l_alpha_locked L) (l_has_alpha L) (l_mode L)
          x y (l_w L) (l_h L) (l_title L) (l_lines L).
Definition with_visible (L : layer) (v : bool) : layer :=
  mkLayer (l_role L) v (l_locked L) (l_pos_locked L) (l_alpha_locked L) (l_has_alpha L) (l_mode L)
          (l_ox L) (l_oy L) (l_w L) (l_h L) (l_title L) (l_lines L).
Definition with_title (L : layer) (t : N * N) : layer :=
  mkLayer (l_role L) (l_visible L) (l_locked L) (l_pos_locked L) (l_alpha_locked L) (l_has_alpha L) (l_mode L)
          (l_ox L) (l_oy L) (l_w L) (l_h L) t (l_lines L).
Definition with_has_alpha (L : layer) (v : bool) : layer :=
  mkLayer (l_role L) (l_visible L) (l_locked L) (l_pos_locked L) (l_alpha_locked L) v (l_mode L)
          (l_ox L) (l_oy L) (l_w L) (l_h L) (l_title L) (l_lines L).

(* the stored cell; a cell that is not stored reads as invisible *)
Definition raw (lines : list line) (x y : nat) : cell :=
  match nth_error lines y with
  | Some row => match nth_error row x with Some c => c | None => invisible end
  | None => invisible
  end.

Definition get_char (L : layer) (x y : Z) : cell :=
  if get_char_oob x y (l_w L) (l_h L) then invisible else raw (l_lines L) (Z.to_nat x) (Z.to_nat y).

(* `if pos.y >= lines.len() { lines.resize(pos.y + 1, Line::create(width)) }` *)
Definition grow_lines (lines : list line) (y w : Z) : list line :=
  if (Z.of_nat (length lines) <=? y) then lines ++ repeat (line_create w) (Z.to_nat y + 1 - length lines) else lines.

(* lines[pos.y].set_char(pos.x, c): the row exists, grow_lines ran before *)
Definition write_cell (lines : list line) (x y : Z) (c : cell) : list line :=
  upd_nth (Z.to_nat y) (fun r => line_set_char r x c) lines.

Definition l_set_char (L : layer) (x y : Z) (c : cell) : layer :=
  if set_char_oob x y (l_w L) (l_h L) then L
  else if set_char_refused (l_locked L) (l_visible L) then L
  else
    let L1 := with_lines L (grow_lines (l_lines L) y (l_w L)) in
    if set_char_alpha (l_has_alpha L) (l_alpha_locked L) && negb (cell_visible (get_char L1 x y)) then L1
    else with_lines L1 (write_cell (l_lines L1) x y c).

Definition l_restore_char (L : layer) (x y : Z) (c : cell) : layer :=
  if restore_char_oob x y (l_w L) (l_h L) then L
  else with_lines L (write_cell (grow_lines (l_lines L) y (l_w L)) x y c).

Definition l_can_set_char (L : layer) (x y : Z) : bool :=
  if can_set_oob x y (l_w L) (l_h L) then false
  else if can_set_refused (l_locked L) (l_visible L) then false
  else negb (can_set_alpha (l_has_alpha L) (l_alpha_locked L)) || cell_visible (get_char L x y).

Definition l_swap_char (L : layer) (x1 y1 x2 y2 : Z) : layer :=
  if negb (l_can_set_char L x1 y1) || negb (l_can_set_char L x2 y2) then L
  else
    let tmp := get_char L x1 y1 in
    let L1 := l_set_char L x1 y1 (get_char L x2 y2) in
    l_set_char L1 x2 y2 tmp.

Definition l_set_offset (L : layer) (x y : Z) : layer := if l_pos_locked L then L else with_offset L x y.

Definition zrange (n : Z) : list Z := map Z.of_nat (seq 0 (Z.to_nat n)).
(* `for y in 0..h { for x in 0..w {` *)
Definition cells (w h : Z) : list (Z * Z) := flat_map (fun y => map (fun x => (x, y)) (zrange w)) (zrange h).

(* a snapshot: what undo_operations keeps as `old_chars` / `new_chars` (a Layer of which only size and cells are read) *)
Definition snap := (Z * Z * list line)%type.
Definition snap_get (s : snap) (x y : Z) : cell :=
  let '(w, h, lines) := s in if get_char_oob x y w h then invisible else raw lines (Z.to_nat x) (Z.to_nat y).

(* Layer::restore *)
Definition l_restore (L : layer) (tx ty : Z) (s : snap) : layer :=
  let '(w, h, _) := s in
  fold_left (fun L '(x, y) => l_restore_char L (x + tx) (y + ty) (snap_get s x y)) (cells w h) L.

(* Layer::new(title, size) panics (capacity overflow) on a negative size: site 10 *)
Definition layer_new (title : N * N) (w h : Z) : res layer :=
  if (w <? 0) || (h <? 0) then Panic 10
  else Ok (mkLayer 0 true false false false false 0 0 0 w h title (repeat (line_create w) (Z.to_nat h))).

Definition rect := (Z * Z * Z * Z)%type.      (* start x, start y, width, height *)

(* Layer::from_layer(layer, area): a fresh layer of the size of the area whose cell (x, y) is layer.get_char(area.start + (x, y)) *)
Definition from_layer (L : layer) (a : rect) : res snap :=
  let '(ax, ay, aw, ah) := a in
  if (aw <? 0) || (ah <? 0) then Panic 10
  else Ok (aw, ah, map (fun y => map (fun x => get_char L (ax + x) (ay + y)) (zrange aw)) (zrange ah)).

(* a clone used as snapshot (erase_selection) *)
Definition snap_of_layer (L : layer) : snap := (l_w L, l_h L, l_lines L).

(* ------------------------------------------------------------------ the edit state (without the stacks) *)
Record selection := mkSel { s_ax : Z; s_ay : Z; s_lx : Z; s_ly : Z; s_add : N }.   (* anchor, lead, add_type (shape is Rectangle) *)

Definition sel_eqb (a b : selection) : bool :=
  (s_ax a =? s_ax b) && (s_ay a =? s_ay b) && (s_lx a =? s_lx b) && (s_ly a =? s_ly b) && (s_add a =? s_add b)%N.

(* Selection::as_rectangle *)
Definition sel_rect (s : selection) : rect :=
  (Z.min (s_ax s) (s_lx s), Z.min (s_ay s) (s_ly s), Z.abs (s_ax s - s_lx s), Z.abs (s_ay s - s_ly s)).

Record estate := mkE {
  bw : Z; bh : Z;
  layers : list layer;
  curl : nat;                   (* EditState::current_layer, unclamped *)
  sel : option selection;
  mirror : bool;
  caret_x : Z; caret_y : Z }.

Definition with_layers (e : estate) (v : list layer) : estate := mkE (bw e) (bh e) v (curl e) (sel e) (mirror e) (caret_x e) (caret_y e).
Definition with_bsize (e : estate) (w h : Z) : estate := mkE w h (layers e) (curl e) (sel e) (mirror e) (caret_x e) (caret_y e).
Definition with_curl (e : estate) (v : nat) : estate := mkE (bw e) (bh e) (layers e) v (sel e) (mirror e) (caret_x e) (caret_y e).
Definition with_sel (e : estate) (v : option selection) : estate := mkE (bw e) (bh e) (layers e) (curl e) v (mirror e) (caret_x e) (caret_y e).
Definition with_mirror (e : estate) (v : bool) : estate := mkE (bw e) (bh e) (layers e) (curl e) (sel e) v (caret_x e) (caret_y e).
Definition with_caret (e : estate) (x y : Z) : estate := mkE (bw e) (bh e) (layers e) (curl e) (sel e) (mirror e) x y.

Definition upd_layer (e : estate) (i : nat) (f : layer -> layer) : estate := with_layers e (upd_nth i f (layers e)).

(* EditState::clamp_current_layer / set_current_layer *)
Definition clamp_cur (e : estate) : estate := with_curl e (Nat.min (curl e) (pred (length (layers e)))).

Definition insert_at {A} (i : nat) (a : A) (l : list A) : list A := firstn i l ++ a :: skipn i l.
Definition remove_at {A} (i : nat) (l : list A) : list A := firstn i l ++ skipn (S i) l.
Definition swap_at {A} (i j : nat) (l : list A) : option (list A) :=
  match nth_error l i, nth_error l j with
  | Some a, Some b => Some (upd_nth j (fun _ => a) (upd_nth i (fun _ => b) l))
  | _, _ => None
  end.

(* ------------------------------------------------------------------ undo operations *)
Inductive uop :=
| USetChar (i : nat) (x y : Z) (old new : cell)
| USwapChar (i : nat) (x1 y1 x2 y2 : Z)
| UAddLayer (i : nat) (l : option layer)
| URemoveLayer (i : nat) (l : option layer)
| URaise (i : nat)
| ULower (i : nat)
| UToggleVis (i : nat)
| UMoveLayer (i : nat) (fx fy tx ty : Z)
| USetLayerSize (i : nat) (fw fh tw th : Z)
| UResizeBuffer (ow oh nw nh : Z)
| UClearLayer (i : nat) (saved : list line)
| ULayerChange (i : nat) (px py : Z) (old new : snap)
| USetSelection (old new : option selection)
| USelectNothing (s : option selection)
| UDeselect (s : selection).

Definition on_layer (e : estate) (i : nat) (o : uop) (f : layer -> layer) (err : Z) : res (uop * estate) :=
  match nth_error (layers e) i with
  | Some _ => Ok (o, upd_layer e i f)
  | None => Err err
  end.

Definition op_undo (o : uop) (e : estate) : res (uop * estate) :=
  match o with
  | USetChar i x y old new =>
    (* layers[self.layer]: index panic, site 1 *)
    match nth_error (layers e) i with
    | Some _ => Ok (o, upd_layer e i (fun L => l_restore_char L x y old))
    | None => Panic 1
    end
  | USwapChar i x1 y1 x2 y2 =>
    match nth_error (layers e) i with
    | Some _ => Ok (o, upd_layer e i (fun L => l_swap_char L x1 y1 x2 y2))
    | None => Panic 1
    end
  | UAddLayer i _ =>
    (* self.layer = Some(layers.remove(index)): panic site 2 *)
    match nth_error (layers e) i with
    | Some L => Ok (UAddLayer i (Some L), clamp_cur (with_layers e (remove_at i (layers e))))
    | None => Panic 2
    end
  | URemoveLayer i l =>
    match l with
    | Some L => if (i <=? length (layers e))%nat then Ok (URemoveLayer i None, with_layers e (insert_at i L (layers e))) else Panic 3
    | None => Ok (o, e)
    end
  | URaise i =>
    match swap_at i (S i) (layers e) with Some ls => Ok (o, with_layers e ls) | None => Panic 4 end
  | ULower i =>
    match i with
    | O => Panic 5                       (* layer_index - 1 *)
    | S j => match swap_at i j (layers e) with Some ls => Ok (o, with_layers e ls) | None => Panic 4 end
    end
  | UToggleVis i => on_layer e i o (fun L => with_visible L (negb (l_visible L))) 1
  | UMoveLayer i fx fy tx ty => on_layer e i o (fun L => l_set_offset L fx fy) 1
  | USetLayerSize i fw fh tw th => on_layer e i o (fun L => with_size L fw fh) 1
  | UResizeBuffer ow oh nw nh => Ok (o, with_bsize e ow oh)
  | UClearLayer i saved =>
    match nth_error (layers e) i with
    | Some L => Ok (UClearLayer i (l_lines L), upd_layer e i (fun L => with_lines L saved))
    | None => Err 1
    end
  | ULayerChange i px py old new => on_layer e i o (fun L => l_restore L px py old) 1
  | USetSelection old new => Ok (o, with_sel e old)
  | USelectNothing s => Ok (o, with_sel e s)
  | UDeselect s => Ok (o, with_sel e (Some s))
  end.

Definition op_redo (o : uop) (e : estate) : res (uop * estate) :=
  match o with
  | USetChar i x y old new =>
    match nth_error (layers e) i with
    | Some _ => Ok (o, upd_layer e i (fun L => l_set_char L x y new))
    | None => Panic 1
    end
  | USwapChar i x1 y1 x2 y2 =>
    match nth_error (layers e) i with
    | Some _ => Ok (o, upd_layer e i (fun L => l_swap_char L x1 y1 x2 y2))
    | None => Panic 1
    end
  | UAddLayer i l =>
    match l with
    | Some L => if (i <=? length (layers e))%nat then Ok (UAddLayer i None, with_layers e (insert_at i L (layers e))) else Panic 3
    | None => Ok (o, e)
    end
  | URemoveLayer i _ =>
    match nth_error (layers e) i with
    | Some L => Ok (URemoveLayer i (Some L), clamp_cur (with_layers e (remove_at i (layers e))))
    | None => Err 1
    end
  | URaise i =>
    match swap_at i (S i) (layers e) with Some ls => Ok (o, with_layers e ls) | None => Panic 4 end
  | ULower i =>
    match i with
    | O => Panic 5
    | S j => match swap_at i j (layers e) with Some ls => Ok (o, with_layers e ls) | None => Panic 4 end
    end
  | UToggleVis i => on_layer e i o (fun L => with_visible L (negb (l_visible L))) 1
  | UMoveLayer i fx fy tx ty => on_layer e i o (fun L => l_set_offset L tx ty) 1
  | USetLayerSize i fw fh tw th =>
    match nth_error (layers e) i with
    | Some L => Ok (USetLayerSize i (l_w L) (l_h L) tw th, upd_layer e i (fun L => with_size L tw th))
    | None => Err 1
    end
  | UResizeBuffer ow oh nw nh => Ok (o, with_bsize e nw nh)
  | UClearLayer i saved =>
    match nth_error (layers e) i with
    | Some L => Ok (UClearLayer i (l_lines L), upd_layer e i (fun L => with_lines L saved))
    | None => Err 1
    end
  | ULayerChange i px py old new => on_layer e i o (fun L => l_restore L px py new) 1
  | USetSelection old new => Ok (o, with_sel e new)
  | USelectNothing s => Ok (o, with_sel e None)
  | UDeselect s => Ok (o, with_sel e None)
  end.
