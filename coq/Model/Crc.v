(* Model of src/crc.rs.
   Mirrors: get_crc16, get_crc32 (while-loop over 16-byte slices), update_slow.
   The tables and every leaf expression (update_crc16, update_crc32, the 16-lookup
   slice expression, the update_slow step, the initial values) come from
   Gen/Crc.v, which translator/gen_crc.py regenerates from the Rust source on every
   run; the control skeletons below are the ones the translator's templates
   match token-for-token against the source.  Executable definitions only. *)
From Coq Require Import NArith List.
From IE Require Import Lib.Tbl Gen.Crc.
Import ListNotations.
Local Open Scope N_scope.

Definition lnot32 (x : N) : N := N.lxor x 4294967295.      (* `!x` on u32 *)

(* for b in block { crc = update_crc16(crc, *b) } *)
Definition get_crc16 (block : list N) : N := fold_left update_crc16 block crc16_init.

(* while buf.len() >= 16 { result = <slice>; buf = &buf[16..]; }   fuel = |buf| always suffices *)
Fixpoint slice_loop (fuel : nat) (result : N) (buf : list N) : N * list N :=
  match fuel with
  | O => (result, buf)
  | S f => if Nat.leb 16 (length buf)
           then slice_loop f (crc32_slice16 result buf) (skipn 16 buf)
           else (result, buf)
  end.

Definition update_slow (prev : N) (buf : list N) : N :=
  lnot32 (fold_left update_slow_step buf (lnot32 prev)).

Definition get_crc32 (buf : list N) : N :=
  let '(result, rest) := slice_loop (length buf) crc32_init buf in
  update_slow (lnot32 result) rest.

(* byte-at-a-time use of the public incremental functions *)
Definition crc32_incremental (buf : list N) : N := lnot32 (fold_left update_crc32 buf 4294967295).
Definition crc16_incremental (buf : list N) : N := fold_left update_crc16 buf 0.

(* ---- specifications: bitwise polynomial division ---- *)
Definition POLY32 : N := 3988292384.  (* 0xEDB88320, LSB first *)
Definition bit32 (c : N) : N := N.lxor (N.shiftr c 1) (if N.testbit c 0 then POLY32 else 0).
Definition byte32 (c b : N) : N := Nat.iter 8 bit32 (N.lxor c b).
Definition crc32_spec (bs : list N) : N := lnot32 (fold_left byte32 bs 4294967295).

Definition POLY16 : N := 4129.        (* 0x1021, MSB first *)
Definition bit16 (c : N) : N := N.lxor ((N.shiftl c 1) mod 65536) (if N.testbit c 15 then POLY16 else 0).
Definition byte16 (c b : N) : N := Nat.iter 8 bit16 (N.lxor c (N.shiftl b 8)).
Definition crc16_spec (bs : list N) : N := fold_left byte16 bs 0.
