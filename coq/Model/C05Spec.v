(* C05: what "the same picture" means and what each binary format can carry (definitions only, no proofs).

   A picture (Model/C05Buf.v `pic`) is what a writer sees of a buffer: width, height, ice mode, the grid of cells that
   Buffer::get_char returns, the palette and the font table.  `pic_of b` is the picture of a loaded buffer. *)
From Coq Require Import NArith ZArith Bool List.
From IE Require Import Lib.Tbl Lib.C05Lib Gen.Codepage Gen.Formats Model.Attr Model.C05Buf Model.C05Bin.
Import ListNotations.
Local Open Scope Z_scope.

(* the grid has exactly height rows of exactly width cells *)
Definition rect (p : pic) : Prop :=
  0 <= p_w p /\ 0 <= p_h p /\
  length (p_rows p) = Z.to_nat (p_h p) /\ Forall (fun r => length r = Z.to_nat (p_w p)) (p_rows p).

Definition all_pic_cells (P : cell -> Prop) (p : pic) : Prop := Forall (Forall P) (p_rows p).

(* ------------------------------------------------------------------ comparison *)
(* same character, same displayed foreground (bold folded into +8), background and blink - as colour indices;
   with pages = true also the same font page *)
Definition same_cell (pages : bool) (c c' : cell) : Prop :=
  c_ch c = c_ch c' /\ shown (c_attr c) = shown (c_attr c') /\
  (pages = true -> font_page (c_attr c) = font_page (c_attr c')).

Definition same_font (f f' : font) : Prop :=
  f_h f = f_h f' /\ f_len f = f_len f' /\ f_glyphs f = f_glyphs f'.

Definition same_fonts (slots : list N) (p p' : pic) : Prop :=
  Forall (fun s => match get_font (p_fonts p) s, get_font (p_fonts p') s with
                   | Some f, Some f' => same_font f f'
                   | _, _ => False
                   end) slots.

(* blink and ice are the two classes of modes an attribute byte distinguishes: IceMode::Unlimited decodes bit 7 as blink
   exactly like IceMode::Blink *)
Definition same_mode (m m' : IceMode) : Prop := is_ice m = is_ice m'.

(* same picture for the formats with a 16-colour palette: sizes, mode class, every cell, the palette as a list of RGB
   triples, and the glyph tables of the listed font slots *)
Definition same_picture (pages : bool) (slots : list N) (p p' : pic) : Prop :=
  p_w p = p_w p' /\ p_h p = p_h p' /\ same_mode (p_ice p) (p_ice p') /\
  Forall2 (Forall2 (same_cell pages)) (p_rows p) (p_rows p') /\
  p_pal p = p_pal p' /\ same_fonts slots p p'.

(* Tundra stores colours, not indices: compare what is displayed *)
Definition shown_rgb (pal : list rgb) (a : TextAttribute) : rgb * rgb * bool :=
  (pal_get_rgb pal (shown_fg a), pal_get_rgb pal (background_color a), is_blinking a).
Definition same_cell_rgb (pal pal' : list rgb) (c c' : cell) : Prop :=
  c_ch c = c_ch c' /\ shown_rgb pal (c_attr c) = shown_rgb pal' (c_attr c').
Definition same_picture_rgb (p p' : pic) : Prop :=
  p_w p = p_w p' /\ p_h p = p_h p' /\ same_mode (p_ice p) (p_ice p') /\
  Forall2 (Forall2 (same_cell_rgb (p_pal p) (p_pal p'))) (p_rows p) (p_rows p').

(* ------------------------------------------------------------------ what the formats can carry *)
(* a cell an 8-bit (character, attribute) pair can carry in mode m: Attr.expressible = 4 foreground bits and
   either 3 background bits + blink (Blink, Unlimited) or 4 background bits without blink (Ice) *)
Definition cell8 (m : IceMode) (c : cell) : Prop :=
  (c_ch c < 256)%N /\ expressible m (c_attr c).
Definition cell8_page0 (m : IceMode) (c : cell) : Prop :=
  cell8 m c /\ font_page (c_attr c) = 0%N.

(* a 256-glyph font of height h whose glyphs are h bytes each *)
Definition font_wf (h : N) (f : font) : Prop :=
  f_h f = h /\ f_len f = 256%N /\ length (f_glyphs f) = 256%nat /\
  Forall (fun g => length g = N.to_nat h) (f_glyphs f).

(* a colour whose channels survive the 6-bit VGA DAC representation (c = expand6 (reduce6 c)) *)
Definition six_bit (c : rgb) : Prop :=
  let '(r, g, b) := c in expand6 (reduce6 r) = r /\ expand6 (reduce6 g) = g /\ expand6 (reduce6 b) = b.

(* BIN: even width 2..510 (the SAUCE record stores width / 2 in one byte), at least one row, 8-bit cells in the
   buffer's mode, the default palette (BIN stores no palette) *)
Definition representable_bin (p : pic) : Prop :=
  rect p /\ 2 <= p_w p <= 510 /\ Z.even (p_w p) = true /\ 1 <= p_h p /\
  all_pic_cells (cell8 (p_ice p)) p /\ p_pal p = DOS_DEFAULT_PALETTE.

(* ADF: width 80, any number of rows, ice colours, one font page (0) with an 8x16 font, 16 six-bit colours *)
Definition representable_adf (p : pic) : Prop :=
  rect p /\ p_w p = 80 /\ p_ice p = Ice /\
  all_pic_cells (cell8_page0 Ice) p /\
  length (p_pal p) = 16%nat /\ Forall six_bit (p_pal p) /\
  (exists f, get_font (p_fonts p) 0 = Some f /\ font_wf 16 f).

(* XBin (uncompressed data): width 1..4096, height up to 65535 (two header bytes each), any mode (Unlimited is written
   like Blink), 16 six-bit colours, and either
   - one font page (0) with a 256-glyph font of height 1..32 (a font that calls itself the default font must be it:
     the writer then omits the font block), or
   - exactly the font pages 0 and 1 with two fonts of the same height; attribute bit 3 then selects the page, so the
     displayed foreground must be below 8 (fg < 8, not bold). *)
Definition xb_common (p : pic) : Prop :=
  rect p /\ 1 <= p_w p <= 4096 /\ p_h p <= 65535 /\ length (p_pal p) = 16%nat /\ Forall six_bit (p_pal p).

Definition representable_xb1 (p : pic) : Prop :=
  xb_common p /\ all_pic_cells (cell8_page0 (p_ice p)) p /\
  exists f, get_font (p_fonts p) 0 = Some f /\ font_wf (f_h f) f /\ (1 <= f_h f <= 32)%N /\
            (f_default f = true -> same_font f default_font).

Definition cell8_two_fonts (m : IceMode) (c : cell) : Prop :=
  cell8 m c /\ (foreground_color (c_attr c) < 8)%N /\ is_bold (c_attr c) = false /\
  (font_page (c_attr c) = 0%N \/ font_page (c_attr c) = 1%N).

Definition representable_xb2 (p : pic) : Prop :=
  xb_common p /\ used_pages (p_rows p) = [0%N; 1%N] /\ all_pic_cells (cell8_two_fonts (p_ice p)) p /\
  exists f0 f1 h, get_font (p_fonts p) 0 = Some f0 /\ get_font (p_fonts p) 1 = Some f1 /\
                  font_wf h f0 /\ font_wf h f1 /\ (1 <= h <= 32)%N.

(* IDF: width 1..80 (the loader's layer is 80 wide), 1..200 rows (the writer refuses more; without a cell the loader keeps
   Buffer::new's 25 rows), ice colours, font page 0 with an 8x16 font, 16 six-bit colours *)
Definition representable_idf (p : pic) : Prop :=
  rect p /\ 1 <= p_w p <= 80 /\ 1 <= p_h p <= 200 /\ p_ice p = Ice /\
  all_pic_cells (cell8_page0 Ice) p /\
  length (p_pal p) = 16%nat /\ Forall six_bit (p_pal p) /\
  (exists f, get_font (p_fonts p) 0 = Some f /\ font_wf 16 f).

(* Tundra: width 1..1000 (carried by the SAUCE record; the loader replaces larger ones by 80), any number of rows, ice mode,
   every cell visible, 8-bit character, font page 0, neither bold nor blinking (the format stores two 24-bit colours per
   change and nothing else), colours given as palette indices below 2^31 (bit 31 marks direct RGB / the transparent colour),
   and fewer than 2^30 cells (the loader numbers the colours it meets with u32 indices, of which bit 31 is special) *)
Definition cell_tnd (c : cell) : Prop :=
  (c_ch c < 256)%N /\ is_visible c = true /\ font_page (c_attr c) = 0%N /\
  is_bold (c_attr c) = false /\ is_blinking (c_attr c) = false /\
  (foreground_color (c_attr c) < 2147483648)%N /\ (background_color (c_attr c) < 2147483648)%N.

Definition representable_tnd (p : pic) : Prop :=
  rect p /\ 1 <= p_w p <= 1000 /\ p_w p * p_h p < 1073741824 /\ p_ice p = Ice /\ all_pic_cells cell_tnd p.
