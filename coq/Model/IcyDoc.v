(* Model of the document level of the native IcyDraw format, src/formats/icy_draw.rs:

     IcyDraw::to_bytes     which chunks are written, in which order, under which keyword, with which payload:
                           ICED header, SAUCE (if the buffer has sauce), PALETTE (unless Palette::is_default), FONT_k for
                           every (k, font) of Buffer::font_iter, LAYER_i for every layer, END        -> iced_payload, doc_chunks, save
     IcyDraw::load_buffer  the dispatch on the chunk keyword (END / ICED / PALETTE / SAUCE / FONT_ prefix + parse +
                           read_utf8_encoded_string (length prefix, String::from_utf8_lossy: Model/Unicode.v utf8_lossy) /
                           not LAYER_ -> ignored / LAYER_(\d+)~(\d+) / layer record) on a Buffer::new((80, 25)) whose
                           layers were cleared                                                        -> step, load_chunks, load
     Buffer::new, Buffer::set_font (HashMap insert), Buffer::set_size (src/buffers.rs)               -> init_state, set_font, step
     BufferType / IceMode / PaletteMode / FontMode ::{to_byte, from_byte}                             -> generated, Gen/IcyGen.v

   Oracles (Section variables; nothing is assumed about them here, the theorems in Props/C07.v state their hypotheses):
     pack / unpack      the PNG file with its zTXt chunks (png crate, zlib, base64): keyword/payload pairs in file order
     sauce_enc/dec      Buffer::write_sauce_info(SauceFileType::Ansi) / SauceData::extract            (property C11)
     pal_enc/dec        Palette::export_palette(Ice) / Palette::load_palette(Ice), Palette::is_default (property C16)
     font_psf2/font_dec BitFont::to_psf2_bytes / BitFont::from_bytes                                  (property C17)
   Not modelled: the preview image (first_line scan, render_to_rgba, PNG IDAT) -- it does not influence the chunks;
   its panics (a cell whose font page has no font) are outside the model. *)
From Coq Require Import ZArith NArith List Bool String Ascii DecimalString.
From IE Require Import Lib.Tbl Gen.IcyGen Model.IcyLayer.
From IE Require Model.Unicode.          (* not imported: Unicode.is_cont is another function than is_cont below *)
Import ListNotations.
Local Open Scope N_scope.

(* ---- keywords ---- *)
Definition dec (n : N) : string := NilZero.string_of_uint (N.to_uint n).                 (* format!("{n}") *)
Definition parse_usize (s : string) : option N :=                                        (* str::parse::<usize> on digits *)
  match NilZero.uint_of_string s with
  | Some d => let n := N.of_uint d in if n <? 18446744073709551616 then Some n else None
  | None => None
  end.

Fixpoint strip_prefix (p s : string) : option string :=                                  (* str::strip_prefix *)
  match p with
  | EmptyString => Some s
  | String a p' => match s with
                   | String b s' => if Ascii.eqb a b then strip_prefix p' s' else None
                   | EmptyString => None
                   end
  end.

Definition is_digit (a : ascii) : bool := let n := N_of_ascii a in (48 <=? n) && (n <=? 57).
Fixpoint skip_digits (s : string) : nat * string :=
  match s with
  | String a t => if is_digit a then let '(n, r) := skip_digits t in (S n, r) else (O, s)
  | EmptyString => (O, s)
  end.
(* does LAYER_(\d+)~(\d+) match at the start of s *)
Definition cont_here (s : string) : bool :=
  match strip_prefix "LAYER_" s with
  | None => false
  | Some r =>
    let '(n, r') := skip_digits r in
    match n, r' with
    | S _, String a r'' => Ascii.eqb a "~" && (match fst (skip_digits r'') with O => false | S _ => true end)
    | _, _ => false
    end
  end.
(* LAYER_CONTINUE_REGEX.captures(text).is_some(): the regex is not anchored *)
Fixpoint is_cont (s : string) : bool :=
  cont_here s || match s with String _ t => is_cont t | EmptyString => false end.

Definition kw_font (k : N) : string := ("FONT_" ++ dec k)%string.
Definition kw_layer (i : N) : string := ("LAYER_" ++ dec i)%string.

Section Doc.
  Variables sauce_t palette_t font_t file_t : Type.
  Variable pack : list (string * list N) -> file_t.
  Variable unpack : file_t -> option (list (string * list N)).
  Variable sauce_enc : Z -> Z -> N -> font_t -> sauce_t -> res (list N).   (* width height ice_mode font-0 *)
  Variable sauce_dec : list N -> res (option sauce_t).
  Variable sauce_set_size : sauce_t -> Z -> Z -> sauce_t.
  Variable pal_is_default : palette_t -> bool.
  Variable pal_enc : palette_t -> list N.
  Variable pal_dec : list N -> res palette_t.
  Variable dos_default : palette_t.
  Variable font_name : font_t -> list N.
  Variable font_psf2 : font_t -> res (list N).
  Variable font_dec : list N -> list N -> res font_t.                      (* name, data *)
  Variable default_font : font_t.

  Record doc := mkDoc {
    d_w : Z; d_h : Z;
    d_btype : N; d_ice : N; d_pmode : N; d_fmode : N;      (* enum variants, numbered in declaration order *)
    d_sauce : option sauce_t;
    d_pal : palette_t;
    d_fonts : list (N * font_t);                           (* Buffer::font_iter order *)
    d_layers : list layer }.

  Fixpoint lookup (k : N) (l : list (N * font_t)) : option font_t :=
    match l with [] => None | (k', f) :: t => if k' =? k then Some f else lookup k t end.
  Definition set_font (k : N) (f : font_t) (l : list (N * font_t)) : list (N * font_t) :=
    (k, f) :: filter (fun p => negb (fst p =? k)) l.

  (* ---- writer ---- *)
  Definition iced_payload (D : doc) : list N :=
    le 2 ICD_VERSION ++ le 4 0 ++ le 2 (tget BufferType_to_byte_tbl (d_btype D))
    ++ [tget IceMode_to_byte_tbl (d_ice D); tget PaletteMode_to_byte_tbl (d_pmode D); tget FontMode_to_byte_tbl (d_fmode D)]
    ++ i32_bytes (d_w D) ++ i32_bytes (d_h D).

  Definition font_payload (f : font_t) : res (list N) :=
    do b <- font_psf2 f; Ok (le 4 (N.of_nat (List.length (font_name f))) ++ font_name f ++ b).

  Fixpoint font_chunks (l : list (N * font_t)) : res (list (string * list N)) :=
    match l with
    | [] => Ok []
    | (k, f) :: t => do b <- font_payload f; do r <- font_chunks t; Ok ((kw_font k, b) :: r)
    end.

  Fixpoint layer_chunks (i : N) (l : list layer) : res (list (string * list N)) :=
    match l with
    | [] => Ok []
    | L :: t => do b <- encode L; do r <- layer_chunks (i + 1) t; Ok ((kw_layer i, b) :: r)
    end.

  Definition doc_chunks (D : doc) : res (list (string * list N)) :=
    match lookup 0 (d_fonts D) with
    | None => Panic 1                                     (* get_font_dimensions: font_table[&0] *)
    | Some f0 =>
      do s <- match d_sauce D with
              | Some s => do b <- sauce_enc (d_w D) (d_h D) (d_ice D) f0 s; Ok [("SAUCE"%string, b)]
              | None => Ok []
              end;
      let p := if pal_is_default (d_pal D) then [] else [("PALETTE"%string, pal_enc (d_pal D))] in
      do f <- font_chunks (d_fonts D);
      do l <- layer_chunks 0 (d_layers D);
      Ok ([("ICED"%string, iced_payload D)] ++ s ++ p ++ f ++ l ++ [("END"%string, [])])
    end.

  Definition save (D : doc) : res file_t := do cs <- doc_chunks D; Ok (pack cs).

  (* ---- reader ---- *)
  (* Buffer::new((80, 25)) with the layers cleared: CP437, Unlimited, Fixed16, Sauce; font 0 = the default font *)
  Definition init_state : doc := mkDoc 80 25 1 0 1 1 None dos_default [(0, default_font)] [].

  Definition with_size (D : doc) (w h : Z) : doc :=
    mkDoc w h (d_btype D) (d_ice D) (d_pmode D) (d_fmode D)
          (match d_sauce D with Some s => Some (sauce_set_size s w h) | None => None end)
          (d_pal D) (d_fonts D) (d_layers D).

  (* one chunk; the boolean says "END seen" *)
  Definition step (D : doc) (kw : string) (bytes : list N) : res (doc * bool) :=
    if String.eqb kw "END" then Ok (D, true)
    else if String.eqb kw "ICED" then
      if negb (N.of_nat (List.length bytes) =? ICED_HEADER_SIZE) then Err 1 else
      do p <- take 2 (skipn 6 bytes); let bt := unle (fst p) mod 256 in
      do p <- byte (snd p); let ice := fst p in
      do p <- byte (snd p); let pm := fst p in
      do p <- byte (snd p); let fm := fst p in
      do p <- take 4 (snd p); let w := as_i32 (unle (fst p)) in
      do p <- take 4 (snd p); let h := as_i32 (unle (fst p)) in
      Ok (with_size (mkDoc (d_w D) (d_h D) (BufferType_from_byte bt) (IceMode_from_byte ice) (PaletteMode_from_byte pm)
                           (FontMode_from_byte fm) (d_sauce D) (d_pal D) (d_fonts D) (d_layers D)) w h, false)
    else if String.eqb kw "PALETTE" then
      do p <- pal_dec bytes;
      Ok (mkDoc (d_w D) (d_h D) (d_btype D) (d_ice D) (d_pmode D) (d_fmode D) (d_sauce D) p (d_fonts D) (d_layers D), false)
    else if String.eqb kw "SAUCE" then
      do s <- sauce_dec bytes;
      match s with
      | Some s => Ok (mkDoc (d_w D) (d_h D) (d_btype D) (d_ice D) (d_pmode D) (d_fmode D) (Some s) (d_pal D) (d_fonts D) (d_layers D), false)
      | None => Ok (D, false)
      end
    else match strip_prefix "FONT_" kw with
    | Some slot =>
      match parse_usize slot with
      | None => Err 4
      | Some k =>
        do p <- take_e 4 bytes;                                      (* after C02's fix 4f977d8: a cut-off name is FileTooShort *)
        do q <- take_e (unle (fst p)) (snd p);
        do f <- font_dec (Unicode.utf8_lossy (fst q)) (snd q);      (* read_utf8_encoded_string: from_utf8_lossy *)
        Ok (mkDoc (d_w D) (d_h D) (d_btype D) (d_ice D) (d_pmode D) (d_fmode D) (d_sauce D) (d_pal D) (set_font k f (d_fonts D)) (d_layers D), false)
      end
    | None =>
      match strip_prefix "LAYER_" kw with
      | None => Ok (D, false)                                  (* unsupported chunk: warning only *)
      | Some _ =>
        if is_cont kw then Err 8                               (* continuation chunk: not modelled *)
        else
          do L <- decode bytes;
          Ok (mkDoc (d_w D) (d_h D) (d_btype D) (d_ice D) (d_pmode D) (d_fmode D) (d_sauce D) (d_pal D) (d_fonts D) (d_layers D ++ [L]), false)
      end
    end.

  Fixpoint load_chunks (cs : list (string * list N)) (D : doc) : res doc :=
    match cs with
    | [] => Ok D
    | (kw, bytes) :: t => do r <- step D kw bytes; if snd r then Ok (fst r) else load_chunks t (fst r)
    end.

  Definition load (f : file_t) : res doc :=
    match unpack f with
    | None => Err 9                                            (* LoadingError::InvalidPng *)
    | Some cs => load_chunks cs init_state
    end.
End Doc.
