(* C05 extension: comparison of pictures up to a renumbering of font pages (definitions only).

   XBin stores one attribute bit for the font page: whatever the page numbers of a buffer are, a loaded file has pages 0
   (and 1).  A buffer that uses only page k is written as a one-font file and loads with page 0 - the same characters drawn
   with the same glyphs.  `same_picture_glyphs` compares, cell by cell, the glyph table the cell is drawn with instead of
   the page number. *)
From Coq Require Import NArith ZArith Bool List.
From IE Require Import Lib.Tbl Lib.C05Lib Gen.Codepage Gen.Formats Model.Attr Model.C05Buf Model.C05Bin Model.C05Spec.
Import ListNotations.
Local Open Scope Z_scope.

Definition same_cell_glyphs (p p' : pic) (c c' : cell) : Prop :=
  c_ch c = c_ch c' /\ shown (c_attr c) = shown (c_attr c') /\
  match get_font (p_fonts p) (font_page (c_attr c)), get_font (p_fonts p') (font_page (c_attr c')) with
  | Some f, Some f' => same_font f f'
  | _, _ => False
  end.

(* same sizes, mode class, palette; every cell: same character, same displayed colours and blink, drawn from equal glyph tables *)
Definition same_picture_glyphs (p p' : pic) : Prop :=
  p_w p = p_w p' /\ p_h p = p_h p' /\ same_mode (p_ice p) (p_ice p') /\
  Forall2 (Forall2 (same_cell_glyphs p p')) (p_rows p) (p_rows p') /\
  p_pal p = p_pal p'.
