(* M-loadcost (C03 extension e): the cell loops of the binary loaders (models of C05 / C02: Model/C05Bin.v pair_loop, Model/C02Loaders.v xbc_loop /
   tnd_loop2, Model/C05Idf.v idf_loop) with a counter of the cells they store.  Executable definitions only.

     Rust (src/formats/)                                          counter
     bin.rs / artworx.rs / xbinary.rs read_data_uncompressed      pair_loop_t     one per (character, attribute) pair
     xbinary.rs read_data_compressed                              xbc_loop_t      1 + run count (<= 64) per run header
     tundra.rs  TundraDraw::load_buffer                           tnd_loop2_t     one per command; tnd_decl = largest row a position command declares
     ice_draw.rs IceDraw::load_buffer                             idf_loop_t      run length per record; idf_decl = the declared run lengths (u16 each) *)
From Coq Require Import NArith ZArith Bool List.
From IE Require Import Lib.Tbl Lib.C05Lib Gen.Codepage Gen.Formats Model.Attr Model.C05Buf Model.C05Bin Model.C05XBin
  Model.C05Idf Model.C05Tundra Model.C02Loaders.
Import ListNotations.
Local Open Scope Z_scope.

Definition lrows (L : layer) : Z := Z.of_nat (length (l_lines L)).
Fixpoint lcells (ls : list (list cell)) : Z := match ls with [] => 0 | r :: t => Z.of_nat (length r) + lcells t end.
Fixpoint lmaxrow (ls : list (list cell)) : Z := match ls with [] => 0 | r :: t => Z.max (Z.of_nat (length r)) (lmaxrow t) end.

Fixpoint pair_loop_t (grow : bool) (dec : N -> N -> cell) (w : Z) (L : layer) (x y : Z) (data : list N) (k : Z) {struct data} : layer * Z :=
  match data with
  | ch :: a :: rest =>
      let L' := put grow L x y (dec ch a) in
      if x + 1 >=? w then pair_loop_t grow dec w L' 0 (y + 1) rest (k + 1) else pair_loop_t grow dec w L' (x + 1) y rest (k + 1)
  | _ => (L, k)
  end.

Section XbT.
  Variable w : Z.
  Variable dec : N -> N -> cell.
  Fixpoint xbc_loop_t (fuel : nat) (L : layer) (x y : Z) (bs : list N) (k : Z) : res layer * Z :=
    match bs with
    | [] => (Ok L, k)
    | h :: t =>
      match fuel with
      | O => (Panic 99, k)
      | S f =>
        let ty := xb_run_type h in
        let n := xb_run_count h in
        let k' := k + 1 + Z.of_nat n in
        if (ty =? 0)%N then
          let '(L', x', y', r) := xbc_off w dec n L x y t in xbc_loop_t f L' x' y' r k'
        else if (ty =? 64)%N then
          if (length t <? 1)%nat then (Ok L, k + 1) else
          match rd t with
          | Ok (code, t') => let '(L', x', y', r) := xbc_char w dec code n L x y t' in xbc_loop_t f L' x' y' r k'
          | Err e => (Err e, k + 1) | Panic e => (Panic e, k + 1)
          end
        else if (ty =? 128)%N then
          if (length t <? 1)%nat then (Ok L, k + 1) else
          match rd t with
          | Ok (a, t') => let '(L', x', y', r) := xbc_attr w dec a n L x y t' in xbc_loop_t f L' x' y' r k'
          | Err e => (Err e, k + 1) | Panic e => (Panic e, k + 1)
          end
        else
          if (length t <? 1)%nat then (Ok L, k + 1) else
          match rd t with
          | Ok (code, t') =>
            if (length t' <? 1)%nat then (Ok L, k + 1) else
            match rd t' with
            | Ok (a, r) => let '(L', x', y') := xbc_full w (dec code a) n L x y in xbc_loop_t f L' x' y' r k'
            | Err e => (Err e, k + 1) | Panic e => (Panic e, k + 1)
            end
          | Err e => (Err e, k + 1) | Panic e => (Panic e, k + 1)
          end
      end
    end.
End XbT.

(* Tundra: tnd_loop2 with the number of commands executed and the largest row a TUNDRA_POSITION command jumps to *)
Fixpoint tnd_loop2_t (fuel : nat) (w : Z) (L : layer) (pal : list rgb) (at0 : TextAttribute) (x y : Z) (data : list N) (k ymax : Z)
  : res (layer * list rgb) * Z * Z :=
  match data with
  | [] => (Ok (L, pal), k, ymax)
  | cmd :: rest =>
    match fuel with
    | O => (Panic 99, k, ymax)
    | S fuel' =>
      if (cmd =? TUNDRA_POSITION)%N then
        if (length rest <? 8)%nat then (Err 5, k + 1, ymax) else
        match rest with
        | a0 :: a1 :: a2 :: a3 :: rest1 =>
          let y' := be_i32 a0 a1 a2 a3 in
          if y' >=? 65535 then (Err 3, k + 1, ymax) else
          match rest1 with
          | c0 :: c1 :: c2 :: c3 :: rest2 =>
            let x' := be_i32 c0 c1 c2 c3 in
            if x' >=? w then (Err 4, k + 1, ymax) else tnd_loop2_t fuel' w L pal at0 x' y' rest2 (k + 1) (Z.max ymax y')
          | _ => (Panic 6, k + 1, ymax)
          end
        | _ => (Panic 6, k + 1, ymax)
        end
      else
        match (if (1 <? cmd)%N && (cmd <=? 6)%N then
             if (length rest <? tnd_record_len cmd)%nat then Err 5 else
             match rest with
             | [] => Panic 6
             | ch :: r0 =>
               let* '(pal1, at1, r1) :=
                  if negb (N.land cmd TUNDRA_COLOR_FOREGROUND =? 0)%N then
                    let* '(c, r1) := tnd_color r0 in
                    let '(pal1, i) := insert_color pal c in Ok (pal1, with_fg at0 i, r1)
                  else Ok (pal, at0, r0) in
               let* '(pal2, at2, r2) :=
                  if negb (N.land cmd TUNDRA_COLOR_BACKGROUND =? 0)%N then
                    let* '(c, r2) := tnd_color r1 in
                    let '(pal2, i) := insert_color pal1 c in Ok (pal2, with_bg at1 i, r2)
                  else Ok (pal1, at1, r1) in
               Ok (ch, pal2, at2, r2)
             end
           else Ok (cmd, pal, at0, rest)) with
        | Ok (ch, pal1, at1, rest1) =>
          let L' := put true L x y (mkCell ch at1) in
          if x + 1 >=? w then tnd_loop2_t fuel' w L' pal1 at1 0 (y + 1) rest1 (k + 1) ymax
          else tnd_loop2_t fuel' w L' pal1 at1 (x + 1) y rest1 (k + 1) ymax
        | Err e => (Err e, k + 1, ymax)
        | Panic e => (Panic e, k + 1, ymax)
        end
    end
  end.

(* IDF: idf_loop with the number of cells stored and the sum of the run lengths the repeat records declare (u16 each) *)
Fixpoint idf_loop_t (x1 x2 : Z) (L : layer) (bh x y : Z) (area : list N) (k decl : Z) {struct area} : (layer * Z * nat) * Z * Z :=
  match area with
  | ch :: a :: rest =>
    if (ch =? 1)%N && (a =? 0)%N then
      match rest with
      | nl :: nh :: ch2 :: a2 :: rest2 =>
        let n := N.to_nat (nl + nh * 256) in
        let '(L', bh', x', y') := idf_put_n n x1 x2 (mkCell ch2 (from_u8 a2 Ice)) L bh x y in
        idf_loop_t x1 x2 L' bh' x' y' rest2 (k + Z.of_nat n) (decl + Z.of_nat n)
      | _ => ((L, bh, length rest), k, decl)
      end
    else
      let '(L', bh', x', y') := idf_put_n 1 x1 x2 (mkCell ch (from_u8 a Ice)) L bh x y in
      idf_loop_t x1 x2 L' bh' x' y' rest (k + 1) decl
  | _ => ((L, bh, length area), k, decl)
  end.
