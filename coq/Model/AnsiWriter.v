(* M-wr (ANSI part): the ANSI writer of src/formats/ansi.rs and the colour optimiser that runs before it
   (executable definitions only).

   Rust item (AFTER the five `fix:` commits of C04)      model
   ---------------------------------------------------   -------------------------------------------------
   Color::get_rgb                                         rgb = (r, g, b)
   Palette::get_color / get_rgb (index < 2^31)            pal_rgb        (index past the end -> black, as the code)
   Palette::insert_color / insert_color_rgb               pal_insert
   `DOS_DEFAULT_PALETTE.iter().position(..)`              pal_position DOS_DEFAULT_PALETTE
   StringGenerator::new : extended_color_hash             ext_lookup     (HashMap filled in index order: the LAST index wins)
   struct AnsiState                                       AnsiState
   StringGenerator::get_color                             get_color      = gc_bg ∘ gc_fg ∘ gc_flags ∘ gc_reset on gc_target
   struct CharCell                                        CharCell       (sgr_tc kept as 4-tuples; font_page not modelled)
   StringGenerator::generate_cells                        row_len / generate_row_cells / generate_cells
   StringGenerator::generate (row loop, compression)      emit_row / emit_rows  -> list cmd ; enc : cmd -> bytes
   StringGenerator::screen_prep / screen_end              screen_prep / screen_end
   Ansi::to_bytes (without the SAUCE record bytes)        ansi_to_bytes
   ColorOptimizer::optimize, get_shape (default font)     optimize / glyph_shape
   Buffer::to_bytes("ans", opts)                          save
   u8/usize `to_string()`                                 dec

   Not modelled: fonts other than page 0 with the default font (no `CSI 0;n SP D`, no font upload), sixels,
   `modern_terminal_output` (UTF-8), `output_line_length` (push_result never breaks a line when it is None),
   `skip_lines`, the bytes of the SAUCE record (property C11) — `save` only says whether one is appended and
   with which width / height / ice flag.
   A buffer is given as its rows of cells as `Buffer::get_char` returns them (single layer, every cell visible).
   Numbers: colours and characters are N. `state.fg_idx += 8` is a u32 addition in the code; the model does
   not wrap (palette indices are assumed below 2^31 - 8, see notes/C04.md). *)
From Coq Require Import NArith Bool List.
From IE Require Import Lib.Tbl Gen.Codepage Gen.AnsiConsts Model.Attr.
Import ListNotations.
Local Open Scope N_scope.

(* ---------------------------------------------------------------- colours and palettes *)
Definition rgb := (N * N * N)%type.
Definition rgb_eqb (a b : rgb) : bool :=
  let '(r1, g1, b1) := a in let '(r2, g2, b2) := b in (r1 =? r2) && (g1 =? g2) && (b1 =? b2).
Definition palette := list rgb.
Definition black : rgb := (0, 0, 0).

Definition pal_rgb (p : palette) (i : N) : rgb :=
  match nth_error p (N.to_nat i) with Some c => c | None => black end.

Fixpoint pos_from (p : palette) (c : rgb) (i : N) : option N :=
  match p with
  | [] => None
  | x :: r => if rgb_eqb x c then Some i else pos_from r c (N.succ i)
  end.
Definition pal_position (p : palette) (c : rgb) : option N := pos_from p c 0.

Definition pal_insert (p : palette) (c : rgb) : N * palette :=
  match pal_position p c with
  | Some i => (i, p)
  | None => (N.of_nat (length p), p ++ [c])
  end.

Fixpoint last_pos_from (p : palette) (c : rgb) (i : N) (acc : option N) : option N :=
  match p with
  | [] => acc
  | x :: r => last_pos_from r c (N.succ i) (if rgb_eqb x c then Some i else acc)
  end.
Definition ext_lookup (ext : bool) (c : rgb) : option N :=
  if ext then last_pos_from XTERM_256_PALETTE c 0 None else None.

Definition dos_rgb (i : N) : rgb := pal_rgb DOS_DEFAULT_PALETTE i.
Definition in_dos (c : rgb) : bool := existsb (fun x => rgb_eqb x c) DOS_DEFAULT_PALETTE.

(* ---------------------------------------------------------------- attribute flags the writer reads *)
Definition is_faint (a : TextAttribute) : bool := has_flag (attr a) ATTR_FAINT.
Definition is_italic (a : TextAttribute) : bool := has_flag (attr a) ATTR_ITALIC.
Definition is_underlined (a : TextAttribute) : bool := has_flag (attr a) ATTR_UNDERLINE.
Definition is_double_underlined (a : TextAttribute) : bool := has_flag (attr a) ATTR_DOUBLE_UNDERLINE.
Definition is_crossed_out (a : TextAttribute) : bool := has_flag (attr a) ATTR_CROSSED_OUT.
Definition is_concealed (a : TextAttribute) : bool := has_flag (attr a) ATTR_CONCEAL.

(* ---------------------------------------------------------------- get_color *)
Record AnsiState := mkSt {
  st_bold : bool; st_blink : bool; st_faint : bool; st_italic : bool; st_ul : bool; st_dul : bool;
  st_crossed : bool; st_concealed : bool;
  st_fg_idx : N; st_fg : rgb; st_bg_idx : N; st_bg : rgb }.

Definition init_state : AnsiState :=
  mkSt false false false false false false false false 7 (dos_rgb 7) 0 (dos_rgb 0).

(* what get_color computes from the attribute before it looks at the state *)
Record Target := mkTg {
  tg_fg : N;            (* palette index looked up for the foreground (bold low colours: +8) *)
  tg_bg : N;
  tg_fore : rgb; tg_back : rgb;
  tg_fore_idx : option N; tg_back_idx : option N;
  tg_bold : bool; tg_blink : bool; tg_faint : bool; tg_italic : bool; tg_ul : bool; tg_dul : bool;
  tg_crossed : bool; tg_concealed : bool }.

Definition gc_target (ice : IceMode) (bpal : palette) (a : TextAttribute) : Target :=
  let fg0 := foreground_color a in
  let fg := if is_bold a && (fg0 <? 8) then fg0 + 8 else fg0 in
  let fore := pal_rgb bpal fg in
  let bg := background_color a in
  let back := pal_rgb bpal bg in
  let fi := pal_position DOS_DEFAULT_PALETTE fore in
  let bi := pal_position DOS_DEFAULT_PALETTE back in
  let bold_fi :=
    match fi with
    | Some idx => if idx <? 8 then (false, Some idx)
                  else if idx <? 16 then (true, Some (idx - 8)) else (is_bold a, Some idx)
    | None => (is_bold a, None)
    end in
  let blink_bi :=
    match ice with
    | Unlimited => (is_blinking a, match bi with Some idx => if 7 <? idx then None else Some idx | None => None end)
    | Blink => (is_blinking a, match bi with Some idx => if (7 <? idx) && (idx <? 16) then None else Some idx | None => None end)
    | Ice => match bi with
             | Some idx => if idx <? 8 then (is_blinking a, Some idx)
                           else if idx <? 16 then (true, Some (idx - 8)) else (is_blinking a, Some idx)
             | None => (is_blinking a, None)
             end
    end in
  mkTg fg bg fore back (snd bold_fi) (snd blink_bi) (fst bold_fi) (fst blink_bi)
       (is_faint a) (is_italic a) (is_underlined a) (is_double_underlined a) (is_crossed_out a) (is_concealed a).

Definition needs_reset (t : Target) (st : AnsiState) : bool :=
  (negb (tg_bold t) && st_bold st) || (negb (tg_blink t) && st_blink st) || (negb (tg_italic t) && st_italic st)
  || (negb (tg_faint t) && st_faint st) || (negb (tg_ul t) && st_ul st) || (negb (tg_ul t) && st_ul st)
  || (negb (tg_dul t) && st_dul st) || (negb (tg_crossed t) && st_crossed st)
  || (negb (tg_concealed t) && st_concealed st)
  || (tg_bold t && negb (st_bold st) && negb (in_dos (st_fg st))).

Definition gc_reset (t : Target) (st : AnsiState) : AnsiState * list N :=
  if needs_reset t st then (init_state, [0]) else (st, []).

(* the eight `if is_X && !state.is_X { sgr.push(n); state.is_X = true }` blocks, in source order *)
Definition gc_flags (t : Target) (st : AnsiState) : AnsiState * list N :=
  let b_bold := tg_bold t && negb (st_bold st) in
  let fg_idx := if b_bold then st_fg_idx st + 8 else st_fg_idx st in
  let fg := if b_bold && (fg_idx <? 16) then dos_rgb fg_idx else st_fg st in
  let b_faint := tg_faint t && negb (st_faint st) in
  let b_italic := tg_italic t && negb (st_italic st) in
  let b_ul := tg_ul t && negb (st_ul st) in
  let b_blink := tg_blink t && negb (st_blink st) in
  let b_conc := tg_concealed t && negb (st_concealed st) in
  let b_cross := tg_crossed t && negb (st_crossed st) in
  let b_dul := tg_dul t && negb (st_dul st) in
  (mkSt (st_bold st || b_bold) (st_blink st || b_blink) (st_faint st || b_faint) (st_italic st || b_italic)
        (st_ul st || b_ul) (st_dul st || b_dul) (st_crossed st || b_cross) (st_concealed st || b_conc)
        fg_idx fg (st_bg_idx st) (st_bg st),
   (if b_bold then [SGR_BOLD] else []) ++ (if b_faint then [SGR_FAINT] else []) ++
   (if b_italic then [SGR_ITALIC] else []) ++ (if b_ul then [SGR_UNDERLINE] else []) ++
   (if b_blink then [SGR_BLINK] else []) ++ (if b_conc then [SGR_CONCEAL] else []) ++
   (if b_cross then [SGR_CROSSED_OUT] else []) ++ (if b_dul then [SGR_DOUBLE_UNDERLINE] else [])).

Definition with_fg (st : AnsiState) (i : N) (c : rgb) : AnsiState :=
  mkSt (st_bold st) (st_blink st) (st_faint st) (st_italic st) (st_ul st) (st_dul st) (st_crossed st) (st_concealed st)
       i c (st_bg_idx st) (st_bg st).
Definition with_bg (st : AnsiState) (i : N) (c : rgb) : AnsiState :=
  mkSt (st_bold st) (st_blink st) (st_faint st) (st_italic st) (st_ul st) (st_dul st) (st_crossed st) (st_concealed st)
       (st_fg_idx st) (st_fg st) i c.

Definition tc4 := (N * N * N * N)%type.

Definition gc_fg (ext : bool) (t : Target) (st : AnsiState) : AnsiState * list N * list tc4 :=
  if rgb_eqb (tg_fore t) (st_fg st) then (st, [], [])
  else
    let st' := with_fg st (tg_fg t) (tg_fore t) in
    match tg_fore_idx t with
    | Some i => (st', [tget COLOR_OFFSETS i + SGR_FG_BASE], [])
    | None =>
      match ext_lookup ext (tg_fore t) with
      | Some e => (st', SGR_EXT_FG ++ [e], [])
      | None => let '(r, g, b) := tg_fore t in (st', [], [(TC_FG, r, g, b)])
      end
    end.

Definition gc_bg (ext : bool) (t : Target) (st : AnsiState) : AnsiState * list N * list tc4 :=
  if rgb_eqb (tg_back t) (st_bg st) then (st, [], [])
  else
    match tg_back_idx t with
    | Some i => (with_bg st i (tg_back t), [tget COLOR_OFFSETS i + SGR_BG_BASE], [])
    | None =>
      match ext_lookup ext (tg_back t) with
      | Some e => (with_bg st (tg_bg t) (tg_back t), SGR_EXT_BG ++ [e], [])
      | None => let '(r, g, b) := tg_back t in (with_bg st (tg_bg t) (tg_back t), [], [(TC_BG, r, g, b)])
      end
    end.

Definition get_color (ice : IceMode) (bpal : palette) (ext : bool) (a : TextAttribute) (st : AnsiState)
  : AnsiState * list N * list tc4 :=
  let t := gc_target ice bpal a in
  let '(s1, l1) := gc_reset t st in
  let '(s2, l2) := gc_flags t s1 in
  let '(s3, l3, c3) := gc_fg ext t s2 in
  let '(s4, l4, c4) := gc_bg ext t s3 in
  (s4, l1 ++ l2 ++ l3 ++ l4, c3 ++ c4).

(* ---------------------------------------------------------------- options *)
Inductive ScreenPrep := PrepNone | PrepClear | PrepHome.
Inductive CtrlMode := CcIgnore | CcIcyTerm | CcFilterOut.

Record SaveOptions := mkOpts {
  o_compress : bool; o_cuf : bool; o_rep : bool; o_preserve : bool; o_longer : bool; o_ext : bool;
  o_sauce : bool; o_lossless : bool; o_normalize : bool; o_prep : ScreenPrep; o_cc : CtrlMode }.

Definition prep_of (n : N) : ScreenPrep := match n with 0 => PrepNone | 1 => PrepClear | _ => PrepHome end.
Definition cc_of (n : N) : CtrlMode := match n with 0 => CcIgnore | 1 => CcIcyTerm | _ => CcFilterOut end.

(* SaveOptions::new() *)
Definition default_options : SaveOptions :=
  mkOpts DEFAULT_COMPRESS DEFAULT_USE_CURSOR_FORWARD DEFAULT_USE_REPEAT_SEQUENCES DEFAULT_PRESERVE_LINE_LENGTH
         DEFAULT_LONGER_TERMINAL_OUTPUT DEFAULT_USE_EXTENDED_COLORS DEFAULT_SAVE_SAUCE DEFAULT_LOSSLES_OUTPUT
         DEFAULT_NORMALIZE_WHITESPACES (prep_of DEFAULT_SCREEN_PREPARATION) (cc_of DEFAULT_CONTROL_CHAR_HANDLING).

(* ---------------------------------------------------------------- generate_cells *)
Definition cell := (N * TextAttribute)%type.       (* AttributedChar: character code, attribute *)

Definition attr_eqb (a b : TextAttribute) : bool :=   (* impl PartialEq for TextAttribute: font_page is not compared *)
  (foreground_color a =? foreground_color b) && (background_color a =? background_color b) && (attr a =? attr b).

Definition is_blank_char (ch : N) : bool := (ch =? 32) || (ch =? 255) || (ch =? 0).

(* the `while last > area.left()` loop, walking the row from its right end; `rrow` is the row reversed,
   so its head is the cell at index `last` and it has last+1 elements *)
Fixpoint trim_scan (rrow : list cell) (last_attr : TextAttribute) : N :=
  match rrow with
  | [] => 0
  | [_] => 0                                    (* last = 0: the loop condition `last > 0` fails *)
  | c :: r =>
    if negb (is_blank_char (fst c)) then N.of_nat (length r)
    else if negb (attr_eqb (snd c) last_attr) then N.of_nat (length r)
    else trim_scan r last_attr
  end.

Definition row_len (o : SaveOptions) (w : N) (row : list cell) : N :=
  if o_compress o && negb (o_preserve o) then
    match rev row with
    | [] => w                                   (* width 0: not in the domain *)
    | c :: _ =>
      let last_attr := snd c in
      let last :=
        if (background_color last_attr =? 0) && negb (is_blinking last_attr)
        then trim_scan (rev row) last_attr else w - 1 in
      let last := last + 1 in
      if w - 1 <=? last then w else last
    end
  else w.

Record CharCell := mkCC { cc_ch : N; cc_sgr : list N; cc_tc : list tc4; cc_st : AnsiState }.

Fixpoint generate_row_cells (ice : IceMode) (bpal : palette) (ext : bool) (st : AnsiState) (row : list cell)
  : AnsiState * list CharCell :=
  match row with
  | [] => (st, [])
  | (ch, a) :: r =>
    let '(st1, sgr, tc) := get_color ice bpal ext a st in
    let '(st2, cs) := generate_row_cells ice bpal ext st1 r in
    (st2, mkCC ch sgr tc st1 :: cs)
  end.

Fixpoint generate_cells_from (o : SaveOptions) (ice : IceMode) (bpal : palette) (w : N) (st : AnsiState)
  (rows : list (list cell)) : list (list CharCell) :=
  match rows with
  | [] => []
  | row :: rest =>
    let len := row_len o w row in
    let '(st1, cs) := generate_row_cells ice bpal (o_ext o) st (firstn (N.to_nat len) row) in
    cs :: generate_cells_from o ice bpal w st1 rest
  end.

Definition generate_cells (o : SaveOptions) (ice : IceMode) (bpal : palette) (w : N) (rows : list (list cell)) :=
  generate_cells_from o ice bpal w init_state rows.

(* ---------------------------------------------------------------- decimal printing (`to_string`) *)
Fixpoint dec_aux (fuel : nat) (n : N) (acc : list N) : list N :=
  match fuel with
  | O => acc
  | S f => let acc' := (48 + n mod 10) :: acc in if n / 10 =? 0 then acc' else dec_aux f (n / 10) acc'
  end.
Definition dec (n : N) : list N := dec_aux (S (N.to_nat (N.size n))) n [].

(* ---------------------------------------------------------------- generate: commands and their bytes *)
Inductive cmd :=
| CSgr (l : list N)              (* ESC [ n ; … ; n m *)
| CTc (t : tc4)                  (* ESC [ a ; r ; g ; b t *)
| CBytes (l : list N)            (* the bytes of one cell character *)
| CCuf (n : N)                   (* ESC [ n C *)
| CRep (n : N)                   (* ESC [ n b *)
| CCrLf | CSpace
| CGoto (y : N)                  (* ESC [ y H *)
| CRaw (l : list N).             (* literal escape strings of screen_prep / screen_end *)

Definition csi : list N := [27; 91].
Fixpoint enc_nums (l : list N) : list N :=
  match l with
  | [] => []
  | [n] => dec n
  | n :: r => dec n ++ [59] ++ enc_nums r
  end.
Definition enc (c : cmd) : list N :=
  match c with
  | CSgr l => csi ++ enc_nums l ++ [109]
  | CTc (a, r, g, b) => csi ++ enc_nums [a; r; g; b] ++ [116]
  | CBytes l => l
  | CCuf n => csi ++ dec n ++ [67]
  | CRep n => csi ++ dec n ++ [98]
  | CCrLf => [13; 10]
  | CSpace => [32]
  | CGoto y => csi ++ dec y ++ [72]
  | CRaw l => l
  end.
Definition enc_all (l : list cmd) : list N := flat_map enc l.

Definition is_control_char (ch : N) : bool := existsb (N.eqb ch) ANSI_CONTROL_CHARS.
Definition cell_char (cc : CtrlMode) (ch : N) : list N :=
  if is_control_char ch then
    match cc with CcIgnore => [ch] | CcIcyTerm => [27; ch] | CcFilterOut => [46] end
  else [ch].

Definition is_nil {A} (l : list A) : bool := match l with [] => true | _ => false end.

(* number of cells after position x that continue its run (`rle` after the two subtractions) *)
Fixpoint run_len (ch : N) (l : list CharCell) : nat :=
  match l with
  | c :: r => if (cc_ch c =? ch) && is_nil (cc_sgr c) && is_nil (cc_tc c) then S (run_len ch r) else O
  | [] => O
  end.

Definition cell_prefix (c : CharCell) : list cmd :=
  (if is_nil (cc_sgr c) then [] else [CSgr (cc_sgr c)]) ++ map CTc (cc_tc c).

Definition len_N {A} (l : list A) : N := N.of_nat (length l).

(* the `while x < len` loop of one row (len = line.len()); fuel = number of cells left (every iteration consumes
   at least one) *)
Fixpoint emit_row (fuel : nat) (o : SaveOptions) (len x : N) (l : list CharCell) : list cmd :=
  match fuel with
  | O => []
  | S f =>
    match l with
    | [] => []
    | c :: rest =>
      let chb := cell_char (o_cc o) (cc_ch c) in
      let rle := N.of_nat (run_len (cc_ch c) rest) in
      let plain := cell_prefix c ++ [CBytes chb] ++ emit_row f o len (x + 1) rest in
      if o_compress o then
        if o_cuf o && (cc_ch c =? 32) && (st_bg_idx (cc_st c) =? 0) && negb (st_blink (cc_st c))
           && (x + rle + 1 <? len) && (len_N (enc (CCuf (rle + 1))) <=? rle)
        then cell_prefix c ++ [CCuf (rle + 1)] ++ emit_row f o len (x + rle + 1) (skipn (N.to_nat rle) rest)
        else if o_rep o && (len_N (enc (CRep rle)) <=? rle)
        then cell_prefix c ++ [CBytes chb; CRep rle] ++ emit_row f o len (x + rle + 1) (skipn (N.to_nat rle) rest)
        else plain
      else plain
    end
  end.

Fixpoint emit_rows (o : SaveOptions) (w h : N) (y : N) (first : bool) (rows : list (list CharCell)) : list cmd :=
  match rows with
  | [] => []
  | row :: rest =>
    let x := len_N row in
    (if o_longer o then (if first then [CSgr [0]] else []) ++ [CGoto (y + 1)] else []) ++
    emit_row (length row) o x 0 row ++
    (if o_longer o then []
     else if (x <? w) && (y + 1 <? h)
          then (if o_compress o && (w <=? x + 1) then [CSpace] else [CCrLf])
          else []) ++
    emit_rows o w h (y + 1) false rest
  end.

Definition screen_prep (o : SaveOptions) (ice : IceMode) : list cmd :=
  (match ice with Ice => [CRaw ESC_ICE_ON] | _ => [] end) ++
  match o_prep o with PrepNone => [] | PrepClear => [CRaw ESC_CLEAR_SCREEN] | PrepHome => [CRaw ESC_HOME] end.
Definition screen_end (ice : IceMode) : list cmd :=
  match ice with Ice => [CRaw ESC_ICE_OFF] | _ => [] end.

Definition ansi_cmds (o : SaveOptions) (ice : IceMode) (bpal : palette) (w h : N) (rows : list (list cell)) : list cmd :=
  screen_prep o ice ++ emit_rows o w h 0 true (generate_cells o ice bpal w rows) ++ screen_end ice.

Definition ansi_to_bytes (o : SaveOptions) (ice : IceMode) (bpal : palette) (w h : N) (rows : list (list cell)) : list N :=
  enc_all (ansi_cmds o ice bpal w h rows).

(* ---------------------------------------------------------------- ColorOptimizer *)
Inductive GlyphShape := Whitespace | Block | Mixed.
(* get_shape on the glyphs of BitFont::default(): tied exhaustively over the 256 codes by stage C *)
Definition glyph_shape (ch : N) : GlyphShape :=
  if is_blank_char ch then Whitespace else if ch =? 219 then Block else Mixed.

Definition set_fg (a : TextAttribute) (c : N) : TextAttribute := mkAttr (font_page a) c (background_color a) (attr a).
Definition set_bg (a : TextAttribute) (c : N) : TextAttribute := mkAttr (font_page a) (foreground_color a) c (attr a).

Definition optimize_cell (normalize : bool) (cur : TextAttribute) (c : cell) : cell :=
  let '(ch, a) := c in
  match glyph_shape ch with
  | Whitespace => (if normalize then 32 else ch, set_fg a (foreground_color cur))
  | Block => (ch, set_bg a (background_color cur))
  | Mixed => (ch, a)
  end.

Fixpoint optimize_row (normalize : bool) (cur : TextAttribute) (row : list cell) : TextAttribute * list cell :=
  match row with
  | [] => (cur, [])
  | c :: r =>
    let c' := optimize_cell normalize cur c in
    let '(cur', r') := optimize_row normalize (snd c') r in
    (cur', c' :: r')
  end.
Fixpoint optimize_rows (normalize : bool) (cur : TextAttribute) (rows : list (list cell)) : list (list cell) :=
  match rows with
  | [] => []
  | row :: rest =>
    let '(cur', row') := optimize_row normalize cur row in
    row' :: optimize_rows normalize cur' rest
  end.
Definition optimize (normalize : bool) (rows : list (list cell)) : list (list cell) :=
  optimize_rows normalize default_attribute rows.

(* ---------------------------------------------------------------- Buffer::to_bytes("ans", opts) *)
Record Saved := mkSaved {
  sv_bytes : list N;                    (* everything before the SAUCE record *)
  sv_sauce : option (N * N * bool) }.   (* width, height, non-blink flag carried by the SAUCE record *)

Definition save (o : SaveOptions) (ice : IceMode) (bpal : palette) (w h : N) (rows : list (list cell)) : Saved :=
  let rows' := if o_lossless o then rows else optimize (o_normalize o) rows in
  mkSaved (ansi_to_bytes o ice bpal w h rows')
          (if o_sauce o then Some (w, h, match ice with Ice => true | _ => false end) else None).
