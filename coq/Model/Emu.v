(* M-emu: the text-mode emulations as wrappers around M-ansi / M-term.  Executable definitions only.

   Mirrors (worktree with the fix: commits)
     src/parsers/avatar/mod.rs    avatar::Parser::print_char        (wraps ansi::Parser)
     src/parsers/pcboard/mod.rs   pcboard::Parser::print_char, conv_ch (wraps ansi::Parser)
     src/parsers/ctrla/mod.rs     ctrla::Parser::print_char         (wraps ansi::Parser)
     src/parsers/renegade/mod.rs  renegade::Parser::print_char      (wraps ansi::Parser)
     src/parsers/ascii/mod.rs     ascii::Parser::print_char, Buffer::print_value
     src/parsers/atascii/mod.rs   atascii::Parser::print_char
     src/parsers/viewdata/mod.rs  viewdata::Parser::{print_char, interpret_char, caret_left/right/up/down}
     src/parsers/mode7/mod.rs     mode7::Parser::{print_char, interpret_char, caret_left/right/up/down}
   PETSCII is not modelled (covered by stages C? no: by stage S only; named in UNMODELLED).

   Viewdata / Mode 7: the cell CONTENT (graphics mode, hold graphics, fill_to_eol recolouring) is not modelled: it
   cannot influence the cursor, any size, or the number of allocated rows (every printing character does exactly one
   Layer::set_char at the cursor and one caret_right). Row lengths of these two emulations are therefore not observed. *)
From Coq Require Import ZArith NArith List Bool Lia.
From IE Require Import Model.TermCore Model.AnsiTok.
Import ListNotations.
Local Open Scope Z_scope.

Inductive emu := EAnsi | EAvatar | EPcb | ECtrlA | ERenegade | EAscii | EAtascii | EViewdata | EMode7.

(* emulation-local state: four integers, meaning per emulation
     Avatar   ea = avt_state (0 Chars 1 RepeatChars 2 ReadCommand 3 MoveCursor 4 ReadColor), eb = avatar_state, ec = avt_repeat_char
     PCBoard  ea = pcb_code, eb = pcb_color, ec = pcb_value, ed = pcb_pos
     Ctrl-A   ea = ctrl_a, eb = is_bold, ec = high_bg
     Renegade ea = state (0 Normal 1 ParseFirstColor 2 ParseSecondColor), eb = first
     ATASCII / Viewdata / Mode 7   ea = got_escape *)
Record mach := mkM { am : amach; ea : Z; eb : Z; ec : Z; ed : Z }.
Inductive mout := MOk (m : mach) | MErr (m : mach) | MPanic (site : Z).

Definition mt (m : mach) : term := tm (am m).
Definition with_t (m : mach) (t : term) : mach := mkM (mkA t (ps (am m))) (ea m) (eb m) (ec m) (ed m).
Definition with_e (m : mach) (a b c d : Z) : mach := mkM (am m) a b c d.
Definition mok (m : mach) (t : term) : mout := MOk (with_t m t).
Definition mlift (m : mach) (r : res term) : mout := match r with ROk t => MOk (with_t m t) | RPanic s => MPanic s end.
(* fallback to the wrapped ANSI parser *)
Definition fallback (m : mach) (ch : Z) : mout :=
  match ansi_step (am m) ch with
  | OOk a => MOk (mkM a (ea m) (eb m) (ec m) (ed m))
  | OErr a => MErr (mkM a (ea m) (eb m) (ec m) (ed m))
  | ODeep a => MErr (mkM a (ea m) (eb m) (ec m) (ed m))     (* Err(MacroNestingTooDeep): for a wrapper an error value like every other *)
  | OPanic s => MPanic s
  end.

(* TextAttribute::from_u8(b, buf.ice_mode) projected to (fg, bg, blink) *)
Definition attr_from_u8 (t : term) (ice : bool) (b : Z) : term :=
  if ice then set_attr t (b mod 16) (b / 16) false
  else set_attr t (b mod 16) ((b / 16) mod 8) (128 <=? b).

(* ---- Avatar ---------------------------------------------------------------------------------------------- *)
Fixpoint avt_repeat (n : nat) (m : mach) (ch : Z) : mout :=
  match n with
  | O => MOk (with_e m 0 (eb m) (ec m) (ed m))
  | S k => match fallback m ch with
           | MOk m1 => avt_repeat k m1 ch
           | o => o            (* `?`: the error is returned at once, avt_state stays RepeatChars *)
           end
  end.
Definition avatar_step (m : mach) (ch : Z) : mout :=
  let t := mt m in
  if ea m =? 0 then
    if ch =? 12 then mok m (caret_ff t)
    else if ch =? 25 then MOk (with_e m 1 1 (ec m) (ed m))
    else if ch =? 22 then MOk (with_e m 2 (eb m) (ec m) (ed m))
    else fallback m ch
  else if ea m =? 2 then
    let back := with_e m 0 (eb m) (ec m) (ed m) in
    if ch =? 1 then MOk (with_e m 4 (eb m) (ec m) (ed m))
    else if ch =? 2 then mok back (set_attr t (cfg t) (cbg t) true)
    else if ch =? 3 then mlift back (limit_caret_pos (set_cy t (Z.max 0 (cy t - 1))))
    else if ch =? 4 then mlift back (limit_caret_pos (set_cy t (cy t + 1)))
    else if ch =? 5 then mok back (set_cx t (Z.max 0 (cx t - 1)))
    else if ch =? 6 then mlift back (limit_caret_pos (set_cx t (Z.min 79 (cx t + 1))))
    else if ch =? 7 then MErr m
    else if ch =? 8 then MOk (with_e m 3 1 (ec m) (ed m))
    else MErr back
  else if ea m =? 1 then
    if eb m =? 1 then MOk (with_e m 1 2 ch (ed m))
    else if eb m =? 2 then avt_repeat (Z.to_nat ch) (with_e m 1 3 (ec m) (ed m)) (ec m)
    else MErr (with_e m 0 (eb m) (ec m) (ed m))
  else if ea m =? 4 then mok (with_e m 0 (eb m) (ec m) (ed m)) (attr_from_u8 t (bice (ps (am m))) (ch mod 256))
  else (* MoveCursor *)
    if eb m =? 1 then MOk (with_e m 3 2 ch (ed m))
    else if eb m =? 2 then      (* the two position bytes are 1-based, floored at 0, then clamped to the screen (both fixes) *)
      mlift (with_e m 0 (eb m) (ec m) (ed m)) (limit_caret_pos (set_pos t (Z.max 0 (ec m - 1)) (Z.max 0 (ch - 1))))
    else MErr m.

(* ---- PCBoard ----------------------------------------------------------------------------------------------- *)
Definition conv_ch (ch : Z) : Z :=
  if is_digit ch then ch - 48
  else if (97 <=? ch) && (ch <=? 102) then 10 + ch - 97
  else if (65 <=? ch) && (ch <=? 70) then 10 + ch - 65
  else 0.
Definition pcboard_step (m : mach) (ch : Z) : mout :=
  let t := mt m in
  if eb m =? 1 then
    let pos := ed m + 1 in
    if pos =? 1 then MOk (with_e m (ea m) 1 (conv_ch ch) pos)
    else if pos =? 2 then
      let v := ((ec m * 16) mod 256) + conv_ch ch in
      mok (with_e m 0 0 v pos) (attr_from_u8 t (bice (ps (am m))) v)
    else MOk (with_e m 0 0 (ec m) pos)
  else if ea m =? 1 then
    if ch =? 64 then MOk (with_e m 0 (eb m) (ec m) (ed m))
    else if ch =? 88 then MOk (with_e m (ea m) 1 (ec m) 0)
    else MOk m
  else if ch =? 64 then MOk (with_e m 1 (eb m) (ec m) (ed m))
  else fallback m ch.

(* ---- Ctrl-A ------------------------------------------------------------------------------------------------ *)
Fixpoint index_of (c : Z) (l : list Z) (i : Z) : option Z :=
  match l with [] => None | a :: r => if a =? c then Some i else index_of c r (i + 1) end.
Definition CTRLA_FG : list Z := [75; 66; 71; 67; 82; 77; 89; 87].    (* b"KBGCRMYW" *)
Definition CTRLA_BG : list Z := [48; 52; 50; 54; 49; 53; 51; 55].    (* b"04261537" *)
Definition ctrla_step (m : mach) (ch : Z) : mout :=
  let t := mt m in
  if ea m =? 1 then
    let m0 := with_e m 0 (eb m) (ec m) (ed m) in
    if ch =? 76 then mok m0 (clear_screen t)
    else if ch =? 39 then mok m0 (caret_home t)                    (* after the fix *)
    else if ch =? 74 then mok m0 (clear_buffer_down t)
    else if ch =? 62 then mok m0 (clear_line_end t)
    else if ch =? 60 then mlift m0 (caret_left t 1)
    else if ch =? 124 then mok m0 (caret_cr t)
    else if ch =? 93 then mlift m0 (caret_down t 1)
    else if ch =? 65 then match fallback m0 1 with MErr m1 => MOk m1 | o => o end
    else if ch =? 72 then mok (with_e m0 0 1 (ec m) (ed m)) (if cfg t <? 8 then set_attr t (cfg t + 8) (cbg t) (cblink t) else t)
    else if ch =? 73 then mok m0 (set_attr t (cfg t) (cbg t) true)
    else if ch =? 69 then mok (with_e m0 0 (eb m) 1 (ed m)) (if cbg t <? 8 then set_attr t (cfg t) (cbg t + 8) (cblink t) else t)
    else if ch =? 78 then mok (with_e m0 0 0 0 (ed m)) (caret_reset_color t)
    else if ch =? 90 then MOk m0
    else match index_of ch CTRLA_FG 0 with
         | Some fg => mok m0 (set_attr t (fg + (if eb m =? 1 then 8 else 0)) (cbg t) (cblink t))
         | None =>
           match index_of ch CTRLA_BG 0 with
           | Some bg => mok m0 (set_attr t (cfg t) (bg + (if ec m =? 1 then 8 else 0)) (cblink t))
           | None => if (128 <=? ch) && (ch <=? 255) then mlift m0 (caret_right t (ch - 127)) else MOk m0
           end
         end
  else if ch =? 1 then MOk (with_e m 1 (eb m) (ec m) (ed m))
  else fallback m ch.

(* ---- Renegade ------------------------------------------------------------------------------------------------ *)
Definition renegade_step (m : mach) (ch : Z) : mout :=
  let t := mt m in
  if ea m =? 0 then
    if ch =? 124 then MOk (with_e m 1 (eb m) (ec m) (ed m)) else fallback m ch
  else if ea m =? 1 then
    let code := ch mod 256 in
    if (48 <=? code) && (code <=? 51) then MOk (with_e m 2 ((code - 48) * 10) (ec m) (ed m))
    else MErr (with_e m 0 (eb m) (ec m) (ed m))
  else
    let m0 := with_e m 0 (eb m) (ec m) (ed m) in
    let code := ch mod 256 in
    if negb (is_digit code) then MErr m0
    else let color := eb m + (code - 48) in
         if color <? 16 then mok m0 (set_attr t color (cbg t) (cblink t))
         else mok m0 (set_attr t (cfg t) (color - 16) (cblink t)).

(* ---- ASCII ----------------------------------------------------------------------------------------------------- *)
(* Buffer::print_value: the raw caret attribute is used (not Caret::get_attribute) *)
Definition print_value (t : term) (ch : Z) : res term := print_char t (ch, cbg t).
Definition ascii_step (m : mach) (ch : Z) : mout :=
  let t := mt m in
  if (ch =? 0) || (ch =? 255) then mok m (caret_reset_color t)
  else if ch =? 7 then MOk m
  else if ch =? 10 then mlift m (caret_lf t)
  else if ch =? 12 then mok m (caret_ff t)
  else if ch =? 13 then mok m (caret_cr t)
  else if ch =? 8 then mok m (caret_bs t)
  else if ch =? 127 then mok m (caret_del t)
  else mlift m (print_value t ch).

(* ---- ATASCII ---------------------------------------------------------------------------------------------------- *)
Definition atascii_step (m : mach) (ch : Z) : mout :=
  let t := mt m in
  if ea m =? 1 then mlift (with_e m 0 (eb m) (ec m) (ed m)) (print_value t ch)
  else if ch =? 27 then MOk (with_e m 1 (eb m) (ec m) (ed m))
  else if ch =? 28 then mlift m (caret_up t 1)
  else if ch =? 29 then mlift m (caret_down t 1)
  else if ch =? 30 then mlift m (caret_left t 1)
  else if ch =? 31 then mlift m (caret_right t 1)
  else if ch =? 125 then mok m (clear_screen t)
  else if ch =? 126 then mok m (caret_bs t)
  else if (ch =? 127) || (ch =? 158) || (ch =? 159) then MOk m
  else if ch =? 155 then mlift m (caret_lf t)
  else if ch =? 156 then mlift m (remove_terminal_line t (cy t))
  else if ch =? 157 then mlift m (insert_terminal_line t (cy t))
  else if ch =? 253 then MOk m
  else if ch =? 254 then mok m (caret_del t)
  else if ch =? 255 then mok m (caret_ins t)
  else if ch >? 127 then mlift m (print_value (set_attr t 0 7 (cblink t)) (ch - 128))
  else mlift m (print_value (set_attr t 7 0 (cblink t)) ch).

(* ---- Viewdata ----------------------------------------------------------------------------------------------------- *)
Definition vd_up (t : term) : term := if cy t >? 0 then set_cy t (sat_sub (cy t) 1) else set_cy t (th t - 1).
Definition vd_down (t : term) : term :=
  let y := cy t + 1 in caret_reset_color (set_cy t (if y >=? th t then 0 else y)).
Definition vd_right (t : term) : term :=
  let x := cx t + 1 in if x >=? tw t then vd_down (set_cx t 0) else set_cx t x.
Definition vd_left (t : term) : term :=
  if cx t >? 0 then set_cx t (sat_sub (cx t) 1) else vd_up (set_cx t (tw t - 1)).
Definition vd_clear (t : term) : term := caret_reset_color (set_pos (set_lines (reset_terminal t) []) 0 0).
Definition viewdata_step (m : mach) (c : Z) : mout :=
  let t := mt m in
  let ch := c mod 256 in
  let done (t1 : term) := MOk (with_e (with_t m t1) 0 (eb m) (ec m) (ed m)) in
  if ch =? 8 then done (vd_left t)
  else if ch =? 9 then done (vd_right t)
  else if ch =? 10 then done (vd_down t)
  else if ch =? 11 then done (vd_up t)
  else if ch =? 12 then done (vd_clear t)
  else if ch =? 13 then done (caret_cr t)
  else if (ch =? 14) || (ch =? 15) || (ch =? 28) || (ch =? 29) then MOk m
  else if ch =? 27 then MOk (with_e m 1 (eb m) (ec m) (ed m))
  else if ch =? 30 then done (caret_home t)
  else if ch <? 32 then done t
  else done (vd_right (layer_set t (cx t) (cy t) blank)).       (* interpret_char: one set_char, one caret_right *)

(* ---- Mode 7 ------------------------------------------------------------------------------------------------------- *)
Definition m7_right (t : term) : res term :=
  let x := cx t + 1 in if x >=? tw t then caret_index (set_cx t 0) else ROk (set_cx t x).
Definition m7_print (t : term) : res term := m7_right (layer_set t (cx t) (cy t) blank).
Definition m7_clear (t : term) : term := caret_reset_color (set_pos (set_lines (reset_terminal t) []) 0 0).
Definition mode7_step (m : mach) (c : Z) : mout :=
  let t := mt m in
  let ch := c mod 256 in
  let done (r : res term) := mlift (with_e m 0 (eb m) (ec m) (ed m)) r in
  if ch =? 7 then MOk m
  else if ch =? 8 then done (ROk (vd_left t))
  else if ch =? 9 then done (m7_right t)
  else if ch =? 10 then done (caret_index t)
  else if ch =? 11 then done (ROk (vd_up t))
  else if ch =? 12 then done (ROk (m7_clear t))
  else if ch =? 13 then done (ROk (caret_cr t))
  else if ch =? 30 then done (ROk (caret_home t))
  else if ch <? 32 then done (ROk t)
  else if ch =? 127 then done (ROk (caret_bs t))
  else if (ch =? 158) || (ch =? 159) then done (ROk t)
  else done (m7_print t).

(* ---- the ten emulations (PETSCII excepted) ------------------------------------------------------------------------- *)
Definition step (e : emu) (m : mach) (ch : Z) : mout :=
  match e with
  | EAnsi => fallback m ch
  | EAvatar => avatar_step m ch
  | EPcb => pcboard_step m ch
  | ECtrlA => ctrla_step m ch
  | ERenegade => renegade_step m ch
  | EAscii => ascii_step m ch
  | EAtascii => atascii_step m ch
  | EViewdata => viewdata_step m ch
  | EMode7 => mode7_step m ch
  end.
Definition init (music : Z) (bs : bool) (w h : Z) : mach := mkM (ansi_init music bs w h) 0 0 0 0.

(* a stream: after an error value the machine continues from the state the error left *)
Inductive rout := RunOk (m : mach) | RunPanic (site : Z).
Fixpoint run (e : emu) (m : mach) (cs : list Z) : rout :=
  match cs with
  | [] => RunOk m
  | c :: r => match step e m c with
              | MOk m1 | MErr m1 => run e m1 r
              | MPanic s => RunPanic s
              end
  end.
