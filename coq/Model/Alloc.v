(* M-alloc: ALLOCATION counters for property C03.  Executable definitions only.

   Every operation of the terminal core that makes the line table grow is re-stated here with the number of ROWS and CELLS it
   allocates (one number: rows + cells).  The counter is threaded through the operation itself, not read off the difference
   of the states: a row that is removed and re-inserted (insert/delete line inside margins, scroll left/right) counts.

     Rust                                                             Coq (counter)
     Line::set_char            chars.resize(i + 1)                    line_set_a
     Line::insert_char         chars.resize(i) ; insert               line_insert_a
     Layer::set_char           lines.resize(y + 1, Line::create(w))   lset_a
     Layer::insert_line        lines.resize(i, Line::create(w)); insert   layer_insert_line_a
     Buffer::scroll_up/down    Layer::set_char per cell               scroll_up_a, scroll_down_a   (state and counter)
     Buffer::scroll_left/right Vec::insert per row                    scroll_left_a, scroll_right_a
     Buffer::clear_* / rect    Layer::set_char per cell               fill_cells_a, sel_erase_a
     Caret::ins / erase_charcter                                      caret_ins_a, caret_erase_a
     Buffer::insert/remove_terminal_line                              insert_terminal_line_a, remove_terminal_line_a
     Caret::lf                 lines.resize(y + 1) + scroll_up        caret_lf_a
     Buffer::print_char        insert mode + Layer::set_char + lf     print_char_a
     window_manipulation       TerminalState::set_width -> reset_tabs window_a  (tab table entries)

   csi_final_a / csi_sp_a / csi_dollar_a: the allocation of one CSI control function (clamps of the fix: commits as in
   Model/Cost.v).  Proofs/AllocProofs.v: the counters dominate the growth of the state (nothing is allocated uncounted) and
   are bounded by the screen measure. *)
From Coq Require Import ZArith NArith List Bool Lia.
From IE Require Import Model.TermCore Model.AnsiTok Model.Cost.
Import ListNotations.
Local Open Scope Z_scope.

Definition wz (w : Z) : Z := Z.of_nat (Z.to_nat w).                  (* cells of Line::create(w) *)
Definition lsize (ls : list (list cell)) : Z := zlen ls + cells ls. (* rows + cells *)

(* ---- Line / Layer -------------------------------------------------------------------------------------------------- *)
Definition line_set_a (l : list cell) (i : nat) : Z := Z.of_nat (S i - length l).
Definition line_insert_a (l : list cell) (i : Z) : Z := if i <? 0 then 0 else Z.of_nat (Z.to_nat i - length l) + 1.
Definition lset_a (w h : Z) (ls : list (list cell)) (x y : Z) : Z :=
  if (x <? 0) || (y <? 0) || (x >=? w) || (y >=? h) then 0
  else let yn := Z.to_nat y in
       Z.of_nat (S yn - length ls) * (1 + wz w)
       + match nth_error ls yn with Some row => line_set_a row (Z.to_nat x) | None => 0 end.
Definition lset_c (w h : Z) (ls : list (list cell)) (x y : Z) (c : cell) : list (list cell) * Z :=
  (lset w h ls x y c, lset_a w h ls x y).

(* ---- scrolling ------------------------------------------------------------------------------------------------------ *)
Definition scroll_up_col_a (w h sl el : Z) (ls : list (list cell)) (x : Z) : list (list cell) * Z :=
  let r := fold_sum (fun l y => lset_c w h l x y (lget w h l x (y + 1))) (zrange sl el) ls in
  (lset w h (fst r) x el blank, snd r + lset_a w h (fst r) x el).
Definition scroll_up_a (t : term) : term * Z :=
  let r := fold_sum (scroll_up_col_a (lw t) (lh t) (first_edit t) (last_edit t)) (zrange_incl (first_col t) (last_col t)) (lines t) in
  (set_lines t (fst r), snd r).
Definition scroll_down_col_a (w h sl el : Z) (ls : list (list cell)) (x : Z) : list (list cell) * Z :=
  let r := fold_sum (fun l y => lset_c w h l x y (lget w h l x (y - 1))) (rev (zrange_incl (sl + 1) el)) ls in
  (lset w h (fst r) x sl blank, snd r + lset_a w h (fst r) x sl).
Definition scroll_down_a (t : term) : term * Z :=
  let r := fold_sum (scroll_down_col_a (lw t) (lh t) (first_edit t) (last_edit t)) (zrange_incl (first_col t) (last_col t)) (lines t) in
  (set_lines t (fst r), snd r).
Definition sl_row_a (sc ec : Z) (row : list cell) : Z :=
  if (0 <=? sc) && (sc <? zlen row) then (if (0 <=? ec) && (ec <=? zlen row) then 1 else 0) else 0.
Definition scroll_left_a (t : term) : term * Z :=
  let sc := first_col t in let ec := last_col t + 1 in
  let r := fold_sum (fun ls i => if i <? 0 then (ls, 0) else
                            match nth_error ls (Z.to_nat i) with
                            | Some row => (set_nth ls (Z.to_nat i) (sl_row sc ec row), sl_row_a sc ec row)
                            | None => (ls, 0) end)
                    (zrange_incl (first_edit t) (last_edit t)) (lines t) in
  (set_lines t (fst r), snd r).
Definition sr_row_a (sc ec : Z) (row : list cell) : Z :=
  if (0 <=? sc) && (sc <? zlen row) then (if ec =? -1 then 0 else 1) else 0.
Definition scroll_right_a (t : term) : res term * Z :=
  let sc := first_col t in let ec := last_col t in
  let r := fold_sum (fun acc i => match acc with
                          | ROk ls =>
                            if i <? 0 then (ROk ls, 0) else
                            match nth_error ls (Z.to_nat i) with
                            | Some row => (do r <- sr_row sc ec row; ROk (set_nth ls (Z.to_nat i) r), sr_row_a sc ec row)
                            | None => (ROk ls, 0) end
                          | RPanic s => (RPanic s, 0) end)
                    (zrange_incl (first_edit t) (last_edit t)) (ROk (lines t)) in
  (do ls <- fst r; ROk (set_lines t ls), snd r).

(* ---- clearing, rectangles ---------------------------------------------------------------------------------------------- *)
Definition fill_cells_a (t : term) (ys xs : list Z) (c : cell) : term * Z :=
  let r := fold_sum (fun ls y => fold_sum (fun l x => lset_c (lw t) (lh t) l x y c) xs ls) ys (lines t) in
  (set_lines t (fst r), snd r).
Definition sel_erase_a (t : term) (ys xs : list Z) : term * Z :=
  let r := fold_sum (fun ls y => fold_sum (fun l x => lset_c (lw t) (lh t) l x y (32, snd (lget (lw t) (lh t) l x y))) xs ls) ys (lines t) in
  (set_lines t (fst r), snd r).

(* ---- caret: insert, erase --------------------------------------------------------------------------------------------- *)
Definition caret_ins_a (t : term) : Z :=
  if cy t <? 0 then 0 else
  match nth_error (lines t) (Z.to_nat (cy t)) with
  | Some row => if (0 <=? cx t) && (cx t <? zlen row) then 1 else 0
  | None => 0
  end.
Fixpoint erase_loop_a (row : list cell) (i : Z) (c : cell) (n : nat) : Z :=
  match n with
  | O => 0
  | S k => match line_set_char row i c with
           | ROk r => line_set_a row (Z.to_nat i) + erase_loop_a r (i + 1) c k
           | RPanic _ => 0
           end
  end.
Definition caret_erase_a (t : term) (number : Z) : Z :=
  let n := Z.min (tw t - cx t) number in
  if n <=? 0 then 0 else
  if cy t <? 0 then 0 else
  match nth_error (lines t) (Z.to_nat (cy t)) with
  | Some row => erase_loop_a row (cx t) (32, cbg t) (Z.to_nat n)
  | None => 0
  end.

(* ---- line insertion / removal -------------------------------------------------------------------------------------------- *)
Definition layer_insert_line_a (t : term) (index : Z) : Z :=
  if index <? 0 then 0 else Z.of_nat (Z.to_nat index - length (lines t)) * (1 + wz (lw t)) + 1.
(* the removal of the bottom-margin row that precedes the insertion *)
Definition itl_pre (t : term) : res term :=
  match mtb t with
  | Some (_, e) => if e <? zlen (lines t) then
                     (if e <? 0 then RPanic SITE_ITL_REMOVE else ROk (set_lines t (remove_at (lines t) (Z.to_nat e))))
                   else ROk t
  | None => ROk t end.
Definition insert_terminal_line_a (t : term) (line : Z) : Z :=
  match itl_pre t with ROk t1 => layer_insert_line_a t1 line | RPanic _ => 0 end.
Definition remove_terminal_line_a (t : term) (line : Z) : Z :=
  if line >=? zlen (lines t) then 0 else
  if line <? 0 then 0 else
  let t1 := set_lines t (remove_at (lines t) (Z.to_nat line)) in
  match mtb t1 with Some (_, e) => layer_insert_line_a t1 e | None => 0 end.

(* ---- line feed, print_char ------------------------------------------------------------------------------------------------- *)
Definition check_scrolling_down_a (t : term) (force : bool) : Z :=
  if (needs_scrolling t || force) && (cy t >? last_edit t) then snd (scroll_up_a t) else 0.
Definition caret_lf_a (t : term) : Z :=
  let was_ooe := cy t >? last_edit t in
  let y := cy t + 1 in
  let t1 := set_pos t 0 y in
  let n := length (lines t1) in
  let grown := if y >=? Z.of_nat n then Z.of_nat (Z.to_nat (y + 1) - n) else 0 in
  let t2 := if y >=? Z.of_nat n then set_lines t1 (lines t1 ++ repeat [] (Z.to_nat (y + 1) - n)) else t1 in
  let t3 := if y + 1 >? bh t2 then set_bh t2 (y + 1) else t2 in
  grown + (if was_ooe then 0 else check_scrolling_down_a t3 false).
(* the insert-mode part of print_char: state and counter *)
Definition print_ins (t : term) : res term :=
  if ins t then
    if cy t <? 0 then RPanic SITE_PRINT_ROW else
    let yn := Z.to_nat (cy t) in
    let ls1 := if Nat.ltb (length (lines t)) (S yn) then resize (lines t) (S yn) [] else lines t in
    match nth_error ls1 yn with
    | Some row => do r <- line_insert_char row (cx t) blank; ROk (set_lines t (set_nth ls1 yn r))
    | None => ROk t
    end
  else ROk t.
Definition print_ins_a (t : term) : Z :=
  if ins t then
    if cy t <? 0 then 0 else
    let yn := Z.to_nat (cy t) in
    let ls1 := if Nat.ltb (length (lines t)) (S yn) then resize (lines t) (S yn) [] else lines t in
    Z.of_nat (S yn - length (lines t))
    + match nth_error ls1 yn with Some row => line_insert_a row (cx t) | None => 0 end
  else 0.
Definition print_char_a (t : term) (c : cell) : Z :=
  match print_ins t with
  | RPanic _ => print_ins_a t
  | ROk t1 =>
    let t2 := if cy t1 + 1 >? lh t1 then set_lh t1 (cy t1 + 1) else t1 in
    let t3 := if cy t2 + 1 >? bh t2 then set_bh t2 (cy t2 + 1) else t2 in
    let t4 := layer_set t3 (cx t3) (cy t3) c in
    let t5 := set_cx t4 (cx t4 + 1) in
    print_ins_a t + lset_a (lw t3) (lh t3) (lines t3) (cx t3) (cy t3)
    + (if cx t5 >=? tw t5 then (if awrap t5 then caret_lf_a t5 else 0) else 0)
  end.

(* ---- window manipulation: the tab table is rebuilt ------------------------------------------------------------------------------ *)
Definition window_a (w : Z) : Z := zlen (reset_tabs (Z.max (Z.min w 132) 1)).

(* ---- one CSI final byte without intermediate ---------------------------------------------------------------------------------------- *)
Definition ticks_of {A} (r : A * cost) : Z := ticks (snd r).
Definition su_a (t : term) (n : Z) : Z := ticks_of (iter_cost (Z.min n (eff_scrolls t)) scroll_up (fun x => snd (scroll_up_a x)) t).
Definition sd_a (t : term) (n : Z) : Z := ticks_of (iter_cost (Z.min n (eff_scrolls t)) scroll_down (fun x => snd (scroll_down_a x)) t).
Definition ich_a (t : term) (n : Z) : Z := ticks_of (iter_cost (Z.min n (ich_limit t)) caret_ins caret_ins_a t).
Definition il_a (t : term) (n : Z) : Z :=
  ticks_of (iter_cost_res (Z.min n (il_limit t)) (fun x => insert_terminal_line x (cy x)) (fun x => insert_terminal_line_a x (cy x)) t).
Definition dl_a (t : term) (n : Z) : Z :=
  ticks_of (iter_cost_res (Z.min n (zlen (lines t) - cy t)) (fun x => remove_terminal_line x (cy x)) (fun x => remove_terminal_line_a x (cy x)) t).
Definition sl_a (t : term) (n : Z) : Z := ticks_of (iter_cost (Z.min n (eff_cols t)) scroll_left (fun x => snd (scroll_left_a x)) t).
Definition sr_a (t : term) (n : Z) : Z := ticks_of (iter_cost_res (Z.min n (eff_cols t)) scroll_right (fun x => snd (scroll_right_a x)) t).
Definition check_scrolling_up_a (t : term) (force : bool) : Z :=
  if needs_scrolling t || force then
    let lastl := first_edit t in
    if cy t <? lastl then ticks_of (iter_cost (Z.min (lastl - cy t) (eff_scrolls t)) scroll_down (fun x => snd (scroll_down_a x)) t)
    else 0
  else 0.
Definition caret_up_a (t : term) (n : Z) : Z := check_scrolling_up_a (set_cy t (sat_sub (cy t) n)) false.
Definition caret_down_a (t : term) (n : Z) : Z := check_scrolling_down_a (set_cy t (sat_add (cy t) n)) false.
Definition rep_a (t : term) (c : cell) (n : Z) : Z := ticks_of (iter_cost_res (Z.min n (rep_limit t)) (fun x => print_char x c) (fun x => print_char_a x c) t).

Definition ed_a (t : term) (ns : list Z) : Z :=
  match ns with
  | [] => snd (fill_cells_a t (zrange (cy t) (last_visible t)) (zrange 0 (bw t)) (32, cbg t))
  | n :: _ => if n =? 1 then snd (fill_cells_a t (zrange (first t) (cy t)) (zrange 0 (bw t)) (32, cbg t))
              else if (n =? 2) || (n =? 3) then 0
              else snd (fill_cells_a t (zrange (cy t) (last_visible t)) (zrange 0 (bw t)) (32, cbg t))
  end.
Definition el_a (t : term) (ns : list Z) : Z :=
  match ns with
  | [] => snd (fill_cells_a t [cy t] (zrange (cx t) (bw t)) (32, cbg t))
  | n :: _ => if n =? 0 then snd (fill_cells_a t [cy t] (zrange (cx t) (bw t)) (32, cbg t))
              else if n =? 1 then snd (fill_cells_a t [cy t] (zrange 0 (cx t)) (32, cbg t))
              else if n =? 2 then snd (fill_cells_a t [cy t] (zrange 0 (bw t)) (32, cbg t))
              else 0
  end.

Definition csi_final_a (t : term) (p : pst) (is_start : bool) (ch : Z) : Z :=
  let ns := nums p in
  if ch =? 83 then su_a t (first_or ns 1)                                                     (* S *)
  else if ch =? 84 then sd_a t (first_or ns 1)                                                (* T *)
  else if ch =? 64 then match ns with n :: _ => ich_a t n | [] => caret_ins_a t end           (* @ *)
  else if ch =? 80 then 0                                                                     (* P *)
  else if ch =? 76 then                                                                       (* L *)
    match ns with [] => insert_terminal_line_a t (cy t) | [n] => il_a t n | _ => 0 end
  else if ch =? 77 then                                                                       (* M *)
    if (music_opt p =? 1) || (music_opt p =? 3) then 0
    else match ns with
         | [] => if cy t <? zlen (lines t) then remove_terminal_line_a t (cy t) else 0
         | [n] => dl_a t n
         | _ => 0
         end
  else if (ch =? 89) || (ch =? 90) then 0                                                     (* Y Z *)
  else if (ch =? 107) || (ch =? 65) then caret_up_a t (first_or ns 1)                         (* k A *)
  else if ch =? 98 then rep_a t (print_cell t (last_char p)) (first_or ns 1)                  (* b *)
  else if ch =? 66 then caret_down_a t (first_or ns 1)                                        (* B *)
  else if ch =? 74 then ed_a t ns                                                             (* J *)
  else if ch =? 75 then el_a t ns                                                             (* K *)
  else if ch =? 88 then caret_erase_a t (first_or ns 1)                                       (* X *)
  else if ch =? 126 then match ns with [k] => if k =? 2 then caret_ins_a t else 0 | _ => 0 end  (* ~ *)
  else if ch =? 116 then match ns with [k; _; w] => if k =? 8 then window_a w else 0 | _ => 0 end   (* t: tab table *)
  else 0.

(* CSI .. SP <final> *)
Definition csi_sp_a (t : term) (p : pst) (ch : Z) : Z :=
  if ch =? 65 then sr_a t (first_or (nums p) 1)
  else if ch =? 64 then sl_a t (first_or (nums p) 1)
  else 0.

(* CSI .. $ <final>: DECFRA x, DECERA z, DECSERA { *)
Definition rect_lists (t : term) (a b c d : Z) : list Z * list Z :=
  let '(tl, lc, bl, rc) := rect_area t a b c d in (zrange_incl tl bl, zrange_incl lc rc).
Definition csi_dollar_a (t : term) (p : pst) (ch : Z) : Z :=
  if ch =? 120 then
    match nums p with
    | [c; a; b; cc; d] => if is_scalar c then let '(ys, xs) := rect_lists t a b cc d in snd (fill_cells_a t ys xs (c, cbg t)) else 0
    | _ => 0 end
  else if ch =? 122 then
    match nums p with
    | [a; b; c; d] => let '(ys, xs) := rect_lists t a b c d in snd (fill_cells_a t ys xs blank)
    | _ => 0 end
  else if ch =? 123 then
    match nums p with
    | [a; b; c; d] => let '(ys, xs) := rect_lists t a b c d in snd (sel_erase_a t ys xs)
    | _ => 0 end
  else 0.
