(* M-fmt: Tundra Draw (src/formats/tundra.rs); executable definitions only.

   Rust item                      model
   ----------------------------   ----------------------------------------------------------------
   TundraDraw::to_bytes (data)    save_tnd, tnd_cells   (AFTER three fix commits: a cell with character 1..=6 is written
                                  with its own colours; the first cell always carries both colours)
   write_sauce_info(TundraDraw) + tnd_sauce             (what the loader gets back from the record the writer appends:
     SauceData::extract                                  width = t_info1 as u16, height = t_info2 = 0, no ice flag;
                                                         the byte layout is property C11's)
   TundraDraw::load_buffer        load_tnd, tnd_loop    (AFTER a fix commit: the loader starts from
                                                         TextAttribute::from_u8(0, ice_mode), colour index 0 = black)
   to_u32                         be_i32
   advance_pos                    the wrap `x + 1 >= width` inside tnd_loop

   The writer skips invisible cells and pads the end with zero bytes; that path is modelled (skip : option nat)
   although Buffer::get_char never returns an invisible cell inside a layer without alpha channel. *)
From Coq Require Import NArith ZArith Bool List.
From IE Require Import Lib.Tbl Lib.C05Lib Gen.Codepage Gen.Formats Model.Attr Model.C05Buf Model.C05Bin Model.C05XBin.
Import ListNotations.
Local Open Scope Z_scope.

Definition rgb_bytes (c : rgb) : list N := let '(r, g, b) := c in [0%N; r; g; b].

(* one visible cell: does the writer emit the foreground / the background colour? *)
Definition tnd_wf (pal : list rgb) (first : bool) (prev : TextAttribute) (c : cell) : bool :=
  first || ((1 <=? c_ch c)%N && (c_ch c <=? 6)%N)
  || negb (rgb_eqb (pal_get_rgb pal (foreground_color prev)) (pal_get_rgb pal (foreground_color (c_attr c))))
  || negb (Bool.eqb (is_bold prev) (is_bold (c_attr c))).
Definition tnd_wb (pal : list rgb) (first : bool) (prev : TextAttribute) (c : cell) : bool :=
  first || negb (rgb_eqb (pal_get_rgb pal (background_color prev)) (pal_get_rgb pal (background_color (c_attr c)))).
(* the foreground index whose colour is written: bold adds 8 *)
Definition tnd_fgi (a : TextAttribute) : N := if is_bold a then (foreground_color a + 8)%N else foreground_color a.

(* one visible cell: returns the bytes and the new `attr` *)
Definition tnd_cell (pal : list rgb) (first : bool) (prev : TextAttribute) (c : cell) : list N * TextAttribute :=
  let cur := c_attr c in
  let ch := c_ch c in
  let wf := tnd_wf pal first prev c in
  let wb := tnd_wb pal first prev c in
  if wf || wb then
    let cmd := ((if wf then TUNDRA_COLOR_FOREGROUND else 0) + (if wb then TUNDRA_COLOR_BACKGROUND else 0))%N in
    ([cmd; ch] ++ (if wf then rgb_bytes (pal_get_rgb pal (tnd_fgi cur)) else [])
               ++ (if wb then rgb_bytes (pal_get_rgb pal (background_color cur)) else []), cur)
  else ([ch], prev).

(* idx = row-major index of the cell; skip = index of the first invisible cell seen *)
Fixpoint tnd_cells (pal : list rgb) (first : bool) (prev : TextAttribute) (skip : option nat) (idx : nat)
         (cells : list cell) : res (list N * option nat) :=
  match cells with
  | [] => Ok ([], skip)
  | c :: t =>
    if negb (is_visible c) then
      tnd_cells pal first prev (match skip with None => Some idx | s => s end) (S idx) t
    else if (255 <? c_ch c)%N then Err 2
    else let '(bytes, prev') := tnd_cell pal first prev c in
         let* '(r, s) := tnd_cells pal false prev' skip (S idx) t in Ok (bytes ++ r, s)
  end.

Definition save_tnd (p : pic) : res (list N) :=
  let fonts := used_pages (p_rows p) in
  if (1 <? length fonts)%nat then Err 1 else
  let cells := concat (p_rows p) in
  let* '(bytes, skip) := tnd_cells (p_pal p) true (from_u8 0 (p_ice p)) None 0 cells in
  let padn := match skip with
              | None => 0
              | Some i =>
                (* (w-1 + (h-1)*w) - (pos2.x + pos2.y*w) + 1, then `as usize` *)
                let w := p_w p in let h := p_h p in
                ((w - 1) + (h - 1) * w) - Z.of_nat i + 1
              end in
  Ok ([TUNDRA_VER] ++ TUNDRA_HEADER ++ bytes ++ repeat 0%N (Z.to_nat padn)).

Definition tnd_sauce (p : pic) : sauce := mkSauce (p_w p mod 65536) 0 false.

Definition be_i32 (b0 b1 b2 b3 : N) : Z :=
  let v := Z.of_N (b3 + b2 * 256 + b1 * 65536 + b0 * 16777216)%N in
  if v >=? 2147483648 then v - 4294967296 else v.

(* reads `skip, r, g, b` *)
Definition tnd_color (l : list N) : res (rgb * list N) :=
  match l with
  | _ :: r :: g :: b :: t => Ok ((r, g, b), t)
  | _ => Panic 6
  end.

Fixpoint tnd_loop (fuel : nat) (w : Z) (L : layer) (pal : list rgb) (at0 : TextAttribute) (x y : Z) (data : list N)
  : res (layer * list rgb) :=
  match data with
  | [] => Ok (L, pal)
  | cmd :: rest =>
    match fuel with
    | O => Panic 99
    | S fuel' =>
      if (cmd =? TUNDRA_POSITION)%N then
        match rest with
        | a0 :: a1 :: a2 :: a3 :: rest1 =>
          let y' := be_i32 a0 a1 a2 a3 in
          if y' >=? 65535 then Err 3 else
          match rest1 with
          | c0 :: c1 :: c2 :: c3 :: rest2 =>
            let x' := be_i32 c0 c1 c2 c3 in
            if x' >=? w then Err 4 else tnd_loop fuel' w L pal at0 x' y' rest2
          | _ => Panic 6
          end
        | _ => Panic 6
        end
      else
        let* '(ch, pal1, at1, rest1) :=
           if (1 <? cmd)%N && (cmd <=? 6)%N then
             match rest with
             | [] => Panic 6
             | ch :: r0 =>
               let* '(pal1, at1, r1) :=
                  if negb (N.land cmd TUNDRA_COLOR_FOREGROUND =? 0)%N then
                    let* '(c, r1) := tnd_color r0 in
                    let '(pal1, i) := insert_color pal c in Ok (pal1, with_fg at0 i, r1)
                  else Ok (pal, at0, r0) in
               let* '(pal2, at2, r2) :=
                  if negb (N.land cmd TUNDRA_COLOR_BACKGROUND =? 0)%N then
                    let* '(c, r2) := tnd_color r1 in
                    let '(pal2, i) := insert_color pal1 c in Ok (pal2, with_bg at1 i, r2)
                  else Ok (pal1, at1, r1) in
               Ok (ch, pal2, at2, r2)
             end
           else Ok (cmd, pal, at0, rest) in
        let L' := put true L x y (mkCell ch at1) in
        if x + 1 >=? w then tnd_loop fuel' w L' pal1 at1 0 (y + 1) rest1
        else tnd_loop fuel' w L' pal1 at1 (x + 1) y rest1
    end
  end.

Definition load_tnd (data : list N) (s : option sauce) : res buffer :=
  let b := set_sauce (buffer_new 80 25) s in
  if (length data <? 1 + length TUNDRA_HEADER)%nat then Err 1 else
  match data with
  | [] => Err 1
  | _ver :: rest =>
    if negb (if list_eq_dec N.eq_dec (firstn (length TUNDRA_HEADER) rest) TUNDRA_HEADER then true else false) then Err 2 else
    let b := set_modes (set_ice (set_pal b [(0, 0, 0)%N]) Ice) 0 (b_fmode b) in
    let body := skipn (length TUNDRA_HEADER) rest in
    let* '(L, pal) := tnd_loop (length body) (b_w b) (b_layer b) (b_pal b) (from_u8 0 Ice) 0 0 body in
    Ok (set_height (set_width (set_pal (set_layer b L) pal) (l_w L)) (l_h L))
  end.
