(* C02: Palette::load_palette / Palette::export_palette over ALL variants of `enum PaletteFormat`
   (src/palette_handling.rs).  Executable Gallina only.

   The variants and the class of each `match` arm come from Gen/C02Pal.v (translator/gen_c02.py):
     0  the arm reads / writes the format: the five text formats, whose readers and writers are C16's model
        (Model/PaletteFiles.v: `load` into option, None = Err(..); `export`), regex / str::parse pipelines without an
        index, slice or arithmetic that can fail;
     1  the arm refuses: load_palette `return Err(..)`; export_palette (which returns Vec<u8> and cannot report an
        error) logs with log::error! and returns an empty vector;
     2  the arm panics (`todo!()`).
   PaletteFormat::Ase has no file format behind it in this crate: after the fix of finding C02-ase-todo its arms are
   of class 1; before they were `todo!()` (todo_arm below, kept for the witness of the fixed finding). *)
From Coq Require Import NArith List.
From IE Require Import Lib.Tbl Gen.C02Pal Model.Palette Model.PaletteFiles.
Import ListNotations.
Local Open Scope N_scope.

Inductive pal_outcome (A : Type) := PalOk (a : A) | PalErr | PalPanic.
Arguments PalOk {A} a. Arguments PalErr {A}. Arguments PalPanic {A}.

(* the C16 model behind an arm of class 0 *)
Definition palette_model (f : palette_format) : option format :=
  match f with PIce => Some Ice | PHex => Some Hex | PPal => Some Pal | PGpl => Some Gpl | PTxt => Some Txt | PAse => None end.

Definition palette_load_with (arm : palette_format -> N) (f : palette_format) (s : str) : pal_outcome (list rgb) :=
  match arm f with
  | 0 => match palette_model f with
         | Some m => match load m s with Some l => PalOk l | None => PalErr end
         | None => PalPanic            (* an arm that claims to read a format nobody modelled: not known to be total *)
         end
  | 1 => PalErr
  | _ => PalPanic
  end.

(* Some text = the vector returned (as text; [] = empty vector), None = panic *)
Definition palette_export_with (arm : palette_format -> N) (f : palette_format) (p : palette) : option str :=
  match arm f with
  | 0 => match palette_model f with Some m => Some (export m p) | None => None end
  | 1 => Some []
  | _ => None
  end.

(* the code as it is *)
Definition palette_load : palette_format -> str -> pal_outcome (list rgb) := palette_load_with load_palette_arm.
Definition palette_export : palette_format -> palette -> option str := palette_export_with export_palette_arm.

(* the code before the fix of C02-ase-todo: `PaletteFormat::Ase => todo!()` in both functions *)
Definition todo_arm (f : palette_format) : N := match f with PAse => 2 | _ => 0 end.
