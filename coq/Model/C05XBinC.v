(* M-fmt: XBin WHOLE files with SaveOptions.compress (src/formats/xbinary.rs); executable definitions only.

   This file glues the two existing models of xbinary.rs:
     - Model/C05XBin.v  (property C05): header, flags, palette block, font block(s), uncompressed data section, on C05's
                         buffer / layer / picture types;
     - Model/XBin.v     (property C06): compress_backtrack / count_length (the compressed data section) and the readers as
                         `set_char` traces, on C06's own cell type.
   and the loader as it is after C02's fix commits (Model/C02Loaders.v load_xb2: compressed branch on C05's layer type).

   Rust item                                   model
   -----------------------------------------   -----------------------------------------------------------------
   XBin::to_bytes, both values of              save_xbo compress   (literally C05's save_xb plus `if options.compress
     SaveOptions.compress                                           { flags |= FLAG_COMPRESS }` and the data-section branch;
                                                                    Proofs/C05XBinCProofs.v save_xbo_false: save_xbo false = save_xb)
   `if options.compress { compress_backtrack   xb_data_section     (compressed: C06's compress_backtrack on the converted rows;
     (&mut result, buf, &fonts)? } else {…}`                        Only8BitCharactersSupported = Err 11 in both branches)
   the cells / modes handed from one model     cell6, attr6, ice6  (field-by-field copies; cell5 is the inverse of cell6)
     to the other
   XBin::load_buffer                           C02Loaders.load_xb2 (unchanged)

   Nothing here is new code of the crate: the point of the file is that ONE function of the picture gives the bytes of the
   whole compressed file, so that stage C can compare it with Buffer::to_bytes("xb", compress = true) byte for byte and
   the theorems of Props/C05.v can speak about files. *)
From Coq Require Import NArith ZArith Bool List.
From IE Require Import Lib.Tbl Lib.C05Lib Gen.Codepage Gen.Formats Model.Attr Model.C05Buf Model.C05Bin Model.C05XBin.
From IE Require Model.XBin.
Import ListNotations.
Local Open Scope Z_scope.

(* ------------------------------------------------------------------ C05 cells <-> C06 cells *)
Definition ice6 (m : IceMode) : XBin.ice_mode :=
  match m with Unlimited => XBin.Unlimited | Blink => XBin.Blink | Ice => XBin.Ice end.
Definition attr6 (a : TextAttribute) : XBin.tattr :=
  XBin.mkattr (foreground_color a) (background_color a) (attr a) (font_page a).
Definition cell6 (c : cell) : XBin.cell := XBin.mkcell (c_ch c) (attr6 (c_attr c)).
Definition attr5 (a : XBin.tattr) : TextAttribute := mkAttr (XBin.fpage a) (XBin.fg a) (XBin.bg a) (XBin.aflags a).
Definition cell5 (c : XBin.cell) : cell := mkCell (XBin.ch c) (attr5 (XBin.attr c)).

(* ------------------------------------------------------------------ the data section, both layouts *)
Definition xb_data_section (compress : bool) (m : IceMode) (fonts : list N) (rows : list (list cell)) : res (list N) :=
  if compress then
    match XBin.compress_backtrack fonts (ice6 m) (map (map cell6) rows) with
    | XBin.Ok bytes => Ok bytes
    | XBin.ErrOnly8Bit => Err 11
    end
  else save_rows_chk (fun c => [c_ch c; encode_attr m fonts c]) 11 rows.

(* ------------------------------------------------------------------ XBin::to_bytes with SaveOptions.compress *)
Definition save_xbo (compress : bool) (p : pic) : res (list N) :=
  let hdr := XBIN_ID ++ [26%N; lo8 (p_w p); hi8 (p_w p); lo8 (p_h p); hi8 (p_h p)] in
  let fonts := used_pages (p_rows p) in
  match fonts with
  | [] => Panic 4
  | f0 :: _ =>
    match get_font (p_fonts p) f0 with
    | None => Err 1
    | Some font =>
      if negb (f_len font =? 256)%N then Err 2 else
      if (2 <? length fonts)%nat then Err 3 else
      if (f_h font <? 1)%N || (32 <? f_h font)%N then Err 4 else
      let two := (length fonts =? 2)%nat in
      let flags := ((if negb (f_default font) || two then XBIN_FLAG_FONT else 0)
                    + (if negb (pal_is_default (p_pal p)) then XBIN_FLAG_PALETTE else 0)
                    + (if compress then XBIN_FLAG_COMPRESS else 0)
                    + (if is_ice (p_ice p) then XBIN_FLAG_NON_BLINK_MODE else 0)
                    + (if two then XBIN_FLAG_512CHAR_MODE else 0))%N in
      let* pal_part :=
         if has_flag8 flags XBIN_FLAG_PALETTE then
           let d := as_vec_63 (fill_to_16 (p_pal p)) in
           if negb (length d =? N.to_nat XBIN_PALETTE_LENGTH)%nat then Err 5 else Ok d
         else Ok [] in
      let* font_part :=
         if has_flag8 flags XBIN_FLAG_FONT then
           let d := convert_to_u8_data font in
           if negb (length d =? 256 * N.to_nat (f_h font))%nat then Err 6 else
           if two then
             match fonts with
             | [_; f1] =>
               match get_font (p_fonts p) f1 with
               | None => Err 10
               | Some ext =>
                 if negb (f_len ext =? 256)%N then Err 8 else
                 let d2 := convert_to_u8_data ext in
                 if negb (length d2 =? length d)%nat then Err 9 else Ok (d ++ d2)
               end
             | _ => Err 7
             end
           else Ok d
         else Ok [] in
      let* cells := xb_data_section compress (p_ice p) fonts (p_rows p) in
      Ok (hdr ++ [f_h font; flags] ++ pal_part ++ font_part ++ cells)
    end
  end.
