(* The RIP parser as a whole: tokenizer (Model/RipTok.v) + command execution on the BGI kernel (Model/BgiKernel.v) +
   the wrapped ansi parser as a parameter.  Mirrors <rip::Parser as BufferParser>::print_char seen from outside:
   every character yields Ok or Err, or the call panics, or it reaches a command whose `run` is not modelled.
   Executable definitions only. *)
From Coq Require Import NArith ZArith List Bool.
From IE Require Import Gen.RipGen Model.RipTok Model.BgiKernel.
Import ListNotations.
Local Open Scope Z_scope.

Section Stream.
  Variable FS : Type.                           (* state of the fallback ansi::Parser (+ the buffer it prints into) *)
  Variable fb_print : FS -> N -> FS * bool.     (* fallback_parser.print_char: new state, true = Ok / false = Err *)
  Variable fb_mode : FS -> fbmode.              (* fallback_parser.state / parsed_numbers.first() *)
  Variable fb_reset : FS -> FS.                 (* fallback_parser.state = EngineState::Default *)

  Record rstate := { r_tok : tok; r_bgi : bgi; r_fb : FS }.

  Inductive outcome := OOk (s : rstate) (ok : bool) | OPanic (site : N) | OUnmodelled.

  (* `a.print_char(c1)?; a.print_char(c2)?; return a.print_char(c3)` *)
  Fixpoint print_all (fs : FS) (cs : list N) : FS * bool :=
    match cs with
    | [] => (fs, true)
    | c :: t => let '(fs', ok) := fb_print fs c in if ok then print_all fs' t else (fs', false)
    end.

  Definition rip_step (s : rstate) (ch : N) : outcome :=
    match tok_step (fb_mode (r_fb s)) (r_tok s) ch with
    | SPanic p => OPanic p
    | SOk t a reset =>
      let fs := if reset then fb_reset (r_fb s) else r_fb s in
      match a with
      | ANone => OOk {| r_tok := t; r_bgi := r_bgi s; r_fb := fs |} true
      | AErrQuery => OOk {| r_tok := t; r_bgi := r_bgi s; r_fb := fs |} false
      | ARun c =>
        match run_cmd (r_bgi s) c with
        | ROk b => OOk {| r_tok := t; r_bgi := b; r_fb := fs |} true
        | RPanic p => OPanic p
        | RUnmodelled => OUnmodelled
        end
      | APrint cs =>
        if suspend_text (r_bgi s) then OOk {| r_tok := t; r_bgi := r_bgi s; r_fb := fs |} true
        else let '(fs', ok) := print_all fs cs in OOk {| r_tok := t; r_bgi := r_bgi s; r_fb := fs' |} ok
      | APrintAlways cs =>
        let '(fs', ok) := print_all fs cs in OOk {| r_tok := t; r_bgi := r_bgi s; r_fb := fs' |} ok
      end
    end.

  (* feed a stream; the second component counts the characters answered with Err *)
  Fixpoint rip_run (s : rstate) (errs : N) (cs : list N) : outcome * N :=
    match cs with
    | [] => (OOk s true, errs)
    | c :: t => match rip_step s c with
                | OOk s' ok => rip_run s' (if ok then errs else N.succ errs) t
                | o => (o, errs)
                end
    end.
End Stream.

Arguments r_tok {FS}. Arguments r_bgi {FS}. Arguments r_fb {FS}.
Arguments OOk {FS}. Arguments OPanic {FS}. Arguments OUnmodelled {FS}.
