(* C02 - the instance of the parameter `text_load` of Model/C02Dispatch.v: the eight text loaders as modelled in
   Model/FileLoad.v (parsers of C01 over the file-buffer core + parse_with_parser).  Executable only.

   [conv]   convert_ansi_to_utf8 as a function from the content bytes to the characters fed to the parser (a valid UTF-8
            text behind a BOM is decoded, anything else is one character per byte); the theorems hold for EVERY conv.
   [sixels] the oracle of the sixel epilogue: size of font 0, the decoded sixels (position, pixel size) at the end of the
            character loop, whether a decode thread failed - results of the decode threads (C14) and of the font table (C17),
            not modelled here.
   A macro-nesting overflow (stack overflow of the real code) counts as a crash: OPanic. *)
From Coq Require Import NArith ZArith Bool List.
From IE Require Import Gen.C02Ext Model.C05Buf Model.C02Dispatch.
From IE Require Model.FileLoad.
Import ListNotations.

Definition tfmt_of (f : fmt) : option FileLoad.tfmt :=
  match f with
  | FAnsi => Some FileLoad.TAns | FPcb => Some FileLoad.TPcb | FAvt => Some FileLoad.TAvt | FAsc => Some FileLoad.TAsc
  | FMsg => Some FileLoad.TMsg | FRen => Some FileLoad.TRen | FSeq => Some FileLoad.TSeq | FAta => Some FileLoad.TAta
  | _ => None
  end.
Definition fs_of (s : option sauce) : option FileLoad.fsauce :=
  option_map (fun sc => FileLoad.mkFS (s_w sc) (s_h sc) (s_ice sc)) s.

Definition sixel_oracle : Type := fmt -> list N -> option sauce -> Z * Z * list FileLoad.sixel * bool.

Definition text_load_model (conv : list N -> list Z) (sixels : sixel_oracle) (f : fmt) (content : list N) (s : option sauce) : outcome :=
  match tfmt_of f with
  | None => OErr                                  (* not a text format: load_fmt never asks *)
  | Some tf =>
    let '(fw, fh, done, serr) := sixels f content s in
    match FileLoad.text_load tf (fs_of s) fw fh done serr (conv content) with
    | FileLoad.TOk _ _ => OOk
    | FileLoad.TErr => OErr
    | FileLoad.TPanic _ => OPanic
    end
  end.
