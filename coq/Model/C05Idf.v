(* M-fmt: iCE Draw IDF (src/formats/ice_draw.rs); executable definitions only.

   Rust item                    model
   --------------------------   ------------------------------------------------------------------
   IceDraw::to_bytes            save_idf (compress : bool = SaveOptions.compress), idf_row, run_len
                                (AFTER the fix commit: no second repeat header in front of a single (1, 0) cell)
   IceDraw::load_buffer         load_idf, idf_loop, idf_put_n
   advance_pos(x1, x2, pos)     idf_advance

   idf_row walks a row with `x += rle_count`; the model recurses on the row list with fuel = its length (every step
   consumes at least one cell, so the fuel never runs out: lemma idf_row_fuel in the proofs).
   idf_loop is structural recursion over the bytes of the cell area data[12 .. len - 4096 - 48]; the Rust loop reads the two
   count bytes of a repeat header before it checks `o + 3 >= data_size` - they may lie in the font block, which always
   exists, so no read can fail; the model simply needs four more bytes inside the area. *)
From Coq Require Import NArith ZArith Bool List.
From IE Require Import Lib.Tbl Lib.C05Lib Gen.Codepage Gen.Formats Model.Attr Model.C05Buf Model.C05Bin Model.C05XBin.
Import ListNotations.
Local Open Scope Z_scope.

(* number of leading cells equal to c (AttributedChar::eq), at most limit *)
Fixpoint run_len (c : cell) (rest : list cell) (limit : nat) : nat :=
  match limit, rest with
  | S limit', d :: rest' => if cell_eqb c d then S (run_len c rest' limit') else O
  | _, _ => O
  end.

Fixpoint idf_row (fuel : nat) (compress : bool) (cells : list cell) : res (list N) :=
  match cells with
  | [] => Ok []
  | c :: rest =>
    match fuel with
    | O => Panic 99
    | S fuel' =>
      let a := as_u8 (c_attr c) Ice in
      let n := if compress then S (run_len c rest (N.to_nat 65534)) else 1%nat in
      let hdr := compress && ((3 <? n)%nat || (c_ch c =? 1)%N) in
      let n := if hdr then n else 1%nat in
      if (255 <? c_ch c)%N then Err 7 else
      let pre := if hdr then [1%N; 0%N; (N.of_nat n mod 256)%N; (N.of_nat n / 256)%N]
                 else if (c_ch c =? 1)%N && (a =? 0)%N then [1; 0; 1; 0]%N else [] in
      let* tl := idf_row fuel' compress (skipn (n - 1) rest) in
      Ok (pre ++ [c_ch c; a] ++ tl)
    end
  end.

Fixpoint idf_rows (compress : bool) (rows : list (list cell)) : res (list N) :=
  match rows with
  | [] => Ok []
  | r :: t => let* a := idf_row (length r) compress r in let* b := idf_rows compress t in Ok (a ++ b)
  end.

Definition save_idf (compress : bool) (p : pic) : res (list N) :=
  if negb (is_ice (p_ice p)) then Err 1 else
  if 200 <? p_h p then Err 2 else
  let fonts := used_pages (p_rows p) in
  if (1 <? length fonts)%nat then Err 3 else
  if negb (length (p_pal p) =? 16)%nat then Err 4 else
  let hdr := IDF_V1_4_HEADER ++ [0; 0; 0; 0]%N ++ [lo8 (p_w p - 1); hi8 (p_w p - 1); lo8 (p_h p - 1); hi8 (p_h p - 1)] in
  let* cells := idf_rows compress (p_rows p) in
  let* fh := font0_height (p_fonts p) in
  if negb (fh =? 16)%N then Err 5 else
  match fonts with
  | [] => Panic 4
  | f0 :: _ =>
    match get_font (p_fonts p) f0 with
    | None => Err 6
    | Some font => Ok (hdr ++ cells ++ convert_to_u8_data font ++ as_vec_63 (p_pal p))
    end
  end.

(* loader state: layer, buffer height, position *)
Definition idf_advance (x1 x2 x y : Z) : Z * Z := if x + 1 >? x2 then (x1, y + 1) else (x + 1, y).

Fixpoint idf_put_n (n : nat) (x1 x2 : Z) (c : cell) (L : layer) (bh x y : Z) : layer * Z * Z * Z :=
  match n with
  | O => (L, bh, x, y)
  | S n' => let L' := put true L x y c in
            let '(x', y') := idf_advance x1 x2 x y in
            idf_put_n n' x1 x2 c L' (y + 1) x' y'
  end.

(* returns the final state and the number of unread bytes of the area (the Rust `o` at loop exit = data_size - that) *)
Fixpoint idf_loop (x1 x2 : Z) (L : layer) (bh x y : Z) (area : list N) {struct area} : layer * Z * nat :=
  match area with
  | ch :: a :: rest =>
    if (ch =? 1)%N && (a =? 0)%N then
      match rest with
      | nl :: nh :: ch2 :: a2 :: rest2 =>
        let '(L', bh', x', y') := idf_put_n (N.to_nat (nl + nh * 256)) x1 x2 (mkCell ch2 (from_u8 a2 Ice)) L bh x y in
        idf_loop x1 x2 L' bh' x' y' rest2
      | _ => (L, bh, length rest)
      end
    else
      let '(L', bh', x', y') := idf_put_n 1 x1 x2 (mkCell ch (from_u8 a Ice)) L bh x y in
      idf_loop x1 x2 L' bh' x' y' rest
  | _ => (L, bh, length area)
  end.

Definition u16le (lo hi : N) : Z := Z.of_N (lo + hi * 256)%N.

Definition load_idf (data : list N) : res buffer :=
  let b := set_ice (buffer_new 80 25) Ice in
  let fixed := (N.to_nat IDF_HEADER_SIZE + N.to_nat IDF_FONT_SIZE + N.to_nat IDF_PALETTE_SIZE)%nat in
  if (length data <? fixed)%nat then Err 1 else
  match data with
  | v0 :: v1 :: v2 :: v3 :: x1l :: x1h :: y1l :: y1h :: x2l :: x2h :: _y2l :: _y2h :: rest =>
    let version := [v0; v1; v2; v3] in
    if negb ((if list_eq_dec N.eq_dec version IDF_V1_3_HEADER then true else false)
             || (if list_eq_dec N.eq_dec version IDF_V1_4_HEADER then true else false)) then Err 2 else
    let x1 := u16le x1l x1h in let y1 := u16le y1l y1h in let x2 := u16le x2l x2h in
    if x2 <? x1 then Err 3 else
    let b := set_width b (x2 - x1 + 1) in
    let area_len := (length data - fixed)%nat in
    let '(L, bh, unread) := idf_loop x1 x2 (b_layer b) (b_h b) x1 y1 (firstn area_len rest) in
    let tail := skipn (area_len - unread) rest in
    let* font := font_create_8 16 (firstn (N.to_nat IDF_FONT_SIZE) tail) in
    let* pal := from_63 (firstn (N.to_nat IDF_PALETTE_SIZE) (skipn (N.to_nat IDF_FONT_SIZE) tail)) in
    Ok (set_pal (set_fonts (set_height (set_layer b L) bh) [(0%N, font_named_default font)]) pal)
  | _ => Err 1
  end.
