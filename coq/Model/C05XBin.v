(* M-fmt: XBin file level (src/formats/xbinary.rs): header, flags, palette, one or two fonts and the
   UNCOMPRESSED data layout; executable definitions only.  The compressed data layout (compress_backtrack /
   read_data_compressed) is property C06's: the writer model is for SaveOptions.compress = false and the loader model
   returns Err 98 for a file whose FLAG_COMPRESS bit is set.

   Rust item                         model
   -------------------------------   ---------------------------------------------------------------
   XBin::to_bytes (compress=false)   save_xb        (checks in source order; `width as u8`, `(width >> 8) as u8`)
   encode_attr                       encode_attr
   XBin::load_buffer                 load_xb        (AFTER the fix commit: the layer's pre-allocated rows are cleared)
   read_data_uncompressed            xb_read_uncompressed
   decode_char                       xb_decode
   advance_pos                       the wrap `x + 1 >= width` inside xb_read_uncompressed *)
From Coq Require Import NArith ZArith Bool List.
From IE Require Import Lib.Tbl Lib.C05Lib Gen.Codepage Gen.Formats Model.Attr Model.C05Buf Model.C05Bin.
Import ListNotations.
Local Open Scope Z_scope.

Definition XBIN_ID : list N := [88; 66; 73; 78]%N.    (* b"XBIN" *)

Definition lo8 (z : Z) : N := Z.to_N (z mod 256).
Definition hi8 (z : Z) : N := Z.to_N ((z / 256) mod 256).

Definition encode_attr (m : IceMode) (fonts : list N) (c : cell) : N :=
  match fonts with
  | [_; f1] => N.lor (N.land (as_u8 (c_attr c) m) 247) (if (font_page (c_attr c) =? f1)%N then 8 else 0)%N
  | _ => as_u8 (c_attr c) m
  end.

Definition has_flag8 (flags f : N) : bool := (N.land flags f =? f)%N.

Definition save_xb (p : pic) : res (list N) :=
  let hdr := XBIN_ID ++ [26%N; lo8 (p_w p); hi8 (p_w p); lo8 (p_h p); hi8 (p_h p)] in
  let fonts := used_pages (p_rows p) in
  match fonts with
  | [] => Panic 4
  | f0 :: _ =>
    match get_font (p_fonts p) f0 with
    | None => Err 1
    | Some font =>
      if negb (f_len font =? 256)%N then Err 2 else
      if (2 <? length fonts)%nat then Err 3 else
      if (f_h font <? 1)%N || (32 <? f_h font)%N then Err 4 else
      let two := (length fonts =? 2)%nat in
      let flags := ((if negb (f_default font) || two then XBIN_FLAG_FONT else 0)
                    + (if negb (pal_is_default (p_pal p)) then XBIN_FLAG_PALETTE else 0)
                    + (if is_ice (p_ice p) then XBIN_FLAG_NON_BLINK_MODE else 0)
                    + (if two then XBIN_FLAG_512CHAR_MODE else 0))%N in
      let* pal_part :=
         if has_flag8 flags XBIN_FLAG_PALETTE then
           let d := as_vec_63 (fill_to_16 (p_pal p)) in
           if negb (length d =? N.to_nat XBIN_PALETTE_LENGTH)%nat then Err 5 else Ok d
         else Ok [] in
      let* font_part :=
         if has_flag8 flags XBIN_FLAG_FONT then
           let d := convert_to_u8_data font in
           if negb (length d =? 256 * N.to_nat (f_h font))%nat then Err 6 else
           if two then
             match fonts with
             | [_; f1] =>
               match get_font (p_fonts p) f1 with
               | None => Err 10
               | Some ext =>
                 if negb (f_len ext =? 256)%N then Err 8 else
                 let d2 := convert_to_u8_data ext in
                 if negb (length d2 =? length d)%nat then Err 9 else Ok (d ++ d2)
               end
             | _ => Err 7
             end
           else Ok d
         else Ok [] in
      let* cells := save_rows_chk (fun c => [c_ch c; encode_attr (p_ice p) fonts c]) 11 (p_rows p) in
      Ok (hdr ++ [f_h font; flags] ++ pal_part ++ font_part ++ cells)
    end
  end.

Definition xb_decode (m : IceMode) (fixed_size : bool) (ch a : N) : cell :=
  let at0 := from_u8 a m in
  let at1 := if (7 <? foreground_color at0)%N && fixed_size
             then with_fg (with_page at0 1) (foreground_color at0 - 8)%N else at0 in
  mkCell ch at1.

Definition xb_read_uncompressed (w : Z) (m : IceMode) (fixed : bool) (L : layer) (x y : Z) (data : list N) : layer :=
  pair_loop false (xb_decode m fixed) w L x y data.

(* `&data[o..(o + n)]`: panics when the file is shorter *)
Definition take_slice (n : nat) (l : list N) : res (list N * list N) :=
  if (length l <? n)%nat then Panic 6 else Ok (firstn n l, skipn n l).

Definition load_xb (data : list N) (s : option sauce) : res buffer :=
  let b := set_sauce (buffer_new 80 25) s in
  if (length data <? N.to_nat XBIN_HEADER_SIZE)%nat then Err 1 else
  match data with
  | i0 :: i1 :: i2 :: i3 :: _eof :: wl :: wh :: hl :: hh :: fs :: flags :: rest =>
    if negb (if list_eq_dec N.eq_dec [i0; i1; i2; i3] XBIN_ID then true else false) then Err 2 else
    let w := Z.of_N (wl + wh * 256)%N in
    if (w <? 1) || (4096 <? w) then Err 3 else
    let h := Z.of_N (hl + hh * 256)%N in
    let b := set_height (set_width b w) h in
    let b := set_layer b (layer_clear_lines (layer_set_size (b_layer b) w h)) in
    let font_size := if (fs =? 0)%N then 16%N else fs in
    if (32 <? font_size)%N then Err 4 else
    let ext := has_flag8 flags XBIN_FLAG_512CHAR_MODE in
    let b := set_modes b (if ext then 2 else 3)%N (if ext then 3 else 2)%N in
    let b := set_ice b (if has_flag8 flags XBIN_FLAG_NON_BLINK_MODE then Ice else Blink) in
    let* '(b, rest) :=
       if has_flag8 flags XBIN_FLAG_PALETTE then
         let* '(pb, rest) := take_slice (N.to_nat XBIN_PALETTE_LENGTH) rest in
         let* pal := from_63 pb in Ok (set_pal b pal, rest)
       else Ok (b, rest) in
    let* '(b, rest) :=
       if has_flag8 flags XBIN_FLAG_FONT then
         let fl := (N.to_nat font_size * 256)%nat in
         let* '(fb, rest) := take_slice fl rest in
         let* f0 := font_create_8 font_size fb in
         if ext then
           let* '(fb1, rest) := take_slice fl rest in
           let* f1 := font_create_8 font_size fb1 in
           Ok (set_fonts b [(0%N, font_named_default f0); (1%N, font_named_default f1)], rest)
         else Ok (set_fonts b [(0%N, font_named_default f0)], rest)
       else Ok (b, rest) in
    if has_flag8 flags XBIN_FLAG_COMPRESS then Err 98 else
    let L := xb_read_uncompressed (b_w b) (b_ice b) ext (b_layer b) 0 0 rest in
    Ok (crop_loaded_file (set_layer b L))
  | _ => Err 1
  end.
