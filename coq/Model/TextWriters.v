(* M-wr: the six text-format writers (executable definitions only).

   Rust item (all `OutputFormat::to_bytes`)                model
   ----------------------------------------------------   ---------------------------------------------------
   the shared row skeleton of every writer:                rows_loop emit_row eol w h st rows y
     while pos.y < height { line_length; while pos.x <
     line_length {..}; if pos.x < buf.get_width() &&
     pos.y + 1 < height { push eol }; pos.x = 0; pos.y += 1 }
   cell loop of PCBoard/Renegade/Ctrl-A/ASCII/ATASCII      cellwise emit w st r  (emit_cells over row_cells w r)
   src/formats/pcboard.rs   to_bytes                       pcb_emit / write PCB     (HEX_TABLE[..] out of range = panic = None)
   src/formats/renegade.rs  to_bytes                       ren_emit / write REN     (format!("|{:02}", n) = fmt02 n)
   src/formats/ctrla.rs     to_bytes                       ctrla_emit / write CTRLA
   src/formats/ascii.rs     to_bytes                       asc_emit / write ASC
   src/formats/atascii.rs   to_bytes                       ata_emit / write ATA     (`ch += 0x80` overflowing u8 = panic = None)
   src/formats/avatar.rs    to_bytes                       avt_scan / avt_row / write AVT  (run scanner, ^V^A attr, ^Y c n)
   options.screen_preparation                              prep_bytes
   `if ch.ch == '\0' { b' ' } else { ch.ch as u8 }`        out_ch
   Buffer::to_bytes with lossles_output = true             write   (the ColorOptimizer pass of lossles_output = false
                                                                    is not modelled)
   The source buffer is a list of rows of explicitly set cells (Model/TextBuf.v: row_get, line_length); `w` is
   buf.get_width(), the height is the number of rows (get_line_count of a buffer built with Buffer::new((w, h))).
   save_sauce = false; the palette has 16 entries and (ATASCII) buffer_type = Atascii, so the two `Err` exits
   are not taken. *)
From Coq Require Import NArith Bool List Arith.
From IE Require Import Lib.Tbl Gen.Codepage Gen.TextFmt Model.Attr Model.TextBuf.
Import ListNotations.
Local Open Scope N_scope.

Inductive format := PCB | AVT | CTRLA | REN | ASC | ATA.
Inductive prep := PrepNone | PrepHome | PrepClear.

Definition out_ch (c : cell) : N := if cch c =? 0 then 32 else cch c mod 256.

Definition memN (x : N) (l : list N) : bool := existsb (N.eqb x) l.

(* ---- shared skeleton ---- *)
Section RowLoop.
  Variable ST : Type.
  Variable emit_row : ST -> srow -> option (list N * ST * nat).
  Variable eol : list N.
  Fixpoint rows_loop (w h : nat) (st : ST) (rows : sbuf) (y : nat) : option (list N) :=
    match rows with
    | [] => Some []
    | r :: rest =>
      match emit_row st r with
      | None => None
      | Some (bs, st', x) =>
        match rows_loop w h st' rest (S y) with
        | None => None
        | Some t => Some (bs ++ (if (x <? w)%nat && (S y <? h)%nat then eol else []) ++ t)
        end
      end
    end.

  Variable emit : ST -> cell -> option (list N * ST).
  Fixpoint emit_cells (st : ST) (cs : list cell) : option (list N * ST) :=
    match cs with
    | [] => Some ([], st)
    | c :: t =>
      match emit st c with
      | None => None
      | Some (bs, st') =>
        match emit_cells st' t with
        | None => None
        | Some (bs', st'') => Some (bs ++ bs', st'')
        end
      end
    end.
  Definition cellwise (w : nat) (st : ST) (r : srow) : option (list N * ST * nat) :=
    match emit_cells st (row_cells w r) with
    | Some (bs, st') => Some (bs, st', line_length w r)
    | None => None
    end.
End RowLoop.

(* ---- PCBoard: @Xbf ---- *)
Definition hex_digit (v : N) : option N := nth_error HEX_TABLE (N.to_nat v).
Definition pcb_code (first : bool) (last a : TextAttribute) : option (list N) :=
  if first || negb (attr_eqb a last) then
    match hex_digit (background_color a), hex_digit (foreground_color a) with
    | Some hb, Some hf => Some [64; 88; hb; hf]
    | _, _ => None
    end
  else Some [].
Definition pcb_emit (st : bool * TextAttribute) (c : cell) : option (list N * (bool * TextAttribute)) :=
  let '(first, last) := st in
  match pcb_code first last (cat c) with
  | None => None
  | Some code => Some (code ++ [out_ch c], (false, if first || negb (attr_eqb (cat c) last) then cat c else last))
  end.

(* ---- Renegade: |nn ---- *)
Fixpoint dec_digits (fuel : nat) (n : N) (acc : list N) : list N :=
  match fuel with
  | O => acc
  | S f => let acc' := (48 + n mod 10) :: acc in if n <? 10 then acc' else dec_digits f (n / 10) acc'
  end.
Definition fmt02 (n : N) : list N := if n <? 10 then [48; 48 + n] else dec_digits 12 n [].
Definition ren_code (last a : TextAttribute) : option (list N) :=
  if negb (attr_eqb a last) then
    if 4294967296 <=? 16 + background_color a then None   (* u32 `16 + bg` overflows: panic *)
    else Some ((if negb (foreground_color a =? foreground_color last) then 124 :: fmt02 (foreground_color a) else []) ++
               (if negb (background_color a =? background_color last) then 124 :: fmt02 (16 + background_color a) else []))
  else Some [].
Definition ren_emit (last : TextAttribute) (c : cell) : option (list N * TextAttribute) :=
  match ren_code last (cat c) with
  | None => None
  | Some code => Some (code ++ [out_ch c], if negb (attr_eqb (cat c) last) then cat c else last)
  end.

(* ---- Ctrl-A ---- *)
Record ctrla_w := mkCW { cw_last : TextAttribute; cw_bold : bool; cw_high : bool; cw_blink : bool }.
Definition ctrla_code (st : ctrla_w) (a : TextAttribute) : list N :=
  let is_bold := 7 <? foreground_color a in
  let high_bg := 7 <? background_color a in
  let is_blink := is_blinking a in
  let reset := (negb is_bold && cw_bold st) || (negb high_bg && cw_high st) || (negb is_blink && cw_blink st) in
  let was_bold := if reset then false else cw_bold st in
  let was_high := if reset then false else cw_high st in
  let was_blink := if reset then false else cw_blink st in
  let last_fore := if reset then 7 else foreground_color (cw_last st) in
  let last_back := if reset then 0 else background_color (cw_last st) in
  (if reset then [1; 78] else []) ++
  (if is_bold && negb was_bold then [1; 72] else []) ++
  (if high_bg && negb was_high then [1; 69] else []) ++
  (if is_blink && negb was_blink then [1; 73] else []) ++
  (if negb (foreground_color a =? last_fore) then [1; tget CTRLA_FG (foreground_color a mod 8)] else []) ++
  (if negb (background_color a =? last_back) then [1; tget CTRLA_BG (background_color a mod 8)] else []).
Definition ctrla_emit (st : ctrla_w) (c : cell) : option (list N * ctrla_w) :=
  let a := cat c in
  if negb (attr_eqb a (cw_last st)) then
    Some (ctrla_code st a ++ [out_ch c], mkCW a (7 <? foreground_color a) (7 <? background_color a) (is_blinking a))
  else Some ([out_ch c], st).

(* ---- ASCII ---- *)
Definition asc_emit (st : unit) (c : cell) : option (list N * unit) := Some ([out_ch c], tt).

(* ---- ATASCII: inverse video is bit 7, control characters are quoted with ESC ---- *)
Definition ata_emit (st : unit) (c : cell) : option (list N * unit) :=
  let ch := cch c mod 256 in
  if (0 <? background_color (cat c)) && (256 <=? ch + ATA_INVERSE) then None
  else
    let ch := if 0 <? background_color (cat c) then ch + ATA_INVERSE else ch in
    Some ((if memN ch ATA_ESCAPED then [27] else []) ++ [ch], tt).

(* ---- Avatar ---- *)
Fixpoint avt_scan (fuel : nat) (w : nat) (r : srow) (x : nat) (rc : nat) : nat * nat :=
  match fuel with
  | O => (x, rc)
  | S f => if (x + AVT_LOOKAHEAD <? w)%nat && cell_eqb (row_get r x) (row_get r (S x))
           then avt_scan f w r (S x) (S rc) else (x, rc)
  end.

Definition avt_code (first : bool) (last a : TextAttribute) : list N :=
  if first || negb (attr_eqb a last) then [22; 1; as_u8 a Unlimited] else [].

Definition avt_body (c : cell) (rc : nat) : list N :=
  let chb := cch c mod 256 in
  let quoted := memN (cch c) AVT_QUOTED in
  if (1 <? rc)%nat then
    if (rc <? AVT_SHORT_RUN)%nat && negb quoted then repeat chb rc else [25; chb; N.of_nat rc mod 256]
  else if quoted then [25; chb; 1] else [out_ch c].

Fixpoint avt_row (fuel : nat) (w L : nat) (r : srow) (st : bool * TextAttribute) (x : nat) (acc : list N)
  : list N * (bool * TextAttribute) * nat :=
  match fuel with
  | O => (acc, st, x)
  | S f =>
    if (x <? L)%nat then
      let '(x1, rc) := avt_scan w w r x 1 in
      let c := row_get r x1 in
      let '(first, last) := st in
      let last' := if first || negb (attr_eqb (cat c) last) then cat c else last in
      avt_row f w L r (false, last') (S x1) (acc ++ avt_code first last (cat c) ++ avt_body c rc)
    else (acc, st, x)
  end.
Definition avt_emit_row (w : nat) (st : bool * TextAttribute) (r : srow) : option (list N * (bool * TextAttribute) * nat) :=
  Some (avt_row (S w) w (line_length w r) r st 0 []).

(* ---- screen preparation prefix ---- *)
Definition prep_bytes (f : format) (p : prep) : list N :=
  match f, p with
  | PCB, PrepClear => PCB_CLS
  | AVT, PrepClear => [AVT_W_CLR]
  | AVT, PrepHome => AVT_HOME
  | CTRLA, PrepHome => CTRLA_HOME
  | CTRLA, PrepClear => CTRLA_CLEAR
  | _, _ => []
  end.

Inductive wres := WOk (bs : list N) | WPanic.

Definition write_body (f : format) (w : nat) (b : sbuf) : option (list N) :=
  let h := length b in
  match f with
  | PCB => rows_loop _ (cellwise _ pcb_emit w) EOL_CRLF w h (true, default_attribute) b 0
  | REN => rows_loop _ (cellwise _ ren_emit w) EOL_CRLF w h default_attribute b 0
  | CTRLA => rows_loop _ (cellwise _ ctrla_emit w) EOL_CRLF w h (mkCW default_attribute false false false) b 0
  | ASC => rows_loop _ (cellwise _ asc_emit w) EOL_CRLF w h tt b 0
  | ATA => rows_loop _ (cellwise _ ata_emit w) [ATA_EOL] w h tt b 0
  | AVT => rows_loop _ (avt_emit_row w) EOL_CRLF w h (true, default_attribute) b 0
  end.

Definition write (f : format) (p : prep) (w : nat) (b : sbuf) : wres :=
  match write_body f w b with
  | Some bs => WOk (prep_bytes f p ++ bs)
  | None => WPanic
  end.
