(* Model of src/formats/color_optimization.rs (ColorOptimizer::optimize on the flattened buffer,
   generate_shape_map, get_shape) and of the character part of Buffer::render_to_rgba
   (src/buffers.rs), Palette::get_rgb (src/palette_handling.rs).
   A flattened buffer (what Buffer::flat_clone(false) builds: one layer, every cell stored) is a
   list of rows of cells.  Fonts are looked up through functions (page -> font, char -> glyph rows),
   which is what HashMap<usize,BitFont> / HashMap<char,Glyph> offer.  `.unwrap()` on a missing
   font page or glyph, glyph.data[cy] out of range and `128u8 >> cx` with cx >= 8 are explicit
   [Panic]s.  Executable definitions only. *)
From Coq Require Import ZArith NArith List Bool.
From IE Require Import Gen.Codepage Model.Attr.
Import ListNotations.
Local Open Scope N_scope.

Inductive res (A : Type) : Type := Ok (a : A) | Panic (site : N).
  (* sites: 1 font page missing (unwrap), 2 glyph missing in shape map (unwrap), 3 glyph row index, 4 shift overflow *)
Arguments Ok {A} _. Arguments Panic {A} _.
Definition bind {A B} (r : res A) (f : A -> res B) : res B :=
  match r with Ok a => f a | Panic s => Panic s end.
Notation "'do' x <- r ; k" := (bind r (fun x => k)) (at level 200, x pattern, r at level 100, k at level 200).

Record cell := mkCell { c_ch : N; c_attr : TextAttribute }.

Record font := mkFont { f_w : N; f_h : N; f_glyph : N -> option (list N) }.
Definition fonts := N -> option font.

Inductive shape := Whitespace | Block | Mixed.

(* u8::count_ones *)
Fixpoint popcount_pos (p : positive) : N :=
  match p with xH => 1 | xO q => popcount_pos q | xI q => 1 + popcount_pos q end.
Definition popcount (n : N) : N := match n with N0 => 0 | Npos p => popcount_pos p end.
Definition ones (g : list N) : N := fold_right (fun r a => popcount r + a) 0 g.

(* get_shape *)
Definition get_shape (f : font) (g : list N) : shape :=
  if ones g =? 0 then Whitespace else if ones g =? f_w f * f_h f then Block else Mixed.

Definition with_fg (a : TextAttribute) (c : N) := mkAttr (font_page a) c (background_color a) (attr a).
Definition with_bg (a : TextAttribute) (c : N) := mkAttr (font_page a) (foreground_color a) c (attr a).

(* body of the x-loop of ColorOptimizer::optimize for one cell; returns the new cell *)
Definition opt_cell (fs : fonts) (normalize : bool) (cur : TextAttribute) (c : cell) : res cell :=
  match fs (font_page (c_attr c)) with
  | None => Panic 1
  | Some f =>
    match f_glyph f (c_ch c) with
    | None => Panic 2
    | Some g =>
      match get_shape f g with
      | Whitespace =>
        let a := with_fg (c_attr c) (foreground_color cur) in
        let ch := if normalize && (match f_glyph f 32 with Some _ => true | None => false end) then 32 else c_ch c in
        Ok (mkCell ch a)
      | Block => Ok (mkCell (c_ch c) (with_bg (c_attr c) (background_color cur)))
      | Mixed => Ok c
      end
    end
  end.

(* one row, threading cur_attr; the attribute carried on is the one just written *)
Fixpoint opt_row (fs : fonts) (normalize : bool) (cur : TextAttribute) (row : list cell) : res (list cell * TextAttribute) :=
  match row with
  | [] => Ok ([], cur)
  | c :: t => do c' <- opt_cell fs normalize cur c;
              do rt <- opt_row fs normalize (c_attr c') t;
              Ok (c' :: fst rt, snd rt)
  end.

Fixpoint opt_rows (fs : fonts) (normalize : bool) (cur : TextAttribute) (rows : list (list cell)) : res (list (list cell)) :=
  match rows with
  | [] => Ok []
  | r :: t => do rr <- opt_row fs normalize cur r;
              do rest <- opt_rows fs normalize (snd rr) t;
              Ok (fst rr :: rest)
  end.

(* cur_attr starts as TextAttribute::default() for the layer *)
Definition optimize (fs : fonts) (normalize : bool) (rows : list (list cell)) : res (list (list cell)) :=
  opt_rows fs normalize default_attribute rows.

(* ---- rendering ---- *)
Definition rgb := (N * N * N)%type.
Definition pixel := (N * N * N * N)%type.

(* Palette::get_rgb *)
Definition get_rgb (pal : list rgb) (color : N) : rgb :=
  if N.testbit color 31 then ((N.shiftr color 16) mod 256, (N.shiftr color 8) mod 256, color mod 256)
  else match nth_error pal (N.to_nat color) with Some c => c | None => (0, 0, 0) end.

(* one pixel (cx, cy) of the character cell; [f0] is font 0, whose size is the cell size *)
Definition cell_pixel (pal : list rgb) (f : font) (f0 : font) (c : cell) (g : option (list N)) (cx cy : N) : res pixel :=
  match g with
  | None => Ok (0, 0, 0, 0)                       (* no glyph: the cell is left unpainted *)
  | Some rows =>
    if (cy <? N.min (f_h f) (f_h f0)) && (cx <? N.min (f_w f) (f_w f0)) then
      match nth_error rows (N.to_nat cy) with
      | None => Panic 3
      | Some r =>
        if 8 <=? cx then Panic 4 else
        let '(fr, fg, fb) := get_rgb pal (shown_fg (c_attr c)) in
        let '(br, bg, bb) := get_rgb pal (background_color (c_attr c)) in
        if N.land r (N.shiftr 128 cx) =? 0 then Ok (br, bg, bb, 255) else Ok (fr, fg, fb, 255)
      end
    else Ok (0, 0, 0, 0)
  end.

Fixpoint mapM {A B} (f : A -> res B) (l : list A) : res (list B) :=
  match l with [] => Ok [] | x :: t => do y <- f x; do ys <- mapM f t; Ok (y :: ys) end.

(* the f_h f0 x f_w f0 block of pixels of one cell *)
Definition cell_block (pal : list rgb) (fs : fonts) (f0 : font) (c : cell) : res (list (list pixel)) :=
  match fs (font_page (c_attr c)) with
  | None => Panic 1
  | Some f =>
    let g := f_glyph f (c_ch c) in
    mapM (fun cy => mapM (fun cx => cell_pixel pal f f0 c g cx cy) (map N.of_nat (seq 0 (N.to_nat (f_w f0)))))
         (map N.of_nat (seq 0 (N.to_nat (f_h f0))))
  end.

(* the rendered picture as a grid of cell blocks *)
Definition render (pal : list rgb) (fs : fonts) (rows : list (list cell)) : res (list (list (list (list pixel)))) :=
  match fs 0 with
  | None => Panic 1
  | Some f0 => mapM (fun row => mapM (cell_block pal fs f0) row) rows
  end.
