(* M-fmt: BIN (src/formats/bin.rs) and ArtWorx ADF (src/formats/artworx.rs); executable definitions only.

   Rust item                                   model
   -----------------------------------------   ----------------------------------------------------
   Bin::to_bytes   (data part)                 save_bin            (`ch.ch as u8` truncates: mod 256)
   write_sauce_info(SauceFileType::Bin) +      bin_sauce           (what the loader gets back from the record the writer
     SauceData::extract on that record                              appends: width = (w/2 as u8) << 1, height 25, ice flag;
                                                                    Err when w/2 > 255; the byte layout is property C11's)
   Bin::load_buffer                            load_bin / bin_loop / bin_decode
   Artworx::to_bytes (data part)               save_adf            (checks in source order)
   to_ega_data / from_ega_data                 to_ega_data / from_ega_data
   Artworx::load_buffer                        load_adf / adf_loop (AFTER the fix commit: the layer's pre-allocated rows
                                                                    are cleared before the cells are read)
   guess_font_name + BitFont::is_default       font_named_default  (a loaded font is called "Codepage 437 English" iff its
                                                                    checksum equals that of ANSI font page 0; modelled as
                                                                    glyph equality, i.e. assuming no CRC-32 collision)

   Loops.  `loop { for _ in 0..width { if o + 2 > len { return } …; pos.x += 1; o += 2 } pos.x = 0; pos.y += 1 }`
   is written as structural recursion over the byte list with the wrap `x + 1 >= width`; for width >= 1 the two are the same
   sequence of (position, cell) pairs; for width <= 0 the Rust loop never consumes input (Panic 9 here). *)
From Coq Require Import NArith ZArith Bool List.
From IE Require Import Lib.Tbl Lib.C05Lib Gen.Codepage Gen.Formats Model.Attr Model.C05Buf.
Import ListNotations.
Local Open Scope Z_scope.

(* error classes: 1.. in source order per function; panic sites: 1 from_63, 2/3 glyphs_from, 4 fonts[0], 5 font_table[&0],
   6 slice/index out of range, 9 non-termination *)

Definition save_rows (enc : cell -> list N) (rows : list (list cell)) : list N :=
  concat (map (fun r => concat (map enc r)) rows).

(* writers that reject characters above 255 in the middle of the cell loop *)
Fixpoint enc_cells_chk (enc : cell -> list N) (e : N) (cells : list cell) : res (list N) :=
  match cells with
  | [] => Ok []
  | c :: t => if (255 <? c_ch c)%N then Err e
              else let* r := enc_cells_chk enc e t in Ok (enc c ++ r)
  end.
Definition save_rows_chk (enc : cell -> list N) (e : N) (rows : list (list cell)) : res (list N) :=
  enc_cells_chk enc e (concat rows).

Definition is_ice (m : IceMode) : bool := match m with Ice => true | _ => false end.

(* one step of the sequential loaders: optionally grow the layer to the row, store the cell *)
Definition put (grow : bool) (L : layer) (x y : Z) (c : cell) : layer :=
  layer_set_char (if grow then layer_set_height L (y + 1) else L) x y c.

(* the loop shared by the BIN, ADF and uncompressed XBin loaders: (character, attribute) pairs stored left to right,
   top to bottom, wrapping at the buffer width; a trailing single byte is ignored *)
Fixpoint pair_loop (grow : bool) (dec : N -> N -> cell) (w : Z) (L : layer) (x y : Z) (data : list N) {struct data} : layer :=
  match data with
  | ch :: a :: rest =>
      let L' := put grow L x y (dec ch a) in
      if x + 1 >=? w then pair_loop grow dec w L' 0 (y + 1) rest else pair_loop grow dec w L' (x + 1) y rest
  | _ => L
  end.

(* ------------------------------------------------------------------ BIN *)
Definition enc_bin (m : IceMode) (c : cell) : list N := [(c_ch c mod 256)%N; as_u8 (c_attr c) m].
Definition save_bin (p : pic) : list N := save_rows (enc_bin (p_ice p)) (p_rows p).

Definition bin_sauce (p : pic) : res sauce :=
  let w := Z.quot (p_w p) 2 in
  if w >? 255 then Err 1 else Ok (mkSauce (2 * (w mod 256)) 25 (is_ice (p_ice p))).

Definition bin_decode (m : IceMode) (ch a : N) : cell :=
  let at0 := from_u8 a m in
  let at1 := if is_bold at0 then set_is_bold (with_fg at0 (foreground_color at0 + 8)%N) false else at0 in
  mkCell ch at1.

Definition bin_loop (w : Z) (m : IceMode) (L : layer) (x y : Z) (data : list N) : layer :=
  pair_loop true (bin_decode m) w L x y data.

Definition load_bin (data : list N) (s : option sauce) : res buffer :=
  let b := set_sauce (buffer_new 160 25) s in
  if b_w b <=? 0 then Panic 9
  else let L := bin_loop (b_w b) (b_ice b) (b_layer b) 0 0 data in
       Ok (set_height (set_layer b L) (l_h L)).

(* ------------------------------------------------------------------ ADF *)
Fixpoint write_at (offs : list N) (cols : list rgb) (ega : list rgb) : list rgb :=
  match offs, cols with
  | o :: os, c :: cs => write_at os cs (updf ega (N.to_nat o) (fun _ => c))
  | _, _ => ega
  end.
Definition to_ega_data (pal : list rgb) : list N :=
  as_vec_63 (write_at EGA_COLOR_OFFSETS pal EGA_PALETTE).

Fixpoint read_at (offs : list N) (bytes : list N) : res (list rgb) :=
  match offs with
  | [] => Ok []
  | i :: os =>
      let o := (3 * N.to_nat i)%nat in
      match nth_error bytes o, nth_error bytes (o + 1), nth_error bytes (o + 2) with
      | Some r, Some g, Some b => let* t := read_at os bytes in Ok ((expand6 r, expand6 g, expand6 b) :: t)
      | _, _, _ => Panic 6
      end
  end.
Definition from_ega_data (bytes : list N) : res (list rgb) := read_at EGA_COLOR_OFFSETS bytes.

Definition enc_adf (c : cell) : list N := [c_ch c; as_u8 (c_attr c) Ice].

Definition font0_height (fs : list (N * font)) : res N :=
  match get_font fs 0 with Some f => Ok (f_h f) | None => Panic 5 end.

Definition save_adf (p : pic) : res (list N) :=
  if negb (is_ice (p_ice p)) then Err 1 else
  if negb (p_w p =? 80) then Err 2 else
  if negb (length (p_pal p) =? 16)%nat then Err 3 else
  let fonts := used_pages (p_rows p) in
  if (1 <? length fonts)%nat then Err 4 else
  let* fh := font0_height (p_fonts p) in
  if negb (fh =? 16)%N then Err 5 else
  match fonts with
  | [] => Panic 4
  | f0 :: _ =>
    match get_font (p_fonts p) f0 with
    | None => Err 6
    | Some font =>
      let* cells := save_rows_chk enc_adf 7 (p_rows p) in
      Ok ([ADF_VERSION] ++ to_ega_data (p_pal p) ++ convert_to_u8_data font ++ cells)
    end
  end.

Fixpoint glyphs_eqb (a b : list (list N)) : bool :=
  match a, b with
  | [], [] => true
  | x :: a', y :: b' => (if list_eq_dec N.eq_dec x y then true else false) && glyphs_eqb a' b'
  | _, _ => false
  end.
Definition font_named_default (f : font) : font :=
  mkFont (f_h f) (f_len f) (glyphs_eqb (f_glyphs f) (f_glyphs default_font)) (f_glyphs f).

Definition adf_decode (ch a : N) : cell := mkCell ch (from_u8 a Ice).
Definition adf_loop (w : Z) (L : layer) (x y : Z) (data : list N) : layer :=
  pair_loop true adf_decode w L x y data.

Definition load_adf (data : list N) (s : option sauce) : res buffer :=
  let b := set_sauce (buffer_new 80 25) s in
  let b := set_modes (set_ice (set_width b 80) Ice) 3 2 in
  if (length data <? N.to_nat ADF_HEADER_LENGTH)%nat then Err 1 else
  match data with
  | [] => Err 1
  | version :: rest =>
    if negb (version =? ADF_VERSION)%N then Err 2 else
    let* pal := from_ega_data (firstn 192 rest) in
    let* font := font_create_8 16 (firstn 4096 (skipn 192 rest)) in
    let b := set_fonts (set_pal b pal) [(0%N, font_named_default font)] in
    let L := adf_loop (b_w b) (layer_clear_lines (b_layer b)) 0 0 (skipn 4096 (skipn 192 rest)) in
    Ok (crop_loaded_file (set_layer b L))
  end.
