(* Model entry points for the PETSCII part of stage C of C01 (the other emulations use Run/RunC09.v).
   run_term_pet w h bytes : the per-character observation of harness kind `term` (see Run/RunC09.v) for emulation 6
   run_c01_pet  w h bytes : the outcome classes of harness kind `c01run` for emulation 6 *)
From Coq Require Import ZArith NArith List Bool.
From IE Require Import Model.TermCore Model.AnsiTok Model.Emu Model.Petscii Run.RunC09.
Import ListNotations.
Local Open Scope Z_scope.

Fixpoint run_obs_pet (m : mach) (cs : list Z) : list Z :=
  match cs with
  | [] => final_obs (mt m)
  | c :: r => match petscii_step m c with
              | MOk m1 => obs 0 (mt m1) ++ run_obs_pet m1 r
              | MErr m1 => obs 1 (mt m1) ++ run_obs_pet m1 r
              | MPanic s => [-1; s]
              end
  end.
Definition run_term_pet (w h : Z) (cs : list Z) : list Z := run_obs_pet (init 0 false w h) cs.

Fixpoint run_cls_pet (m : mach) (cs : list Z) (i nok nerr ferr : Z) : list Z :=
  match cs with
  | [] => let t := mt m in [nok; nerr; ferr; cx t; cy t; bw t; bh t; tw t; th t; zlen (lines t)]
  | c :: r => match petscii_step m c with
              | MOk m1 => run_cls_pet m1 r (i + 1) (nok + 1) nerr ferr
              | MErr m1 => run_cls_pet m1 r (i + 1) nok (nerr + 1) (if ferr <? 0 then i else ferr)
              | MPanic s => [-1; s]
              end
  end.
Definition run_c01_pet (w h : Z) (cs : list Z) : list Z := run_cls_pet (init 0 false w h) cs 0 0 0 (-1).
