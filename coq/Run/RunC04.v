(* Model entry points evaluated by stage C for C04; they mirror the case kinds of harness/src/c04.rs.
   bits: 1 compress, 2 use_cursor_forward, 4 use_repeat_sequences, 8 preserve_line_length, 16 longer_terminal_output,
         32 use_extended_colors, 64 save_sauce, 128 lossles_output, 256 normalize_whitespaces
   prep 0/1/2, cc 0/1/2, ice = IceMode::to_byte, pal = the complete palette, cells = (ch, fg, bg, attr) row-major. *)
From Coq Require Import NArith ZArith Bool List.
From IE Require Import Lib.Tbl Gen.Codepage Gen.AnsiConsts Model.Attr Model.AnsiWriter Model.AnsiParser.
Import ListNotations.
Local Open Scope N_scope.

Definition mk_opts (bits prep cc : N) : SaveOptions :=
  mkOpts (N.testbit bits 0) (N.testbit bits 1) (N.testbit bits 2) (N.testbit bits 3) (N.testbit bits 4)
         (N.testbit bits 5) (N.testbit bits 6) (N.testbit bits 7) (N.testbit bits 8) (prep_of prep) (cc_of cc).

Definition mk_cell (c : N * N * N * N) : cell :=
  let '(ch, fg, bg, fl) := c in (ch, mkAttr 0 fg bg fl).

Fixpoint chunk (fuel : nat) (w : nat) (l : list cell) : list (list cell) :=
  match fuel with
  | O => []
  | S f => match l with [] => [] | _ => firstn w l :: chunk f w (skipn w l) end
  end.
Definition mk_rows (w h : N) (cells : list (N * N * N * N)) : list (list cell) :=
  chunk (N.to_nat h) (N.to_nat w) (map mk_cell cells).

Definition the_pal (pal : list (N * N * N)) : palette := match pal with [] => DOS_DEFAULT_PALETTE | _ => pal end.

Definition run_save (bits prep cc ice w h : N) (pal : list (N * N * N)) (cells : list (N * N * N * N)) : Saved :=
  save (mk_opts bits prep cc) (ice_mode_of_byte ice) (the_pal pal) w h (mk_rows w h cells).

Definition run_wr (bits prep cc ice w h : N) (pal : list (N * N * N)) (cells : list (N * N * N * N)) : list N :=
  sv_bytes (run_save bits prep cc ice w h pal cells).

Definition pack (c : rgb) : Z := let '(r, g, b) := c in Z.of_N (65536 * r + 256 * g + b).
Definition zb (b : bool) : Z := if b then 1%Z else 0%Z.

Fixpoint zrange (n : nat) (start : Z) : list Z :=
  match n with O => [] | S k => start :: zrange k (start + 1)%Z end.

Definition obs_loaded (b : Loaded) : list Z :=
  if ld_unmodelled b then [(-1)%Z] else
  [ld_width b; ld_height b; (if ld_ice b then 2 else 0)%Z] ++
  flat_map (fun y => flat_map (fun x =>
      let '(ch, fg, bg, bl) := shown_cell (ld_pal b) (loaded_cell b x y) in
      [Z.of_N ch; pack fg; pack bg; zb bl]) (zrange (Z.to_nat (ld_width b)) 0%Z))
    (zrange (Z.to_nat (ld_height b)) 0%Z).

(* kind c04rt without the byte prefix (the driver compares the bytes separately through run_wr) *)
Definition run_rt (bits prep cc ice w h : N) (pal : list (N * N * N)) (cells : list (N * N * N * N)) : list Z :=
  let s := run_save bits prep cc ice w h pal cells in
  obs_loaded (load (sv_bytes s) (sv_sauce s)).

Definition run_ld (bytes : list N) : list Z := obs_loaded (load bytes None).

(* glyph shapes of the default font: 0 whitespace, 1 block, 2 mixed *)
Definition run_shapes : list N :=
  map (fun ch => match glyph_shape ch with Whitespace => 0 | Block => 1 | Mixed => 2 end) (nrange 256).

(* parse_next_number on a digit string *)
Definition run_number (digits : list N) : list Z := [fold_left parse_next_number digits 0%Z].

(* kind c04rt: [number of bytes; the bytes; the observation of the reloaded buffer] *)
Definition run_rt_full (bits prep cc ice w h : N) (pal : list (N * N * N)) (cells : list (N * N * N * N)) : list Z :=
  let s := run_save bits prep cc ice w h pal cells in
  Z.of_nat (length (sv_bytes s)) :: map Z.of_N (sv_bytes s) ++ obs_loaded (load (sv_bytes s) (sv_sauce s)).
