(* Model entry point for stage C of C08, full document (extension).
   run_xtrace env doc steps : list Z
     env   = (flips, dos, ansi, sfonts, srest, rot): flip maps (id, flip-x, flip-y) of the fonts the cases use, DOS_DEFAULT_PALETTE (16 rgb numbers), the font id of
             ANSI font page k (0 = unsupported), the ids of the SAUCE fonts of the harness, the `rest` numbers of its SAUCE
             records 0..3 (and of record 0 with use_ice), the character map of rotate_layer — all read from the implementation by the probes `c08flipf` / `c08probe`
     doc   = (dspec of Run/RunC08.v, ice, palette mode, font mode, sauce flag (0 none, 1 buffer size, 2 another size),
              extra font slots (slot, ansi page), caret font page)
   Output: per state the block of Run/RunC08.v followed by
     ice palmode fontmode caret_font_page  npal rgb*  nfonts (slot id)*  (0 | 1 w h rest)  (0 | 1 ax ay lx ly addtype)  one mask word per buffer row
   (harness/src/c08.rs::xraw_obs); a step that does not report Ok ends the trace with its code (1 Err, 2 Panic). *)
From Coq Require Import List ZArith NArith Bool Arith.
From IE Require Import Gen.UndoGen Model.Undo Model.EditModel Model.EditOps Model.DocModel Model.DocOps Model.ScrollOps Run.RunC08.
Import ListNotations.
Local Open Scope Z_scope.

Definition xenv := (list (Z * list Z * list Z) * list Z * list Z * list Z * list Z * list Z)%type.
(* flip maps per font id: (id, flip-x map, flip-y map) *)
Fixpoint find_flip (l : list (Z * list Z * list Z)) (id : N) : option (list Z * list Z) :=
  match l with
  | [] => None
  | (k, fx, fy) :: t => if (Z.to_N k =? id)%N then Some (fx, fy) else find_flip t id
  end.
Definition tab_of (tbl : list Z) : N -> N := fun ch => match nth_error tbl (N.to_nat ch) with Some v => Z.to_N v | None => ch end.
Definition env_ftx (v : xenv) (id : N) : option (N -> N) :=
  let '(fl, _, _, _, _, _) := v in match find_flip fl id with Some (fx, _) => Some (tab_of fx) | None => None end.
Definition env_fty (v : xenv) (id : N) : option (N -> N) :=
  let '(fl, _, _, _, _, _) := v in match find_flip fl id with Some (_, fy) => Some (tab_of fy) | None => None end.
Definition env_dos (v : xenv) : palette := let '(_, dos, _, _, _, _) := v in map Z.to_N dos.
(* ROTATE_TABLE is applied to `ch as u8` *)
Definition env_rot (v : xenv) : N -> N := let '(_, _, _, _, _, rot) := v in fun ch => if (ch <? 256)%N then tab_of rot ch else tab_of rot (ch mod 256)%N.
Definition env_ansi (v : xenv) (page : Z) : option N :=
  let '(_, _, ansi, _, _, _) := v in
  if page <? 0 then None else match nth_error ansi (Z.to_nat page) with Some 0 => None | Some id => Some (Z.to_N id) | None => None end.
Definition env_sfont (v : xenv) (i : Z) : option N :=
  let '(_, _, _, sf, _, _) := v in
  if i <? 0 then None else match nth_error sf (Z.to_nat i) with Some 0 => None | Some id => Some (Z.to_N id) | None => None end.
Definition env_srest (v : xenv) (k : Z) : N :=
  let '(_, _, _, _, sr, _) := v in match nth_error sr (Z.to_nat k) with Some r => Z.to_N r | None => 0%N end.

Definition xdspec := (dspec * Z * Z * Z * Z * list (Z * Z) * Z)%type.

Definition mk_xdoc (v : xenv) (d : xdspec) : XE :=
  let '(bd, ice, pm, fm, sflag, extra, cfp) := d in
  let b := cur (mk_doc bd) in
  let f0 : fonts := match env_ansi v 0 with Some id => [(0%N, id)] | None => [] end in
  let fs := fold_left (fun f '(slot, page) => match env_ansi v page with Some id => fset (Z.to_N slot) id f | None => f end) extra f0 in
  let sa := if sflag =? 0 then None
            else let r := env_srest v (if ice =? 2 then 4 else 0) in      (* harness build: use_ice = (ice mode is Ice) *)
                 if sflag =? 1 then Some (mkSauce (bw b) (bh b) r) else Some (mkSauce (bw b + 3) (bh b + 1) r) in
  mkEs (mkX b (env_dos v) fs sa (Z.to_N ice) (Z.to_N pm) (Z.to_N fm) (Z.to_N cfp) (mkMask (bw b) (bh b) [])) [] [].

Inductive xstep :=
| XSU | XSR
| XL (s : step)
| XResize (w h : Z)
| XPal (cols : list Z)
| XSauce (k w h : Z)
| XFontPage (p : Z)
| XSetFontA (p : Z) | XSetFontS (i : Z) | XAddFontA (p : Z)
| XRemFont (s : Z) | XFontSlot (a b : Z) | XReplFont (a b : Z)
| XIce (m : Z) | XPalMode (m : Z)
| XMerge (n : Z) | XAnchor | XStamp | XPaste (x y w h : Z) (cs : list Z)
| XCrop | XCropRect (x y w h : Z) | XResizeL (w h : Z)
| XAddMask | XInverseSel | XEnumSel (k : Z) | XClrSel | XErase
| XCenterLine | XJLineLeft | XJLineRight | XEraseRow | XEraseRowS | XEraseRowE | XEraseCol | XEraseColS | XEraseColE
| XRotateL | XDelRow | XInsRow | XDelCol | XInsCol | XScrUp | XScrDown | XScrLeft | XScrRight.

(* the callback of the harness operation `enumsel k` *)
Definition enum_cb (k : Z) (x y : Z) (c : cell) (_ : bool) : option bool :=
  if (c_ch c =? Z.to_N k)%N then Some true else if (x + y) mod 3 =? 0 then Some false else None.

Definition run_xstep (v : xenv) (s : xstep) (e : XE) : res XE :=
  match s with
  | XSU => undo xop_undo e
  | XSR => redo xop_redo e
  | XL SFlipx => x_flip_x (env_ftx v) e
  | XL SFlipy => x_flip_y (env_fty v) e
  | XL s => lift_edit (run_step [] [] s) e
  | XResize w h => x_resize_buffer w h e
  | XPal cols => x_switch_to_palette (map Z.to_N cols) e
  | XSauce k w h => x_update_sauce_data (if k =? 0 then None else Some (mkSauce w h (env_srest v k))) e
  | XFontPage p => x_switch_to_font_page (Z.to_N p) e
  | XSetFontA p => x_set_font false (env_ansi v p) e
  | XSetFontS i => x_set_font true (env_sfont v i) e
  | XAddFontA p => x_add_ansi_font (Z.to_N p) (env_ansi v p) e
  | XRemFont s => x_remove_font (Z.to_N s) e
  | XFontSlot a b => x_change_font_slot (Z.to_N a) (Z.to_N b) e
  | XReplFont a b => x_replace_font_usage (Z.to_N a) (Z.to_N b) e
  | XIce m => x_set_ice_mode (Z.to_N m) e
  | XPalMode m => x_set_palette_mode (env_dos v) (Z.to_N m) e
  | XMerge n => x_merge_layer_down (Z.to_nat n) e
  | XAnchor => x_anchor_layer e
  | XStamp => lift_edit api_stamp_layer_down e
  | XPaste x y w h cs => x_paste_clipboard_data (paste_layer x y w h (map dec_cell cs)) e
  | XCrop => x_crop e
  | XCropRect x y w h => x_crop_rect (x, y, w, h) e
  | XResizeL w h => x_resize_buffer_layers w h e
  | XAddMask => x_add_selection_to_mask e
  | XInverseSel => x_inverse_selection e
  | XEnumSel k => x_enumerate_selections (enum_cb k) e
  | XClrSel => x_clear_selection e
  | XErase => x_erase_selection e
  | XCenterLine => x_center_line e
  | XJLineLeft => x_justify_line_left e
  | XJLineRight => x_justify_line_right e
  | XEraseRow => x_erase_row e
  | XEraseRowS => x_erase_row_to_start e
  | XEraseRowE => x_erase_row_to_end e
  | XEraseCol => x_erase_column e
  | XEraseColS => x_erase_column_to_start e
  | XEraseColE => x_erase_column_to_end e
  | XRotateL => x_rotate_layer (env_rot v) e
  | XDelRow => x_delete_row e
  | XInsRow => x_insert_row e
  | XDelCol => x_delete_column e
  | XInsCol => x_insert_column e
  | XScrUp => x_scroll_area_ud true e
  | XScrDown => x_scroll_area_ud false e
  | XScrLeft => lift_edit (api_scroll_area_lr true) e
  | XScrRight => lift_edit (api_scroll_area_lr false) e
  end.

Definition obs_fonts (f : fonts) : list Z :=
  let l := flat_map (fun k => match fget (N.of_nat k) f with Some id => [Z.of_nat k; Z.of_N id] | None => [] end) (seq 0 300) in
  Z.of_nat (Nat.div (length l) 2) :: l.

Definition obs_sauce (d : option sauce) : list Z :=
  match d with None => [0] | Some sa => [1; sa_w sa; sa_h sa; Z.of_N (sa_rest sa)] end.

Definition obs_sel (s : option selection) : list Z :=
  match s with None => [0] | Some sl => [1; s_ax sl; s_ay sl; s_lx sl; s_ly sl; Z.of_N (s_add sl)] end.

Definition obs_mask (m : mask) (w h : Z) : list Z :=
  map (fun y => fold_left (fun acc x => if mask_get m x y then acc + Z.shiftl 1 x else acc) (zrange (Z.min (Z.max w 0) 60)) 0)
      (zrange (Z.min (Z.max h 0) 200)).

Definition xobs (e : XE) : list Z :=
  let s := cur e in
  obs (mkEs (xb s) (map (fun _ => Leaf (URaise 0)) (ustk e)) (map (fun _ => Leaf (URaise 0)) (rstk e)))
  ++ [Z.of_N (x_ice s); Z.of_N (x_palmode s); Z.of_N (x_fontmode s); Z.of_N (x_cfp s)]
  ++ Z.of_nat (length (x_pal s)) :: map Z.of_N (x_pal s)
  ++ obs_fonts (x_fonts s) ++ obs_sauce (x_sauce s) ++ obs_sel (sel (xb s)) ++ obs_mask (x_mask s) (bw (xb s)) (bh (xb s)).

Fixpoint run_xsteps (v : xenv) (l : list xstep) (e : XE) : list Z :=
  match l with
  | [] => []
  | s :: t =>
    match run_xstep v s e with
    | Ok e' => xobs e' ++ run_xsteps v t e'
    | Err 99 => [9]                   (* outside the model (see Model/DocOps.v): the case is skipped *)
    | Err _ => [1]
    | Panic _ => [2]
    end
  end.

Definition run_xtrace (v : xenv) (d : xdspec) (l : list xstep) : list Z :=
  let e := mk_xdoc v d in xobs e ++ run_xsteps v l e.
