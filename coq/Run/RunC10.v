(* Model entry points evaluated by stage C for C10.  They mirror the case kinds of harness/src/c10.rs and return
   list Z.  Status codes: 0 Done, 1 Rejected, 2 Panic, 3 Diverge. *)
From Coq Require Import NArith ZArith Bool List.
From IE Require Import Lib.Tbl Model.Unicode Gen.TextSitesGen Model.TextSites.
Import ListNotations.
Local Open Scope Z_scope.

Definition zn (l : list N) : list Z := map Z.of_N l.
Definition status {A} (o : outcome A) : Z :=
  match o with Done _ => 0 | Rejected => 1 | Panic => 2 | Diverge => 3 end.
Definition flat_events (ev : list event) : list Z :=
  flat_map (fun e => [fst (fst e); snd (fst e); Z.of_N (snd e)]) ev.

(* c10utf8: [from_utf8 ok; from_utf8_lossy bytes] *)
Definition run_utf8 (bs : list N) : list Z :=
  (if utf8_valid bs then 1 else 0) :: zn (utf8_lossy bs).

(* c10char *)
Definition run_char (x : N) : list Z :=
  match char_from_u32 x with Some c => [1; Z.of_N c] | None => [0] end.

(* c10fill: [errors; first non-space char; non-space cells; min x; min y; max x; max y] *)
Definition run_fill (text : list Z) (rows cols : Z) : list Z :=
  match fill conv_fill rows cols (csi_numbers text) with
  | Done r =>
    let wd := Z.max 0 (f_right r - f_left r + 1) in
    let ht := Z.max 0 (f_bottom r - f_top r + 1) in
    if (f_char r =? 32)%N || (wd * ht =? 0) then [0; 32; 0; -1; -1; -1; -1]
    else [0; Z.of_N (f_char r); wd * ht; f_left r; f_top r; f_right r; f_bottom r]
  | _ => [1; 32; 0; -1; -1; -1; -1]
  end.

(* the same through the event list (used on small rectangles to tie fill_events) *)
Definition run_fill_events (text : list Z) (rows cols : Z) : list Z :=
  match fill conv_fill rows cols (csi_numbers text) with
  | Done r => 0 :: flat_events (fill_events r)
  | _ => [1]
  end.

(* c10clip: [status; w; h; events] *)
Definition run_clip (data : list N) : list Z :=
  match clipboard conv_clipboard data with
  | Done r => [0; Z.of_N (c_width r); Z.of_N (c_height r)] ++ flat_events (c_cells r)
  | o => [status o]
  end.

(* c10clipsweep: all 2^16 character values in a 1x1 clipboard layer:
   [accepted; rejected; first rejected; last rejected; accepted whose stored char is not the value] *)
Definition clip_one (v : N) : outcome clip_result :=
  clipboard conv_clipboard ([0;0;0;0;0;0;0;0;0;1;0;0;0;1;0;0;0] ++ [v mod 256; v / 256; 0;0;0;0;0;0;0;0;7;0;0;0])%N.
Definition run_clip_sweep : list Z :=
  let rs := map (fun v => (v, clip_one v)) (nrange 65536) in
  let rej := filter (fun p => match snd p with Rejected => true | _ => false end) rs in
  let acc := filter (fun p => match snd p with Done _ => true | _ => false end) rs in
  [Z.of_nat (length acc); Z.of_nat (length rej);
   match rej with p :: _ => Z.of_N (fst p) | [] => -1 end;
   match rev rej with p :: _ => Z.of_N (fst p) | [] => -1 end;
   Z.of_nat (length (filter (fun p => match snd p with
                                      | Done r => match c_cells r with [(0, 0, c)] => negb (c =? fst p)%N | _ => true end
                                      | _ => false end) acc))].

(* c10icy, one LAYER_n payload: [status; title length; title bytes; image; w; h; line count; events] *)
Definition run_icy_layer (bytes : list N) : list Z :=
  match icy_layer str_icy conv_icy_first bytes with
  | Done r => [0; Z.of_nat (length (l_title r))] ++ zn (l_title r)
              ++ [if l_image r then 1 else 0; l_width r; l_height r; line_count (l_cells r)] ++ flat_events (l_cells r)
  | o => [status o]
  end.

(* LAYER_n payload followed by its LAYER_n~1 payload: the events of both *)
Definition run_icy_two (first cont : list N) : list Z :=
  match icy_layer str_icy conv_icy_first first with
  | Done r =>
    if l_image r then [4] else
    match icy_continue conv_icy_cont (l_width r) (l_height r) (line_count (l_cells r)) cont with
    | Done ev2 => [0; Z.of_nat (length (l_title r))] ++ zn (l_title r)
                  ++ [0; l_width r; l_height r; line_count (l_cells r ++ ev2)] ++ flat_events (l_cells r ++ ev2)
    | o => [status o]
    end
  | o => [status o]
  end.

(* FONT_n payload: name + font bytes: the name *)
Definition run_icy_string (bytes : list N) : list Z :=
  match read_string str_icy bytes with
  | Done (s, _) => 0 :: zn s
  | o => [status o]
  end.

(* c10font: test data of harness glyph_data: glyph i = its index in three little-endian bytes, then 0xA5; fonts lower
   than 3 rows get 1 + i mod 255 as their first byte instead *)
Definition glyph_bytes (h : nat) (i : N) : list N :=
  map (fun j => match j with
                | O => if (h <? 3)%nat then 1 + i mod 255 else i mod 256
                | 1%nat => (i / 256) mod 256
                | 2%nat => (i / 65536) mod 256
                | _ => 165 end)%N (seq 0 h).
Definition glyph_data (n : N) (h : nat) : list N := flat_map (glyph_bytes h) (nrange n).
Definition glyph_index (g : list N) : N :=
  (byte_at g 0 + 256 * byte_at g 1 + 65536 * byte_at g 2)%N.

Definition u32le (x : N) : list N := [x mod 256; (x / 256) mod 256; (x / 65536) mod 256; (x / 16777216) mod 256]%N.

(* the PSF2 file harness `font("psf2", n, h, declared)` builds: the header announces `declared` (or n) glyphs, of
   charsize h when that matches the data and of charsize 0 (and then no data) otherwise *)
Definition psf2_file (n h : N) (decl : Z) : list N :=
  let data := glyph_data n (N.to_nat h) in
  let len := if decl <? 0 then n else Z.to_N decl in
  let charsize := if (len * h =? N.of_nat (length data))%N then h else 0%N in
  u32le 0x864ab572 ++ u32le 0 ++ u32le 32 ++ u32le 0 ++ u32le len ++ u32le charsize ++ u32le h ++ u32le 8
  ++ (if (charsize =? 0)%N then [] else data).

(* mode: 0 psf2, 1 psf1, 2 plain (all through BitFont::from_bytes), 3 create_8 / from_basic *)
Definition font_case (mode n h : N) (decl : Z) : outcome font_result :=
  let hn := N.to_nat h in
  match mode with
  | 0%N => font_from_bytes conv_glyphs (psf2_file n h decl)
  | 1%N => font_from_bytes conv_glyphs ([0x36; 0x04; 0; h mod 256]%N ++ glyph_data n hn)
  | 2%N => font_from_bytes conv_glyphs (glyph_data n hn)
  | _ => font_create conv_glyphs (h mod 256)%N (glyph_data n hn)
  end.

(* how many of the (ascending) looked-up chars are keys of the (ascending, as inserted) glyph map *)
Fixpoint inter_count (ks : list N) : list N -> nat :=
  match ks with
  | [] => fun _ => O
  | k :: ks' =>
    fix aux (ls : list N) : nat :=
      match ls with
      | [] => O
      | l :: ls' => match (k ?= l)%N with
                    | Eq => S (inter_count ks' ls')
                    | Lt => inter_count ks' ls
                    | Gt => aux ls'
                    end
      end
  end.
(* slots of a `0..len` output loop whose char is not a key (written as an empty glyph) *)
Definition missing (conv : N -> option N) (keys : list N) (len : N) : Z :=
  Z.of_N len - Z.of_nat (inter_count keys (lookup_keys conv len)).

(* [status; length; glyph count; keys whose glyph is not the chunk of that index; max key; sum of keys mod 2^31;
    slots of convert_to_u8_data not equal to the input chunk; same for to_psf2_bytes; chars looked up by the checksum] *)
Definition font_obs (h : N) (f : font_result) : list Z :=
  let g := ft_glyphs f in
  let keys := map fst g in
  [0; Z.of_N (ft_length f); Z.of_nat (length g);
   if (3 <=? h)%N then Z.of_nat (length (filter (fun kg => negb (glyph_index (snd kg) =? fst kg)%N) g)) else 0;
   fold_left (fun m k => Z.max m (Z.of_N k)) keys (-1);
   fold_left (fun s k => (s + Z.of_N k) mod 2147483648) keys 0;
   missing conv_u8data keys (ft_length f); missing conv_psf2 keys (ft_length f);
   Z.of_nat (length (lookup_keys conv_checksum (ft_length f)))].

Definition run_font (mode n h : N) (decl : Z) : list Z :=
  match font_case mode n h decl with
  | Done f => font_obs h f
  | o => [status o]
  end.

(* c10fontbytes: arbitrary bytes through from_bytes (h < 0) or create_8 / from_basic with height h:
   [status; length; glyph count; max key; sum of keys mod 2^31; sum over the glyphs of
    (key + 1) * (1 + sum_j (j + 1) * byte_j) mod 2^31] *)
Definition glyph_sum (g : list N) : Z :=
  fst (fold_left (fun sj b => (fst sj + snd sj * Z.of_N b, snd sj + 1)) g (1, 1)).
Definition run_font_bytes (h : Z) (data : list N) : list Z :=
  match (if h <? 0 then font_from_bytes conv_glyphs data else font_create conv_glyphs (Z.to_N h) data) with
  | Done f =>
    let g := ft_glyphs f in
    [0; Z.of_N (ft_length f); Z.of_nat (length g);
     fold_left (fun m kg => Z.max m (Z.of_N (fst kg))) g (-1);
     fold_left (fun s kg => (s + Z.of_N (fst kg)) mod 2147483648) g 0;
     fold_left (fun s kg => (s + (Z.of_N (fst kg) + 1) * glyph_sum (snd kg)) mod 2147483648) g 0]
  | o => [status o]
  end.

(* c10hexmacro: [status; chars of the macro] *)
Definition run_hexmacro (cs : list N) : list Z :=
  match hexmacro conv_hexmacro cs with
  | Done body => 0 :: zn body
  | o => [status o]
  end.
