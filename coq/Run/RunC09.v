(* Model entry points for stage C of C09 and C01.
   run_term e music w h bytes : per character
       cls cx cy bw bh lw lh tw th nlines mt mb ml mr flags ntabs rowsum tabsum
     (cls 0 = action, 1 = error value), then -7 nlines len_0 .. -8 ntabs tab_0 ..  — the format of harness kind `term`.
     A panic ends the list with -1 site.
   emulation numbers as in the harness: 0 ANSI 1 Avatar 2 PCBoard 3 Ctrl-A 4 Renegade 5 ASCII 7 ATASCII 8 Viewdata 9 Mode 7
   music: bits 0-1 MusicOption, bit 2 bs_is_ctrl_char (ANSI only). *)
From Coq Require Import ZArith NArith List Bool.
From IE Require Import Model.TermCore Model.AnsiTok Model.Emu.
Import ListNotations.
Local Open Scope Z_scope.

Definition emu_of (n : Z) : emu :=
  if n =? 0 then EAnsi else if n =? 1 then EAvatar else if n =? 2 then EPcb else if n =? 3 then ECtrlA
  else if n =? 4 then ERenegade else if n =? 5 then EAscii else if n =? 7 then EAtascii else if n =? 8 then EViewdata else EMode7.

Definition wsum (f : Z -> Z) (l : list Z) : Z :=
  snd (fold_left (fun '(i, acc) x => (i + 1, (acc + i * f x) mod 1000003)) l (1, 0)).

Definition obs (cls : Z) (t : term) : list Z :=
  let '(mt_, mb_) := match mtb t with Some (a, b) => (a, b) | None => (-9, -9) end in
  let '(ml_, mr_) := match mlr t with Some (a, b) => (a, b) | None => (-9, -9) end in
  let flags := (if origin_m t then 1 else 0) + (if awrap t then 2 else 0) + (if ins t then 4 else 0) + (if declr t then 8 else 0) in
  [cls; cx t; cy t; bw t; bh t; lw t; lh t; tw t; th t; zlen (lines t); mt_; mb_; ml_; mr_; flags; zlen (tabs t);
   wsum (fun x => x + 1) (map zlen (lines t)); wsum (fun x => x + 7) (tabs t)].

Definition final_obs (t : term) : list Z :=
  (-7) :: zlen (lines t) :: map zlen (lines t) ++ (-8) :: zlen (tabs t) :: tabs t.

Fixpoint run_obs (e : emu) (m : mach) (cs : list Z) : list Z :=
  match cs with
  | [] => final_obs (mt m)
  | c :: r => match step e m c with
              | MOk m1 => obs 0 (mt m1) ++ run_obs e m1 r
              | MErr m1 => obs 1 (mt m1) ++ run_obs e m1 r
              | MPanic s => [-1; s]
              end
  end.

Definition run_term (e music w h : Z) (cs : list Z) : list Z :=
  run_obs (emu_of e) (init (music mod 4) (4 <=? music) w h) cs.

(* C01: outcome classes only: n_ok n_err first_err cx cy bw bh tw th nlines | -1 site *)
Fixpoint run_cls (e : emu) (m : mach) (cs : list Z) (i nok nerr ferr : Z) : list Z :=
  match cs with
  | [] => let t := mt m in [nok; nerr; ferr; cx t; cy t; bw t; bh t; tw t; th t; zlen (lines t)]
  | c :: r => match step e m c with
              | MOk m1 => run_cls e m1 r (i + 1) (nok + 1) nerr ferr
              | MErr m1 => run_cls e m1 r (i + 1) nok (nerr + 1) (if ferr <? 0 then i else ferr)
              | MPanic s => [-1; s]
              end
  end.
Definition run_c01 (e music w h : Z) (cs : list Z) : list Z :=
  run_cls (emu_of e) (init (music mod 4) (4 <=? music) w h) cs 0 0 0 (-1).
