(* Entry points of stage C for C07 (props/c07.py).  Every function returns a flat [list Z]:
     outcome      0 payload… (Ok) | 1 code (Err) | 2 site (Panic)
     layer        |title| title… role mode has_colour r g b vis locked pos_locked alpha alpha_locked transparency ox oy w h dfp
                  nlines (ncells (ch fg bg page attr)…)…           (role: 0 Normal 1 PastePreview 2 PasteImage 3 Image)
     document     w h buffer_type ice palette_mode font_mode (as bytes, i.e. through the generated to_byte tables)
                  has_sauce nfonts slots… (|name| name…)… nlayers layer…       (names in the order of the slots)
   The document level runs the Section of Model/IcyDoc.v with the opaque payloads standing for themselves:
   sauce_t = palette_t = payload bytes, font_t = (name bytes, PSF2 bytes); the name of the font that Buffer::new
   installs in slot 0 is an argument of run_load (the plug-in reads it off a document loaded without FONT_ chunks). *)
From Coq Require Import ZArith NArith List Bool String Ascii.
From IE Require Import Lib.Tbl Gen.IcyGen Model.IcyLayer Model.IcyDoc.
Import ListNotations.
Local Open Scope N_scope.

Definition role_of (n : N) : role_t := match n with 0 => RNormal | 1 => RPastePreview | 2 => RPasteImage | _ => RImage end.
Definition mode_of (n : N) : mode_t := match n with 0 => MNormal | 1 => MChars | _ => MAttributes end.
Definition role_n (r : role_t) : N := match r with RNormal => 0 | RPastePreview => 1 | RPasteImage => 2 | RImage => 3 end.

Definition mkL (t : list N) (r m : N) (c : option (N * N * N)) (v l p a al : bool) (tr : N) (x y : Z) (pv : option (Z * Z))
               (w h : Z) (d : N) (ls : list (list cell)) : layer :=
  mkLayer t (role_of r) (mode_of m) c v l p a al tr x y pv w h d ls.

Definition zb (b : bool) : Z := if b then 1%Z else 0%Z.
Definition zn (l : list N) : list Z := map Z.of_N l.

Definition out {A} (f : A -> list Z) (r : res A) : list Z :=
  match r with Ok a => 0%Z :: f a | Err c => [1%Z; Z.of_N c] | Panic s => [2%Z; Z.of_N s] end.

Definition obs_cell (c : cell) : list Z := zn [ch c; fg c; bg c; page c; attr c].
Definition obs_layer (L : layer) : list Z :=
  Z.of_nat (List.length (title L)) :: zn (title L)
  ++ zn [role_n (role L); mode_byte (mode L)]
  ++ (match color L with Some (r, g, b) => zn [1; r; g; b] | None => zn [0; 0; 0; 0] end)
  ++ [zb (vis L); zb (locked L); zb (pos_locked L); zb (alpha L); zb (alpha_locked L); Z.of_N (transparency L);
      fst (get_offset L); snd (get_offset L); lw L; lh L; Z.of_N (dfp L); Z.of_nat (List.length (lines L))]
  ++ flat_map (fun l => Z.of_nat (List.length l) :: flat_map obs_cell l) (lines L).

Definition run_enc (L : layer) : list Z := out zn (encode L).
Definition run_dec (bs : list N) : list Z := out obs_layer (decode bs).
(* encode then decode in the model (what the theorem is about), for spot checks *)
Definition run_rt (L : layer) : list Z := out obs_layer (match encode L with Ok b => decode b | Err c => Err c | Panic s => Panic s end).

(* ---- document level ---- *)
Definition payload := list N.
Definition fnt := (list N * list N)%type.

Definition x_pack (cs : list (string * list N)) := cs.
Definition x_unpack (cs : list (string * list N)) := Some cs.
Definition x_sauce_enc (_ _ : Z) (_ : N) (_ : fnt) (s : payload) : res (list N) := Ok s.
Definition x_sauce_dec (b : list N) : res (option payload) := Ok (Some b).
Definition x_sauce_set_size (s : payload) (_ _ : Z) := s.
Definition x_pal_is_default (p : payload) : bool := match p with [] => true | _ => false end.   (* [] stands for the default palette *)
Definition x_pal_enc (p : payload) := p.
Definition x_pal_dec (b : list N) : res payload := Ok b.
Definition x_font_dec (name data : list N) : res fnt := Ok (name, data).

Definition xdoc := doc payload payload fnt.
Definition x_chunks (D : xdoc) := doc_chunks payload payload fnt x_sauce_enc x_pal_is_default x_pal_enc (@fst _ _) (fun f => Ok (snd f)) D.
Definition x_load (dname : list N) (cs : list (string * list N)) :=
  load payload payload fnt _ x_unpack x_sauce_dec x_sauce_set_size x_pal_dec [] x_font_dec (dname, []) cs.

Definition str_codes (s : string) : list Z := map (fun a => Z.of_N (N_of_ascii a)) (list_ascii_of_string s).

(* document given with mode BYTES (run through the generated from_byte, as the harness does) *)
Definition mkD (w h : Z) (bt ic pm fm : N) (s : option payload) (p : payload) (fs : list (N * fnt)) (ls : list layer) : xdoc :=
  mkDoc payload payload fnt w h (BufferType_from_byte bt) (IceMode_from_byte ic) (PaletteMode_from_byte pm) (FontMode_from_byte fm) s p fs ls.

(* per chunk: |kw| kw… |payload| ; the ICED payload in full at the end *)
Definition run_chunks (D : xdoc) : list Z :=
  out (fun cs => Z.of_nat (List.length cs)
                 :: flat_map (fun c => Z.of_nat (String.length (fst c)) :: str_codes (fst c) ++ [Z.of_nat (List.length (snd c))]) cs
                 ++ zn (iced_payload payload payload fnt D)) (x_chunks D).

Definition obs_doc (D : xdoc) : list Z :=
  [d_w _ _ _ D; d_h _ _ _ D]
  ++ zn [tget BufferType_to_byte_tbl (d_btype _ _ _ D); tget IceMode_to_byte_tbl (d_ice _ _ _ D);
         tget PaletteMode_to_byte_tbl (d_pmode _ _ _ D); tget FontMode_to_byte_tbl (d_fmode _ _ _ D)]
  ++ [match d_sauce _ _ _ D with Some _ => 1%Z | None => 0%Z end; Z.of_nat (List.length (d_fonts _ _ _ D))]
  ++ zn (map fst (d_fonts _ _ _ D))
  ++ flat_map (fun kf => Z.of_nat (List.length (fst (snd kf))) :: zn (fst (snd kf))) (d_fonts _ _ _ D)
  ++ Z.of_nat (List.length (d_layers _ _ _ D)) :: flat_map obs_layer (d_layers _ _ _ D).

Definition str_of (l : list N) : string := string_of_list_ascii (map ascii_of_N l).
Definition run_load (dname : list N) (cs : list (list N * list N)) : list Z :=
  out obs_doc (x_load dname (map (fun c => (str_of (fst c), snd c)) cs)).
