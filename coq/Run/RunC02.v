(* Model entry points evaluated by stage C for C02.
     run_bytes ext bytes : the from_bytes model for the five binary formats on the WHOLE file (SAUCE split by
                           Model/Sauce.split with the concrete date parser chrono_parse, extension through the generated
                           table): digest of C05's <load> observation ([0] Err, [-1] Panic, [-2] too large, 1 :: picture);
                           [-9] for extensions whose loader is not modelled as a function (text formats, icy container)
     run_doc cs          : IcyDraw chunk list (kind code, slot/layer number, payload) -> [1; number of layers] | [0] | [-1]
     run_xbc w data      : read_data_compressed on arbitrary data: [1; line count] | [-1]  *)
From Coq Require Import NArith ZArith Bool List.
From IE Require Import Lib.Tbl Lib.C05Lib Gen.Codepage Gen.Formats Gen.C02Ext Model.Attr Model.C05Buf Model.C05Bin Model.C05XBin
  Model.C05Idf Model.C05Tundra Model.C02Loaders Model.C02Icy Model.C02Dispatch Run.RunC05.
From IE Require Model.Sauce Lib.C17Lib Model.Font.
Import ListNotations.
Local Open Scope Z_scope.

Definition run_bytes (ext : list N) (bytes : list N) : list Z :=
  match Sauce.split Sauce.chrono_parse bytes with
  | Sauce.Ok (c, m) =>
    let s := option_map view m in
    match fmt_of_ext ext with
    | FBin => digest (show_load (load_bin c s))
    | FAdf => digest (show_load (load_adf c s))
    | FIdf => digest (show_load (load_idf c))
    | FXb => digest (show_load (load_xb2 c s))
    | FTnd => digest (show_load (load_tnd2 c s))
    | _ => [-9]
    end
  | _ => [-1]
  end.

Definition fmt_code (f : fmt) : Z :=
  match f with FAnsi => 0 | FIcy => 1 | FIdf => 2 | FBin => 3 | FXb => 4 | FTnd => 5 | FPcb => 6 | FAvt => 7 | FAsc => 8
             | FAdf => 9 | FMsg => 10 | FRen => 11 | FSeq => 12 | FAta => 13 end.
Definition run_ext (ext : list N) : list Z := [fmt_code (fmt_of_ext ext)].

Definition font_ok (bs : list N) : bool := match Font.from_bytes bs with C17Lib.Ok _ => true | _ => false end.
Definition sauce_ok (bs : list N) : bool :=
  match Sauce.extract Sauce.chrono_parse bs with Sauce.Ok _ => true | _ => false end.

(* kind codes: 0 END, 1 ICED, 2 PALETTE (payload accepted), 3 SAUCE, 4 FONT_<n>, 5 FONT_<not a number>, 6 other keyword,
   7 LAYER_<n>~<k> (n in the second component), 8 continuation whose number does not parse, 9 LAYER_…, 10 PALETTE (payload rejected) *)
Definition kind_of (c n : N) : kind :=
  match c with
  | 0 => KEnd | 1 => KIced | 2 => KPalette | 3 => KSauce | 4 => KFont (Some n) | 5 => KFont None | 6 => KOther
  | 7 => KCont (Some (N.to_nat n)) | 8 => KCont None | 10 => KPalette | _ => KLayer
  end%N.

Definition run_doc (cs : list (N * N * list N)) : list Z :=
  let pal_ok := fun _ : list N => true in
  (* a rejected palette payload is passed as kind 10: model it by a decoder that says no *)
  let go := fix go (layers : list lsum) (cs : list (N * N * list N)) : res (list lsum) :=
      match cs with
      | [] => Ok layers
      | (c, n, bs) :: t =>
        let* r := step font_ok (fun _ => negb (c =? 10)%N) sauce_ok layers (kind_of c n) bs in
        match r with None => Ok layers | Some ls => go ls t end
      end in
  match go [] cs with
  | Ok ls => [1; Z.of_nat (length ls)]
  | Err _ => [0]
  | Panic _ => [-1]
  end.

Definition run_xbc (w : Z) (data : list N) : list Z :=
  match xb_read_compressed w Blink false (mkLayer w 100000 []) data with
  | Ok L => [1; Z.of_nat (length (l_lines L))]
  | Err _ => [0]
  | Panic _ => [-1]
  end.
