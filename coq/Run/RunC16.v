(* Model entry points evaluated by stage C for C16 (observation vectors mirror harness/src/c16.rs).
   run_ops   : per op [ret1; ret2; len; digest], then the final palette dump (len, then r g b and -1 | namelen chars… per colour)
   run_export: [n; chars…] of the exported text, then the colours loaded back ([1] = Err | 0 :: n :: r g b …)
   run_load  : load result only
   run_63 / run_v63 / run_egaf / run_egat : 6-bit codec ([-2] = panic) *)
From Coq Require Import NArith ZArith List.
From IE Require Import Lib.Tbl Lib.C16Lib Gen.PaletteSrc Model.Palette Model.PaletteFiles.
Import ListNotations.
Local Open Scope N_scope.

Definition C (r g b : N) : color := unnamed (r, g, b).
Definition CN (r g b : N) (name : list N) : color := mkColor (Some name) (r, g, b).

Definition pack (c : rgb) : N := let '(r, g, b) := c in N.shiftl r 16 + N.shiftl g 8 + b.
(* cheap 32-bit rolling digest of the colour list: h' = (33 h + packed rgb + 1) mod 2^32 *)
Definition digest (p : palette) : N :=
  fold_left (fun h c => N.land (N.shiftl h 5 + h + pack (crgb c) + 1) 4294967295) (pcolors p) 0.

Definition dump_color (c : color) : list Z :=
  let '(r, g, b) := crgb c in
  [Z.of_N r; Z.of_N g; Z.of_N b] ++
  match cname c with None => [(-1)%Z] | Some n => Z.of_nat (length n) :: map Z.of_N n end.
Definition dump (p : palette) : list Z := Z.of_N (plen p) :: flat_map dump_color (pcolors p).

Definition obs_op (p : palette) (o : op) : palette * list Z :=
  let p' := step p o in
  let '(a, b) := match o with
                 | OInsert c => (snd (insert_color p c), 0)
                 | OLookup i => (pack (get_rgb p i), pack (crgb (get_color p i)))
                 | _ => (0, 0)
                 end in
  (p', [Z.of_N a; Z.of_N b; Z.of_N (plen p'); Z.of_N (digest p')]).
Fixpoint run_obs (p : palette) (ops : list op) : list Z :=
  match ops with
  | [] => dump p
  | o :: t => let '(p', l) := obs_op p o in l ++ run_obs p' t
  end.
(* init: the colours as a flat byte list (always a multiple of 3 long), as handed to Palette::from *)
Definition run_ops (init : list N) (ops : list op) : list Z :=
  match from_bytes init with Some p => run_obs p ops | None => [(-2)%Z] end.

Definition load_obs (r : option (list rgb)) : list Z :=
  match r with
  | None => [1%Z]
  | Some cs => 0%Z :: Z.of_nat (length cs) :: flat_map (fun c => let '(r, g, b) := c in [Z.of_N r; Z.of_N g; Z.of_N b]) cs
  end.
Definition run_export (f : format) (p : palette) : list Z :=
  let s := export f p in Z.of_nat (length s) :: map Z.of_N s ++ load_obs (load f s).
Definition run_load (f : format) (s : list N) : list Z := load_obs (load f s).

Definition run_63 (bs : list N) : list Z :=
  match from_63 bs with
  | None => [(-2)%Z]
  | Some p => let v := as_vec_63 p in dump p ++ Z.of_nat (length v) :: map Z.of_N v
  end.
Definition run_v63 (cs : list rgb) : list Z := map Z.of_N (as_vec_63 (of_colors (map unnamed cs))).
Definition run_egaf (bs : list N) : list Z :=
  match from_ega_data bs with None => [(-2)%Z] | Some p => dump p end.
Definition run_egat (cs : list rgb) : list Z :=
  match to_ega_data (of_colors (map unnamed cs)) with None => [(-2)%Z] | Some v => map Z.of_N v end.
