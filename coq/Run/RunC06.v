(* Model entry points evaluated by stage C for C06.
   run_xb ic fonts rows : rows given as flat lists, 5 numbers per cell (ch fg bg attr page); ic: 0 Unlimited 1 Blink 2 Ice.
     Observation (list Z):  [sc; su]  (0 = Ok, 1 = Err Only8BitCharactersSupported)  and, when both are 0,
       n; compressed data bytes…; m; uncompressed data bytes…;
       outcome of read_data_compressed (0 Ok, 1 index panic, 2 transmute, 3 fuel); k; k set_char records (x y ch fg bg attr page);
       j; j set_char records of read_data_uncompressed on the uncompressed bytes.
   run_attr ic nfonts : encode_attr over page, bold, blink, bg, fg (same order as harness kind xbattr)
   run_dec ic ext     : decode_char over the 256 attribute bytes (fg bg attr page each), harness kind xbdec
   run_runs ic fonts row : run lengths the specification decoder sees in the compressed row *)
From Coq Require Import NArith ZArith List Bool.
From IE Require Import Lib.Tbl Gen.XBinConst Model.XBin.
Import ListNotations.
Local Open Scope N_scope.

Definition ice_of (n : N) : ice_mode := match n with 0 => Unlimited | 1 => Blink | _ => Ice end.

Fixpoint cells_of (l : list N) : list cell :=
  match l with
  | c :: f :: b :: a :: p :: t => mkcell c (mkattr f b a p) :: cells_of t
  | _ => []
  end.

Definition zs (l : list N) : list Z := map Z.of_N l.
Definition show_cell (c : cell) : list Z :=
  zs [ch c; fg (attr c); bg (attr c); aflags (attr c); fpage (attr c)].
Definition show_wr (w : wr) : list Z := wx w :: wy w :: show_cell (wcell w).
Definition show_outcome (o : routcome) : Z :=
  match o with ROk => 0 | RPanicIndex => 1 | RPanicTransmute => 2 | RDiverge => 3 end%Z.
Definition zlen {A} (l : list A) : Z := Z.of_nat (length l).

Definition run_xb (ic : N) (fonts : list N) (rows : list (list N)) : list Z :=
  let i := ice_of ic in
  let rs := map cells_of rows in
  let width := match rs with r :: _ => Z.of_nat (length r) | [] => 0%Z end in
  match compress_backtrack fonts i rs, plain_rows fonts i rs with
  | Ok cb, Ok pb =>
      let '(tc, oc) := read_data_compressed (load_ice i) (ext_mode fonts) width cb in
      let tu := read_data_uncompressed (load_ice i) (ext_mode fonts) width pb in
      [0; 0]%Z ++ zlen cb :: zs cb ++ zlen pb :: zs pb
        ++ show_outcome oc :: zlen tc :: flat_map show_wr tc ++ zlen tu :: flat_map show_wr tu
  | c, p => [match c with Ok _ => 0 | _ => 1 end; match p with Ok _ => 0 | _ => 1 end]%Z
  end.

Definition run_attr (ic nfonts : N) : list N :=
  let fonts := if nfonts =? 2 then [0; 1] else [0] in
  flat_map (fun page => flat_map (fun bold => flat_map (fun blink => flat_map (fun b => map (fun f =>
    encode_attr fonts (ice_of ic) (mkcell 65 (mkattr f b (N.lor bold (N.shiftl blink 3)) page)))
    (nrange 16)) (nrange 16)) (nrange 2)) (nrange 2)) (nrange (if nfonts =? 2 then 2 else 1)).

Definition run_dec (ic ext : N) : list N :=
  flat_map (fun a => let c := decode_char (load_ice (ice_of ic)) (negb (ext =? 0)) 66 a in
                     [fg (attr c); bg (attr c); aflags (attr c); fpage (attr c)]) (nrange 256).

Definition run_runs (ic : N) (fonts : list N) (row : list N) : list N :=
  let r := cells_of row in
  match crow bt_oracle fonts (ice_of ic) r init_state with
  | Ok b => spec_run_lengths (length r) (length r) b
  | ErrOnly8Bit => []
  end.
