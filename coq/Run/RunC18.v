(* Model entry points evaluated by stage C for C18; they mirror the case kinds of harness/src/c18.rs
   one to one and return list Z (-1 = not a char, -2 = lazy_static initialiser would panic). *)
From Coq Require Import NArith ZArith Bool List.
From IE Require Import Lib.Tbl Gen.Codepage Model.Attr Model.Codepage.
Import ListNotations.
Local Open Scope N_scope.

Definition zb (b : bool) : Z := if b then 1%Z else 0%Z.
Definition mode_of (m : N) : IceMode := ice_mode_of_byte m.

Definition obs_attr (a : TextAttribute) : list Z :=
  [Z.of_N (foreground_color a); Z.of_N (background_color a); Z.of_N (attr a); Z.of_N (font_page a)].

Definition run_attrdec (m : N) : list Z :=
  flat_map (fun b => obs_attr (from_u8 b (mode_of m))) (nrange 256).

Definition run_attrenc (m w page : N) : list Z :=
  flat_map (fun fg => map (fun bg => Z.of_N (as_u8 (mkAttr page fg bg w) (mode_of m))) (nrange 16)) (nrange 16).

Definition run_attrenc1 (m fg bg w page : N) : list Z :=
  [Z.of_N (as_u8 (mkAttr page fg bg w) (mode_of m))].

(* packed: fg | bg << 8 | attr << 16 | font_page << 32 *)
Definition pack_attr (a : TextAttribute) : Z :=
  Z.of_N (foreground_color a + 256 * background_color a + 65536 * attr a + 4294967296 * font_page a).
Definition run_fromcolor (lo n : N) : list Z :=
  flat_map (fun i => map (fun bg => pack_attr (from_color (lo + i) bg)) (nrange 256)) (nrange n).

Definition nb (b : bool) : N := if b then 1 else 0.
(* two packed numbers per flag word *)
Definition run_flags (lo n : N) : list Z :=
  flat_map (fun i =>
    let a := mkAttr 0 7 0 (lo + i) in
    [Z.of_N (attr (set_is_blinking a true) + 65536 * attr (set_is_blinking a false) + 4294967296 * nb (is_blinking a));
     Z.of_N (attr (set_is_bold a true) + 65536 * attr (set_is_bold a false) + 4294967296 * nb (is_bold a))]) (nrange n).

Definition is_char (x : N) : bool := (x <? 55296) || ((57344 <=? x) && (x <? 1114112)).

Definition conv_of (k : N) : Conv :=
  match k with 0 => CP437 | 1 => Atascii | 2 => Petscii | 3 => Viewdata | _ => Mode7 end.

Definition zfrom (c : Conv) (x : N) : Z :=
  if is_char x then match from_unicode c x with Some v => Z.of_N v | None => (-2)%Z end else (-1)%Z.
Definition zto (c : Conv) (x : N) : Z :=
  if is_char x then Z.of_N (to_unicode c x) else (-1)%Z.

Definition run_convto (k lo n : N) : list Z := map (fun i => zto (conv_of k) (lo + i)) (nrange n).
Definition run_convfrom (k lo n : N) : list Z := map (fun i => zfrom (conv_of k) (lo + i)) (nrange n).
Definition run_convtol (k : N) (l : list N) : list Z := map (zto (conv_of k)) l.
Definition run_convfroml (k : N) (l : list N) : list Z := map (zfrom (conv_of k)) l.

(* every (x, f x) with f x <> x, x a char in [lo, hi), taken from the candidate list l *)
Definition nonid (f : N -> Z) (lo hi : N) (l : list N) : list Z :=
  flat_map (fun x => if is_char x && (lo <=? x) && (x <? hi) && negb (Z.eqb (f x) (Z.of_N x)) then [Z.of_N x; f x] else []) l.

(* whole-domain sweep of convert_from_unicode: off the keys of the reverse map the model is the identity
   (CodepageProofs.from_unicode_off_keys), so only keys can contribute *)
Definition run_nonid_from_keys (k lo : N) : list Z :=
  nonid (zfrom (conv_of k)) lo 1114112 (rev_keys (conv_of k)).
(* brute force over a range, both directions (dir 0 = to_unicode, 1 = from_unicode) *)
Definition run_nonid_range (k dir lo hi : N) : list Z :=
  nonid (if dir =? 0 then zto (conv_of k) else zfrom (conv_of k)) lo hi (map (fun i => lo + i) (nrange (hi - lo))).
