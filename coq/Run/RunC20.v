(* Model entry points for stage C of C20.
   run_rip cs : the stream cs (character codes) fed to a fresh parser whose fallback ansi parser stays in its default state
                and accepts every character (stage C only generates such streams); observation as harness/src/c20.rs `ripobs`:
     [errs; color; bkcolor; fill_color; fill_style; write_mode; cur_x; cur_y; suspend_text; 8 user pattern bytes;
      palette length; palette hash; screen length; screen hash; screen hash after the probe pixels; screen length; screen hash
      after bar(0,0,1295,7)]      |  [-1; site] on Panic  |  [-2] when an unmodelled command is reached *)
From Coq Require Import NArith ZArith List Bool Uint63.
From IE Require Import Gen.RipGen Model.RipTok Model.BgiKernel Model.RipStream.
Import ListNotations.
Local Open Scope Z_scope.

Definition fb_print0 (u : unit) (_ : N) : unit * bool := (u, true).
Definition fb_mode0 (_ : unit) : fbmode := FDefault.
Definition fb_reset0 (u : unit) : unit := u.

(* h <- (h*31 + b + 1) mod 2^32 on primitive integers (evaluation speed only; no theorem mentions it) *)
Definition n2i (n : N) : int := match n with N0 => 0%uint63 | Npos p => Uint63.of_pos p end.
Definition hash (l : list N) : Z := Uint63.to_Z (fold_left (fun h b => (h * 31 + n2i b + 1) land 4294967295)%uint63 l 7%uint63).
Definition pal_hash (l : list rgb) : Z := hash (flat_map (fun c => let '(r, g, b) := c in [r; g; b]) l).

Definition wm_code (m : wmode) : Z := match m with WCopy => 0 | WXor => 1 | WOr => 2 | WAnd => 3 | WNot => 4 end.

Definition probes : list (Z * Z) :=
  [(0, 0); (639, 0); (640, 0); (0, 349); (639, 349); (0, 350); (100, 100); (320, 175); (700, 10); (1295, 1295); (5, 400)].

Fixpoint put_all (s : bgi) (ps : list (Z * Z)) : res bgi :=
  match ps with [] => Ok s | (x, y) :: t => s' <- put_pixel s x y 9%N ;; put_all s' t end.

Definition obs (errs : N) (s : bgi) : list Z :=
  [Z.of_N errs; Z.of_N (color s); Z.of_N (bkcolor s); Z.of_N (fill_color s); Z.of_N (fill_style s); wm_code (write_mode s);
   cur_x s; cur_y s; if suspend_text s then 1 else 0]
  ++ map Z.of_N (fill_user_pattern s)
  ++ [Z.of_nat (length (palette s)); pal_hash (palette s); Z.of_nat (length (screen s)); hash (screen s)]
  ++ match put_all s probes with
     | Panic p => [-1; Z.of_N p]
     | Ok s1 => hash (screen s1)
                :: match bar s1 0 0 1295 7 with
                   | Panic p => [-1; Z.of_N p]
                   | Ok s2 => [Z.of_nat (length (screen s2)); hash (screen s2)]
                   end
     end.

Definition run_rip (cs : list N) : list Z :=
  match rip_run unit fb_print0 fb_mode0 fb_reset0 {| r_tok := tok_init; r_bgi := bgi_new; r_fb := tt |} 0%N cs with
  | (OOk s _, errs) => obs errs (r_bgi s)
  | (OPanic p, _) => [-1; Z.of_N p]
  | (OUnmodelled, _) => [-2]
  end.
