(* Model entry points for stage C of C20.
   run_rip cs : the stream cs (character codes) fed to a fresh parser whose fallback ansi parser stays in its default state
                and accepts every character (stage C only generates such streams); observation as harness/src/c20.rs `ripobs`:
     [errs; color; bkcolor; fill_color; fill_style; write_mode; cur_x; cur_y; suspend_text; 8 user pattern bytes;
      palette length; palette hash; screen length; screen hash; screen hash after the probe pixels; screen length; screen hash
      after bar(0,0,1295,7)]      |  [-1; site] on Panic  |  [-2] when an unmodelled command is reached *)
From Coq Require Import NArith ZArith List Bool Uint63.
From IE Require Import Gen.RipGen Gen.RipLineGen Model.RipTok Model.BgiKernel Model.RipStream Model.BgiLine Model.RipStream2 Gen.IgsGen Model.IgsTok Model.IgsKernel Model.IgsLine.
Import ListNotations.
Local Open Scope Z_scope.

Definition fb_print0 (u : unit) (_ : N) : unit * bool := (u, true).
Definition fb_mode0 (_ : unit) : fbmode := FDefault.
Definition fb_reset0 (u : unit) : unit := u.

(* h <- (h*31 + b + 1) mod 2^32 on primitive integers (evaluation speed only; no theorem mentions it) *)
Definition n2i (n : N) : int := match n with N0 => 0%uint63 | Npos p => Uint63.of_pos p end.
Definition hash (l : list N) : Z := Uint63.to_Z (fold_left (fun h b => (h * 31 + n2i b + 1) land 4294967295)%uint63 l 7%uint63).
Definition pal_hash (l : list rgb) : Z := hash (flat_map (fun c => let '(r, g, b) := c in [r; g; b]) l).

Definition wm_code (m : wmode) : Z := match m with WCopy => 0 | WXor => 1 | WOr => 2 | WAnd => 3 | WNot => 4 end.

Definition probes : list (Z * Z) :=
  [(0, 0); (639, 0); (640, 0); (0, 349); (639, 349); (0, 350); (100, 100); (320, 175); (700, 10); (1295, 1295); (5, 400)].

Fixpoint put_all (s : bgi) (ps : list (Z * Z)) : res bgi :=
  match ps with [] => Ok s | (x, y) :: t => s' <- put_pixel s x y 9%N ;; put_all s' t end.

Definition obs (errs : N) (s : bgi) : list Z :=
  [Z.of_N errs; Z.of_N (color s); Z.of_N (bkcolor s); Z.of_N (fill_color s); Z.of_N (fill_style s); wm_code (write_mode s);
   cur_x s; cur_y s; if suspend_text s then 1 else 0]
  ++ map Z.of_N (fill_user_pattern s)
  ++ [Z.of_nat (length (palette s)); pal_hash (palette s); Z.of_nat (length (screen s)); hash (screen s)]
  ++ match put_all s probes with
     | Panic p => [-1; Z.of_N p]
     | Ok s1 => hash (screen s1)
                :: match bar s1 0 0 1295 7 with
                   | Panic p => [-1; Z.of_N p]
                   | Ok s2 => [Z.of_nat (length (screen s2)); hash (screen s2)]
                   end
     end.

Definition run_rip (cs : list N) : list Z :=
  match rip_run unit fb_print0 fb_mode0 fb_reset0 {| r_tok := tok_init; r_bgi := bgi_new; r_fb := tt |} 0%N cs with
  | (OOk s _, errs) => obs errs (r_bgi s)
  | (OPanic p, _) => [-1; Z.of_N p]
  | (OUnmodelled, _) => [-2]
  end.

(* ---- extension: line family ----
   run_rip2 cs : as run_rip on the extended parser model (Model/RipStream2.v), observation as harness `ripobs2`:
     the ripobs list ++ [line_style; line_thickness; screen hash after line(0,12,47,12), line(50,3,50,30), line(2,2,30,21)]
   (the epilogue lines run on the state left by the ripobs epilogue: probe pixels + bar)                                       *)
Definition obs2 (errs : N) (s : lbgi) : list Z :=
  obs errs (lb s)
  ++ match put_all (lb s) probes with
     | Panic p => [-1; Z.of_N p]
     | Ok s1 => match bar s1 0 0 1295 7 with
                | Panic p => [-1; Z.of_N p]
                | Ok s2 =>
                  [Z.of_N (line_style s); line_thickness s]
                  ++ match (a <- bgi_line (with_lb s s2) 0 12 47 12 ;; b <- bgi_line a 50 3 50 30 ;; bgi_line b 2 2 30 21) with
                     | Panic p => [-1; Z.of_N p]
                     | Ok s3 => [hash (screen (lb s3))]
                     end
                end
     end.

Definition run_rip2 (cs : list N) : list Z :=
  match rip_run2 unit fb_print0 fb_mode0 fb_reset0 {| r_tok2 := tok_init; r_bgi2 := lbgi_new; r_fb2 := tt |} 0%N cs with
  | (OOk2 s _, errs) => obs2 errs (r_bgi2 s)
  | (OPanic2 p, _) => [-1; Z.of_N p]
  | (OUnmodelled2, _) => [-2]
  end.

(* run_line vx0 vy0 vx1 vy1 style user_pat thick wm kind coords : harness `ripline` — the primitives called directly on a fresh
   Bgi with arbitrary i32 arguments; [screen length; screen hash; number of non-zero pixels] | [-1; site] *)
Definition run_line (vx0 vy0 vx1 vy1 style user_pat thick wm kind : Z) (coords : list Z) : list Z :=
  let r :=
    w <- chk (vx1 - vx0) ;; h <- chk (vy1 - vy0) ;;
    let st := ls_from (as_u8 style) in
    pat <- ls_pattern st ;;
    let b := with_color (with_wm (with_viewport bgi_new (vx0, vy0, w, h)) (wm_from (as_u8 wm))) (11 mod COLOR_MOD)%N in
    let s := {| lb := b; line_style := st; line_pattern := if style =? 4 then bits16 user_pat else pat; line_thickness := thick |} in
    match kind, coords with
    | 0, [a; b; c; d] => bgi_line s a b c d
    | 1, [a; b; c; d] => bgi_rectangle s a b c d
    | 2, _ => bgi_draw_poly s (pairs coords)
    | 3, _ => bgi_draw_poly_line s (pairs coords)
    | _, _ => Panic SITE_ARG
    end in
  match r with
  | Panic p => [-1; Z.of_N p]
  | Ok s => [Z.of_nat (length (screen (lb s))); hash (screen (lb s)); Z.of_nat (length (filter (fun p => negb (p =? 0)%N) (screen (lb s))))]
  end.

(* ---- extension: IGS tokenizer + pixel kernel ----
   run_igs cs : the stream fed to a fresh igs::Parser + DrawExecutor (Model/IgsTok.v with exec = IgsKernel.igs_x, a fallback parser
   that accepts every character), with the protocol of harness `igsobs`: after every character at most 64 get_next_action
   calls, stopping at the first None.
     [err count; loop steps; width; height; picture length; picture hash] | [-1; site] on Panic | [-2] when a command outside the kernel ran *)
Definition igs_fb (u : unit) (_ : N) : unit * bool := (u, true).

Fixpoint igs_drain (k : nat) (w : iworld xstate unit) (steps : N) : res (iworld xstate unit * N) :=
  match k with
  | O => Ok (w, steps)
  | S k' => r <- igs_next_action xstate igs_x unit w ;;
            let '(w', some) := r in if some then igs_drain k' w' (N.succ steps) else Ok (w', steps)
  end.

Fixpoint igs_feed (cs : list N) (w : iworld xstate unit) (errs steps : N) : res (iworld xstate unit * N * N) :=
  match cs with
  | [] => Ok (w, errs, steps)
  | c :: t => r <- igs_step xstate igs_x unit igs_fb w c ;;
              let '(w1, ok) := r in
              d <- igs_drain 64 w1 steps ;;
              let '(w2, steps') := d in igs_feed t w2 (if ok then errs else N.succ errs) steps'
  end.

Definition igs_world0 : iworld xstate unit := {| w_p := ipars_new; w_x := SOkE iexec_new; w_fb := tt |}.

Definition run_igs (cs : list N) : list Z :=
  match igs_feed cs igs_world0 0%N 0%N with
  | Panic p => [-1; Z.of_N p]
  | Ok (w, errs, steps) =>
    match w_x xstate unit w with
    | SPanicE p => [-1; Z.of_N p]
    | SUnmodelledE => [-2]
    | SOkE e => match igs_picture e with
                | Panic p => [-1; Z.of_N p]
                | Ok px => [Z.of_N errs; Z.of_N steps; e_w e; e_h e; Z.of_nat (length px); hash px]
                end
    end
  end.

(* run_igs2 cs : as run_igs with the executor extended by DrawLine / LineDrawTo / LineMarkerTypes (Model/IgsLine.v) *)
Fixpoint igs_drain2 (k : nat) (w : iworld xstate2 unit) (steps : N) : res (iworld xstate2 unit * N) :=
  match k with
  | O => Ok (w, steps)
  | S k' => r <- igs_next_action xstate2 igs_x2 unit w ;;
            let '(w', some) := r in if some then igs_drain2 k' w' (N.succ steps) else Ok (w', steps)
  end.

Fixpoint igs_feed2 (cs : list N) (w : iworld xstate2 unit) (errs steps : N) : res (iworld xstate2 unit * N * N) :=
  match cs with
  | [] => Ok (w, errs, steps)
  | c :: t => r <- igs_step xstate2 igs_x2 unit igs_fb w c ;;
              let '(w1, ok) := r in
              d <- igs_drain2 64 w1 steps ;;
              let '(w2, steps') := d in igs_feed2 t w2 (if ok then errs else N.succ errs) steps'
  end.

Definition run_igs2 (cs : list N) : list Z :=
  match igs_feed2 cs {| w_p := ipars_new; w_x := SOkE2 iexec2_new; w_fb := tt |} 0%N 0%N with
  | Panic p => [-1; Z.of_N p]
  | Ok (w, errs, steps) =>
    match w_x xstate2 unit w with
    | SPanicE2 p => [-1; Z.of_N p]
    | SUnmodelledE2 => [-2]
    | SOkE2 s => match igs_picture (x_e s) with
                 | Panic p => [-1; Z.of_N p]
                 | Ok px => [Z.of_N errs; Z.of_N steps; e_w (x_e s); e_h (x_e s); Z.of_nat (length px); hash px]
                 end
    end
  end.
