(* Model entry points evaluated by stage C for C05.  All results are `list Z` in the layout of harness/src/c05.rs:
     <load>  = [0] (Err) | [-1] (Panic) | 1 :: observation
     observation = w, h, ice, layer_w, layer_h, line_count, palette_mode, font_mode, npal, (r,g,b)*, nfonts,
                   (slot, 8, fh, length, ndata, data…)*, then ch, fg, bg, attr, page for y < h, x < w
     run_rt  = [0] | [-1] when saving fails, else 1 :: n :: bytes ++ <load>   (bytes = the data part, without SAUCE)
     digest l = length l :: three position-weighted sums per block of 64 values (stage C compares digests and re-evaluates
                a case in full when they differ)
     run_resave = <load> ++ (run_rt of the loaded picture)   (nothing after a failed first load) *)
From Coq Require Import NArith ZArith Bool List.
From IE Require Import Lib.Tbl Lib.C05Lib Gen.Codepage Gen.Formats Model.Attr Model.C05Buf Model.C05Bin Model.C05XBin
  Model.C05Idf Model.C05Tundra Model.C02Loaders Model.C05XBinC Model.C05Files.
From IE Require Model.Sauce.
Import ListNotations.
Local Open Scope Z_scope.

Definition mkc (ch fg bg aw pg : N) : cell := mkCell ch (mkAttr pg fg bg aw).

(* a cell packed into one number by props/c05.py: ch + 2^16 * (fg + 2^32 * (bg + 2^32 * (attr + 2^16 * page))) *)
Definition unpack (n : N) : cell :=
  let ch := (n mod 65536)%N in let n := (n / 65536)%N in
  let fg := (n mod 4294967296)%N in let n := (n / 4294967296)%N in
  let bg := (n mod 4294967296)%N in let n := (n / 4294967296)%N in
  mkc ch fg bg (n mod 65536)%N (n / 65536)%N.
Definition cells_of (l : list N) : list cell := map unpack l.

Fixpoint rows_of (h : nat) (w : nat) (cells : list cell) : list (list cell) :=
  match h with
  | O => []
  | S h' => firstn w cells :: rows_of h' w (skipn w cells)
  end.

Definition mkf (h : N) (data : list N) : font :=
  match font_create_8 h data with Ok f => f | _ => mkFont h 256 false [] end.
Definition patf (k h : N) : font :=
  mkf h (map (fun i => (i * k + i / 7 + k) mod 256)%N (nrange (256 * h))).
Definition dflt_pal : list rgb := DOS_DEFAULT_PALETTE.
Definition dflt_fonts : list (N * font) := [(0%N, default_font)].

Definition mkpic (w h : Z) (mode : N) (cells : list cell) (pal : list rgb) (fonts : list (N * font)) : pic :=
  mkPic w h (ice_mode_of_byte mode) (rows_of (Z.to_nat h) (Z.to_nat w) cells) pal fonts.

Definition zs (l : list N) : list Z := map Z.of_N l.

Definition obs_font (sf : N * font) : list Z :=
  let '(slot, f) := sf in
  let d := convert_to_u8_data f in
  [Z.of_N slot; 8; Z.of_N (f_h f); Z.of_N (f_len f); Z.of_nat (length d)] ++ zs d.

Definition obs_cell (c : cell) : list Z :=
  zs [c_ch c; foreground_color (c_attr c); background_color (c_attr c); attr (c_attr c); font_page (c_attr c)].

Definition obs_buffer (b : buffer) : list Z :=
  [b_w b; b_h b; Z.of_N (ice_mode_to_byte (b_ice b)); l_w (b_layer b); l_h (b_layer b);
   Z.of_nat (length (l_lines (b_layer b))); Z.of_N (b_pmode b); Z.of_N (b_fmode b); Z.of_nat (length (b_pal b))]
  ++ flat_map (fun c : rgb => let '(r, g, bl) := c in zs [r; g; bl]) (b_pal b)
  ++ [Z.of_nat (length (b_fonts b))] ++ flat_map obs_font (b_fonts b)
  ++ flat_map (fun r => flat_map obs_cell r) (p_rows (pic_of b)).

(* the harness refuses to print pictures with a negative size or more than 2 000 000 cells: [-2] *)
Definition too_large (b : buffer) : bool := (b_w b <? 0) || (b_h b <? 0) || (2000000 <? b_w b * b_h b).
Definition show_load (r : res buffer) : list Z :=
  match r with Ok b => if too_large b then [-2] else 1 :: obs_buffer b | Err e => [0] | Panic s => [-1] end.

(* a panic anywhere makes the whole observation [-1]: the harness process reports only that it panicked *)
Definition show_rt (saved : res (list N)) (loader : list N -> res buffer) : list Z :=
  match saved with
  | Ok d => match loader d with
            | Panic _ => [-1]
            | r => match show_load r with [-2] => [-2] | o => 1 :: Z.of_nat (length d) :: zs d ++ o end
            end
  | Err e => [0]
  | Panic s => [-1]
  end.

(* fmt: 0 bin, 1 adf, 2 xb, 3 idf, 4 tnd; with_sauce: the writer appends a SAUCE record and the loader gets it back *)
Definition save_fmt (fmt : N) (compress with_sauce : bool) (p : pic) : res (list N) :=
  match fmt with
  | 0%N => if with_sauce then (let* _ := bin_sauce p in Ok (save_bin p)) else Ok (save_bin p)
  | 1%N => save_adf p
  | 2%N => save_xbo compress p      (* both data layouts: Model/C05XBinC.v (C05's file level + C06's compressor) *)
  | 3%N => (* the IDF writer appends a SAUCE record of type Bin: width / 2 must fit a byte *)
           match save_idf compress p with
           | Ok d => if with_sauce then (let* _ := bin_sauce p in Ok d) else Ok d
           | r => r
           end
  | _ => save_tnd p
  end.

(* the SAUCE record the generic writer appends, as the loader sees it (ADF: Ansi type; IDF: Bin type with
   width/2 as u8; XBin: XBin type; none of them is read back by a loader field that matters except the size) *)
Definition sauce_fmt (fmt : N) (p : pic) : option sauce :=
  match fmt with
  | 0%N => match bin_sauce p with Ok s => Some s | _ => None end
  | 1%N => Some (mkSauce (p_w p mod 65536) (p_h p mod 65536) (is_ice (p_ice p)))
  | 2%N => Some (mkSauce (p_w p mod 65536) (p_h p mod 65536) false)
  | 3%N => None
  | _ => Some (tnd_sauce p)
  end.

Definition load_fmt (fmt : N) (data : list N) (s : option sauce) : res buffer :=
  match fmt with
  | 0%N => load_bin data s
  | 1%N => load_adf data s
  | 2%N => load_xb2 data s      (* the loaders as they are after C02's fix commits: Model/C02Loaders.v; *)
  | 3%N => load_idf data
  | _ => load_tnd2 data s       (* Proofs/C02BridgeProofs.v: they accept what load_xb / load_tnd accept, same buffer *)
  end.

Definition run_rt (fmt : N) (compress with_sauce : bool) (p : pic) : list Z :=
  show_rt (save_fmt fmt compress with_sauce p)
          (fun d => load_fmt fmt d (if with_sauce then sauce_fmt fmt p else None)).

Definition run_load (fmt : N) (data : list N) (s : option sauce) : list Z := show_load (load_fmt fmt data s).

Definition run_resave (fmt : N) (compress with_sauce : bool) (data : list N) (s : option sauce) : list Z :=
  match load_fmt fmt data s with
  | Ok b => if too_large b then [-2] else
            match run_rt fmt compress with_sauce (pic_of b) with
            | [-1] => [-1]
            | [-2] => [-2]
            | r => 1 :: obs_buffer b ++ r
            end
  | r => show_load r
  end.

(* three position-weighted sums per block of 64 values: any change of one or two values of a block changes them *)
Definition hash_block (l : list Z) : list Z :=
  let '(a, b, c, _) := fold_left (fun '(a, b, c, i) x => (a + x, b + i * x, c + i * i * x, i + 1)) l (0, 0, 0, 1) in [a; b; c].
Fixpoint blocks (fuel : nat) (l : list Z) : list Z :=
  match fuel, l with
  | S f, _ :: _ => hash_block (firstn 64 l) ++ blocks f (skipn 64 l)
  | _, _ => []
  end.
Definition digest (l : list Z) : list Z := Z.of_nat (length l) :: blocks (S (length l / 64)) l.

(* whole files with their SAUCE bytes (Model/C05Files.v): Buffer::to_bytes(ext, save_sauce = true) and Buffer::from_bytes on
   those bytes.  `name` = name of font 0 as code points, `date` = the 8 date bytes the real writer produced (taken from its
   output by the plug-in: the record carries today's date); the buffer has no SAUCE strings of its own (Buffer::new).
   fmt as above.  Layout as run_rt, but `bytes` is the complete file. *)
Definition file_to_bytes (fmt : N) (compress : bool) (p : pic) (name date : list N) : res (list N) :=
  match fmt with
  | 0%N => bin_to_bytes true p name None date
  | 1%N => adf_to_bytes true p name None date
  | 2%N => xb_to_bytes compress true p name None date
  | 3%N => idf_to_bytes compress true p name None date
  | _ => tnd_to_bytes true p name None date
  end.
Definition file_from_bytes (fmt : N) (bytes : list N) : res buffer :=
  match fmt with
  | 0%N => bin_from_bytes Sauce.chrono_parse bytes
  | 1%N => adf_from_bytes Sauce.chrono_parse bytes
  | 2%N => xb_from_bytes Sauce.chrono_parse bytes
  | 3%N => idf_from_bytes Sauce.chrono_parse bytes
  | _ => tnd_from_bytes Sauce.chrono_parse bytes
  end.
Definition run_file (fmt : N) (compress : bool) (p : pic) (name date : list N) : list Z :=
  show_rt (file_to_bytes fmt compress p name date) (file_from_bytes fmt).
(* Buffer::from_bytes on arbitrary bytes (SAUCE split included) *)
Definition run_file_load (fmt : N) (bytes : list N) : list Z := show_load (file_from_bytes fmt bytes).
