(* Model entry point for stage C of C08.
   run_trace fx fy doc steps : list Z
     doc   = (bw, bh, [ (w, h, ox, oy, flags, mode, rows) … ], cur, mirror, cx, cy); rows = raw rows of 57-bit cell codes
             flags: 1 visible 2 locked 4 position-locked 8 alpha-locked 16 has-alpha; layer k is titled "L<k>"
     steps = the operations of harness/src/c08.rs::apply (constructor per operation), SU = undo, SR = redo
     fx fy = the flip-x / flip-y character maps of font page 0 as lists (index = code), from the harness probe `c08flip`
   Output: the observation of harness/src/c08.rs::raw_obs for the initial document and after every step:
     0 undo_len can_redo bufw bufh nlayers { role flags mode ox oy w h title_base title_dups nlines { len cell* } }
   and, when a step does not report Ok, its code (1 Err, 2 Panic) in place of the block; the trace stops there. *)
From Coq Require Import List ZArith NArith Bool Arith.
From IE Require Import Gen.UndoGen Model.Undo Model.EditModel Model.EditOps.
Import ListNotations.
Local Open Scope Z_scope.

Definition dec_cell (v : Z) : cell :=
  mkCell (Z.to_N (v mod 2097152)) (Z.to_N ((v / 2097152) mod 256)) (Z.to_N ((v / 536870912) mod 256))
         (Z.to_N ((v / 137438953472) mod 16)) (Z.to_N ((v / 2199023255552) mod 65536)).

Definition enc_cell (c : cell) : Z :=
  Z.of_N (c_ch c) + 2097152 * (Z.of_N (c_fg c) mod 256) + 536870912 * (Z.of_N (c_bg c) mod 256)
  + 137438953472 * (Z.of_N (c_fp c) mod 16) + 2199023255552 * Z.of_N (c_attr c).

Definition lspec := (Z * Z * Z * Z * Z * Z * list (list Z))%type.
Definition dspec := (Z * Z * list lspec * Z * Z * Z * Z)%type.

Definition mk_layer (k : nat) (s : lspec) : layer :=
  let '(w, h, ox, oy, flags, mode, rows) := s in
  mkLayer 0 (Z.testbit flags 0) (Z.testbit flags 1) (Z.testbit flags 2) (Z.testbit flags 3) (Z.testbit flags 4)
          (Z.to_N mode) ox oy w h (N.of_nat (10 + k), 0%N) (map (map dec_cell) rows).

Fixpoint mk_layers (k : nat) (l : list lspec) : list layer :=
  match l with [] => [] | s :: t => mk_layer k s :: mk_layers (S k) t end.

Definition mk_doc (d : dspec) : E :=
  let '(w, h, ls, cur, mir, cx, cy) := d in
  let layers := mk_layers 0 ls in
  mkEs (mkE w h layers (Nat.min (Z.to_nat cur) (pred (length layers))) None (negb (mir =? 0)) cx cy) [] [].

Inductive step :=
| SU | SR
| SSetc (x y c : Z) | SSwap (x1 y1 x2 y2 : Z) | SResize (w h : Z)
| SAddl (n : Z) | SReml (n : Z) | SRaise (n : Z) | SLower (n : Z) | SDup (n : Z) | SClearl (n : Z) | STogvis (n : Z)
| SMovel (x y : Z) | SLsize (n w h : Z)
| SSel (x1 y1 x2 y2 t : Z) | SClrsel | SDesel | SErase
| SFlipx | SFlipy | SJleft | SJright | SCenter | STransp
| SCenterLine | SJLineLeft | SJLineRight | SEraseRow | SEraseRowS | SEraseRowE | SEraseCol | SEraseColS | SEraseColE
| SCaret (x y : Z) | SCur (n : Z) | SMirror (b : Z).

Definition ftab_of (tbl : list Z) (page : N) : option (N -> N) :=
  if (page =? 0)%N then Some (fun ch => match nth_error tbl (N.to_nat ch) with Some v => Z.to_N v | None => ch end) else None.

Definition run_step (fx fy : list Z) (s : step) (e : E) : res E :=
  match s with
  | SU => undo op_undo e
  | SR => redo op_redo e
  | SSetc x y c => api_set_char x y (dec_cell c) e
  | SSwap x1 y1 x2 y2 => api_swap_char x1 y1 x2 y2 e
  | SResize w h => api_resize_buffer w h e
  | SAddl n => api_add_new_layer (Z.to_nat n) e
  | SReml n => api_remove_layer (Z.to_nat n) e
  | SRaise n => api_raise_layer (Z.to_nat n) e
  | SLower n => api_lower_layer (Z.to_nat n) e
  | SDup n => api_duplicate_layer (Z.to_nat n) e
  | SClearl n => api_clear_layer (Z.to_nat n) e
  | STogvis n => api_toggle_layer_visibility (Z.to_nat n) e
  | SMovel x y => api_move_layer x y e
  | SLsize n w h => api_set_layer_size (Z.to_nat n) w h e
  | SSel x1 y1 x2 y2 t => api_set_selection (mkSel x1 y1 x2 y2 (Z.to_N t)) e
  | SClrsel => api_clear_selection e
  | SDesel => api_deselect e
  | SErase => api_erase_selection e
  | SFlipx => api_flip_x (ftab_of fx) e
  | SFlipy => api_flip_y (ftab_of fy) e
  | SJleft => api_justify_left e
  | SJright => api_justify_right e
  | SCenter => api_center e
  | STransp => api_make_layer_transparent e
  | SCenterLine => api_center_line e
  | SJLineLeft => api_justify_line_left e
  | SJLineRight => api_justify_line_right e
  | SEraseRow => api_erase_row e
  | SEraseRowS => api_erase_row_to_start e
  | SEraseRowE => api_erase_row_to_end e
  | SEraseCol => api_erase_column e
  | SEraseColS => api_erase_column_to_start e
  | SEraseColE => api_erase_column_to_end e
  | SCaret x y => ctl_caret x y e
  | SCur n => ctl_cur (Z.to_nat n) e
  | SMirror b => ctl_mirror (negb (b =? 0)) e
  end.

Definition b2z (b : bool) : Z := if b then 1 else 0.

Definition obs_layer (L : layer) : list Z :=
  [Z.of_N (l_role L);
   b2z (l_visible L) + 2 * b2z (l_locked L) + 4 * b2z (l_pos_locked L) + 8 * b2z (l_alpha_locked L) + 16 * b2z (l_has_alpha L);
   Z.of_N (l_mode L); l_ox L; l_oy L; l_w L; l_h L; Z.of_N (fst (l_title L)); Z.of_N (snd (l_title L));
   Z.of_nat (length (l_lines L))]
  ++ flat_map (fun r => Z.of_nat (length r) :: map enc_cell r) (l_lines L).

Definition obs (e : E) : list Z :=
  [0; Z.of_nat (length (ustk e)); b2z (negb (match rstk e with [] => true | _ => false end));
   bw (cur e); bh (cur e); Z.of_nat (length (layers (cur e)))]
  ++ flat_map obs_layer (layers (cur e)).

Fixpoint run_steps (fx fy : list Z) (l : list step) (e : E) : list Z :=
  match l with
  | [] => []
  | s :: t =>
    match run_step fx fy s e with
    | Ok e' => obs e' ++ run_steps fx fy t e'
    | Err _ => [1]
    | Panic _ => [2]
    end
  end.

Definition run_trace (fx fy : list Z) (d : dspec) (l : list step) : list Z :=
  let e := mk_doc d in obs e ++ run_steps fx fy l e.
