(* Model entry points for stage C of C14.
   run_sixel data      : Ok -> 0 :: w :: h :: len :: bytes ; Err c -> [1; c] ; Panic s -> [2; s]
   run_shape data      : same but only the alpha byte of every pixel (independent of colours, for HSL payloads)
   run_queue fw fh imgs evs : imgs = [(px, py, payload)] in arrival order, evs = 0 Arrive | 1 Poll | 2+id Finish id;
                         output per Poll: code (0 false,1 true,2 Err,3 Blocked) :: qlen :: n :: n*(x y w h) *)
From Coq Require Import ZArith NArith List Bool.
From IE Require Import Gen.SixelGen Model.Sixel Model.SixelQueue.
Import ListNotations.
Local Open Scope Z_scope.

Definition hsl0 (_ _ _ : Z) : rgb := (0, 0, 0)%N.

Definition run_sixel (data : list Z) : list Z :=
  match parse_from hsl0 DOS_DEFAULT_PALETTE 1 1 data with
  | Ok (w, h, d) => 0 :: w :: h :: Z.of_nat (length d) :: map Z.of_N d
  | Err c => [1; c]
  | Panic s => [2; s]
  end.

Fixpoint every4 (l : list N) : list Z :=
  match l with _ :: _ :: _ :: a :: t => Z.of_N a :: every4 t | _ => [] end.

Definition run_shape (data : list Z) : list Z :=
  match parse_from hsl0 DOS_DEFAULT_PALETTE 1 1 data with
  | Ok (w, h, d) => 0 :: w :: h :: Z.of_nat (length d) :: every4 d
  | Err c => [1; c]
  | Panic s => [2; s]
  end.

Definition outcome_of_imgs (fw fh : Z) (imgs : list (Z * Z * list Z)) (id : nat) : outcome :=
  match nth_error imgs id with
  | Some (px, py, data) =>
    match parse_from hsl0 DOS_DEFAULT_PALETTE 1 2 data with
    | Ok (w, h, _) => OOk (px * fw, py * fh, w, h)
    | Err _ => OErr
    | Panic _ => OPanicked
    end
  | None => OPanicked
  end.

Definition obs_poll (r : pres) (s : qstate) : list Z :=
  (match r with PBool false => 0 | PBool true => 1 | PErr => 2 | PBlocked => 3 end)
  :: Z.of_nat (length (queue s)) :: Z.of_nat (length (screen s))
  :: flat_map (fun e => let '(x, y, w, h) := snd e in [x; y; w; h]) (screen s).

Fixpoint run_events (oc : nat -> outcome) (s : qstate) (evs : list Z) : list Z :=
  match evs with
  | [] => []
  | e :: t =>
    if e =? 0 then run_events oc (step oc s Arrive) t
    else if e =? 1 then let '(r, s') := poll s in obs_poll r s' ++ run_events oc s' t
    else run_events oc (step oc s (Finish (Z.to_nat (e - 2)))) t
  end.

Definition run_queue (fw fh : Z) (imgs : list (Z * Z * list Z)) (evs : list Z) : list Z :=
  run_events (outcome_of_imgs fw fh imgs) init evs.
