(* Model entry points evaluated by stage C for the palette part of C02 (observations mirror harness/src/c02.rs).
     run_pal f text : `c2pal`  Palette::load_palette on valid UTF-8: [0] Err | [1; n; Σ r·(i+1); Σ g·(i+1); Σ b·(i+1)] | [-1] panic
     run_palx f n   : `c2palx` Palette::export_palette of the n-colour palette (7i, 13i, 29i mod 256), empty texts:
                      [length of the vector] (the text is ASCII: one byte per character) | [-1] panic *)
From Coq Require Import NArith ZArith List.
From IE Require Import Lib.Tbl Gen.C02Pal Model.Palette Model.PaletteFiles Model.C02Pal.
Import ListNotations.
Local Open Scope Z_scope.

Definition fmt_of_code (c : N) : palette_format :=
  match c with 0%N => PIce | 1%N => PHex | 2%N => PPal | 3%N => PGpl | 4%N => PTxt | _ => PAse end.

Fixpoint wsum (l : list rgb) (i : Z) (acc : Z * Z * Z) : Z * Z * Z :=
  match l with
  | [] => acc
  | (r, g, b) :: t => let '(x, y, z) := acc in wsum t (i + 1) (x + Z.of_N r * i, y + Z.of_N g * i, z + Z.of_N b * i)
  end.

Definition run_pal (c : N) (s : list N) : list Z :=
  match palette_load (fmt_of_code c) s with
  | PalErr => [0]
  | PalPanic => [-1]
  | PalOk l => let '(x, y, z) := wsum l 1 (0, 0, 0) in [1; Z.of_nat (length l); x; y; z]
  end.

Definition run_palx (c : N) (n : N) : list Z :=
  let cols := map (fun i => unnamed ((i * 7) mod 256, (i * 13) mod 256, (i * 29) mod 256)%N) (nrange n) in
  match palette_export (fmt_of_code c) (of_colors cols) with
  | Some s => [Z.of_nat (length s)]
  | None => [-1]
  end.
