(* Model entry points evaluated by stage C for C13.
   run_comp term fonts layers x0 y0 x1 y1 : for y in y0..=y1, x in x0..=x1 the five fields
   ch fg bg attr font_page of get_char; [-1] if any query panics (i32 overflow in `pos - offset`). *)
From Coq Require Import NArith ZArith List Bool.
From IE Require Import Gen.Comp Model.Composite.
Import ListNotations.

Definition C (ch fg bg fl fp : N) : cell := mkCell ch (mkAttr fg bg fl fp).

Fixpoint assoc {A} (k : N) (l : list (Z * A)) : option A :=
  match l with [] => None | (k', v) :: r => if N.eqb k (Z.to_N k') then Some v else assoc k r end.

(* a font given as (w, h, [(ch, data)…]); all numbers are written as Z literals by the driver *)
Definition mk_font (d : Z * Z * list (Z * list Z)) : font :=
  let '(w, h, gl) := d in mkFont w h (fun ch => match assoc ch gl with Some data => Some (map Z.to_N data) | None => None end).
Definition mk_fonts (fs : list (Z * (Z * Z * list (Z * list Z)))) : N -> option font :=
  fun page => match assoc page fs with Some d => Some (mk_font d) | None => None end.

Fixpoint zrange (lo : Z) (n : nat) : list Z :=
  match n with O => [] | S k => lo :: zrange (lo + 1)%Z k end.

Definition obs_cell (c : cell) : list Z :=
  [Z.of_N (c_ch c); Z.of_N (a_fg (c_at c)); Z.of_N (a_bg (c_at c)); Z.of_N (a_flags (c_at c)); Z.of_N (a_fpage (c_at c))].

Fixpoint collect (l : list (option cell)) : option (list Z) :=
  match l with
  | [] => Some []
  | None :: _ => None
  | Some c :: r => match collect r with Some o => Some (obs_cell c ++ o) | None => None end
  end.

Definition run_comp (term : bool) (fs : list (Z * (Z * Z * list (Z * list Z)))) (layers : list layer)
           (x0 y0 x1 y1 : Z) : list Z :=
  let B := mkBuffer term (mk_fonts fs) layers in
  let xs := zrange x0 (Z.to_nat (x1 - x0 + 1)) in
  let ys := zrange y0 (Z.to_nat (y1 - y0 + 1)) in
  match collect (flat_map (fun y => map (fun x => get_char B x y) xs) ys) with
  | Some o => o
  | None => [(-1)%Z]
  end.

(* stage C compares inside Coq (the observation of a stack is several thousand numbers; printing it for every
   case would dominate the run): [] when the model's observation equals the implementation's, otherwise
   -2 followed by the model's observation. *)
Fixpoint zlist_eqb (a b : list Z) : bool :=
  match a, b with
  | [], [] => true
  | x :: a', y :: b' => Z.eqb x y && zlist_eqb a' b'
  | _, _ => false
  end.

Definition check_comp (term : bool) (fs : list (Z * (Z * Z * list (Z * list Z)))) (layers : list layer)
           (x0 y0 x1 y1 : Z) (expected : list Z) : list Z :=
  let o := run_comp term fs layers x0 y0 x1 y1 in
  if zlist_eqb o expected then [] else (-2)%Z :: o.
