(* Model entry points evaluated by stage C for C15.
   Formats: 0 pcb, 1 avt, 2 msg (Ctrl-A), 3 an1 (Renegade), 4 asc, 5 ata.  Screen preparation: 0 None, 1 Home, 2 ClearScreen.
   A source row is a flat list [ch; fg; bg; attr; ch; fg; bg; attr; ...] (font page 0).
   run_wr : 0 :: bytes of the written file | [1] = the writer panics
   run_ld : [9] = the load leaves the model (ESC / SAUCE look-alike / UTF-8 BOM / unmodelled command), else
            0 :: line count :: buffer height :: layer height :: layer width ::
            for each line: its length, then (ch fg bg attr font_page) per cell       -- the harness' `ld` observation
   run_rt : the round trip inside the model: 0 :: file length :: line count :: width :: (ch fg bg attr) of lget x y for
            y < line count, x < width                                               -- the harness' `rt` observation *)
From Coq Require Import NArith List Arith.
From IE Require Import Lib.Tbl Gen.Codepage Gen.TextFmt Model.Attr Model.TextBuf Model.TextWriters Model.TextParsers.
Import ListNotations.
Local Open Scope N_scope.

Definition fmt_of (n : N) : format :=
  match n with 0 => PCB | 1 => AVT | 2 => CTRLA | 3 => REN | 4 => ASC | _ => ATA end.
Definition prep_of (n : N) : prep := match n with 0 => PrepNone | 1 => PrepHome | _ => PrepClear end.

Fixpoint cells_of (l : list N) : list cell :=
  match l with
  | c :: f :: b :: a :: t => mkCell c (mkAttr 0 f b a) :: cells_of t
  | _ => []
  end.

Definition run_wr (f p w : N) (rows : list (list N)) : list N :=
  match write (fmt_of f) (prep_of p) (N.to_nat w) (map cells_of rows) with
  | WOk bs => 0 :: bs
  | WPanic => [1]
  end.

Definition obs_cell (c : cell) : list N :=
  [cch c; foreground_color (cat c); background_color (cat c); attr (cat c); font_page (cat c)].

Definition buffer_height (f : format) (p : pbuf) : N :=
  match f with ATA => N.of_nat LOAD_H_ata | _ => N.of_nat (lh p) end.

Definition run_ld (f : N) (data : list N) : list N :=
  match load (fmt_of f) data with
  | Unmodelled => [9]
  | Loaded p =>
    0 :: N.of_nat (length (lines p)) :: buffer_height (fmt_of f) p :: N.of_nat (lh p) :: N.of_nat (load_width (fmt_of f)) ::
    concat (map (fun l => N.of_nat (length l) :: concat (map obs_cell l)) (lines p))
  end.

Definition obs4 (c : cell) : list N := [cch c; foreground_color (cat c); background_color (cat c); attr (cat c)].

Definition run_rt (f p w : N) (rows : list (list N)) : list N :=
  match write (fmt_of f) (prep_of p) (N.to_nat w) (map cells_of rows) with
  | WPanic => [1]
  | WOk bs =>
    match load (fmt_of f) bs with
    | Unmodelled => [9]
    | Loaded q =>
      let wd := load_width (fmt_of f) in
      0 :: N.of_nat (length bs) :: N.of_nat (length (lines q)) :: N.of_nat wd ::
      concat (map (fun y => concat (map (fun x => obs4 (lget wd q x y)) (seq 0 wd))) (seq 0 (length (lines q))))
    end
  end.

(* digests: printing thousands of numbers dominates the cost of a case, so stage C compares
   [first element; length; polynomial hash] and re-evaluates the full observation only for a disagreement *)
Definition hash_list (l : list N) : N := fold_left (fun h x => (h * 1000003 + x + 1) mod 2147483647) l 7.
Definition digest (l : list N) : list N := [hd 0 l; N.of_nat (length l); hash_list l].
Definition run_wr_h (f p w : N) (rows : list (list N)) : list N := digest (run_wr f p w rows).
Definition run_ld_h (f : N) (data : list N) : list N := digest (run_ld f data).
