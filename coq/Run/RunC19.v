(* Model entry points evaluated by stage C for C19.  Observation vector:
   crc : [get_crc16; get_crc32; crc16 byte-wise; crc32 byte-wise with init/final inversion]
   upd : [update_crc16 (c mod 2^16) b; update_crc32 c b] *)
From Coq Require Import NArith List.
From IE Require Import Lib.Tbl Gen.Crc Model.Crc.
Import ListNotations.
Local Open Scope N_scope.
Definition run_crc (bs : list N) : list N :=
  [get_crc16 bs; get_crc32 bs; crc16_incremental bs; crc32_incremental bs].
Definition run_upd (c b : N) : list N := [update_crc16 (c mod 65536) b; update_crc32 c b].
