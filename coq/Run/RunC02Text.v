(* Model entry points of stage C for the text loaders of C02 (Model/FileLoad.v through the from_bytes dispatch).
     run_text_file ext bytes fw fh sixels : Sauce.split (concrete date parser) + generated extension table + text loader, the content
                                            bytes fed as characters (convert_ansi_to_utf8 without a BOM)
     run_text_chars code sauce fw fh sixels chars : the loader of format <code> (RunC02.fmt_code numbering) on an explicit character
                                            list (a UTF-8 text behind a BOM, decoded by the caller); sauce = [] | [w; h; ice]
   sixels = [(x, y, pixel w, pixel h); ..], fw fh, serr (a decode thread failed) = the oracle of the sixel epilogue.
   Result: [1; bw; bh; tw; th; lw; lh; nlines; nlayers; d1; d2] ++ -7 :: row lengths ++ -9 :: w h of every Image layer
           (d1 / d2: position-weighted sums of code + 1 / of "background is not colour 0" over all cells of layer 0, the weight
            running over all cells in row order) | [-1; site] panic | [-2] macro-nesting overflow | [0] Err | [-9] not a text format *)
From Coq Require Import NArith ZArith Bool List.
From IE Require Import Gen.C02Ext Model.C05Buf Model.C02Dispatch Model.C02Text.
From IE Require Model.Sauce Model.TermCore Model.FileLoad.
Import ListNotations.
Local Open Scope Z_scope.

Definition cells_digest (ls : list (list TermCore.cell)) : Z * Z :=
  let '(_, a, b) := fold_left (fun '(k, a, b) (c : TermCore.cell) =>
                                 (k + 1, (a + k * (fst c + 1)) mod 1000003, (b + k * (if snd c =? 0 then 0 else 1)) mod 1000003))
                              (concat ls) (1, 0, 0) in (a, b).
Definition show (r : FileLoad.tout) : list Z :=
  match r with
  | FileLoad.TOk t layers =>
    let '(d1, d2) := cells_digest (TermCore.lines t) in
    [1; TermCore.bw t; TermCore.bh t; TermCore.tw t; TermCore.th t; TermCore.lw t; TermCore.lh t; TermCore.zlen (TermCore.lines t);
     1 + TermCore.zlen layers; d1; d2]
    ++ (-7) :: map (@TermCore.zlen _) (TermCore.lines t) ++ (-9) :: flat_map (fun '(w, h) => [w; h]) layers
  | FileLoad.TErr => [0]
  | FileLoad.TPanic s => [-1; s]
  end.
Definition mk_sixels (l : list (Z * Z * Z * Z)) : list FileLoad.sixel := map (fun '(x, y, w, h) => FileLoad.mkSx x y w h) l.

Definition run_text_file (ext bytes : list N) (fw fh : Z) (sixels : list (Z * Z * Z * Z)) (serr : bool) : list Z :=
  match Sauce.split Sauce.chrono_parse bytes with
  | Sauce.Ok (c, m) =>
    match tfmt_of (fmt_of_ext ext) with
    | Some tf => show (FileLoad.text_load tf (fs_of (option_map view m)) fw fh (mk_sixels sixels) serr (map Z.of_N c))
    | None => [-9]
    end
  | Sauce.Err _ => [0]
  | Sauce.Panic _ => [-1; 0]
  end.

Definition fmt_of_code (c : Z) : fmt :=
  if c =? 0 then FAnsi else if c =? 6 then FPcb else if c =? 7 then FAvt else if c =? 8 then FAsc else if c =? 10 then FMsg
  else if c =? 11 then FRen else if c =? 12 then FSeq else if c =? 13 then FAta else FBin.
Definition run_text_chars (code : Z) (sauce : list Z) (fw fh : Z) (sixels : list (Z * Z * Z * Z)) (serr : bool) (chars : list Z) : list Z :=
  let s := match sauce with [w; h; i] => Some (FileLoad.mkFS w h (negb (i =? 0))) | _ => None end in
  match tfmt_of (fmt_of_code code) with
  | Some tf => show (FileLoad.text_load tf s fw fh (mk_sixels sixels) serr chars)
  | None => [-9]
  end.
