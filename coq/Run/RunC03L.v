(* Model entry points for stage C of C03, extension (e): binary loaders (files WITHOUT a SAUCE record).
   run_load_shape fmt data : fmt 0 BIN 1 ADF 2 XBin 3 Tundra 4 IDF -> 0 width height rows cells | 1 err | 2 panic site   (harness kind `load`)
   run_ticks_pair body            -> cells stored by pair_loop
   run_ticks_xbc w body           -> counter of read_data_compressed
   run_ticks_tnd body             -> commands  largest declared row
   run_ticks_idf x1 x2 y1 area    -> cells stored  declared run lengths *)
From Coq Require Import NArith ZArith Bool List.
From IE Require Import Lib.Tbl Lib.C05Lib Gen.Codepage Gen.Formats Model.Attr Model.C05Buf Model.C05Bin Model.C05XBin
  Model.C05Idf Model.C05Tundra Model.C02Loaders Model.LoadCost.
Import ListNotations.
Local Open Scope Z_scope.

Definition shape (r : res buffer) : list Z :=
  match r with
  | Ok b => [0; b_w b; b_h b; lrows (b_layer b); lcells (l_lines (b_layer b))]
  | Err e => [1; Z.of_N e]
  | Panic e => [2; Z.of_N e]
  end.
Definition zn (l : list Z) : list N := map Z.to_N l.
Definition run_load_shape (fmt : Z) (data : list Z) : list Z :=
  let d := zn data in
  if fmt =? 0 then shape (load_bin d None)
  else if fmt =? 1 then shape (load_adf d None)
  else if fmt =? 2 then shape (load_xb2 d None)
  else if fmt =? 3 then shape (load_tnd2 d None)
  else shape (load_idf d).
Definition run_ticks_pair (body : list Z) : list Z :=
  [snd (pair_loop_t true adf_decode 80 (mkLayer 80 25 []) 0 0 (zn body) 0)].
Definition run_ticks_xbc (w : Z) (body : list Z) : list Z :=
  [snd (xbc_loop_t w (xb_decode Blink false) (length body) (mkLayer w 100000 []) 0 0 (zn body) 0)].
Definition run_ticks_tnd (body : list Z) : list Z :=
  let r := tnd_loop2_t (length body) 80 (layer_new 80 25) [(0, 0, 0)%N] (from_u8 0 Ice) 0 0 (zn body) 0 0 in [snd (fst r); snd r].
Definition run_ticks_idf (x1 x2 y1 : Z) (area : list Z) : list Z :=
  let r := idf_loop_t x1 x2 (layer_new 80 25) 25 x1 y1 (zn area) 0 0 in [snd (fst r); snd r].
