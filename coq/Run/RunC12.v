(* Model entry points for stage C of C12.
   cells are flat lists of 5 numbers (ch fg bg attr page), fonts = list of (slot, index into builtin_fonts).
   run_opt norm fonts w cells   -> the optimised raw cells (5 numbers each), or [-1; site] on Panic
   run_rend norm fonts w extra cells -> RGBA bytes of render_to_rgba(optimised buffer), or [-1; site]
   font_rows k -> w h n then per glyph its h rows, of builtin_fonts[k] *)
From Coq Require Import NArith ZArith List Bool.
From IE Require Import Gen.Codepage Gen.Fonts Gen.SixelGen Model.Attr Model.ColorOpt Model.ColorOptDoc Model.FontData.
Import ListNotations.
Local Open Scope N_scope.

Fixpoint cells_of (l : list N) (fuel : nat) : list cell :=
  match fuel, l with
  | S f, ch :: fg :: bg :: fl :: pg :: t => mkCell ch (mkAttr pg fg bg fl) :: cells_of t f
  | _, _ => []
  end.

Fixpoint chunk {A} (w : nat) (l : list A) (fuel : nat) : list (list A) :=
  match fuel with
  | O => []
  | S f => match l with [] => [] | _ => firstn w l :: chunk w (skipn w l) f end
  end.

Definition rows_of (w : N) (l : list N) : list (list cell) :=
  let cs := cells_of l (length l) in chunk (N.to_nat w) cs (length cs).

Definition font_table (slots : list (N * N)) : fonts :=
  fonts_of_list (flat_map (fun sk => match nth_error builtin_fonts (N.to_nat (snd sk)) with
                                    | Some (_, w, h, g) => [(fst sk, w, h, g)] | None => [] end) slots).

Definition flat_cell (c : cell) : list Z :=
  map Z.of_N [c_ch c; foreground_color (c_attr c); background_color (c_attr c); attr (c_attr c); font_page (c_attr c)].

Definition run_opt (norm : bool) (slots : list (N * N)) (w : N) (l : list N) : list Z :=
  match optimize (font_table slots) norm (rows_of w l) with
  | Ok rows => flat_map (flat_map flat_cell) rows
  | Panic s => [(-1)%Z; Z.of_N s]
  end.

(* bytes of the picture: for each row of cells, for each pixel row cy, for each cell, for each cx: r g b a *)
Definition row_bytes (blocks : list (list (list pixel))) (fh : nat) : list Z :=
  flat_map (fun cy => flat_map (fun b => match nth_error b cy with
                                         | Some line => flat_map (fun p => let '(r, g, bl, a) := p in map Z.of_N [r; g; bl; a]) line
                                         | None => [] end) blocks) (seq 0 fh).

Definition run_rend (norm : bool) (slots : list (N * N)) (w : N) (extra : list (N * N * N)) (l : list N) : list Z :=
  let fs := font_table slots in
  match fs 0 with
  | None => [(-1)%Z; 1%Z]
  | Some f0 =>
    match render_optimised (DOS_DEFAULT_PALETTE ++ extra) fs norm (rows_of w l) with
    | Ok grid => flat_map (fun blocks => row_bytes blocks (N.to_nat (f_h f0))) grid
    | Panic s => [(-1)%Z; Z.of_N s]
    end
  end.

Definition font_rows (k : N) : list Z :=
  match nth_error builtin_fonts (N.to_nat k) with
  | Some (_, w, h, g) => Z.of_N w :: Z.of_N h :: Z.of_nat (length g) :: flat_map (fun p => map Z.of_N (unpack (N.to_nat h) p)) g
  | None => []
  end.
