(* Model entry points for stage C of C03.
   run_seq w h prefix seq : the prefix is fed through AnsiTok.ansi_step (state set-up; the generators keep the clamped
     control functions out of it), then the sequence; its LAST character is dispatched through the cost model
     (Cost.csi_final_c / csi_sp_c) when the parser is in a CSI state, every other character costs one tick.
     -> cls iters ticks alloc rows_before rows cells_before cells bh lh cx cy maxrow hash tw th     (cls 0 action 1 error value)
        | -1 site | -2
   hash = sum over allocated cells (y, x) of ((y * 131 + x + 1) * (code + 1)) mod 2^31-1  (harness kind `seq`).
   run_hex s   : parse_hex_macro_sequence -> ok iters macro_length max_repeat
   run_glyphs h n : glyphs_from_u8_data on n zero bytes -> iterations
   run_raster rest : bytes requested by sixel raster attributes *)
From Coq Require Import ZArith NArith List Bool.
From IE Require Import Model.TermCore Model.AnsiTok Model.Cost.
From IE Require Model.Font.
Import ListNotations.
Local Open Scope Z_scope.

Definition M31 : Z := 2147483647.
Definition row_hash (y : Z) (row : list cell) : Z :=
  snd (fold_left (fun '(x, acc) c => (x + 1, (acc + ((y mod M31) * 131 + x + 1) mod M31 * ((fst c + 1) mod M31)) mod M31)) row (0, 0)).
Definition hash (ls : list (list cell)) : Z :=
  snd (fold_left (fun '(y, acc) row => (y + 1, (acc + row_hash y row) mod M31)) ls (0, 0)).

Definition obs (cls : Z) (c : cost) (t0 t : term) : list Z :=
  [cls; iters c; ticks c; alloc c; zlen (lines t0); zlen (lines t); cells (lines t0); cells (lines t); bh t; lh t; cx t; cy t;
   maxrow (lines t); hash (lines t); tw t; th t].

Fixpoint feed (m : amach) (cs : list Z) : option amach + list Z :=
  match cs with
  | [] => inl (Some m)
  | c :: r => match ansi_step m c with
              | OOk m1 | OErr m1 => feed m1 r
              | OPanic s => inr [-1; s]
              | ODiverge => inr [-2]
              end
  end.

Definition last_step (m : amach) (ch : Z) : outcome * cost :=
  match st (ps m) with
  | SCsi is_start => csi_final_c (tm m) (ps m) is_start ch
  | SEndCsi 32 => csi_sp_c (tm m) (ps m) ch
  | _ => let o := ansi_step m ch in (o, mkCost 1 1 (out_grow (tm m) o))
  end.

(* the sequence: every character but the last costs one tick (parameter digits, intermediates, earlier sequences count fully) *)
Fixpoint feed_cost (m : amach) (cs : list Z) (acc : cost) (t0 : term) : list Z :=
  match cs with
  | [] => obs 0 acc t0 (tm m)
  | [c] => let '(o, k) := last_step m c in
           match o with
           | OOk m1 => obs 0 (cadd acc k) t0 (tm m1)
           | OErr m1 => obs 1 (cadd acc k) t0 (tm m1)
           | OPanic s => [-1; s]
           | ODiverge => [-2]
           end
  | c :: r => let '(o, k) := last_step m c in
              match o with
              | OOk m1 | OErr m1 => feed_cost m1 r (cadd acc k) t0
              | OPanic s => [-1; s]
              | ODiverge => [-2]
              end
  end.

Definition run_seq (w h : Z) (prefix seq : list Z) : list Z :=
  match feed (ansi_init 0 false w h) prefix with
  | inl (Some m) => feed_cost m seq cost0 (tm m)
  | inl None => [-3]
  | inr l => l
  end.

(* the same sequence through the UNCLAMPED model of AnsiTok (the code before the fix: commits): used to show that a clamp
   changes nothing but the work — for the control functions whose clamp is state-identical *)
Definition run_seq_old (w h : Z) (prefix seq : list Z) : list Z :=
  match feed (ansi_init 0 false w h) prefix with
  | inl (Some m) => match feed m seq with
                    | inl (Some m1) => [zlen (lines (tm m1)); cells (lines (tm m1)); bh (tm m1); lh (tm m1); cx (tm m1); cy (tm m1);
                                        maxrow (lines (tm m1)); hash (lines (tm m1))]
                    | inl None => [-3]
                    | inr l => l
                    end
  | inl None => [-3]
  | inr l => l
  end.

Definition run_hex (s : list Z) : list Z :=
  let r := hex_macro_t s HFirst false [] 0 [] 0 in
  match fst r with
  | Some m => [1; snd r; zlen m; hex_max_rep s HFirst 0]
  | None => [0; snd r; 0; hex_max_rep s HFirst 0]
  end.

Definition run_glyphs (h n : Z) : list Z := [glyph_iters (Z.to_N h) (repeat 0%N (Z.to_nat n))].
Definition run_raster (rest : list Z) : list Z := [raster_alloc rest].
Definition run_macro (fuel : Z) (ms : list (Z * list Z)) (id : Z) : list Z :=
  match macro_chars (Z.to_nat fuel) ms id with Some n => [n] | None => [-2] end.
