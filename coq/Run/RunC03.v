(* Model entry points for stage C of C03.
   run_seq w h prefix seq : the prefix is fed through AnsiTok.ansi_step (state set-up; the generators keep the clamped
     control functions out of it), then the sequence; its LAST character is dispatched through the cost model
     (Cost.csi_final_c / csi_sp_c) when the parser is in a CSI state, every other character costs one tick.
     -> cls iters ticks alloc rows_before rows cells_before cells bh lh cx cy maxrow hash tw th  threaded_alloc scr   (cls 0 action 1 error value)
        | -1 site
   hash = sum over allocated cells (y, x) of ((y * 131 + x + 1) * (code + 1)) mod 2^31-1  (harness kind `seq`).
   run_hex s   : parse_hex_macro_sequence -> ok iters macro_length max_repeat
   run_glyphs h n : glyphs_from_u8_data on n zero bytes -> iterations
   run_raster rest : bytes requested by sixel raster attributes *)
From Coq Require Import ZArith NArith List Bool.
From IE Require Import Model.TermCore Model.AnsiTok Model.Cost Model.Alloc.
From IE Require Model.Font Model.Sixel Model.SixelCost.
Import ListNotations.
Local Open Scope Z_scope.

Definition M31 : Z := 2147483647.
Definition row_hash (y : Z) (row : list cell) : Z :=
  snd (fold_left (fun '(x, acc) c => (x + 1, (acc + ((y mod M31) * 131 + x + 1) mod M31 * ((fst c + 1) mod M31)) mod M31)) row (0, 0)).
Definition hash (ls : list (list cell)) : Z :=
  snd (fold_left (fun '(y, acc) row => (y + 1, (acc + row_hash y row) mod M31)) ls (0, 0)).

Definition obs (cls : Z) (c : cost) (t0 t : term) : list Z :=
  [cls; iters c; ticks c; alloc c; zlen (lines t0); zlen (lines t); cells (lines t0); cells (lines t); bh t; lh t; cx t; cy t;
   maxrow (lines t); hash (lines t); tw t; th t].

Fixpoint feed (m : amach) (cs : list Z) : option amach + list Z :=
  match cs with
  | [] => inl (Some m)
  | c :: r => match ansi_step m c with
              | OOk m1 | OErr m1 | ODeep m1 => feed m1 r
              | OPanic s => inr [-1; s]
              end
  end.

Definition last_step (m : amach) (ch : Z) : outcome * cost :=
  match st (ps m) with
  | SCsi is_start => csi_final_c (tm m) (ps m) is_start ch
  | SEndCsi 32 => csi_sp_c (tm m) (ps m) ch
  | SEndCsi 36 => csi_dollar_c (tm m) (ps m) ch                      (* DECFRA DECERA DECSERA: ticks = clipped rectangle *)
  | SEndCsi 42 => if ch =? 121 then rqcra_c (tm m) (ps m)            (* DECRQCRA *)
                  else let o := ansi_step m ch in (o, mkCost 1 1 (out_grow (tm m) o))
  | _ => let o := ansi_step m ch in (o, mkCost 1 1 (out_grow (tm m) o))
  end.
(* the THREADED allocation counter of Model/Alloc.v for the same character (rows + cells allocated; every other state: growth of the state) *)
Definition last_step_a (m : amach) (ch : Z) : Z :=
  match st (ps m) with
  | SCsi is_start => csi_final_a (tm m) (ps m) is_start ch
  | SEndCsi 32 => csi_sp_a (tm m) (ps m) ch
  | SEndCsi 36 => csi_dollar_a (tm m) (ps m) ch
  | SDefault =>
    if ch =? 10 then caret_lf_a (tm m)
    else if (ch =? 27) || (ch =? 12) || (ch =? 13) || (ch =? 7) || (ch =? 127) || (((ch =? 8) || (ch =? 0) || (ch =? 255)) && bs_ctrl (ps m))
         then out_grow (tm m) (ansi_step m ch)
    else print_char_a (tm m) (print_cell (tm m) ch)
  | _ => out_grow (tm m) (ansi_step m ch)
  end.

(* the sequence: every character but the last costs one tick (parameter digits, intermediates, earlier sequences count fully);
   [ta] accumulates the threaded allocation counter; the vector ends with  ta  scr(t0) *)
Fixpoint feed_cost (m : amach) (cs : list Z) (acc : cost) (ta : Z) (t0 : term) : list Z :=
  match cs with
  | [] => obs 0 acc t0 (tm m) ++ [ta; scr t0]
  | [c] => let '(o, k) := last_step m c in
           let ta' := ta + last_step_a m c in
           match o with
           | OOk m1 => obs 0 (cadd acc k) t0 (tm m1) ++ [ta'; scr t0]
           | OErr m1 | ODeep m1 => obs 1 (cadd acc k) t0 (tm m1) ++ [ta'; scr t0]
           | OPanic s => [-1; s]
           end
  | c :: r => let '(o, k) := last_step m c in
              match o with
              | OOk m1 | OErr m1 | ODeep m1 => feed_cost m1 r (cadd acc k) (ta + last_step_a m c) t0
              | OPanic s => [-1; s]
              end
  end.

Definition run_seq (w h : Z) (prefix seq : list Z) : list Z :=
  match feed (ansi_init 0 false w h) prefix with
  | inl (Some m) => feed_cost m seq cost0 0 (tm m)
  | inl None => [-3]
  | inr l => l
  end.

(* the same sequence through the UNCLAMPED model of AnsiTok (the code before the fix: commits): used to show that a clamp
   changes nothing but the work — for the control functions whose clamp is state-identical *)
Definition run_seq_old (w h : Z) (prefix seq : list Z) : list Z :=
  match feed (ansi_init 0 false w h) prefix with
  | inl (Some m) => match feed m seq with
                    | inl (Some m1) => [zlen (lines (tm m1)); cells (lines (tm m1)); bh (tm m1); lh (tm m1); cx (tm m1); cy (tm m1);
                                        maxrow (lines (tm m1)); hash (lines (tm m1))]
                    | inl None => [-3]
                    | inr l => l
                    end
  | inl None => [-3]
  | inr l => l
  end.

Definition run_hex (s : list Z) : list Z :=
  let r := hex_macro_t s HFirst false [] 0 [] 0 in
  match fst r with
  | Some m => [1; snd r; zlen m; hex_max_rep s HFirst 0; hex_reps s HFirst false 0; zlen s]
  | None => [0; snd r; 0; hex_max_rep s HFirst 0; hex_reps s HFirst false 0; zlen s]
  end.
(* macro replay: the definitions are fed to a fresh terminal (character-level model), then the macro table it holds is measured:
   -> characters replayed by invoking [id] with nesting budget [fuel] ; 1 when the chain ended in MacroNestingTooDeep (deeper than the budget) ;
      longest body ; most invocations in a body ; B * geom c fuel *)
Definition run_macro_seq (fuel : Z) (defs : list Z) (id : Z) : list Z :=
  match feed (ansi_init 0 false 80 25) defs with
  | inl (Some m) => let ms := macros (ps m) in
                    [fst (macro_chars (Z.to_nat fuel) ms id); (if snd (macro_chars (Z.to_nat fuel) ms id) then 1 else 0);
                     macros_maxlen ms; macros_maxinv ms; macros_maxlen ms * geom (macros_maxinv ms) (Z.to_nat fuel)]
  | inl None => [-3]
  | inr l => l
  end.

Definition run_glyphs (h n : Z) : list Z := [glyph_iters (Z.to_N h) (repeat 0%N (Z.to_nat n))].
Definition run_raster (rest : list Z) : list Z := [raster_alloc rest].
Definition run_macro (fuel : Z) (ms : list (Z * list Z)) (id : Z) : list Z :=
  [fst (macro_chars (Z.to_nat fuel) ms id); (if snd (macro_chars (Z.to_nat fuel) ms id) then 1 else 0)].

(* ---- state comparison after short inputs (strengthening after the missed seeds, notes/C03.md) --------------------------------------------
   run_state w h a b : the WHOLE input a ++ b is fed to a fresh w x h terminal through the clamped dispatcher of the cost model
     (last_step: Cost.csi_final_c / csi_sp_c, every other character AnsiTok.ansi_step); a = state prefix + table entry, b = probe suffix.
     -> 0  errors_after_a <snap after a>  errors_after_b <snap after b>  -7 k len_0 .. (first 512 rows)  -8 k tab_0 .. (first 512)      | -1 site | -2
     snap = the observation vector of Run/RunC09.v (obs, without its class) followed by maxrow cells hash:
       cx cy bw bh lw lh tw th nlines mt mb ml mr flags ntabs rowsum tabsum maxrow cells hash        (harness kind `c03st`). *)
Definition wsum (f : Z -> Z) (l : list Z) : Z :=
  snd (fold_left (fun '(i, acc) x => (i + 1, (acc + i * f x) mod 1000003)) l (1, 0)).
Definition snap (t : term) : list Z :=
  let '(mt_, mb_) := match mtb t with Some (a, b) => (a, b) | None => (-9, -9) end in
  let '(ml_, mr_) := match mlr t with Some (a, b) => (a, b) | None => (-9, -9) end in
  let flags := (if origin_m t then 1 else 0) + (if awrap t then 2 else 0) + (if ins t then 4 else 0) + (if declr t then 8 else 0) in
  [cx t; cy t; bw t; bh t; lw t; lh t; tw t; th t; zlen (lines t); mt_; mb_; ml_; mr_; flags; zlen (tabs t);
   wsum (fun x => x + 1) (map zlen (lines t)); wsum (fun x => x + 7) (tabs t); maxrow (lines t); cells (lines t); hash (lines t)].
Fixpoint feed_st (m : amach) (cs : list Z) (nerr : Z) : (amach * Z) + list Z :=
  match cs with
  | [] => inl (m, nerr)
  | c :: r => match fst (last_step m c) with
              | OOk m1 => feed_st m1 r nerr
              | OErr m1 | ODeep m1 => feed_st m1 r (nerr + 1)
              | OPanic s => inr [-1; s]
              end
  end.
Definition run_state (w h : Z) (a b : list Z) : list Z :=
  match feed_st (ansi_init 0 false w h) a 0 with
  | inl (m1, e1) =>
    match feed_st m1 b e1 with
    | inl (m2, e2) => 0 :: e1 :: snap (tm m1) ++ e2 :: snap (tm m2) ++
                      (-7) :: Z.min 512 (zlen (lines (tm m2))) :: map zlen (firstn 512 (lines (tm m2))) ++
                      (-8) :: Z.min 512 (zlen (tabs (tm m2))) :: firstn 512 (tabs (tm m2))
    | inr l => l
    end
  | inr l => l
  end.

(* ---- extension (d): the sixel decoder with counters.  run_sixel_cost payload (the decoder appends '#', as parse_from does) ->
     cls (0 Ok, 1 Err, 2 Panic)  iterations  executed_repeat_counts  declared_width declared_height  rows  longest_row  bytes_of_the_padded_image  cap
   cap = the bound of sixel_image_bound; harness kind `c03sixel`: ok width height bytes *)
Definition hsl0 (_ _ _ : Z) : Sixel.rgb := (0, 0, 0)%N.
Definition pal16 : list Sixel.rgb := repeat (0, 0, 0)%N 16.
Definition run_sixel_cost (payload : list Z) : list Z :=
  let cs := payload ++ [35] in
  let s0 := Sixel.init_state pal16 1 1 in
  let r := SixelCost.parse_chars_t hsl0 s0 cs 0 in
  let T := SixelCost.zlenN cs + SixelCost.rep_sum hsl0 s0 cs in
  let d := SixelCost.decl_max hsl0 s0 cs in
  let cap := Z.max (6 * T + 6) (snd d) * (4 * Z.max T (fst d)) in
  match fst r with
  | Sixel.Ok s' => [0; snd r; SixelCost.rep_sum hsl0 s0 cs; fst d; snd d; Sixel.height (Sixel.rows s'); SixelCost.mxl (Sixel.rows s');
                    Sixel.height (Sixel.rows s') * SixelCost.mxl (Sixel.rows s'); cap]
  | Sixel.Err c => [1; snd r; c]
  | Sixel.Panic c => [2; snd r; c]
  end.
