(* Model entry points evaluated by stage C for C11 (observation vectors mirror harness/src/c11.rs).
   Results:  Err e -> [-1; e]   Panic s -> [-2; s]
   run_x   : extract chrono_parse data: [0] (no SAUCE) | [1; header_len; data_type; file_type; w; h; ice; ls; ar; y; m; d;
             font?; n; font code points…; title; author; group; ncomments; comments…]
             each string: [is_empty; len(); n; the n bytes append_to produces]
   run_w   : write ft buf date content: [content kept as prefix?; length of the appended tail; tail…]
   run_wx  : run_w followed by the observation of extract on the written bytes
   run_split : length of the content slice Buffer::from_bytes hands to the loader *)
From Coq Require Import NArith ZArith List Bool.
From IE Require Import Lib.Tbl Gen.Sauce Model.Sauce.
Import ListNotations.
Local Open Scope Z_scope.

Definition zb (b : bool) : Z := if b then 1 else 0.
Definition show_str (LEN : nat) (EMPTY : N) (s : list N) : list Z :=
  let a := ss_append LEN EMPTY s [] in
  [zb (match s with [] => true | _ => false end); Z.of_nat (ss_len s); Z.of_nat (length a)] ++ map Z.of_N a.
Definition ft_code (t : sft) : Z :=
  match t with FtUndefined => 0 | FtAscii => 1 | FtAnsi => 2 | FtANSiMation => 3 | FtPCBoard => 4 | FtAvatar => 5
             | FtTundraDraw => 6 | FtBin => 7 | FtXBin => 8 end.
Definition ft_of (c : Z) : sft :=
  if c =? 1 then FtAscii else if c =? 2 then FtAnsi else if c =? 3 then FtANSiMation else if c =? 4 then FtPCBoard
  else if c =? 5 then FtAvatar else if c =? 6 then FtTundraDraw else if c =? 7 then FtBin else if c =? 8 then FtXBin
  else FtUndefined.
Definition show_sauce (m : sauce) : list Z :=
  let '(y, mo, d) := s_date m in
  [1; Z.of_nat (s_header_len m); Z.of_N (s_data_type m); ft_code (s_ftype m); s_width m; s_height m;
   zb (s_ice m); zb (s_ls m); zb (s_ar m); y; mo; d]
  ++ (match s_font m with None => [0; 0] | Some f => [1; Z.of_nat (length f)] ++ map Z.of_N f end)
  ++ show_str TITLE_LEN TITLE_PAD (s_title m) ++ show_str AUTHOR_LEN AUTHOR_PAD (s_author m)
  ++ show_str GROUP_LEN GROUP_PAD (s_group m)
  ++ [Z.of_nat (length (s_comments m))] ++ flat_map (show_str COMMENT_LEN COMMENT_PAD) (s_comments m).
Definition show_extract (r : res (option sauce)) : list Z :=
  match r with
  | Ok None => [0]
  | Ok (Some m) => show_sauce m
  | Err e => [-1; Z.of_N e]
  | Panic s => [-2; Z.of_N s]
  end.

Definition run_x (data : list N) : list Z := show_extract (extract chrono_parse data).

Definition run_w_gen (with_x : bool) (ft : Z) (b : wbuf) (date content : list N) : list Z :=
  match write (ft_of ft) b date content with
  | Ok out =>
      let keeps := list_eqb (firstn (length content) out) content in
      let tail := if keeps then skipn (length content) out else out in
      [zb keeps; Z.of_nat (length tail)] ++ map Z.of_N tail
      ++ (if with_x then show_extract (extract chrono_parse out) else [])
  | Err e => [-1; Z.of_N e]
  | Panic s => [-2; Z.of_N s]
  end.
Definition run_w := run_w_gen false.
Definition run_wx := run_w_gen true.

Definition run_split (data : list N) : list Z :=
  match split chrono_parse data with
  | Ok (c, m) => [Z.of_nat (length c); zb (match m with Some _ => true | None => false end)]
  | Err e => [-1; Z.of_N e]
  | Panic s => [-2; Z.of_N s]
  end.

(* both observations of one input in one evaluation: 2 integers of run_split, then run_x *)
Definition run_xs (data : list N) : list Z := run_split data ++ run_x data.

(* chrono alone: [1; y; m; d] | [0] *)
Definition run_date (d : list N) : list Z :=
  match chrono_parse d with Some (y, m, dd) => [1; y; m; dd] | None => [0] end.
