(* Model entry points evaluated by stage C for C17. Every result is a list Z:
     Ok v  -> 0 :: show v      Err e -> [1; e]      Panic site -> [2; site]      Diverge -> [3]
   font      = [w; h; length; n; {code; rows; row bytes…}*n]
   tdf fonts = [k; {namelen; raw name bytes…; type; spaces; 94 × defined; status; len; bytes…}*k]
               (status/len/bytes = as_tdf_bytes of the decoded font with empty name and 0 spaces, the only
                view of the glyph table the public API of the implementation offers)
   base64 and from_utf8_lossy are not computed here: the plug-in supplies the oracle's answer (b64 …) or
   post-processes the raw name (lossy). *)
From Coq Require Import NArith ZArith List.
From IE Require Import Lib.C17Lib Gen.FontConsts Model.Font Model.Tdf.
Import ListNotations.
Local Open Scope N_scope.

Definition zs (l : list N) : list Z := map Z.of_N l.
Definition show_res {A} (sh : A -> list Z) (r : res A) : list Z :=
  match r with
  | Ok a => 0%Z :: sh a
  | Err e => [1%Z; Z.of_N e]
  | Panic s => [2%Z; Z.of_N s]
  | Diverge => [3%Z]
  end.

Fixpoint show_glyphs (code : Z) (gl : list (list N)) : list Z :=
  match gl with
  | [] => []
  | g :: t => code :: Z.of_nat (length g) :: zs g ++ show_glyphs (code + 1)%Z t
  end.
Definition show_font (f : font) : list Z :=
  [f_w f; f_h f; f_len f; Z.of_nat (length (f_glyphs f))] ++ show_glyphs 0 (f_glyphs f).

Definition run_fb (bs : list N) : list Z := show_res show_font (from_bytes bs).
Definition run_c8 (w h : N) (bs : list N) : list Z := show_font (create_8 w h bs).
Definition run_basic (w h : N) (bs : list N) : list Z := show_font (from_basic w h bs).
Definition run_psf2 (f : font) : list Z := show_res zs (to_psf2_bytes f).
Definition run_raw (f : font) : list Z := show_res zs (convert_to_u8_data f).
(* enc = what base64 returned for the raw glyph data *)
Definition run_ansi (slot : N) (f : font) (enc : list N) : list Z :=
  show_res zs (encode_as_ansi (fun _ => enc) slot f).
(* dec = what base64 returned for the payload behind the second ':' *)
Definition run_dcs (s : list N) (dec : option (list N)) : list Z :=
  show_res (fun p => Z.of_N (fst p) :: show_font (snd p)) (load_custom_font (fun _ => dec) s).
Definition run_xbin (h : N) (f : font) : list Z :=
  show_res (fun d => show_font (xbin_font_read h d)) (xbin_font_write f).
Definition run_adf (f : font) : list Z := show_res (fun d => show_font (adf_font_read d)) (adf_font_write f).
Definition run_icy (name : list N) (f : font) : list Z :=
  show_res (fun p => show_font (snd p)) (do c <- icy_font_write name f; icy_font_read c).

Definition run_tdfenc (single : bool) (fs : list tfont) : list Z :=
  show_res zs (if single then match fs with f :: _ => as_tdf_bytes f | [] => Ok [] end else create_font_bundle fs).

Definition show_tfont (f : tfont) : list Z :=
  Z.of_nat (length (t_name f)) :: zs (t_name f) ++ [Z.of_N (type_byte (t_type f)); t_spaces f]
  ++ map (fun g => match g with Some _ => 1%Z | None => 0%Z end) (t_table f)
  ++ match as_tdf_bytes (mkTFont [] (t_type f) 0 (t_table f)) with
     | Ok b => 0%Z :: Z.of_nat (length b) :: zs b
     | _ => [1%Z; 0%Z]
     end.
Definition run_tdfdec (bs : list N) : list Z :=
  show_res (fun fs => Z.of_nat (length fs) :: flat_map show_tfont fs) (from_tdf_bytes (fun s => s) bs).

Definition run_utf8 (bs : list N) : list Z := [if utf8_valid bs then 1%Z else 0%Z].
