(* C07 — the native IcyDraw format is lossless.  Statements only; proofs are in Proofs/IcyLayerProofs.v, Proofs/IcyDocProofs.v.
   Model: Model/IcyLayer.v (LAYER_n record), Model/IcyDoc.v (chunks of a document); constants: Gen/IcyGen.v. *)
From Coq Require Import ZArith NArith List Bool String.
From IE Require Import Lib.Tbl Gen.IcyGen Model.IcyLayer Model.IcyDoc Proofs.IcyLayerProofs Proofs.IcyDocProofs.
From IE Require Model.Unicode.
Import ListNotations.
Local Open Scope N_scope.

(* ---------------------------------------------------------------- layers *)
(* Every layer (any size, any content) that satisfies the Rust type invariants [ty_layer] and the forced hypotheses
   [wf_layer] is written without error, read back without error, and the result is observationally equal:
   same size, same effective offset, same get_char at EVERY position (invisible cells compared as invisible only),
   same title / colour tag / five flags / mode / transparency / default font page. *)
Theorem layer_roundtrip : forall L, ty_layer L -> wf_layer L ->
  exists bs L', encode L = Ok bs /\ decode bs = Ok L' /\ layer_equiv L' L /\ props_eq L' L /\
                (preview L = None -> (ox L', oy L') = (ox L, oy L)).
Proof. exact IcyLayerProofs.layer_roundtrip. Qed.

(* the role comes back too, outside the known class C07-role-not-stored *)
Theorem layer_roundtrip_role : forall L, ty_layer L -> wf_layer L -> ~ KnownC07_1 L ->
  exists bs L', encode L = Ok bs /\ decode bs = Ok L' /\ role L' = role L.
Proof. exact layer_role_outside_known. Qed.

Theorem known_1_witness :
  KnownC07_1 (lay RPastePreview None 0 [[A_cell]]) /\
  exists bs L', encode (lay RPastePreview None 0 [[A_cell]]) = Ok bs /\ decode bs = Ok L' /\ role L' = RNormal.
Proof. exact (conj known_1_in_class role_not_stored). Qed.

(* no layer of the sizes the property quantifies over needs a `~k` continuation chunk (the part of wf_layer that is a
   limit of the model, not of the format) *)
Theorem small_layers_fit : forall L, (lw L <= 200)%Z -> (lh L <= 120)%Z -> N.of_nat (List.length (title L)) <= 2600000 -> fits L.
Proof. exact fits_small. Qed.

(* ---------------------------------------------------------------- why each hypothesis of wf_layer is there *)
Theorem visible_bit14_needed :
  (exists bs L', encode (lay RNormal None 0 [[mkc 65 7 0 0 16384]]) = Ok bs /\ decode bs = Ok L' /\ get_char L' 0 0 = mkc 65 7 0 0 0) /\
  (exists bs L', encode (lay RNormal None 0 [[mkc 128512 7 0 0 16384; A_cell]]) = Ok bs /\ decode bs = Ok L' /\
                 get_char L' 0 0 = mkc 0 246 1 0 0 /\ get_char L' 1 0 = mkc 0 0 121716736 0 7).
Proof. exact (conj bit14_short_lost bit14_long_desync). Qed.

Theorem font_page_u16_needed :
  exists bs L', encode (lay RNormal None 0 [[mkc 65 7 0 65536 0]]) = Ok bs /\ decode bs = Ok L' /\ get_char L' 0 0 = mkc 65 7 0 0 0.
Proof. exact font_page_truncated. Qed.

Theorem default_font_page_u16_needed :
  exists bs L', encode (lay RNormal None 65537 [[A_cell]]) = Ok bs /\ decode bs = Ok L' /\ dfp L' = 1.
Proof. exact default_font_page_truncated. Qed.

Theorem preview_offset_needed :
  exists bs L', encode (lay RNormal (Some (5, 6)%Z) 0 [[A_cell]]) = Ok bs /\ decode bs = Ok L' /\
                (ox L', oy L') = (5, 6)%Z /\
                (ox (lay RNormal (Some (5, 6)%Z) 0 [[A_cell]]), oy (lay RNormal (Some (5, 6)%Z) 0 [[A_cell]])) = (1, 2)%Z.
Proof. exact preview_offset_replaces_base. Qed.

Theorem negative_width_needed :
  encode (mkLayer [] RNormal MNormal None true false false false false 0 0 0 None (-1) 1 0 []) = Panic 3.
Proof. exact negative_width_panics. Qed.

Theorem title_u32_needed : forall L, N.of_nat (List.length (title L)) = 4294967296 -> firstn 4 (enc_header L) = [0; 0; 0; 0].
Proof. exact title_length_wraps. Qed.

(* ---------------------------------------------------------------- the checks of the merged loader *)
(* The merged loader converts the character field with the checked char::from_u32 (loading error instead of an abort)
   and the title with String::from_utf8_lossy.  That is what `scalar (ch c)` in wf_layer and `utf8_valid (title L)` in
   ty_layer are for — both are Rust type invariants (char, String), a model layer outside them does not come back: *)
Theorem scalar_char_needed :
  (exists bs, encode (lay RNormal None 0 [[mkc 55296 7 0 0 0]]) = Ok bs /\ decode bs = Err 10) /\
  (exists bs, encode (lay RNormal None 0 [[A_cell; mkc 1114112 7 0 0 0]]) = Ok bs /\ decode bs = Err 10).
Proof. exact non_scalar_char_rejected. Qed.

Theorem title_utf8_needed :
  exists bs L', encode (mkLayer [65; 255] RNormal MNormal None true false false false false 0 0 0 None 1 1 0 [[A_cell]]) = Ok bs /\
                decode bs = Ok L' /\ title L' = [65; 239; 191; 189].
Proof. exact invalid_title_replaced. Qed.

(* … and on what the writer makes of a Rust layer the two checks never fire: the record of every cell the writer may
   look at decodes to that very cell, a valid title is left alone; the character check rejects exactly the non-scalars *)
Theorem loader_checks_silent_on_writer_output :
  (forall c r, cell_ok c -> dec_cell (enc_cell c ++ r) = Ok (if is_visible c then CSet c r else CSkip r)) /\
  (forall t, Unicode.utf8_valid t = true -> Unicode.utf8_lossy t = t) /\
  (forall c f b p a r, scalar c = false -> checked_cell c f b p a r = Err 10).
Proof. exact new_checks_silent. Qed.

(* ---------------------------------------------------------------- the fixed defect *)
(* before the fix: an invisible cell with an extra flag, followed by a visible cell, made the loader fail … *)
Theorem before_fix_refuted :
  exists bs, encode_before_fix (lay RNormal None 0 [[mkc 32 7 0 0 32769; A_cell]]) = Ok bs /\ decode bs = Err 2.
Proof. exact before_fix_invisible_bold. Qed.

(* … and an invisible cell with the SHORT_DATA bit ended the row early: 'A' at (1,0) is gone, the next row moved *)
Theorem before_fix_row_shift_refuted :
  exists bs L', encode_before_fix (lay RNormal None 0 [[mkc 32 7 0 0 49152; A_cell]; [A_cell]]) = Ok bs /\ decode bs = Ok L' /\
                is_visible (get_char L' 1 0) = false /\ get_char L' 0 1 = A_cell /\ is_visible (get_char L' 1 1) = false.
Proof. exact before_fix_invisible_short_bit. Qed.

Theorem after_fix_regression :
  (exists bs L', encode (lay RNormal None 0 [[mkc 32 7 0 0 32769; A_cell]]) = Ok bs /\ decode bs = Ok L' /\ get_char L' 1 0 = A_cell) /\
  (exists bs L', encode (lay RNormal None 0 [[mkc 32 7 0 0 49152; A_cell]; [A_cell]]) = Ok bs /\ decode bs = Ok L' /\
                 get_char L' 1 0 = A_cell /\ get_char L' 0 1 = A_cell).
Proof. exact after_fix_same_inputs. Qed.

Theorem fix_is_local : forall c, is_visible c = true \/ attr c = INVISIBLE -> enc_cell_before_fix c = enc_cell c.
Proof. exact enc_cell_fix_local. Qed.

(* ---------------------------------------------------------------- mode bytes (generated from the four enums) *)
Theorem mode_bytes_roundtrip :
  (forall v, v < BufferType_count -> BufferType_from_byte (tget BufferType_to_byte_tbl v) = v) /\
  (forall v, v < IceMode_count -> IceMode_from_byte (tget IceMode_to_byte_tbl v) = v) /\
  (forall v, v < PaletteMode_count -> PaletteMode_from_byte (tget PaletteMode_to_byte_tbl v) = v) /\
  (forall v, v < FontMode_count -> FontMode_from_byte (tget FontMode_to_byte_tbl v) = v).
Proof.
  exact (conj (fun v H => proj2 (mode_ok_spec _ _ _ v (proj1 mode_bytes_sweep) H))
        (conj (fun v H => proj2 (mode_ok_spec _ _ _ v (proj1 (proj2 mode_bytes_sweep)) H))
        (conj (fun v H => proj2 (mode_ok_spec _ _ _ v (proj1 (proj2 (proj2 mode_bytes_sweep))) H))
              (fun v H => proj2 (mode_ok_spec _ _ _ v (proj2 (proj2 (proj2 mode_bytes_sweep))) H))))).
Qed.

(* ---------------------------------------------------------------- documents *)
Section Document.
  (* the oracles: PNG/zlib/base64 container; SAUCE (C11), Ice palette text (C16), PSF2 font (C17) payload codecs *)
  Variables sauce_t palette_t font_t file_t : Type.
  Variable pack : list (string * list N) -> file_t.
  Variable unpack : file_t -> option (list (string * list N)).
  Variable sauce_enc : Z -> Z -> N -> font_t -> sauce_t -> res (list N).
  Variable sauce_dec : list N -> res (option sauce_t).
  Variable sauce_set_size : sauce_t -> Z -> Z -> sauce_t.
  Variable pal_is_default : palette_t -> bool.
  Variable pal_enc : palette_t -> list N.
  Variable pal_dec : list N -> res palette_t.
  Variable dos_default : palette_t.
  Variable font_name : font_t -> list N.
  Variable font_psf2 : font_t -> res (list N).
  Variable font_dec : list N -> list N -> res font_t.
  Variable default_font : font_t.
  Variable sauce_carried : Z -> Z -> N -> font_t -> sauce_t -> sauce_t.
  Variable pal_norm : palette_t -> palette_t.
  Variable font_norm : font_t -> font_t.
  Hypothesis container : forall cs, unpack (pack cs) = Some cs.
  Hypothesis sauce_codec : forall w h ice f0 s b, sauce_enc w h ice f0 s = Ok b -> sauce_dec b = Ok (Some (sauce_carried w h ice f0 s)).
  Hypothesis pal_codec : forall p, pal_dec (pal_enc p) = Ok (pal_norm p).
  Hypothesis font_codec : forall f b, font_psf2 f = Ok b -> font_dec (font_name f) b = Ok (font_norm f).

  Local Notation doc := (doc sauce_t palette_t font_t).
  Local Notation save := (save sauce_t palette_t font_t file_t pack sauce_enc pal_is_default pal_enc font_name font_psf2).
  Local Notation doc_chunks := (doc_chunks sauce_t palette_t font_t sauce_enc pal_is_default pal_enc font_name font_psf2).
  Local Notation load := (load sauce_t palette_t font_t file_t unpack sauce_dec sauce_set_size pal_dec dos_default font_dec default_font).
  Local Notation wf_doc := (wf_doc sauce_t palette_t font_t font_name).

  (* A saved document (any number of layers, any font-table iteration order, with or without SAUCE / custom palette)
     loads back with the same size and modes, every layer in order related by [layer_rt] (layer_equiv + props_eq + offset),
     the palette / SAUCE record / every font slot as the payload codecs return them, and no extra font slot. *)
  Theorem document_roundtrip : forall (D : doc) cs, wf_doc D -> doc_chunks D = Ok cs ->
    exists D', load (pack cs) = Ok D' /\
      d_w _ _ _ D' = d_w _ _ _ D /\ d_h _ _ _ D' = d_h _ _ _ D /\ d_btype _ _ _ D' = d_btype _ _ _ D /\ d_ice _ _ _ D' = d_ice _ _ _ D /\
      d_pmode _ _ _ D' = d_pmode _ _ _ D /\ d_fmode _ _ _ D' = d_fmode _ _ _ D /\
      d_sauce _ _ _ D' = match d_sauce _ _ _ D, lookup font_t 0 (d_fonts _ _ _ D) with
                         | Some s, Some f0 => Some (sauce_carried (d_w _ _ _ D) (d_h _ _ _ D) (d_ice _ _ _ D) f0 s)
                         | _, _ => None
                         end /\
      d_pal _ _ _ D' = (if pal_is_default (d_pal _ _ _ D) then dos_default else pal_norm (d_pal _ _ _ D)) /\
      (forall k, lookup font_t k (d_fonts _ _ _ D') = option_map font_norm (lookup font_t k (d_fonts _ _ _ D))) /\
      Forall2 layer_rt (d_layers _ _ _ D') (d_layers _ _ _ D).
  Proof.
    exact (document_roundtrip_full sauce_t palette_t font_t file_t pack unpack sauce_enc sauce_dec sauce_set_size pal_is_default pal_enc
             pal_dec dos_default font_name font_psf2 font_dec default_font sauce_carried pal_norm font_norm
             container sauce_codec pal_codec font_codec).
  Qed.

  (* the layers never make the save fail: it fails only if the font table lacks slot 0 or a payload codec fails *)
  Theorem save_succeeds : forall D : doc, wf_doc D -> lookup font_t 0 (d_fonts _ _ _ D) <> None ->
    (forall s f0, d_sauce _ _ _ D = Some s -> exists b, sauce_enc (d_w _ _ _ D) (d_h _ _ _ D) (d_ice _ _ _ D) f0 s = Ok b) ->
    Forall (fun kf => exists b, font_psf2 (snd kf) = Ok b) (d_fonts _ _ _ D) ->
    exists f, save D = Ok f.
  Proof. exact (save_total sauce_t palette_t font_t file_t pack sauce_enc pal_is_default pal_enc font_name font_psf2). Qed.
End Document.

Check document_roundtrip.

(* ---------------------------------------------------------------- non-vacuity *)
(* the hypotheses of layer_roundtrip are satisfiable by a layer with short, long and invisible cells … *)
Example sample_layer_wf : ty_layer sample_layer /\ wf_layer sample_layer.
Proof. exact sample_layer_ok. Qed.

(* … and those of document_roundtrip by the trivial container and codecs (payloads stand for themselves) *)
Example sample_document :
  let D := mkDoc (list N) (list N) (list N * list N) 80 25 1 0 1 1 (Some [83]) [1; 2; 3] [(5, ([102], [1; 2])); (0, ([], [3]))] [sample_layer; sample_layer] in
  exists cs, doc_chunks _ _ _ (fun _ _ _ _ s => Ok s) (fun p => match p with [] => true | _ => false end) (fun p => p) (@fst _ _) (fun f => Ok (snd f)) D = Ok cs
             /\ List.length cs = 8%nat.
Proof. eexists. split; [vm_compute; reflexivity | reflexivity]. Qed.
