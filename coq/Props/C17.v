(* C17 — bitmap and TheDraw fonts survive every encoding the engine uses.
   Only statements, each closed by `exact <lemma>`; proofs live in Proofs/FontProofs.v and Proofs/TdfProofs.v.
   The functions quantified over are the models of Model/Font.v and Model/Tdf.v (over the constants of
   Gen/FontConsts.v, regenerated from src/fonts.rs and src/tdf_font/mod.rs on every run), i.e. the merged tree: the
   `fix:` commits of C17 plus C10's c9c7437 (checked glyph-index -> char conversion, empty glyph for a missing one) plus fix fB
   (the loaders behind from_bytes accept a glyph size of 1..=MAX_FONT_WIDTH x 1..=MAX_FONT_HEIGHT = 8 x 32 only; load_psf2 wants
   charsize = height). `res` distinguishes Ok / Err (returned error) / Panic / Diverge.

   Domains (defined in Proofs/FontProofs.v, Proofs/TdfProofs.v):
     wf_font f      width 8, height 1..=32, length 256 or 512, exactly `length` glyphs of `height` rows each
     wf_psf2_font f width 1..=MAX_FONT_WIDTH (8), height 1..=MAX_FONT_HEIGHT (32) - every size the loader accepts since fix fB;
                    before it: any width, height < 2^31 -, 0 <= length <= 0xD800, `length` glyphs of `height` rows
     dims_ok f      1 <= width <= MAX_FONT_WIDTH /\ 1 <= height <= MAX_FONT_HEIGHT
     wf_raw_font f  width 8, height 1..=255 (a u8), length 256, 256 glyphs of `height` rows
     wf_psf2_partial f / wf_raw_partial f   as wf_psf2_font / wf_raw_font but with ANY number of glyphs present
                    (fewer or more than `length`); pad_font f = f with the glyph table cut / padded with empty
                    (all-zero) glyphs to exactly `length` entries
     wf_tfont f     name <= 12 bytes, no NUL, valid UTF-8; 0 <= spaces <= 40; 94 table slots; every defined glyph has
                    width, height in 0..=255 and NUL-free data (colour fonts: (char, attribute) pairs, CR alone, any
                    attribute byte); at most 65535 bytes of glyph data (2 + data + 1 per glyph) in the font
   Row bytes / glyph data are arbitrary numbers: nothing in the round trips depends on them being < 256. *)
From Coq Require Import NArith ZArith List Bool Lia.
From IE Require Import Lib.Tbl Lib.C17Lib Gen.FontConsts Model.Font Model.Tdf Proofs.FontProofs Proofs.TdfProofs.
Import ListNotations.
Local Open Scope N_scope.

(* ---------------------------------------------------------------------------------------------- bitmap fonts *)
Theorem psf2_roundtrip : forall f, wf_font f ->
  exists bs, to_psf2_bytes f = Ok bs /\ from_bytes bs = Ok f.
Proof. exact (fun f H => psf2_roundtrip_proof f (wf_font_psf2 f H)). Qed.

Theorem psf2_roundtrip_general : forall f, wf_psf2_font f ->
  exists bs, to_psf2_bytes f = Ok bs /\ from_bytes bs = Ok f.
Proof. exact psf2_roundtrip_proof. Qed.

(* c9c7437: a missing glyph is written as an empty one instead of panicking (`unwrap`): the writer succeeds for any
   number of glyphs present and the loader returns the font padded / cut to `length` glyphs.
   psf2_roundtrip_general is the instance where nothing is missing (pad_font f = f). *)
Theorem psf2_partial_roundtrip : forall f, wf_psf2_partial f ->
  exists bs, to_psf2_bytes f = Ok bs /\ from_bytes bs = Ok (pad_font f).
Proof. exact psf2_padded_proof. Qed.

Theorem pad_font_complete : forall f, lenN (f_glyphs f) = Z.to_N (f_len f) -> pad_font f = f.
Proof. exact pad_font_id. Qed.

Theorem raw_roundtrip : forall f, wf_raw_font f ->
  exists raw, convert_to_u8_data f = Ok raw /\
              create_8 8 (Z.to_N (f_h f)) raw = f /\ from_basic 8 (Z.to_N (f_h f)) raw = f.
Proof. exact raw_roundtrip_proof. Qed.

Theorem raw_partial_roundtrip : forall f, wf_raw_partial f ->
  exists raw, convert_to_u8_data f = Ok raw /\
              create_8 8 (Z.to_N (f_h f)) raw = pad_font f /\ from_basic 8 (Z.to_N (f_h f)) raw = pad_font f.
Proof. exact raw_padded_proof. Qed.

(* the fonts of the property with 256 glyphs are raw fonts *)
Theorem wf_font_256_is_raw : forall f, wf_font f -> f_len f = 256%Z -> wf_raw_font f.
Proof. exact wf_font_raw. Qed.

(* DCS: ESC P CTerm:Font:<slot>:<base64 of the raw data> ESC \ ; base64 enters only through its inverse law.
   The side condition is forced by the format: the loader sniffs the decoded bytes (known finding below).
   Since fix fB the raw loader takes heights 1..=MAX_FONT_HEIGHT = 32 (the range of the property; wf_raw_font alone
   allows a u8 height up to 255, which create_8 / from_basic still build). *)
Theorem dcs_roundtrip :
  forall (b64_enc : list N -> list N) (b64_dec : list N -> option (list N)),
  (forall x, b64_dec (b64_enc x) = Some x) ->
  forall slot f, wf_raw_font f -> (f_h f <= Z.of_N MAX_FONT_HEIGHT)%Z -> slot < 18446744073709551616 ->
  exists raw, convert_to_u8_data f = Ok raw /\
    encode_as_ansi b64_enc slot f = Ok ([27; 80] ++ dcs_string b64_enc slot raw ++ [27; 92]) /\
    (sniffs_as_psf raw = false -> load_custom_font b64_dec (dcs_string b64_enc slot raw) = Ok (slot, f)).
Proof. exact dcs_roundtrip_full. Qed.

(* Known finding C17-dcs-magic-collision: fonts whose raw data begins 36 04 (PSF1) or 72 b5 4a 86 (PSF2) *)
Definition KnownC17_1 (f : font) : Prop :=
  exists raw, convert_to_u8_data f = Ok raw /\ sniffs_as_psf raw = true.

Theorem dcs_magic_collision_refuted :
  exists f, wf_raw_font f /\ exists raw, convert_to_u8_data f = Ok raw /\ sniffs_as_psf raw = true /\
    forall (b64_enc : list N -> list N) (b64_dec : list N -> option (list N)),
      (forall x, b64_dec (b64_enc x) = Some x) -> forall slot, slot < 18446744073709551616 ->
      exists f', load_custom_font b64_dec (dcs_string b64_enc slot raw) = Ok (slot, f') /\ f' <> f.
Proof. exact dcs_collision_proof. Qed.

Theorem known_1_witness : exists f, wf_raw_font f /\ KnownC17_1 f.
Proof. exact known_1_witness_proof. Qed.

(* font slots of the art formats (corollaries) *)
Theorem xbin_embed_roundtrip : forall f, wf_raw_font f -> (f_h f <= 32)%Z ->
  exists slot, xbin_font_write f = Ok slot /\ lenN slot = 256 * Z.to_N (f_h f) /\
               xbin_font_read (Z.to_N (f_h f)) slot = f.
Proof. exact xbin_embed_proof. Qed.

Theorem adf_idf_embed_roundtrip : forall f, wf_raw_font f -> f_h f = 16%Z ->
  exists slot, adf_font_write f = Ok slot /\ lenN slot = 4096 /\ adf_font_read slot = f.
Proof. exact adf_embed_proof. Qed.

Theorem icydraw_embed_roundtrip : forall name f, wf_psf2_font f -> lenN name < 4294967296 ->
  exists chunk, icy_font_write name f = Ok chunk /\ icy_font_read chunk = Ok (name, f).
Proof. exact icy_embed_proof. Qed.

(* no panic, no abort, no unbounded loop: for ALL byte strings *)
Theorem from_bytes_total : forall data, safe (from_bytes data).
Proof. exact from_bytes_total_proof. Qed.

Theorem dcs_total : forall (b64_dec : list N -> option (list N)) s, safe (load_custom_font b64_dec s).
Proof. exact dcs_total_proof. Qed.

(* fix fB (finding C02-sixel-font0): whatever from_bytes accepts - a PSF1, PSF2 or raw font, a file or the payload of a
   `CTerm:Font:` DCS string - has a glyph size of 1..=8 x 1..=32. No loaded font has a zero, huge or negative dimension. *)
Theorem loaded_font_dims : forall data f, from_bytes data = Ok f ->
  (1 <= f_w f <= Z.of_N MAX_FONT_WIDTH)%Z /\ (1 <= f_h f <= Z.of_N MAX_FONT_HEIGHT)%Z.
Proof. exact loaded_font_dims_proof. Qed.

Theorem dcs_font_dims : forall (b64_dec : list N -> option (list N)) s slot f,
  load_custom_font b64_dec s = Ok (slot, f) -> dims_ok f.
Proof. exact dcs_font_dims_proof. Qed.

(* the loader before the fix took width and height from the header as they were: 0, 2^30 and 2^32-1 (-1 as an i32) *)
Theorem psf2_dims_before_fix_refuted :
  load_psf2_before_fix (psf2_header 16 0) = Ok (mkFont 0 16 0 []) /\
  load_psf2_before_fix (psf2_header 0 8) = Ok (mkFont 8 0 0 []) /\
  load_psf2_before_fix (psf2_header 16 1073741824) = Ok (mkFont 1073741824 16 0 []) /\
  load_psf2_before_fix (psf2_header 4294967295 4294967295) = Ok (mkFont (-1) (-1) 0 []).
Proof. exact psf2_dims_before_fix_refuted_proof. Qed.

(* the writers, too (new with c9c7437: no `unwrap` of a missing glyph, no unchecked char): they return for EVERY
   glyph table, every `length` and every width, as long as the height is not negative; a negative height together
   with a missing glyph is the one panic left (`vec![0; height as usize]`, capacity overflow) *)
Theorem to_psf2_bytes_total : forall f, (0 <= f_h f)%Z -> safe (to_psf2_bytes f).
Proof. exact to_psf2_bytes_total_proof. Qed.

Theorem convert_to_u8_data_total : forall f, (0 <= f_h f)%Z -> safe (convert_to_u8_data f).
Proof. exact convert_total_proof. Qed.

Theorem writers_negative_height_refuted : exists f, to_psf2_bytes f = Panic 6 /\ convert_to_u8_data f = Panic 6.
Proof. exact to_psf2_bytes_negative_height_refuted. Qed.

(* create_8 / from_basic are total functions in the model (they cannot panic); what they build from arbitrary data
   is a table of complete glyphs *)
Theorem create_8_rows : forall w h data, rows_ok h (f_glyphs (create_8 w h data)).
Proof. exact create_8_rows_proof. Qed.

(* ---------------------------------------------------------------------------------------------- TheDraw fonts *)
Theorem tdf_roundtrip :
  forall (lossy : list N -> list N), (forall s, utf8_valid s = true -> lossy s = s) ->
  forall fs, fs <> [] -> Forall wf_tfont fs ->
  exists bs, create_font_bundle fs = Ok bs /\ from_tdf_bytes lossy bs = Ok fs.
Proof. exact tdf_bundle_roundtrip_proof. Qed.

Theorem tdf_single_roundtrip :
  forall (lossy : list N -> list N), (forall s, utf8_valid s = true -> lossy s = s) ->
  forall f, wf_tfont f -> exists bs, as_tdf_bytes f = Ok bs /\ from_tdf_bytes lossy bs = Ok [f].
Proof. exact tdf_single_roundtrip_proof. Qed.

(* the 16 bit limit is reported, not wrapped (the `fix:` for C17-tdf-u16-overflow) *)
Theorem tdf_writer_overflow_is_error : forall f,
  lenN (t_name f) <= FONT_NAME_LEN -> (t_spaces f <= Z.of_N MAX_LETTER_SPACE)%Z ->
  65535 < lenN (tbl_data (t_table f)) -> as_tdf_bytes f = Err E_DATA_OVERFLOW.
Proof. exact tdf_overflow_proof. Qed.

Theorem from_tdf_total : forall (lossy : list N -> list N) bytes, safe (from_tdf_bytes lossy bytes).
Proof. exact from_tdf_total_proof. Qed.

(* ---------------------------------------------------------------------------------------------- non-vacuity *)
Definition sample_font (len : N) : font :=
  mkFont 8 2 (Z.of_N len) (map (fun i => [i mod 256; (255 - i mod 256)]) (nrange len)).
Example sample_font_256_wf : wf_font (sample_font 256).
Proof. exact (sample_font_wf_gen 256 (fun i => [i mod 256; (255 - i mod 256)]) (or_introl eq_refl) (fun _ => eq_refl)). Qed.
Example sample_font_512_wf : wf_font (sample_font 512).
Proof. exact (sample_font_wf_gen 512 (fun i => [i mod 256; (255 - i mod 256)]) (or_intror eq_refl) (fun _ => eq_refl)). Qed.
Example sample_font_psf2 :
  match to_psf2_bytes (sample_font 512) with
  | Ok bs => lenN bs = 1056 /\ firstn 4 bs = [114; 181; 74; 134] /\ from_bytes bs = Ok (sample_font 512)
  | _ => False
  end.
Proof. vm_compute. repeat split. Qed.
(* a font with 3 of its 5 codes present: the file has 5 glyphs, the last two empty *)
Example sample_partial_psf2 :
  let f := mkFont 8 2 5 [[1; 2]; [3; 4]; [5; 6]] in
  wf_psf2_partial f /\
  match to_psf2_bytes f with
  | Ok bs => lenN bs = 42 /\ from_bytes bs = Ok (mkFont 8 2 5 [[1; 2]; [3; 4]; [5; 6]; [0; 0]; [0; 0]])
  | _ => False
  end.
Proof. split; [unfold wf_psf2_partial, rows_ok, MAX_GLYPHS, MAX_FONT_WIDTH, MAX_FONT_HEIGHT; cbn; repeat split; try lia; repeat constructor | vm_compute; repeat split]. Qed.
(* the same headers (and a PSF1 header with charsize 0) are refused now; a good size with a wrong charsize / length too *)
Example degenerate_headers_refused :
  from_bytes (psf2_header 16 0) = Err E_SIZE /\ from_bytes (psf2_header 0 8) = Err E_SIZE /\
  from_bytes (psf2_header 16 1073741824) = Err E_SIZE /\ from_bytes (psf2_header 4294967295 4294967295) = Err E_SIZE /\
  from_bytes [54; 4; 0; 0] = Err E_SIZE /\
  from_bytes (psf2_header 16 8) = Err E_LENGTH /\
  from_bytes (psf2_header 16 8 ++ repeat 0 32) = Err E_LENGTH.
Proof. exact psf2_dims_after_fix_proof. Qed.
Example sample_font_raw_wf : wf_raw_font (sample_font 256).
Proof. exact (wf_font_raw _ sample_font_256_wf eq_refl). Qed.

(* a colour font with two glyphs (one ends in a carriage return, one has a 0 attribute), an outline font *)
Definition sample_tfonts : list tfont :=
  [mkTFont [67; 111; 100; 101; 114] Color 1
     (Some (mkGlyph 2 2 [65; 7; 66; 0; 13; 67; 31; 68; 9]) :: None :: Some (mkGlyph 1 1 [219; 4; 13]) :: repeat None 91);
   mkTFont [] Outline 0 (repeat None 93 ++ [Some (mkGlyph 30 12 [65; 64; 79; 13; 32])])].
Example sample_tfonts_wf : Forall wf_tfont sample_tfonts.
Proof.
  unfold sample_tfonts, wf_tfont, wf_glyph. repeat constructor; cbn [t_name t_spaces t_type t_table is_color];
    try (vm_compute; congruence); try discriminate; try apply wf_entries_none; try exact I.
Qed.
Example sample_tfonts_roundtrip :
  match create_font_bundle sample_tfonts with
  | Ok bs => lenN bs = 473 /\ from_tdf_bytes (fun s => s) bs = Ok sample_tfonts
  | _ => False
  end.
Proof. vm_compute. repeat split. Qed.
