(* C11 — SAUCE metadata round-trips and is cut off the content exactly.
   Only statements, each closed by `exact <lemma>`; proofs live in Proofs/Sauce{Strings,Proofs,Carried}.v.
   The functions quantified over are those of Model/Sauce.v (mirror of src/sauce_mod/mod.rs and of the split in
   Buffer::from_bytes) over the constants and the CP437 table regenerated from the source into Gen/Sauce.v.
   `dp` is the date parser (chrono) handed to `extract`: every theorem holds for every `dp`. *)
From Coq Require Import NArith ZArith List Bool Arith.
From IE Require Import Lib.Tbl Gen.Sauce Model.Sauce Model.SauceSpec
  Proofs.SauceStrings Proofs.SauceProofs Proofs.SauceCarried.
Import ListNotations.
Local Open Scope nat_scope.

(* (1) round trip.  For every content (any bytes, any length), every variant, every buffer state whose strings fit
   their fields (wf: title<=35, author<=20, group<=20, <=255 comments of <=64 bytes; ANY byte values), any i32
   width/height, any flags, any font name: the writer succeeds, appends `tail` behind the untouched content, the reader
   returns exactly `carried` (Model/SauceSpec.v), and its sauce_header_len is the number of appended bytes.
   For Bin the writer refuses widths with w/2 > 255 (Err), hence the side condition. *)
Theorem extract_write : forall (dp : list N -> option ymd) content ft b name d date,
  wf b -> b_font b = Some name -> length d = 8 -> dp d = Some date ->
  (ft = FtBin -> (Z.quot (b_width b) 2 <= 255)%Z) ->
  exists tail, write ft b d content = Ok (content ++ tail) /\
               extract dp (content ++ tail) = Ok (Some (carried ft b name date)) /\
               s_header_len (carried ft b name date) = length tail.
Proof. exact extract_write_proof. Qed.

(* (2) exact cut: Buffer::from_bytes hands the loader exactly the content — no content byte lost, no SAUCE/EOF byte
   kept — whatever the content ends in (SAUCE/COMNT/EOF look-alikes included: content is universally quantified). *)
Theorem split_exact : forall (dp : list N -> option ymd) content ft b name d date,
  wf b -> b_font b = Some name -> length d = 8 -> dp d = Some date ->
  (ft = FtBin -> (Z.quot (b_width b) 2 <= 255)%Z) ->
  exists tail, write ft b d content = Ok (content ++ tail) /\
               split dp (content ++ tail) = Ok (content, Some (carried ft b name date)).
Proof. exact split_exact_proof. Qed.

(* (3) no byte string makes the reader, or the split in from_bytes, panic (every slice, index, subtraction and
   assert of the Rust code is an explicit Panic in the model). *)
Theorem extract_total : forall (dp : list N -> option ymd) data, no_panic (extract dp data).
Proof. exact extract_total_proof. Qed.

Theorem split_total : forall (dp : list N -> option ymd) data, no_panic (split dp data).
Proof. exact split_total_proof. Qed.

(* for EVERY file: the loader's slice is a prefix of the file and what is cut off is exactly header_len bytes *)
Theorem split_is_prefix : forall (dp : list N -> option ymd) data c m, split dp data = Ok (c, m) ->
  exists cut, data = c ++ cut /\
              match m with Some s => length cut = s_header_len s /\ extract dp data = Ok (Some s)
                         | None => cut = [] end.
Proof. exact split_is_prefix_proof. Qed.

(* (4) one string field through append_to and read.
   blank-padded kinds (<35,' '>, <20,' '>): trailing 0x20 are stripped (an all-blank field comes back as LEN blanks);
   the result equals the original under the pad-stripping PartialEq, always. *)
Theorem strings_roundtrip_blank : forall LEN s rest, length s <= LEN ->
  exists r, ss_read LEN 32%N (ss_append LEN 32%N s [] ++ rest) = Ok r /\
            r = norm_blank LEN s /\ ss_eq r s = true /\ length r <= LEN.
Proof. exact strings_roundtrip_blank_proof. Qed.

(* NUL-padded kinds (<64,0> comments, <22,0> font name): the field is cut at its first NUL; it equals the original under
   PartialEq exactly when no NUL is followed by a byte other than NUL/blank; it is identical when there is no NUL. *)
Theorem strings_roundtrip_nul : forall LEN s rest, length s <= LEN ->
  exists r, ss_read LEN 0%N (ss_append LEN 0%N s [] ++ rest) = Ok r /\
            r = norm_nul s /\ (ss_eq r s = true <-> ~ In 0%N (strip_end blank s)) /\
            (~ In 0%N s -> r = s).
Proof. exact strings_roundtrip_nul_proof. Qed.

(* PartialEq of SauceString = equality after removing the trailing run of NUL/blank bytes *)
Theorem string_eq_spec : forall a b, ss_eq a b = true <-> strip_end blank a = strip_end blank b.
Proof. exact ss_eq_spec. Qed.

(* (5) `carried`, read for the fields the property lists: strings equal under PartialEq (comments under the NUL
   condition), ice for the variants with ANSiFlags, letter spacing / aspect ratio for ASCII and ANSi, font name for
   the variants with TInfoS, width unchanged for 1..=1000 (Bin: the even part, up to 511). *)
Theorem carried_listed_fields : forall ft b name date,
  let m := carried ft b name date in
  let '(t, a, g, cs) := w_strings b in
  let '(ls, ar) := w_flags b in
  ss_eq (s_title m) t = true /\ ss_eq (s_author m) a = true /\ ss_eq (s_group m) g = true /\
  s_comments m = map norm_nul cs /\
  (forall c, In c cs -> ~ In 0%N (strip_end blank c) -> ss_eq (norm_nul c) c = true) /\
  s_ice m = (variant_has_ice ft && b_ice b) /\
  s_ls m = (variant_has_flags ft && ls) /\ s_ar m = (variant_has_flags ft && ar) /\
  s_font m = (if variant_has_ice ft then Some (carried_font name) else None) /\
  ((1 <= b_width b <= 1000)%Z ->
     match ft with
     | FtBin => (b_width b <= 511)%Z -> s_width m = (2 * (b_width b / 2))%Z
     | _ => s_width m = b_width b
     end) /\
  s_date m = date.
Proof. exact carried_listed_fields_proof. Qed.

Theorem font_name_roundtrip : forall name,
  Forall (fun c => In c CP437_TO_UNICODE /\ c <> 0%N) name -> length name <= TINFOS_LEN ->
  (forall u c, name = u ++ [c] -> c <> 32%N) ->
  carried_font name = name.
Proof. exact font_name_roundtrip_proof. Qed.

(* SauceString::from applied to the Display characters of a byte string gives the bytes back, for all 256 byte values
   (rests on the complete sweep of the regenerated CP437_TO_UNICODE: no duplicate code point) *)
Theorem from_inverts_display : forall bs, Forall (fun b => (b < 256)%N) bs ->
  ss_from (length bs) (map (tget CP437_TO_UNICODE) bs) = bs.
Proof. exact from_inverts_display_proof. Qed.

(* EOF byte + optional COMNT block + 128-byte record *)
Theorem header_len_formula : forall ft b name date,
  s_header_len (carried ft b name date) =
  let n := length (let '(_, _, _, cs) := w_strings b in cs) in
  match n with O => 129 | _ => 129 + 5 + 64 * n end.
Proof. exact header_len_formula_proof. Qed.

(* the date oracle's hypothesis is met by what the writer emits (8 digits of a calendar date) for the chrono model *)
Theorem chrono_accepts_written_dates : forall (a b c e f g h i : N),
  (a <= 9)%N -> (b <= 9)%N -> (c <= 9)%N -> (e <= 9)%N -> (f <= 9)%N -> (g <= 9)%N -> (h <= 9)%N -> (i <= 9)%N ->
  let y := Z.of_N (1000 * a + 100 * b + 10 * c + e) in
  let m := Z.of_N (10 * f + g) in
  let dd := Z.of_N (10 * h + i) in
  (1 <= m <= 12)%Z -> (1 <= dd <= days_in_month y m)%Z ->
  chrono_parse [48 + a; 48 + b; 48 + c; 48 + e; 48 + f; 48 + g; 48 + h; 48 + i]%N = Some (y, m, dd).
Proof. exact chrono_accepts_proof. Qed.

(* ---- non-vacuity and regression witnesses (computed) -------------------------------------------------------- *)
Local Open Scope N_scope.
Definition ex_sauce : wsauce :=
  mkWSauce [72; 105; 32; 32] [77; 101; 0] [32; 32] [[111; 110; 101]; [116; 0; 119; 111]; []] true true.
Definition ex_buf : wbuf := mkWBuf 80%Z 25%Z true (Some [73; 66; 77; 32; 86; 71; 65]) (Some ex_sauce).
Definition ex_date : list N := [50; 48; 50; 52; 48; 50; 50; 57].
(* content that itself ends in EOF + "SAUCE00" *)
Definition ex_content : list N := [65; 66; 26; 83; 65; 85; 67; 69; 48; 48].

Example ex_wf : wf ex_buf.
Proof. vm_compute. repeat split; repeat constructor. Qed.

Example ex_roundtrip :
  match write FtAscii ex_buf ex_date ex_content with
  | Ok out =>
      extract chrono_parse out = Ok (Some (carried FtAscii ex_buf [73; 66; 77; 32; 86; 71; 65] (2024, 2, 29)%Z)) /\
      split chrono_parse out = Ok (ex_content, Some (carried FtAscii ex_buf [73; 66; 77; 32; 86; 71; 65] (2024, 2, 29)%Z)) /\
      length out = (length ex_content + 129 + 5 + 64 * 3)%nat
  | _ => False
  end.
Proof. vm_compute. repeat split. Qed.

(* the second comment "t\0wo" comes back as "t": not equal under PartialEq; the first and third do *)
Example ex_comment_cut :
  map norm_nul (w_comments ex_sauce) = [[111; 110; 101]; [116]; []] /\
  ss_eq (norm_nul [116; 0; 119; 111]) [116; 0; 119; 111] = false /\ ss_eq (norm_nul [111; 110; 101]) [111; 110; 101] = true.
Proof. vm_compute. repeat split. Qed.

(* regression (defect fixed in the repo worktree): a file that is nothing but a record / a comment block + record.
   With the original `len - 1` the model (and the code) panicked here. *)
Definition record_only : list N :=
  SAUCE_ID ++ SAUCE_VERSION ++ repeat 32 75 ++ ex_date ++ [0; 0; 0; 0; 1; 1; 80; 0; 25; 0; 0; 0; 0; 0; 0; 0] ++ repeat 0 22.
Example ex_record_only :
  length record_only = 128%nat /\
  (match extract chrono_parse record_only with Ok (Some m) => s_header_len m = 128%nat | _ => False end) /\
  (match split chrono_parse record_only with Ok (c, Some _) => c = [] | _ => False end).
Proof. vm_compute. repeat split. Qed.

Example ex_bin_too_wide : write FtBin (mkWBuf 512%Z 25%Z false (Some []) None) ex_date [] = Err E_BIN_WIDTH.
Proof. reflexivity. Qed.

(* a record announcing one comment in a file too short to hold it: Err, not a panic *)
Example ex_short_comment_block :
  extract chrono_parse (repeat 65 68 ++ SAUCE_ID ++ SAUCE_VERSION ++ repeat 32 75 ++ ex_date
                        ++ [0; 0; 0; 0; 1; 1; 80; 0; 25; 0; 0; 0; 0; 0; 1; 0] ++ repeat 0 22) = Err E_COMMENT_BLOCK.
Proof. vm_compute. reflexivity. Qed.
